"""Generator for lean/WfModel/GenSseClient.lean (property C17).

Re-extracted on every run:

* from /repo's current `_api.py` (`_WorkflowAPI._stream_events.format_stream`): the three literal
  pieces of the SSE frame f-string (`"id: "`, `"\\ndata: "`, `"\\n\\n"`; identified by position,
  not by variable name) and the heartbeat comment the generator yields;
* from /repo's current `client.py` (`WorkflowClient.get_workflow_events.reader`): the two field
  tags with the slice offsets that follow them (`"id:"`/3, `"data:"`/5), the default of
  `max_reconnect_attempts`, the default start cursor, and *which characters end a line*: the
  separator constant of the client's own splitter, or -- when the reader iterates
  `response.aiter_lines()` -- the `NEWLINE_CHARS` of the installed httpx `LineDecoder`;
* from the Python runtime: the code points `str.strip()` removes (`str.isspace`), the
  `NEWLINE_CHARS` of httpx.

Only literal values are emitted (no local names), so renaming locals or reordering independent
statements regenerates the same file.  A missing shape emits a sentinel and a note; the pinned
`C17_source_shape` then fails to compile.
"""
from __future__ import annotations

import ast
import os
from typing import Any

from ..boot import repo_path

LEAN_MODULE = "GenSseClient"

API = "packages/llama-agents-server/src/llama_agents/server/_api.py"
CLIENT = "packages/llama-agents-client/src/llama_agents/client/client.py"


def lean_char(c: str) -> str:
    if c == "\n":
        return "'\\n'"
    if 32 <= ord(c) < 127 and c not in "'\\":
        return f"'{c}'"
    return f"Char.ofNat {ord(c)}"


def lean_chars(s: str) -> str:
    return "[" + ", ".join(lean_char(c) for c in s) + "]"


def _find_def(tree: ast.AST, name: str) -> ast.AST | None:
    for n in ast.walk(tree):
        if isinstance(n, (ast.FunctionDef, ast.AsyncFunctionDef)) and n.name == name:
            return n
    return None


def _ordered(node: ast.AST) -> list[ast.AST]:
    nodes = [n for n in ast.walk(node) if hasattr(n, "lineno")]
    nodes.sort(key=lambda n: (n.lineno, n.col_offset))
    return nodes


def httpx_newline_chars(notes: list[str]) -> str:
    try:
        import httpx._decoders as dec

        tree = ast.parse(open(dec.__file__).read())
        for n in ast.walk(tree):
            if isinstance(n, ast.Assign) and isinstance(n.targets[0], ast.Name) and n.targets[0].id == "NEWLINE_CHARS" \
                    and isinstance(n.value, ast.Constant) and isinstance(n.value.value, str):
                return n.value.value
    except Exception as e:  # noqa: BLE001
        notes.append(f"gen/sseclient: httpx LineDecoder not readable: {e!r}")
    notes.append("gen/sseclient: NEWLINE_CHARS not found in httpx._decoders")
    return ""


def _lean_str(s: str) -> str:
    out = ['"']
    for ch in s:
        if ch == '"':
            out.append('\\"')
        elif ch == "\\":
            out.append("\\\\")
        elif 32 <= ord(ch) < 127:
            out.append(ch)
        else:
            out.append("\\u{%x}" % ord(ch))
    out.append('"')
    return "".join(out)


def _lean_strs(xs: list[str]) -> str:
    return "[" + ", ".join(_lean_str(x) for x in xs) + "]"


def _body(fn: ast.AST) -> list[ast.stmt]:
    """statements of a function without its docstring"""
    body = list(fn.body)  # type: ignore[attr-defined]
    if body and isinstance(body[0], ast.Expr) and isinstance(body[0].value, ast.Constant) and isinstance(body[0].value.value, str):
        body = body[1:]
    return body


def _name(n: ast.AST | None) -> str | None:
    return n.id if isinstance(n, ast.Name) else None


def _dotted(n: ast.AST | None) -> str:
    if isinstance(n, ast.Name):
        return n.id
    if isinstance(n, ast.Attribute):
        return _dotted(n.value) + "." + n.attr
    return "?"


def iter_lines_shape(tree: ast.AST, helper_name: str | None) -> list[str]:
    """Structure of the client's own line iterator, free of local names:
    buffer = ""; async for text in <resp>.aiter_text(): buffer += text;
    *lines, buffer = buffer.split(<sep>); for line in lines: yield line; [after the loop] if buffer: yield buffer"""
    if helper_name is None:
        return ["?no-helper"]
    fn = None
    for m in getattr(tree, "body", []):
        if isinstance(m, (ast.FunctionDef, ast.AsyncFunctionDef)) and m.name == helper_name:
            fn = m
    if fn is None:
        return ["?no-helper"]
    toks: list[str] = []
    toks.append("params=%d" % len(fn.args.args))
    body = _body(fn)
    buf = None
    if body and isinstance(body[0], ast.Assign) and len(body[0].targets) == 1 and _name(body[0].targets[0]) \
            and isinstance(body[0].value, ast.Constant) and body[0].value.value == "":
        buf = _name(body[0].targets[0])
        toks.append("buffer=''")
    else:
        toks.append("?init")
    rest = body[1:] if buf else body
    if len(rest) == 2 and isinstance(rest[0], ast.AsyncFor) and not rest[0].orelse:
        loop = rest[0]
        text = _name(loop.target)
        it = loop.iter
        if isinstance(it, ast.Call) and isinstance(it.func, ast.Attribute) and it.func.attr == "aiter_text" and not it.args \
                and _name(it.func.value) == fn.args.args[0].arg:
            toks.append("for text in response.aiter_text()")
        else:
            toks.append("?iter")
        lb = loop.body
        ok = len(lb) == 3
        if ok and isinstance(lb[0], ast.AugAssign) and isinstance(lb[0].op, ast.Add) and _name(lb[0].target) == buf \
                and _name(lb[0].value) == text:
            toks.append("buffer+=text")
        else:
            toks.append("?append")
        lines = None
        if ok and isinstance(lb[1], ast.Assign) and len(lb[1].targets) == 1 and isinstance(lb[1].targets[0], ast.Tuple) \
                and len(lb[1].targets[0].elts) == 2 and isinstance(lb[1].targets[0].elts[0], ast.Starred) \
                and _name(lb[1].targets[0].elts[1]) == buf and isinstance(lb[1].value, ast.Call) \
                and isinstance(lb[1].value.func, ast.Attribute) and lb[1].value.func.attr == "split" \
                and _name(lb[1].value.func.value) == buf and len(lb[1].value.args) == 1 and not lb[1].value.keywords \
                and isinstance(lb[1].value.args[0], ast.Constant):
            lines = _name(lb[1].targets[0].elts[0].value)
            toks.append("*lines,buffer=buffer.split(sep)")
        else:
            toks.append("?split")
        if ok and lines and isinstance(lb[2], ast.For) and not lb[2].orelse and _name(lb[2].iter) == lines \
                and len(lb[2].body) == 1 and isinstance(lb[2].body[0], ast.Expr) and isinstance(lb[2].body[0].value, ast.Yield) \
                and _name(lb[2].body[0].value.value) == _name(lb[2].target):
            toks.append("for line in lines: yield line")
        else:
            toks.append("?yield-lines")
        tail = rest[1]
        if isinstance(tail, ast.If) and not tail.orelse and _name(tail.test) == buf and len(tail.body) == 1 \
                and isinstance(tail.body[0], ast.Expr) and isinstance(tail.body[0].value, ast.Yield) \
                and _name(tail.body[0].value.value) == buf:
            toks.append("if buffer: yield buffer")
        else:
            toks.append("?tail")
    else:
        toks.append("?body")
    return toks


def consumer_shape(tree: ast.AST) -> list[str]:
    """`EventStream`: where `last_sequence` comes from and when it moves, relative to the `yield`."""
    cls = None
    for m in getattr(tree, "body", []):
        if isinstance(m, ast.ClassDef) and m.name == "EventStream":
            cls = m
    if cls is None:
        return ["?no-EventStream"]
    toks: list[str] = []
    init = _find_def(cls, "__init__")
    third = init.args.args[3].arg if init is not None and len(init.args.args) >= 4 else None  # type: ignore[attr-defined]
    attr = None
    if init is not None and third is not None:
        for n in ast.walk(init):
            tgt = n.targets[0] if isinstance(n, ast.Assign) and len(n.targets) == 1 else (n.target if isinstance(n, ast.AnnAssign) else None)
            if tgt is not None and isinstance(tgt, ast.Attribute) and _name(tgt.value) == "self" and _name(getattr(n, "value", None)) == third:
                attr = tgt.attr
    toks.append("init: self.<last> = <third argument>" if attr else "?init")
    prop = _find_def(cls, "last_sequence")
    pb = _body(prop) if prop is not None else []
    if attr and len(pb) == 1 and isinstance(pb[0], ast.Return) and isinstance(pb[0].value, ast.Attribute) \
            and pb[0].value.attr == attr and _name(pb[0].value.value) == "self":
        toks.append("last_sequence: return self.<last>")
    else:
        toks.append("?property")
    it = _find_def(cls, "_iterate")
    loop = None
    if it is not None:
        for n in ast.walk(it):
            if isinstance(n, ast.While) and isinstance(n.test, ast.Constant) and n.test.value is True:
                loop = n
                break
    if loop is None:
        toks.append("?loop")
        return toks
    item = None
    for st in loop.body:
        if isinstance(st, ast.Assign) and isinstance(st.value, ast.Await) and isinstance(st.value.value, ast.Call) \
                and _dotted(st.value.value.func).endswith("_queue.get"):
            item = _name(st.targets[0])
            toks.append("item = await queue.get()")
        elif isinstance(st, ast.If) and isinstance(st.test, ast.Call) and _name(st.test.func) == "isinstance" and len(st.body) == 1:
            kind = _dotted(st.test.args[1])
            act = st.body[0]
            if isinstance(act, ast.Return) and act.value is None:
                toks.append(f"{kind}: return")
            elif isinstance(act, ast.Raise) and isinstance(act.exc, ast.Attribute) and _name(act.exc.value) == item:
                toks.append(f"{kind}: raise item.{act.exc.attr}")
            else:
                toks.append(f"{kind}: ?")
        elif isinstance(st, ast.Assign) and len(st.targets) == 1 and isinstance(st.targets[0], ast.Attribute) \
                and st.targets[0].attr == attr and isinstance(st.value, ast.Attribute) and _name(st.value.value) == item:
            toks.append(f"self.<last> = item.{st.value.attr}")
        elif isinstance(st, ast.Expr) and isinstance(st.value, ast.Yield) and isinstance(st.value.value, ast.Attribute) \
                and _name(st.value.value.value) == item:
            toks.append(f"yield item.{st.value.value.attr}")
        else:
            toks.append("?" + type(st).__name__)
    return toks


def loop_shape(gwe: ast.AST | None, reader: ast.AST | None) -> tuple[list[str], list[tuple[int, str]], list[tuple[str, str]]]:
    """The reconnect loop: how the cursor enters and leaves the reader, the status dispatch, the
    exception handlers in order, where the failure counter is reset / incremented / compared."""
    toks: list[str] = []
    dispatch: list[tuple[int, str]] = []
    handlers: list[tuple[str, str]] = []
    if gwe is None or reader is None:
        return ["?no-reader"], dispatch, handlers
    # EventStream(queue, None, after_sequence)
    for n in ast.walk(gwe):
        if isinstance(n, ast.Call) and _name(n.func) == "EventStream" and len(n.args) == 3:
            toks.append("EventStream(_, _, %s)" % (_name(n.args[2]) or "?"))
    cursor = None
    counter = None
    top = {id(st) for st in _body(reader)}
    for st in _body(reader):
        tgt = st.targets[0] if isinstance(st, ast.Assign) and len(st.targets) == 1 else (st.target if isinstance(st, ast.AnnAssign) else None)
        val = getattr(st, "value", None)
        if tgt is not None and _name(val) == "after_sequence":
            cursor = _name(tgt)
            toks.append("cursor = after_sequence")
        if tgt is not None and isinstance(val, ast.Constant) and val.value == 0 and not isinstance(val.value, bool):
            counter = _name(tgt)
            toks.append("counter = 0")
    for n in _ordered(reader):
        if isinstance(n, ast.Dict):
            for k, v in zip(n.keys, n.values):
                if isinstance(k, ast.Constant) and k.value == "after_sequence":
                    if isinstance(v, ast.Call) and _name(v.func) == "str" and len(v.args) == 1 and _name(v.args[0]) == cursor and cursor:
                        toks.append("send after_sequence=str(cursor)")
                    else:
                        toks.append("?send")
        if isinstance(n, ast.If):
            t = n.test
            if isinstance(t, ast.Compare) and isinstance(t.left, ast.Attribute) and t.left.attr == "status_code" and len(t.ops) == 1 \
                    and isinstance(t.ops[0], ast.Eq) and isinstance(t.comparators[0], ast.Constant) and isinstance(t.comparators[0].value, int):
                act = "?"
                b0 = n.body[0] if n.body else None
                if isinstance(b0, ast.Raise) and isinstance(b0.exc, ast.Call):
                    act = "raise " + _dotted(b0.exc.func)
                elif isinstance(b0, ast.Expr) and isinstance(b0.value, ast.Await) and isinstance(b0.value.value, ast.Call) \
                        and b0.value.value.args and isinstance(b0.value.value.args[0], ast.Call) \
                        and len(n.body) == 2 and isinstance(n.body[1], ast.Return):
                    act = "put " + _dotted(b0.value.value.args[0].func) + "; return"
                dispatch.append((int(t.comparators[0].value), act))
            if isinstance(t, ast.Compare) and _name(t.left) == counter and counter and len(t.ops) == 1:
                rhs = _name(t.comparators[0]) or "?"
                act = "?"
                if n.body and isinstance(n.body[0], ast.Raise) and isinstance(n.body[0].exc, ast.Call):
                    act = "raise " + _dotted(n.body[0].exc.func)
                toks.append(f"if counter {type(t.ops[0]).__name__} {rhs}: {act}")
        if isinstance(n, ast.Expr) and isinstance(n.value, ast.Call) and _name(n.value.func) == "_raise_for_status_with_body":
            toks.append("raise_for_status")
        if isinstance(n, ast.Assign) and len(n.targets) == 1 and _name(n.targets[0]) == counter and counter \
                and isinstance(n.value, ast.Constant) and n.value.value == 0 and id(n) not in top:
            toks.append("counter = 0")
        if isinstance(n, ast.AugAssign) and _name(n.target) == counter and counter and isinstance(n.op, ast.Add) \
                and isinstance(n.value, ast.Constant) and n.value.value == 1:
            toks.append("counter += 1")
        if isinstance(n, ast.Call) and _name(n.func) == "_QueuedEvent":
            kw = {k.arg: _name(k.value) for k in n.keywords}
            toks.append("queue (sequence=%s)" % ("cursor" if kw.get("sequence") == cursor and cursor else "?"))
        if isinstance(n, ast.Assign) and len(n.targets) == 1 and _name(n.targets[0]) == cursor and cursor \
                and isinstance(n.value, ast.Call) and _name(n.value.func) == "int":
            toks.append("cursor = int(id)")
        if isinstance(n, ast.Call) and isinstance(n.func, ast.Attribute) and n.func.attr == "model_validate_json":
            toks.append("validate")
        if isinstance(n, ast.ExceptHandler):
            ty = n.type
            names = [_dotted(e) for e in ty.elts] if isinstance(ty, ast.Tuple) else ([_dotted(ty)] if ty is not None else ["<bare>"])
            b0 = n.body[0] if n.body else None
            if isinstance(b0, ast.Raise) and isinstance(b0.exc, ast.Call):
                act = "raise " + _dotted(b0.exc.func)
            elif isinstance(b0, ast.AugAssign):
                act = "count"
            elif isinstance(b0, ast.Pass):
                act = "pass"
            elif isinstance(b0, ast.Expr) and isinstance(b0.value, ast.Await) and isinstance(b0.value.value, ast.Call) \
                    and b0.value.value.args and isinstance(b0.value.value.args[0], ast.Call):
                act = "put " + _dotted(b0.value.value.args[0].func)
            else:
                act = "?"
            handlers.append((",".join(names), act))
    return toks, dispatch, handlers


def request_keys(reader: ast.AST | None) -> tuple[list[str], list[str]]:
    """keys of the `params=` and `headers=` dict literals of the reader's `client.stream(...)` call
    (a `Last-Event-ID` header would override `after_sequence` on the server)"""
    params: list[str] = ["?"]
    headers: list[str] = ["?"]
    if reader is None:
        return params, headers
    for n in ast.walk(reader):
        if isinstance(n, ast.Call) and isinstance(n.func, ast.Attribute) and n.func.attr == "stream":
            for k in n.keywords:
                if k.arg in ("params", "headers") and isinstance(k.value, ast.Dict):
                    keys = [kk.value if isinstance(kk, ast.Constant) and isinstance(kk.value, str) else "?" for kk in k.value.keys]
                    if k.arg == "params":
                        params = keys
                    else:
                        headers = keys
    return params, headers


def server_done_status(tree: ast.AST | None) -> Any:
    """`if gen is None: raise HTTPException(..., status_code=N)` in `_stream_events`"""
    se = _find_def(tree, "_stream_events") if tree is not None else None
    if se is None:
        return None
    for n in ast.walk(se):
        if isinstance(n, ast.If) and isinstance(n.test, ast.Compare) and len(n.test.ops) == 1 and isinstance(n.test.ops[0], ast.Is) \
                and isinstance(n.test.comparators[0], ast.Constant) and n.test.comparators[0].value is None \
                and n.body and isinstance(n.body[0], ast.Raise) and isinstance(n.body[0].exc, ast.Call):
            for k in n.body[0].exc.keywords:
                if k.arg == "status_code" and isinstance(k.value, ast.Constant):
                    return k.value.value
    return None


def generate(notes: list[str]) -> list[str]:
    out: list[str] = ["namespace Gen.SseClient", ""]

    # ---- server framing
    pre = mid = post = None
    heartbeat = None
    n_formatted = 0
    try:
        tree = ast.parse(open(repo_path(API)).read())
        se = _find_def(tree, "_stream_events")
        fs = _find_def(se, "format_stream") if se is not None else None
        if fs is not None:
            for n in _ordered(fs):
                if isinstance(n, ast.Yield) and isinstance(n.value, ast.JoinedStr):
                    vals = n.value.values
                    consts = [v.value for v in vals if isinstance(v, ast.Constant)]
                    shape = "".join("c" if isinstance(v, ast.Constant) else "f" for v in vals)
                    if shape == "cfcfc" and pre is None:
                        pre, mid, post = consts
                        n_formatted = 2
                if isinstance(n, ast.Yield) and isinstance(n.value, ast.Constant) and isinstance(n.value.value, str) \
                        and heartbeat is None:
                    heartbeat = n.value.value
    except Exception as e:  # noqa: BLE001
        notes.append(f"gen/sseclient: cannot parse {API}: {e!r}")
    if pre is None:
        notes.append("gen/sseclient: SSE frame f-string (const, value, const, value, const) not found in format_stream")
        pre = mid = post = ""
    if heartbeat is None:
        notes.append("gen/sseclient: heartbeat literal not found in format_stream")
        heartbeat = ""
    out.append(f"/-! from /repo: {API} (_stream_events.format_stream) -/")
    out.append(f"def framePre : List Char := {lean_chars(pre)}")
    out.append(f"def frameMid : List Char := {lean_chars(mid)}")
    out.append(f"def framePost : List Char := {lean_chars(post)}")
    out.append(f"def heartbeat : List Char := {lean_chars(heartbeat)}")
    out.append("")

    # ---- client reader
    tags: list[tuple[str, int]] = []
    default_max: Any = None
    default_after: Any = None
    line_source = "<missing>"
    breaks = ""
    hx = httpx_newline_chars(notes)
    helper_name: str | None = None
    reader_shape: list[str] = ["?unparsed"]
    cons_shape: list[str] = ["?unparsed"]
    lp_shape: list[str] = ["?unparsed"]
    dispatch: list[tuple[int, str]] = []
    handlers: list[tuple[str, str]] = []
    req_params: list[str] = ["?"]
    req_headers: list[str] = ["?"]
    try:
        tree = ast.parse(open(repo_path(CLIENT)).read())
        gwe = _find_def(tree, "get_workflow_events")
        reader = _find_def(gwe, "reader") if gwe is not None else None
        cons_shape = consumer_shape(tree)
        lp_shape, dispatch, handlers = loop_shape(gwe, reader)
        req_params, req_headers = request_keys(reader)
        if gwe is not None:
            args = gwe.args  # type: ignore[attr-defined]
            names = [a.arg for a in args.args]
            defaults = [None] * (len(names) - len(args.defaults)) + list(args.defaults)
            for nm, d in zip(names, defaults):
                if d is None:
                    continue
                try:
                    v = ast.literal_eval(d)
                except Exception:  # noqa: BLE001
                    continue
                if nm == "max_reconnect_attempts":
                    default_max = v
                if nm == "after_sequence":
                    default_after = v
        if reader is not None:
            pending: str | None = None
            for n in _ordered(reader):
                if isinstance(n, ast.Call) and isinstance(n.func, ast.Attribute) and n.func.attr == "startswith" \
                        and len(n.args) == 1 and isinstance(n.args[0], ast.Constant) and isinstance(n.args[0].value, str):
                    pending = n.args[0].value
                if isinstance(n, ast.Subscript) and isinstance(n.slice, ast.Slice) and n.slice.upper is None \
                        and isinstance(n.slice.lower, ast.Constant) and isinstance(n.slice.lower.value, int) and pending is not None:
                    tags.append((pending, n.slice.lower.value))
                    pending = None
            # which iterator feeds `line`
            for n in _ordered(reader):
                if isinstance(n, ast.AsyncFor) and isinstance(n.iter, ast.Call):
                    f = n.iter.func
                    if isinstance(f, ast.Attribute) and f.attr == "aiter_lines":
                        line_source = "httpx.aiter_lines"
                        breaks = hx
                        break
                    if isinstance(f, ast.Name):
                        helper_name = f.id
                        helper = None
                        for m in tree.body:
                            if isinstance(m, (ast.FunctionDef, ast.AsyncFunctionDef)) and m.name == f.id:
                                helper = m
                        if helper is not None:
                            uses_text = any(isinstance(c, ast.Attribute) and c.attr == "aiter_text" for c in ast.walk(helper))
                            seps = [c.args[0].value for c in ast.walk(helper)
                                    if isinstance(c, ast.Call) and isinstance(c.func, ast.Attribute) and c.func.attr == "split"
                                    and len(c.args) == 1 and isinstance(c.args[0], ast.Constant) and isinstance(c.args[0].value, str)]
                            uses_splitlines = any(isinstance(c, ast.Attribute) and c.attr in ("splitlines", "aiter_lines")
                                                  for c in ast.walk(helper))
                            if uses_text and len(seps) == 1 and len(seps[0]) == 1 and not uses_splitlines:
                                line_source = "own-splitter"
                                breaks = seps[0]
                        break
        reader_shape = iter_lines_shape(tree, helper_name) if line_source != "httpx.aiter_lines" else ["httpx.aiter_lines"]
    except Exception as e:  # noqa: BLE001
        notes.append(f"gen/sseclient: cannot parse {CLIENT}: {e!r}")
    for nm, sh in (("line iterator", reader_shape), ("EventStream", cons_shape), ("reconnect loop", lp_shape)):
        if any(t.startswith("?") for t in sh):
            notes.append(f"gen/sseclient: {nm} has an unexpected shape: {sh!r}")
    if len(tags) != 2:
        notes.append(f"gen/sseclient: expected two (startswith, slice) pairs in reader, found {tags!r}")
        tags = (tags + [("", 0), ("", 0)])[:2]
    if not isinstance(default_max, int) or isinstance(default_max, bool) or default_max < 0:
        notes.append(f"gen/sseclient: default max_reconnect_attempts not a natural: {default_max!r}")
        default_max = 0
    if not isinstance(default_after, int) or isinstance(default_after, bool):
        notes.append(f"gen/sseclient: default after_sequence not an int: {default_after!r}")
        default_after = 0
    if line_source == "<missing>":
        notes.append("gen/sseclient: could not determine how the reader splits lines")
    out.append(f"/-! from /repo: {CLIENT} (get_workflow_events.reader) -/")
    out.append(f"def idTag : List Char := {lean_chars(tags[0][0])}")
    out.append(f"def idSkip : Nat := {tags[0][1]}")
    out.append(f"def dataTag : List Char := {lean_chars(tags[1][0])}")
    out.append(f"def dataSkip : Nat := {tags[1][1]}")
    out.append(f"def defaultMaxReconnect : Nat := {default_max}")
    out.append(f"def defaultAfterSequence : Int := {default_after}")
    out.append(f"def lineSource : String := \"{line_source}\"")
    out.append("/-- characters that end a line for the client's reader -/")
    out.append(f"def lineBreaks : List Char := {lean_chars(breaks)}")
    out.append("/-- statement structure of the client's line iterator (`_iter_sse_lines`), local names abstracted -/")
    out.append(f"def lineIterShape : List String := {_lean_strs(reader_shape)}")
    out.append("/-- `EventStream`: where `last_sequence` is initialised, read and moved relative to the `yield` -/")
    out.append(f"def consumerShape : List String := {_lean_strs(cons_shape)}")
    out.append("/-- the reconnect loop of `reader` in source order: cursor in / sent / moved / queued, counter reset / incremented / compared -/")
    out.append(f"def loopShape : List String := {_lean_strs(lp_shape)}")
    if "?" in req_params or "?" in req_headers:
        notes.append(f"gen/sseclient: params/headers of the stream request not literal dicts: {req_params!r} {req_headers!r}")
    out.append("/-- keys of the query parameters and of the headers the reader sends with every request -/")
    out.append(f"def requestParams : List String := {_lean_strs(req_params)}")
    out.append(f"def requestHeaders : List String := {_lean_strs(req_headers)}")
    out.append("/-- `response.status_code == N` branches of `reader`, in order -/")
    out.append("def statusDispatch : List (Nat × String) := [" + ", ".join(f"({c}, {_lean_str(a)})" for c, a in dispatch if c >= 0) + "]")
    out.append("/-- `except` clauses of `reader` in source order with what their first statement does -/")
    out.append("def handlers : List (String × String) := [" + ", ".join(f"({_lean_str(a)}, {_lean_str(b)})" for a, b in handlers) + "]")
    sd = None
    try:
        sd = server_done_status(ast.parse(open(repo_path(API)).read()))
    except Exception as e:  # noqa: BLE001
        notes.append(f"gen/sseclient: cannot parse {API}: {e!r}")
    if not isinstance(sd, int) or isinstance(sd, bool) or sd < 0:
        notes.append(f"gen/sseclient: status code of the 'handler is completed' answer not found in _stream_events: {sd!r}")
        sd = 0
    out.append("/-- `_stream_events`: the status of the answer when nothing is left and the run is complete -/")
    out.append(f"def serverDoneStatus : Nat := {sd}")
    out.append("")

    # ---- runtime facts
    spaces = [i for i in range(0x110000) if not (0xD800 <= i <= 0xDFFF) and chr(i).isspace()]
    out.append("/-! from the Python runtime -/")
    out.append("/-- code points removed by `str.strip()` (`str.isspace`) -/")
    out.append(f"def pySpace : List Nat := {spaces!r}")

    def _int_skips(i: int) -> bool:
        try:
            return int(chr(i) + "7") == 7 and int("7" + chr(i)) == 7
        except ValueError:
            return False

    int_spaces = [i for i in range(0x110000) if not (0xD800 <= i <= 0xDFFF) and _int_skips(i)]
    if not set(int_spaces) <= set(spaces):
        notes.append("gen/sseclient: int() skips a character that str.strip() keeps")
        int_spaces = []
    out.append("/-- code points `int()` skips around the number (measured: `int(chr(c) + \"7\")` and `int(\"7\" + chr(c))` succeed);")
    out.append("not all of `str.isspace`: U+001C..U+001F are kept -/")
    out.append(f"def pyIntSpace : List Nat := {int_spaces!r}")
    import unicodedata

    ranges: list[list[int]] = []
    for i in range(0x110000):
        if 0xD800 <= i <= 0xDFFF:
            continue
        if unicodedata.decimal(chr(i), None) is not None:
            if ranges and ranges[-1][1] == i - 1:
                ranges[-1][1] = i
            else:
                ranges.append([i, i])
    if not all(unicodedata.decimal(chr(c)) == (c - lo) % 10 and int(chr(c)) == (c - lo) % 10
               for lo, hi in ranges for c in range(lo, hi + 1)):
        notes.append("gen/sseclient: a Unicode decimal digit's value is not (code - range start) mod 10")
        ranges = []
    out.append("/-- inclusive code point ranges of the decimal digits `int()` accepts; value = (code - start) % 10 -/")
    out.append("def decimalRanges : List (Nat × Nat) := [" + ", ".join(f"({lo}, {hi})" for lo, hi in ranges) + "]")
    out.append("/-- `NEWLINE_CHARS` of the installed httpx `LineDecoder` (what `aiter_lines` splits on) -/")
    out.append(f"def httpxBreaks : List Char := {lean_chars(hx)}")
    out.append("")
    out.append("end Gen.SseClient")
    return out
