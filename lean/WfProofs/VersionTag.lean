import WfModel.VersionTag
import WfProofs.Version
import WfProofs.VersionRc
import WfProofs.VersionChain
/-!
Lemmas about the tag functions of `WfModel/VersionTag.lean`: `str.replace`,
`strip_refs_prefix` on tags with and without the `refs/tags/` prefix,
`infer_tag_metadata` / `remove_tag_prefix` on `<package>@v<version>`,
`previous_tag` on a list of distinct tags, characters of printed versions,
`split(".")` of a printed release.
-/
namespace Version

/-- `<package>@v<version>` -/
def tagOf (pkg ver : List Char) : List Char := pkg ++ '@' :: 'v' :: ver

/-- does `pat` occur in `s` (as a contiguous substring)? -/
def occursIn (pat : List Char) : List Char → Bool
  | [] => pat.isPrefixOf []
  | c :: cs => pat.isPrefixOf (c :: cs) || occursIn pat cs

/-! ## `replace(pat, "")` -/

theorem replGo_skip (pat x s : List Char) : replGo pat x.length (x ++ s) = replGo pat 0 s := by
  induction x with
  | nil => rfl
  | cons c cs ih => simpa [replGo] using ih

theorem replGo_of_not_occurs (pat s : List Char) (h : occursIn pat s = false) : replGo pat 0 s = s := by
  induction s with
  | nil => rfl
  | cons c cs ih =>
    simp only [occursIn, Bool.or_eq_false_iff] at h
    simp only [replGo, h.1, Bool.false_eq_true, if_false, ih h.2]

/-- an occurrence at the very start is removed and the scan continues behind it -/
theorem removeAll_prefix (pat s : List Char) (hp : pat ≠ []) :
    removeAll pat (pat ++ s) = removeAll pat s := by
  cases pat with
  | nil => exact absurd rfl hp
  | cons p ps =>
    have hpre : (p :: ps).isPrefixOf (p :: (ps ++ s)) = true := by
      rw [List.isPrefixOf_iff_prefix]; exact ⟨s, rfl⟩
    show replGo (p :: ps) 0 (p :: (ps ++ s)) = _
    simp only [replGo, hpre, if_true, List.length_cons, Nat.add_sub_cancel]
    exact replGo_skip (p :: ps) ps s

/-! ## occurrences of a pattern that ends in a character foreign to the tail -/

theorem isPrefixOf_append_cases (pat x y : List Char) (h : pat.isPrefixOf (x ++ y) = true) :
    pat.isPrefixOf x = true ∨ ∃ c, pat.getLast? = some c ∧ c ∈ y := by
  induction pat generalizing x with
  | nil => left; rfl
  | cons p ps ih =>
    cases x with
    | nil =>
      right
      rw [List.nil_append, List.isPrefixOf_iff_prefix] at h
      cases hl : (p :: ps).getLast? with
      | none => simp at hl
      | some c => exact ⟨c, rfl, h.mem (List.mem_of_getLast? hl)⟩
    | cons a xs =>
      simp only [List.cons_append, List.isPrefixOf, Bool.and_eq_true] at h
      rcases ih xs h.2 with h' | ⟨c, hc, hy⟩
      · left; simp only [List.isPrefixOf, Bool.and_eq_true]; exact ⟨h.1, h'⟩
      · right
        refine ⟨c, ?_, hy⟩
        cases ps with
        | nil => simp at hc
        | cons q qs => simpa using hc

theorem occursIn_false_of_foreign (pat s : List Char) (c : Char) (hc : c ∈ pat) (hs : c ∉ s) :
    occursIn pat s = false := by
  have key : ∀ t : List Char, c ∉ t → pat.isPrefixOf t = false := by
    intro t ht
    cases hp : pat.isPrefixOf t with
    | false => rfl
    | true => rw [List.isPrefixOf_iff_prefix] at hp; exact absurd (hp.mem hc) ht
  induction s with
  | nil => exact key [] (by simp)
  | cons a as ih =>
    simp only [occursIn, Bool.or_eq_false_iff]
    exact ⟨key _ hs, ih (fun h => hs (List.mem_cons_of_mem _ h))⟩

theorem occursIn_append_foreign (pat x y : List Char) (c : Char) (hl : pat.getLast? = some c)
    (hx : occursIn pat x = false) (hy : c ∉ y) : occursIn pat (x ++ y) = false := by
  have hc : c ∈ pat := List.mem_of_getLast? hl
  induction x with
  | nil => exact occursIn_false_of_foreign pat y c hc hy
  | cons a as ih =>
    simp only [occursIn, Bool.or_eq_false_iff] at hx
    simp only [List.cons_append, occursIn, Bool.or_eq_false_iff]
    refine ⟨?_, ih hx.2⟩
    cases hp : pat.isPrefixOf (a :: (as ++ y)) with
    | false => rfl
    | true =>
      rcases isPrefixOf_append_cases pat (a :: as) y hp with h | ⟨d, hd, hdy⟩
      · rw [hx.1] at h; cases h
      · rw [hl] at hd; cases hd; exact absurd hdy hy

/-! ## `strip_refs_prefix` -/

theorem refsPrefix_last : Gen.VersionTag.refsPrefix.getLast? = some '/' := by decide
theorem refsPrefix_ne_nil : Gen.VersionTag.refsPrefix ≠ [] := by decide

theorem occursIn_refs_tagOf (pkg ver : List Char) (hp : occursIn Gen.VersionTag.refsPrefix pkg = false)
    (hv : '/' ∉ ver) : occursIn Gen.VersionTag.refsPrefix (tagOf pkg ver) = false := by
  apply occursIn_append_foreign _ _ _ '/' refsPrefix_last hp
  intro h
  simp only [List.mem_cons] at h
  rcases h with h | h | h
  · cases h
  · cases h
  · exact hv h

theorem not_prefix_of_not_occurs (pat s : List Char) (h : occursIn pat s = false) : pat.isPrefixOf s = false := by
  cases s with
  | nil => exact h
  | cons c cs => simp only [occursIn, Bool.or_eq_false_iff] at h; exact h.1

theorem stripRefs_plain (s : List Char) (h : occursIn Gen.VersionTag.refsPrefix s = false) : stripRefs s = s := by
  simp [stripRefs, not_prefix_of_not_occurs _ _ h]

theorem stripRefs_refs (s : List Char) (h : occursIn Gen.VersionTag.refsPrefix s = false) :
    stripRefs (Gen.VersionTag.refsPrefix ++ s) = s := by
  have hpre : Gen.VersionTag.refsPrefix.isPrefixOf (Gen.VersionTag.refsPrefix ++ s) = true := by
    rw [List.isPrefixOf_iff_prefix]; exact ⟨s, rfl⟩
  simp only [stripRefs, hpre, if_true]
  rw [removeAll_prefix _ _ refsPrefix_ne_nil]
  exact replGo_of_not_occurs _ _ h

/-! ## `infer_tag_metadata`, `remove_tag_prefix` on `<package>@v<version>` -/

theorem ne_at_of_not_mem {pkg : List Char} (h : '@' ∉ pkg) : ∀ a ∈ pkg, (a != '@') = true := by
  intro a ha
  simp only [bne_iff_ne, ne_eq]
  intro e; subst e; exact h ha

theorem inferTagMetadata_normal (pkg rest : List Char) (hat : '@' ∉ pkg)
    (hn : stripRefs (pkg ++ '@' :: 'v' :: rest) = pkg ++ '@' :: 'v' :: rest) :
    inferTagMetadata (pkg ++ '@' :: 'v' :: rest) =
      some ⟨pkg ++ '@' :: 'v' :: rest, pkg ++ ['@'], pkg ++ ['@', 'v', '*']⟩ := by
  have h := ne_at_of_not_mem hat
  unfold inferTagMetadata
  simp only [hn]
  have hc : (pkg ++ '@' :: 'v' :: rest).contains '@' = true := by simp
  have ht : (pkg ++ '@' :: 'v' :: rest).takeWhile (· != '@') = pkg := by
    rw [List.takeWhile_append_of_pos h]; simp
  have hd : (pkg ++ '@' :: 'v' :: rest).dropWhile (· != '@') = '@' :: 'v' :: rest := by
    rw [List.dropWhile_append_of_pos h]; simp
  simp [ht, hd]

theorem removeTagPrefix_pkg (pkg sfx : List Char) :
    removeTagPrefix (pkg ++ '@' :: sfx) (pkg ++ ['@']) = some sfx := by
  have e : pkg ++ '@' :: sfx = (pkg ++ ['@']) ++ sfx := by simp
  have hpre : (pkg ++ ['@']).isPrefixOf (pkg ++ '@' :: sfx) = true := by
    rw [List.isPrefixOf_iff_prefix, e]; exact List.prefix_append _ _
  have hne : pkg ++ ['@'] ≠ [] := by simp
  unfold removeTagPrefix
  rw [if_neg hne, if_pos hpre]
  conv => lhs; rw [e, List.drop_left]

/-! ## `previous_tag` on a list of distinct tags -/

theorem previousTag_listed (pre post : List (List Char)) (cur : List Char) (h : cur ∉ pre) :
    previousTag cur (pre ++ cur :: post) = post.head? := by
  have hp : ∀ a ∈ pre, (a != cur) = true := by
    intro a ha
    simp only [bne_iff_ne, ne_eq]
    intro e; subst e; exact h ha
  unfold previousTag
  rw [List.dropWhile_append_of_pos hp]
  simp

theorem previousTag_unlisted (tags : List (List Char)) (cur : List Char) (h : cur ∉ tags) :
    previousTag cur tags = tags.head? := by
  have hp : ∀ a ∈ tags, (a != cur) = true := by
    intro a ha
    simp only [bne_iff_ne, ne_eq]
    intro e; subst e; exact h ha
  have : tags.dropWhile (· != cur) = [] := by
    clear h
    induction tags with
    | nil => rfl
    | cons t ts ih =>
      rw [List.dropWhile_cons, if_pos (hp t (by simp))]
      exact ih (fun a ha => hp a (List.mem_cons_of_mem _ ha))
  unfold previousTag
  rw [this]

theorem tagOf_inj {pkg v w : List Char} (h : tagOf pkg v = tagOf pkg w) : v = w := by
  simpa [tagOf] using h

/-! ## characters of printed versions -/

theorem showRelease_plain (r : List Nat) : ∀ c ∈ showRelease r, isDig c = true ∨ c = '.' := by
  apply plain_joinDot
  intro x hx
  simp only [List.mem_map] at hx
  obtain ⟨n, _, rfl⟩ := hx
  exact digRun_natDigits n

theorem slash_not_dig : isDig '/' = false := by decide

theorem slash_not_mem_showSemver (v : Ver) : '/' ∉ showSemver v := by
  intro h
  simp only [showSemver, List.mem_append] at h
  rcases h with h | h
  · rcases showRelease_plain _ _ h with h' | h'
    · rw [slash_not_dig] at h'; cases h'
    · cases h'
  · cases hp : v.pre with
    | none => rw [hp] at h; simp at h
    | some p =>
      obtain ⟨l, n⟩ := p
      rw [hp] at h
      simp only [List.mem_cons, List.mem_append] at h
      rcases h with (h | h) | (h | h)
      · cases h
      · cases l <;> simp [Label.chars] at h
      · cases h
      · have := natDigits_isDig n _ h; rw [slash_not_dig] at this; cases this

theorem slash_not_mem_showPep (v : Ver) : '/' ∉ showPep v := by
  intro h
  simp only [showPep, List.mem_append] at h
  rcases h with h | h
  · rcases showRelease_plain _ _ h with h' | h'
    · rw [slash_not_dig] at h'; cases h'
    · cases h'
  · cases hp : v.pre with
    | none => rw [hp] at h; simp at h
    | some p =>
      obtain ⟨l, n⟩ := p
      rw [hp] at h
      simp only [List.mem_append] at h
      rcases h with h | h
      · cases l <;> simp [Label.chars] at h
      · have := natDigits_isDig n _ h; rw [slash_not_dig] at this; cases this

/-! ## `split(".")` of a printed release -/

theorem splitDots_ne_nil (s : List Char) : splitDots s ≠ [] := by
  induction s with
  | nil => simp [splitDots]
  | cons c cs ih =>
    simp only [splitDots]
    split
    · simp
    · split <;> simp

theorem splitDots_run (x rest : List Char) (h : ∀ c ∈ x, c ≠ '.') (y : List Char) (ys : List (List Char))
    (hr : splitDots rest = y :: ys) : splitDots (x ++ rest) = (x ++ y) :: ys := by
  induction x with
  | nil => simpa using hr
  | cons c cs ih =>
    have hc : c ≠ '.' := h c (by simp)
    have := ih (fun d hd => h d (List.mem_cons_of_mem _ hd))
    simp only [List.cons_append, splitDots, this, hc, if_false]

theorem no_dot_of_digRun {x : List Char} (h : DigRun x) : ∀ c ∈ x, c ≠ '.' :=
  fun c hc => ne_dot_of_isDig (h.2 c hc)

theorem splitDots_dotTail (xs : List (List Char)) (h : ∀ x ∈ xs, DigRun x) :
    splitDots (dotTail xs) = [] :: xs := by
  induction xs with
  | nil => simp [dotTail, splitDots]
  | cons x xs ih =>
    have ih' := ih (fun y hy => h y (List.mem_cons_of_mem _ hy))
    have hx := no_dot_of_digRun (h x (by simp))
    have h1 : splitDots (x ++ dotTail xs) = (x ++ []) :: xs := splitDots_run x _ hx [] xs ih'
    simp only [List.append_nil] at h1
    simp only [dotTail, List.cons_append]
    rw [splitDots, h1]; simp

theorem splitDots_joinDot (xs : List (List Char)) (hne : xs ≠ []) (h : ∀ x ∈ xs, DigRun x) :
    splitDots (joinDot xs) = xs := by
  cases xs with
  | nil => exact absurd rfl hne
  | cons x xs =>
    have ht := splitDots_dotTail xs (fun y hy => h y (List.mem_cons_of_mem _ hy))
    have hx := no_dot_of_digRun (h x (by simp))
    have := splitDots_run x _ hx [] xs ht
    simpa [joinDot] using this

end Version
