import WfModel.Engine
/-!
Worker-slot invariants of the reducer (C01) — helper lemmas.

`IdsOk ss nw`: the worker ids held by in-progress invocations are pairwise
distinct and below `nw`.  Every reducer branch preserves it, for every tick
(well-formed or not), every policy and every clock value.
-/
set_option linter.unusedSimpArgs false
set_option linter.unusedVariables false

namespace Engine

def IdsOk (ss : StepState) (nw : Nat) : Prop :=
  (usedIds ss).Nodup ∧ ∀ i ∈ usedIds ss, i < nw

theorem idsOk_empty (nw : Nat) : IdsOk {} nw := by
  simp [IdsOk, usedIds]

/-- pigeonhole: distinct ids below `nw` ⇒ at most `nw` of them -/
theorem IdsOk.length_le {ss : StepState} {nw : Nat} (h : IdsOk ss nw) : ss.inProg.length ≤ nw := by
  have hsub : usedIds ss ⊆ List.range nw := by
    intro i hi; exact List.mem_range.mpr (h.2 i hi)
  have := List.Nodup.length_le_of_subset h.1 hsub
  simpa [usedIds] using this

/-- under the invariant a free slot exists whenever there is capacity:
`id_candidates[0]` never raises -/
theorem freeIds_ne_nil {ss : StepState} {nw : Nat} (h : IdsOk ss nw) (hlt : ss.inProg.length < nw) :
    freeIds ss nw ≠ [] := by
  intro hnil
  -- every id below nw is used ⇒ range nw ⊆ usedIds ⇒ nw ≤ length
  have hsub : List.range nw ⊆ usedIds ss := by
    intro i hi
    have : i ∉ freeIds ss nw := by rw [hnil]; simp
    simp only [freeIds, List.mem_filter, not_and, Bool.not_eq_true', Bool.not_eq_false] at this
    have := this hi
    simpa using this
  have := List.Nodup.length_le_of_subset (List.nodup_range) hsub
  simp [usedIds] at this
  omega

theorem mem_freeIds {ss : StepState} {nw i : Nat} (h : i ∈ freeIds ss nw) :
    i < nw ∧ i ∉ usedIds ss := by
  simp only [freeIds, List.mem_filter, List.mem_range, Bool.not_eq_true', List.contains_eq_mem,
    decide_eq_false_iff_not] at h
  exact h

/-! ### `addOrEnqueue` -/

theorem addOrEnqueue_idsOk (att : Attempt) (step : Nat) (ss : StepState) (nw : Nat) (now : Int)
    (h : IdsOk ss nw) : IdsOk (addOrEnqueue att step ss nw now).1 nw := by
  unfold addOrEnqueue
  split
  · rename_i hlt
    split
    · rename_i id rest hfree
      have hmem : id ∈ freeIds ss nw := by rw [hfree]; simp
      obtain ⟨hidlt, hidnot⟩ := mem_freeIds hmem
      simp only [IdsOk, usedIds, List.map_append, List.map_cons, List.map_nil]
      refine ⟨?_, ?_⟩
      · rw [List.nodup_append]
        refine ⟨h.1, by simp, ?_⟩
        intro a ha b hb
        simp only [List.mem_singleton] at hb
        subst hb
        intro hab; subst hab
        exact hidnot ha
      · intro i hi
        simp only [List.mem_append, List.mem_singleton] at hi
        rcases hi with hi | hi
        · exact h.2 i hi
        · subst hi; exact hidlt
    · exact h
  · exact h

theorem addOrEnqueue_no_crash (att : Attempt) (step : Nat) (ss : StepState) (nw : Nat) (now : Int)
    (h : IdsOk ss nw) : Cmd.crash ∉ (addOrEnqueue att step ss nw now).2 := by
  unfold addOrEnqueue
  split
  · rename_i hlt
    split
    · simp
    · rename_i hnil
      exact absurd hnil (freeIds_ne_nil h hlt)
  · simp

/-- `addOrEnqueue` touches neither the collected events nor the waiters -/
theorem addOrEnqueue_collected (att : Attempt) (step : Nat) (ss : StepState) (nw : Nat) (now : Int) :
    (addOrEnqueue att step ss nw now).1.collected = ss.collected ∧
    (addOrEnqueue att step ss nw now).1.waiters = ss.waiters := by
  unfold addOrEnqueue
  split
  · split <;> simp
  · simp

/-! ### `drain` -/

theorem drain_idsOk (step nw : Nat) (now : Int) :
    ∀ (fuel : Nat) (ss : StepState), IdsOk ss nw → IdsOk (drain step nw now fuel ss).1 nw
  | 0, ss, h => by simpa [drain] using h
  | fuel + 1, ss, h => by
    unfold drain
    split
    · exact h
    · rename_i a q hq
      split
      · have h1 : IdsOk { ss with queue := q } nw := h
        exact drain_idsOk step nw now fuel _ (addOrEnqueue_idsOk a step _ nw now h1)
      · exact h

theorem drain_no_crash (step nw : Nat) (now : Int) :
    ∀ (fuel : Nat) (ss : StepState), IdsOk ss nw → Cmd.crash ∉ (drain step nw now fuel ss).2
  | 0, ss, h => by simp [drain]
  | fuel + 1, ss, h => by
    unfold drain
    split
    · simp
    · rename_i a q hq
      split
      · have h1 : IdsOk { ss with queue := q } nw := h
        simp only [List.mem_append, not_or]
        exact ⟨addOrEnqueue_no_crash a step _ nw now h1,
          drain_no_crash step nw now fuel _ (addOrEnqueue_idsOk a step _ nw now h1)⟩
      · simp

/-! ### `resolveLoop` -/

theorem resolveLoop_idsOk (ev : Ev) (step nw : Nat) (now : Int) :
    ∀ (rest done : List Waiter) (ss : StepState) (cmds : List Cmd) (hd : Bool),
      IdsOk ss nw → IdsOk (resolveLoop ev step nw now done rest ss cmds hd).1 nw
  | [], done, ss, cmds, hd, h => by
    simp only [resolveLoop]; exact h
  | w :: rest, done, ss, cmds, hd, h => by
    unfold resolveLoop
    split
    · apply resolveLoop_idsOk
      apply addOrEnqueue_idsOk
      exact h
    · exact resolveLoop_idsOk ev step nw now rest _ ss cmds hd h

theorem resolveLoop_no_crash (ev : Ev) (step nw : Nat) (now : Int) :
    ∀ (rest done : List Waiter) (ss : StepState) (cmds : List Cmd) (hd : Bool),
      IdsOk ss nw → Cmd.crash ∉ cmds →
      Cmd.crash ∉ (resolveLoop ev step nw now done rest ss cmds hd).2.1
  | [], done, ss, cmds, hd, h, hc => by simpa [resolveLoop] using hc
  | w :: rest, done, ss, cmds, hd, h, hc => by
    unfold resolveLoop
    split
    · apply resolveLoop_no_crash
      · apply addOrEnqueue_idsOk; exact h
      · simp only [List.mem_append, not_or]
        exact ⟨hc, addOrEnqueue_no_crash _ _ _ _ _ h⟩
    · exact resolveLoop_no_crash ev step nw now rest _ ss cmds hd h hc

/-! ### the whole state -/

/-- configuration well-formedness: step names are dict keys -/
def Cfg.WF (cfg : Cfg) : Prop := cfg.names.Nodup

/-- the C01 invariant on a broker state -/
def IdsInv (cfg : Cfg) (st : State) : Prop :=
  ∀ c ∈ cfg.steps, IdsOk (st.workers c.name) c.numWorkers

theorem idsInv_init (cfg : Cfg) : IdsInv cfg initState := by
  intro c _; exact idsOk_empty _

theorem find_of_mem_aux (c : StepCfg) :
    ∀ (l : List StepCfg), (l.map (·.name)).Nodup → c ∈ l →
      l.find? (fun d => d.name == c.name) = some c
  | [], _, hc => by cases hc
  | d :: ds, hwf, hc => by
    simp only [List.map_cons, List.nodup_cons] at hwf
    simp only [List.find?_cons]
    rcases List.mem_cons.mp hc with h | h
    · subst h; simp
    · have hne : d.name ≠ c.name := by
        intro heq
        apply hwf.1
        rw [heq]; exact List.mem_map_of_mem h
      have : (d.name == c.name) = false := by simpa using hne
      rw [this]
      exact find_of_mem_aux c ds hwf.2 h

theorem Cfg.find_of_mem {cfg : Cfg} (hwf : cfg.WF) {c : StepCfg} (hc : c ∈ cfg.steps) :
    cfg.find c.name = some c :=
  find_of_mem_aux c cfg.steps hwf hc

theorem Cfg.nw_of_mem {cfg : Cfg} (hwf : cfg.WF) {c : StepCfg} (hc : c ∈ cfg.steps) :
    cfg.nw c.name = c.numWorkers := by
  simp [Cfg.nw, Cfg.find_of_mem hwf hc]

theorem Cfg.mem_of_find {cfg : Cfg} {s : Nat} {c : StepCfg} (h : cfg.find s = some c) :
    c ∈ cfg.steps ∧ c.name = s := by
  unfold Cfg.find at h
  have h1 := List.mem_of_find?_eq_some h
  have h2 := List.find?_some h
  exact ⟨h1, by simpa using h2⟩

/-- updating one step with an `IdsOk` state keeps the invariant -/
theorem IdsInv.set {cfg : Cfg} {st : State} (hwf : cfg.WF) (h : IdsInv cfg st) {c : StepCfg}
    (hc : c ∈ cfg.steps) {ss : StepState} (hs : IdsOk ss c.numWorkers) :
    IdsInv cfg (st.set c.name ss) := by
  intro d hd
  simp only [State.set]
  split
  · rename_i heq
    -- same name ⇒ same step config
    have h1 := Cfg.find_of_mem hwf hc
    have h2 := Cfg.find_of_mem hwf hd
    rw [heq] at h2
    rw [h1] at h2
    injection h2 with h2
    subst h2; exact hs
  · exact h d hd

/-- an update that leaves every `inProg` list alone keeps the invariant -/
theorem IdsInv.of_inProg_eq {cfg : Cfg} {st st' : State} (h : IdsInv cfg st)
    (heq : ∀ s, (st'.workers s).inProg = (st.workers s).inProg) : IdsInv cfg st' := by
  intro c hc
  have := h c hc
  simpa [IdsOk, usedIds, heq c.name] using this

end Engine
