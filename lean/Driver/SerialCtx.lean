import WfModel.SerialCtx
import WfModel.Runner
import Driver.Engine
/-! Line protocol for the payload side of the serialised context (`WfModel/SerialCtx.lean`) and for the closed
form of the resumed runner (`C12_resumed_run_restarts_pending` / `C12_resumed_run_retry_records`).
Tokens as in `Driver/Engine.lean` (harness/engine/enc.py); payload records:

* `PA <ev> <attempts> <firstAt|_> <lastExc|_> <lastFailedAt|_> <rc>`
* `PW <wid> <ev> <waitTy> <hasReq> <resolved ev|_> <timedOut> <attempts> <firstAt|_> <lastExc|_> <lastFailedAt|_> <rc> <legacyReq>`
* `PS <n PA*> <n ev*> <collected> <n PW*>`

ops: `cfg …`, `state …` (as the engine driver), `cur <version|_> <running> <n (name PS)*>`,
`leg <version|_> <running> <queues> <inProgress> <eventBuffers> <waitingIds>` (name-keyed lists `n (name n ev*)*`,
buffers `n (name n (type n ev*)*)*`), `again` (one more round trip of the loaded state), `todict` (the current
state through `to_dict → from_dict`), `resumespec <now>` (closed form on the current state, which stays). -/
open Engine

namespace Drv.SerialCtx
open Drv.Engine

def pAttempt : P PAttempt := do
  match ← tok with
  | "PA" =>
    let e ← ev; let attempts ← nat; let firstAt ← optInt; let lastExc ← optNat
    let lastFailedAt ← optInt; let r ← rc
    pure { ev := e, attempts, firstAt, lastExc, lastFailedAt, rc := r }
  | _ => fun _ => none

def pWaiter : P PWaiter := do
  match ← tok with
  | "PW" =>
    let wid ← nat; let e ← ev; let waitTy ← nat; let hasReq ← bool
    let resolved ← opt ev; let timedOut ← bool
    let attempts ← nat; let firstAt ← optInt; let lastExc ← optNat; let lastFailedAt ← optInt; let r ← rc
    let legacyReq ← bool
    pure { w := { wid, ev := e, waitTy, hasReq, resolved, timedOut, attempts, firstAt, lastExc, lastFailedAt, rc := r },
           legacyReq }
  | _ => fun _ => none

def pStep : P PStep := do
  match ← tok with
  | "PS" =>
    let q ← counted pAttempt; let ip ← counted ev; let c ← collected; let w ← counted pWaiter
    pure { queue := q, inProg := ip, collected := c, waiters := w }
  | _ => fun _ => none

def named (p : P α) : P (Nat × α) := do let n ← nat; let a ← p; pure (n, a)

def v0Body (running : Bool) : P SerV0 := do
  let queues ← counted (named (counted ev))
  let inProgress ← counted (named (counted ev))
  let eventBuffers ← counted (named (counted (named (counted ev))))
  let waitingIds ← counted nat
  pure { isRunning := running, queues, inProgress, eventBuffers, waitingIds }

def sStarted (s : Started) : String :=
  s!"{sEv s.ev} {s.attempts} {s.firstAt} {sOptNat s.lastExc} {sOptInt s.lastFailedAt} {sRC s.rc}"

structure DState where
  cfg : Cfg := { steps := [] }
  st : State := initState

def step (d : DState) (line : String) : DState × String :=
  match tokens line with
  | "cfg" :: ts =>
    match cfgP ts with
    | some (c, []) => ({ d with cfg := c, st := initState }, "ok")
    | _ => (d, "bad-op")
  | "state" :: ts =>
    match stateP d.cfg ts with
    | some (s, []) => ({ d with st := s }, sState d.cfg s)
    | _ => (d, "bad-op")
  | "cur" :: ts =>
    match (do let ver ← optInt; let run ← bool; let ws ← counted (named pStep); pure (ver, run, ws)) ts with
    | some ((ver, run, ws), []) =>
      let s := resumeState d.cfg (.current ver run ws)
      ({ d with st := s }, sState d.cfg s)
    | _ => (d, "bad-op")
  | "leg" :: ts =>
    match (do let ver ← optInt; let run ← bool; let b ← v0Body run; pure (ver, b)) ts with
    | some ((ver, b), []) =>
      let s := resumeState d.cfg (.legacy ver b)
      ({ d with st := s }, sState d.cfg s)
    | _ => (d, "bad-op")
  | ["again"] =>
    let s := roundtrip d.cfg d.st
    ({ d with st := s }, sState d.cfg s)
  | ["todict"] =>
    let s := resumeState d.cfg (toDict d.cfg d.st)
    ({ d with st := s }, sState d.cfg s)
  | "resumespec" :: ts =>
    -- per step in registration order: k = min(num_workers, #pending), the records the k restarted invocations are
    -- started with, the entries left queued — from the state BEFORE serialisation
    match int ts with
    | some (now, []) =>
      let line := sList (fun (c : StepCfg) =>
        let ss := d.st.workers c.name
        let pending := resumedPending ss
        let k := min c.numWorkers pending.length
        let started := (pending.take k).map (Attempt.startedAt now)
        s!"{c.name} {k} {sList sStarted started} {sList sAttempt (pending.drop k)}")
        d.cfg.steps
      (d, line)
    | _ => (d, "bad-op")
  | _ => (d, "bad-op")

end Drv.SerialCtx
