"""C35 — step lifecycle telemetry on the stream is balanced and ordered."""
from __future__ import annotations

from ..engine import monitors, suite
from ..runner import Env, Outcome

THEOREMS = ["C35_stream_ordered", "C35_tick_ordered", "C35_preparing_when_queued", "C35_input_required_once"]
LEAN_TARGETS = ["WfProps.C35"]
EXPLANATION = (
    "Lean: the StepStateChanged publishes of the concatenated command lists of ANY tick history (rewind + arbitrary "
    "ticks the reducer accepts) are a valid run of the open-slot automaton (RUNNING only on a closed slot, "
    "NOT_RUNNING only on an open one) ending exactly at the in-progress table; PREPARING is emitted iff the attempt "
    "is queued; a returned InputRequiredEvent yields exactly one publish command. Tie: reducer/runner correspondence "
    "(the runner writes publish commands to the stream in list order - compared tick by tick incl. stream length). "
    "Search: automaton on the real published stream, PREPARING/RUNNING counts at quiescence, InputRequiredEvent counts."
)
ASSUMPTIONS = suite.ENGINE_ASSUMPTIONS + [
    "'unless the run ends first': a run that exits leaves RUNNING slots unmatched by design (workers are cancelled)",
]


def run(env: Env) -> Outcome:
    out = Outcome()
    out.rule = ("direct (state,tick) pairs + live scripted workflows under random gate schedules; non-trivial = more than 2 ticks; "
                "distinct by (spec, schedule)")
    suite.direct_corr(env, out, env.budget(3000, 60000))
    suite.live_runs(env, out, env.budget(400, 8000), [monitors.mon_c35], extra_specs=suite.load_corpus("C35"))
    return out
