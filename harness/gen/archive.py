"""Facts of backup/archive.py and backup/encryption.py -> lean/WfModel/GenArchive.lean (property C33).

Re-read from /repo's *current* sources on every run:

* archive.py writer: the manifest member name, the per-deployment member suffixes (which f-string
  is written in which branch), the default deployment name, the order in which the pieces of one
  deployment are written, the manifest keys/values, the test that decides `manifest.encrypted` and
  the test that decides whether secrets are encrypted (0 = `is not None`, 1 = truthiness, 9 = other);
* archive.py reader: the ordered if/elif classification chain (test kind, literal, `removesuffix`
  literal, which dict the content goes to), the "no password" test, the supported version and the
  default of a missing version, the manifest keys read, the generation key;
* encryption.py: SALT_LENGTH, NONCE_LENGTH, KEY_LENGTH, PBKDF2_ITERATIONS, the sizes asked from
  os.urandom, the order of the concatenation returned by encrypt, the minimum length and the
  literal tag length in it, the three slices of decrypt, the KDF parameters, the argument order of
  the AEAD calls;
* archive.py, size dependence: every test in create_backup_archive / read_backup_archive / _add_bytes_to_tar that
  looks at a length or a member size (`len(..)`, `.size`, a bounded `.read(n)`) and every integer >= 1024 the module
  defines or those functions mention (`sizeTests`, `sizeConstants`; both empty today: the archive layer treats
  contents as opaque whatever their length, which is what the model does). The harness also builds its large
  members around these values (`size_hints`);
* core/schema/deployments.py: the DNS-1035 regex that deployment names are validated with.

The model (`WfModel/Archive.lean`) computes with these values; `C33_source_shape` pins the rest.
A shape that is not found produces a sentinel (999 / [] / "<missing>") and a note.
"""
from __future__ import annotations

import ast
from typing import Any

from ..boot import repo_path

LEAN_MODULE = "GenArchive"
ARCHIVE = "packages/llama-agents-control-plane/src/llama_agents/control_plane/backup/archive.py"
ENCRYPTION = "packages/llama-agents-control-plane/src/llama_agents/control_plane/backup/encryption.py"
SCHEMA = "packages/llama-agents-core/src/llama_agents/core/schema/deployments.py"
MISSING = 999

# category codes shared with WfModel/Archive.lean (Cat.ofCode)
MANIFEST, SEC_ENC, META, SEC_CLEAR, CR, UNKNOWN = 0, 1, 2, 3, 4, 9


def lean_chars(s: str) -> str:
    items = []
    for ch in s:
        if ch == "'":
            items.append("'\\''")
        elif ch == "\\":
            items.append("'\\\\'")
        elif 32 <= ord(ch) < 127:
            items.append(f"'{ch}'")
        else:
            items.append("Char.ofNat %d" % ord(ch))
    return "[" + ", ".join(items) + "]"


def lean_str(s: str) -> str:
    out = ['"']
    for ch in s:
        if ch == '"':
            out.append('\\"')
        elif ch == "\\":
            out.append("\\\\")
        elif 32 <= ord(ch) < 127:
            out.append(ch)
        else:
            out.append("\\u{%x}" % ord(ch))
    out.append('"')
    return "".join(out)


def _parse(rel: str, notes: list[str]) -> ast.Module | None:
    try:
        return ast.parse(open(repo_path(rel)).read())
    except (OSError, SyntaxError) as e:
        notes.append(f"gen/archive: cannot parse {rel}: {e!r}")
        return None


def _func(tree: ast.AST | None, name: str) -> ast.FunctionDef | None:
    if tree is None:
        return None
    for n in ast.walk(tree):
        if isinstance(n, ast.FunctionDef) and n.name == name:
            return n
    return None


def _int_consts(tree: ast.Module | None) -> dict[str, int]:
    env: dict[str, int] = {}
    if tree is None:
        return env
    for n in tree.body:
        if isinstance(n, ast.Assign) and len(n.targets) == 1 and isinstance(n.targets[0], ast.Name):
            v = _eval(n.value, env)
            if isinstance(v, int):
                env[n.targets[0].id] = v
    return env


def _eval(e: ast.AST | None, env: dict[str, int]) -> Any:
    """Evaluate an int expression over module constants; None when not of that shape."""
    if e is None:
        return None
    if isinstance(e, ast.Constant) and isinstance(e.value, int) and not isinstance(e.value, bool):
        return e.value
    if isinstance(e, ast.Name):
        return env.get(e.id)
    if isinstance(e, ast.BinOp) and isinstance(e.op, (ast.Add, ast.Sub, ast.Mult)):
        a, b = _eval(e.left, env), _eval(e.right, env)
        if a is None or b is None:
            return None
        return a + b if isinstance(e.op, ast.Add) else a - b if isinstance(e.op, ast.Sub) else a * b
    return None


def _pw_test(e: ast.AST | None, var: str = "encryption_password") -> int:
    """0: `<var> is not None`; 1: truthiness of <var>; 9: anything else."""
    if isinstance(e, ast.Name) and e.id == var:
        return 1
    if (isinstance(e, ast.Compare) and isinstance(e.left, ast.Name) and e.left.id == var and len(e.ops) == 1
            and isinstance(e.ops[0], ast.IsNot) and isinstance(e.comparators[0], ast.Constant)
            and e.comparators[0].value is None):
        return 0
    if isinstance(e, ast.Call) and isinstance(e.func, ast.Name) and e.func.id == "bool" and len(e.args) == 1:
        return _pw_test(e.args[0], var)
    return 9


def _no_pw_test(e: ast.AST | None, var: str = "encryption_password") -> int:
    """0: `<var> is None`; 1: `not <var>`; 9: anything else."""
    if (isinstance(e, ast.Compare) and isinstance(e.left, ast.Name) and e.left.id == var and len(e.ops) == 1
            and isinstance(e.ops[0], ast.Is) and isinstance(e.comparators[0], ast.Constant)
            and e.comparators[0].value is None):
        return 0
    if isinstance(e, ast.UnaryOp) and isinstance(e.op, ast.Not) and isinstance(e.operand, ast.Name) and e.operand.id == var:
        return 1
    return 9


def _fstring_suffix(e: ast.AST | None) -> str | None:
    """f"{name}<suffix>" -> suffix; a plain literal -> None."""
    if isinstance(e, ast.JoinedStr) and len(e.values) == 2 and isinstance(e.values[0], ast.FormattedValue) \
            and isinstance(e.values[0].value, ast.Name) and e.values[0].value.id == "name" \
            and e.values[0].conversion == -1 and e.values[0].format_spec is None \
            and isinstance(e.values[1], ast.Constant) and isinstance(e.values[1].value, str):
        return e.values[1].value
    return None


def _add_calls(stmts: list[ast.stmt]) -> list[ast.Call]:
    res = []
    for s in stmts:
        for n in ast.walk(s):
            if isinstance(n, ast.Call) and isinstance(n.func, ast.Name) and n.func.id == "_add_bytes_to_tar":
                res.append(n)
    res.sort(key=lambda c: (c.lineno, c.col_offset))
    return res


def extract_writer(tree: ast.Module | None, notes: list[str]) -> dict:
    r: dict[str, Any] = {"manifestName": "<missing>", "crSuffix": "<missing>", "secEncSuffix": "<missing>",
                         "secClearSuffix": "<missing>", "metaSuffix": "<missing>", "defaultName": "<missing>",
                         "writeOrder": [], "manifestFirst": False, "manifestKeys": [], "writeVersion": MISSING,
                         "manifestEncTest": 9, "writeEncTest": 9, "countIsLenDeployments": False,
                         "genKeyWrite": "<missing>", "secretGuardIsNotNone": False, "genGuard": "<missing>",
                         "nameFromMetadata": False}
    fn = _func(tree, "create_backup_archive")
    if fn is None:
        notes.append("gen/archive: create_backup_archive not found")
        return r
    # manifest dict
    for n in ast.walk(fn):
        if isinstance(n, ast.Assign) and isinstance(n.targets[0], ast.Name) and n.targets[0].id == "manifest" \
                and isinstance(n.value, ast.Dict):
            keys = [k.value if isinstance(k, ast.Constant) else "?" for k in n.value.keys]
            r["manifestKeys"] = keys
            for k, v in zip(keys, n.value.values):
                if k == "version" and isinstance(v, ast.Constant) and isinstance(v.value, int):
                    r["writeVersion"] = v.value
                if k == "encrypted":
                    r["manifestEncTest"] = _pw_test(v)
                if k == "deployment_count":
                    r["countIsLenDeployments"] = ast.unparse(v) == "len(deployments)"
    # the with-body: manifest member first, then the loop
    loop = None
    with_body: list[ast.stmt] = []
    for n in ast.walk(fn):
        if isinstance(n, ast.With):
            with_body = n.body
    before_loop: list[ast.stmt] = []
    for s in with_body:
        if isinstance(s, ast.For):
            loop = s
            break
        before_loop.append(s)
    pre = _add_calls(before_loop)
    if len(pre) == 1 and isinstance(pre[0].args[1], ast.Constant):
        r["manifestName"] = pre[0].args[1].value
        r["manifestFirst"] = True
    if loop is None or not (isinstance(loop.iter, ast.Name) and loop.iter.id == "deployments"):
        notes.append("gen/archive: `for cr in deployments` loop not found")
        return r
    order: list[int] = []
    for s in loop.body:
        if isinstance(s, ast.Assign) and isinstance(s.targets[0], ast.Name) and s.targets[0].id == "name":
            src = ast.unparse(s.value)
            r["nameFromMetadata"] = src.startswith("cr.get('metadata', {}).get('name'")
            call = s.value
            if isinstance(call, ast.Call) and len(call.args) == 2 and isinstance(call.args[1], ast.Constant):
                r["defaultName"] = call.args[1].value
        elif isinstance(s, ast.Expr) and _add_calls([s]):
            c = _add_calls([s])[0]
            suf = _fstring_suffix(c.args[1])
            if suf is not None:
                r["crSuffix"] = suf
                order.append(CR)
        elif isinstance(s, ast.If):
            test_src = ast.unparse(s.test)
            if test_src == "secret_data is not None":
                r["secretGuardIsNotNone"] = True
                inner = [x for x in s.body if isinstance(x, ast.If)]
                if len(inner) == 1 and not _add_calls([x for x in s.body if not isinstance(x, ast.If)]):
                    r["writeEncTest"] = _pw_test(inner[0].test)
                    a = _add_calls(inner[0].body)
                    b = _add_calls(inner[0].orelse)
                    if len(a) == 1 and len(b) == 1:
                        sa, sb = _fstring_suffix(a[0].args[1]), _fstring_suffix(b[0].args[1])
                        # the encrypted branch must write the result of encrypt(...)
                        enc_assigned = any(isinstance(x, ast.Assign) and isinstance(x.value, ast.Call)
                                           and isinstance(x.value.func, ast.Name) and x.value.func.id == "encrypt"
                                           for x in inner[0].body)
                        if sa is not None and sb is not None and enc_assigned:
                            r["secEncSuffix"], r["secClearSuffix"] = sa, sb
                            order.append(SEC_ENC)
            elif "generations" in test_src:
                r["genGuard"] = test_src
                a = _add_calls(s.body)
                if len(a) == 1 and _fstring_suffix(a[0].args[1]) is not None:
                    r["metaSuffix"] = _fstring_suffix(a[0].args[1])
                    order.append(META)
                for x in ast.walk(s):
                    if isinstance(x, ast.Dict) and len(x.keys) == 1 and isinstance(x.keys[0], ast.Constant):
                        r["genKeyWrite"] = x.keys[0].value
    r["writeOrder"] = order
    return r


def extract_reader(tree: ast.Module | None, notes: list[str]) -> dict:
    r: dict[str, Any] = {"chain": [], "readNoPwTest": 9, "supportedVersion": MISSING, "versionDefault": MISSING,
                         "manifestKeysRead": [], "genKeyRead": "<missing>", "entriesFromCrFiles": False,
                         "skipsNonFiles": False}
    fn = _func(tree, "read_backup_archive")
    if fn is None:
        notes.append("gen/archive: read_backup_archive not found")
        return r
    # the classification chain: first If in the member loop whose test mentions `name`
    loop = None
    for n in ast.walk(fn):
        if isinstance(n, ast.For) and "getmembers" in ast.unparse(n.iter):
            loop = n
    if loop is None:
        notes.append("gen/archive: member loop not found")
        return r
    r["skipsNonFiles"] = any(isinstance(s, ast.If) and ast.unparse(s.test) == "not member.isfile()" for s in loop.body)
    chain_if = None
    for s in loop.body:
        if isinstance(s, ast.If) and ("name ==" in ast.unparse(s.test) or "name.endswith" in ast.unparse(s.test)):
            chain_if = s
            break
    chain = []
    cur: ast.stmt | None = chain_if
    while isinstance(cur, ast.If):
        t = cur.test
        kind, lit = None, None
        if isinstance(t, ast.Compare) and isinstance(t.left, ast.Name) and t.left.id == "name" and len(t.ops) == 1 \
                and isinstance(t.ops[0], ast.Eq) and isinstance(t.comparators[0], ast.Constant):
            kind, lit = False, t.comparators[0].value
        elif isinstance(t, ast.Call) and isinstance(t.func, ast.Attribute) and t.func.attr == "endswith" \
                and isinstance(t.func.value, ast.Name) and t.func.value.id == "name" and len(t.args) == 1 \
                and isinstance(t.args[0], ast.Constant):
            kind, lit = True, t.args[0].value
        rm = ""
        target = UNKNOWN
        decrypts = False
        for x in cur.body:
            for y in ast.walk(x):
                if isinstance(y, ast.Call) and isinstance(y.func, ast.Attribute) and y.func.attr == "removesuffix" \
                        and len(y.args) == 1 and isinstance(y.args[0], ast.Constant):
                    rm = y.args[0].value
                if isinstance(y, ast.Call) and isinstance(y.func, ast.Name) and y.func.id == "decrypt":
                    decrypts = True
            if isinstance(x, ast.Assign):
                tgt = x.targets[0]
                tname = tgt.value.id if isinstance(tgt, ast.Subscript) and isinstance(tgt.value, ast.Name) else \
                    tgt.id if isinstance(tgt, ast.Name) else None
                loader = ast.unparse(x.value)
                if tname == "manifest_data" and loader.startswith("json.loads("):
                    target = MANIFEST
                elif tname == "secret_files" and loader.startswith("yaml.safe_load("):
                    target = SEC_ENC if decrypts else SEC_CLEAR
                elif tname == "meta_files" and loader.startswith("json.loads("):
                    target = META
                elif tname == "cr_files" and loader.startswith("yaml.safe_load("):
                    target = CR
            if isinstance(x, ast.If) and target == UNKNOWN and any(isinstance(z, ast.Raise) for z in x.body):
                r["readNoPwTest"] = _no_pw_test(x.test)
        if kind is None or lit is None:
            chain.append((True, "<missing>", "", UNKNOWN))
        else:
            chain.append((kind, lit, rm if kind else lit, target))
        nxt = cur.orelse
        cur = nxt[0] if len(nxt) == 1 and isinstance(nxt[0], ast.If) else None
        if nxt and cur is None:
            chain.append((True, "<else>", "", UNKNOWN))
    r["chain"] = chain
    for n in ast.walk(fn):
        if isinstance(n, ast.If) and isinstance(n.test, ast.Compare) and "manifest_data.get('version'" in ast.unparse(n.test) \
                and isinstance(n.test.ops[0], ast.NotEq):
            call = n.test.left
            if isinstance(call, ast.Call) and len(call.args) == 2:
                r["versionDefault"] = _eval(call.args[1], {}) if _eval(call.args[1], {}) is not None else MISSING
            v = _eval(n.test.comparators[0], {})
            r["supportedVersion"] = v if v is not None else MISSING
        if isinstance(n, ast.Call) and isinstance(n.func, ast.Name) and n.func.id == "BackupManifest":
            r["manifestKeysRead"] = [kw.value.slice.value for kw in n.keywords
                                     if isinstance(kw.value, ast.Subscript) and isinstance(kw.value.slice, ast.Constant)
                                     and ast.unparse(kw.value.value) == "manifest_data"]
        if isinstance(n, ast.For) and ast.unparse(n.iter) == "cr_files.items()":
            r["entriesFromCrFiles"] = True
            for y in ast.walk(n):
                if isinstance(y, ast.keyword) and y.arg == "generation" and isinstance(y.value, ast.Call) \
                        and ast.unparse(y.value.func) == "meta.get" and len(y.value.args) == 1 \
                        and isinstance(y.value.args[0], ast.Constant):
                    r["genKeyRead"] = y.value.args[0].value
    return r


def extract_encryption(tree: ast.Module | None, notes: list[str]) -> dict:
    r: dict[str, Any] = {"saltLength": MISSING, "nonceLength": MISSING, "keyLength": MISSING, "pbkdf2Iterations": MISSING,
                         "encSaltLen": MISSING, "encNonceLen": MISSING, "blobOrder": [], "minLength": MISSING,
                         "tagLength": MISSING, "minLengthCmp": "<missing>", "decSaltLo": MISSING, "decSaltHi": MISSING,
                         "decNonceLo": MISSING, "decNonceHi": MISSING, "decCtLo": MISSING, "decCtOpen": False,
                         "kdfLength": MISSING, "kdfIterations": MISSING, "kdfAlgorithm": "<missing>",
                         "kdfSaltIsSalt": False, "kdfPasswordEncoding": "<missing>", "sealArgs": [], "openArgs": [],
                         "keyFromPasswordAndSalt": False}
    env = _int_consts(tree)
    for lean, py in (("saltLength", "SALT_LENGTH"), ("nonceLength", "NONCE_LENGTH"), ("keyLength", "KEY_LENGTH"),
                     ("pbkdf2Iterations", "PBKDF2_ITERATIONS")):
        if py in env:
            r[lean] = env[py]
        else:
            notes.append(f"gen/archive: {py} not found in encryption.py")
    enc, dec, kdf = _func(tree, "encrypt"), _func(tree, "decrypt"), _func(tree, "_derive_key")

    def roles(fn: ast.FunctionDef, aead_method: str) -> dict[str, str]:
        """local variable -> role, independent of how the locals are called: the salt is what goes to
        `_derive_key(password, <salt>)`, the nonce / payload are the first / second argument of the AEAD call,
        the result is what the AEAD call is assigned to; the first parameter is the input."""
        rl: dict[str, str] = {}
        params = [a.arg for a in fn.args.args]
        if params:
            rl[params[0]] = "plaintext" if aead_method == "encrypt" else "data"
        if len(params) > 1:
            rl[params[1]] = "password"
        for n in ast.walk(fn):
            if isinstance(n, ast.Call) and isinstance(n.func, ast.Name) and n.func.id == "_derive_key" and len(n.args) == 2 \
                    and isinstance(n.args[1], ast.Name):
                rl[n.args[1].id] = "salt"
        for n in ast.walk(fn):
            if isinstance(n, ast.Call) and isinstance(n.func, ast.Attribute) and n.func.attr == aead_method and len(n.args) >= 2:
                if isinstance(n.args[0], ast.Name):
                    rl.setdefault(n.args[0].id, "nonce")
                if isinstance(n.args[1], ast.Name):
                    rl.setdefault(n.args[1].id, "ciphertext" if aead_method == "decrypt" else "plaintext")
            if isinstance(n, ast.Assign) and isinstance(n.targets[0], ast.Name) and isinstance(n.value, ast.Call) \
                    and isinstance(n.value.func, ast.Attribute) and n.value.func.attr == aead_method:
                rl.setdefault(n.targets[0].id, "ciphertext" if aead_method == "encrypt" else "plaintext")
            if isinstance(n, ast.Assign) and isinstance(n.targets[0], ast.Name) and isinstance(n.value, ast.Call) \
                    and isinstance(n.value.func, ast.Name) and n.value.func.id == "_derive_key":
                rl.setdefault(n.targets[0].id, "key")
        return rl

    def rname(rl: dict[str, str], e: ast.AST) -> str:
        return rl.get(e.id, e.id) if isinstance(e, ast.Name) else ast.unparse(e)

    if enc is not None:
        rl = roles(enc, "encrypt")
        for n in ast.walk(enc):
            if isinstance(n, ast.Assign) and isinstance(n.targets[0], ast.Name) and isinstance(n.value, ast.Call) \
                    and ast.unparse(n.value.func) == "os.urandom" and len(n.value.args) == 1:
                v = _eval(n.value.args[0], env)
                if rl.get(n.targets[0].id) == "salt" and v is not None:
                    r["encSaltLen"] = v
                if rl.get(n.targets[0].id) == "nonce" and v is not None:
                    r["encNonceLen"] = v
            if isinstance(n, ast.Return):
                parts: list[str] = []

                def flat(e: ast.AST) -> None:
                    if isinstance(e, ast.BinOp) and isinstance(e.op, ast.Add):
                        flat(e.left)
                        flat(e.right)
                    else:
                        parts.append(rname(rl, e))

                flat(n.value)
                r["blobOrder"] = parts
            if isinstance(n, ast.Call) and isinstance(n.func, ast.Attribute) and n.func.attr == "encrypt":
                r["sealArgs"] = [rname(rl, a) for a in n.args]
            if isinstance(n, ast.Assign) and isinstance(n.targets[0], ast.Name) and rl.get(n.targets[0].id) == "key":
                r["keyFromPasswordAndSalt"] = [rname(rl, a) for a in n.value.args] == ["password", "salt"]
    if dec is not None:
        rl = roles(dec, "decrypt")
        key_ok = False
        for n in ast.walk(dec):
            if isinstance(n, ast.Assign) and isinstance(n.targets[0], ast.Name):
                tname = rl.get(n.targets[0].id, n.targets[0].id)
                if tname == "min_length":
                    v = _eval(n.value, env)
                    if v is not None:
                        r["minLength"] = v
                    lits = [c.value for c in ast.walk(n.value) if isinstance(c, ast.Constant) and isinstance(c.value, int)]
                    r["tagLength"] = sum(lits) if lits else MISSING
                if isinstance(n.value, ast.Subscript) and isinstance(n.value.slice, ast.Slice) \
                        and isinstance(n.value.value, ast.Name) and rl.get(n.value.value.id) == "data":
                    sl = n.value.slice
                    lo = 0 if sl.lower is None else _eval(sl.lower, env)
                    hi = None if sl.upper is None else _eval(sl.upper, env)
                    if sl.step is None and lo is not None:
                        if tname == "salt" and hi is not None:
                            r["decSaltLo"], r["decSaltHi"] = lo, hi
                        elif tname == "nonce" and hi is not None:
                            r["decNonceLo"], r["decNonceHi"] = lo, hi
                        elif tname == "ciphertext":
                            r["decCtLo"], r["decCtOpen"] = lo, sl.upper is None
                if tname == "key" and isinstance(n.value, ast.Call):
                    key_ok = [rname(rl, a) for a in n.value.args] == ["password", "salt"]
            if isinstance(n, ast.If) and isinstance(n.test, ast.Compare) and isinstance(n.test.left, ast.Call) \
                    and ast.unparse(n.test.left.func) == "len" and len(n.test.left.args) == 1 \
                    and rname(rl, n.test.left.args[0]) == "data" and any(isinstance(x, ast.Raise) for x in n.body):
                r["minLengthCmp"] = type(n.test.ops[0]).__name__ + " " + ast.unparse(n.test.comparators[0])
            if isinstance(n, ast.Call) and isinstance(n.func, ast.Attribute) and n.func.attr == "decrypt":
                r["openArgs"] = [rname(rl, a) for a in n.args]
        r["keyFromPasswordAndSalt"] = r["keyFromPasswordAndSalt"] and key_ok
    if kdf is not None:
        for n in ast.walk(kdf):
            if isinstance(n, ast.Call) and ast.unparse(n.func) == "PBKDF2HMAC":
                for kw in n.keywords:
                    if kw.arg == "length":
                        r["kdfLength"] = _eval(kw.value, env) if _eval(kw.value, env) is not None else MISSING
                    if kw.arg == "iterations":
                        r["kdfIterations"] = _eval(kw.value, env) if _eval(kw.value, env) is not None else MISSING
                    if kw.arg == "algorithm":
                        r["kdfAlgorithm"] = ast.unparse(kw.value)
                    if kw.arg == "salt":
                        r["kdfSaltIsSalt"] = ast.unparse(kw.value) == "salt"
            if isinstance(n, ast.Call) and isinstance(n.func, ast.Attribute) and n.func.attr == "derive" and len(n.args) == 1:
                r["kdfPasswordEncoding"] = ast.unparse(n.args[0])
    return r


SIZE_FUNCS = ("create_backup_archive", "read_backup_archive", "_add_bytes_to_tar")
SIZE_FLOOR = 1024
COUNTED = ("deployments", "secrets", "generations")


def extract_sizes(tree: ast.Module | None, notes: list[str]) -> dict:
    """Size-dependent behaviour of the archive layer: tests on lengths / member sizes, bounded reads, size constants."""
    r: dict[str, Any] = {"sizeTests": [], "sizeConstants": []}
    if tree is None:
        r["sizeTests"] = ["<missing>"]
        return r
    env = _int_consts(tree)
    consts = {v for v in env.values() if v >= SIZE_FLOOR}
    tests: list[str] = []
    found = 0
    for fname in SIZE_FUNCS:
        fn = _func(tree, fname)
        if fn is None:
            notes.append(f"gen/archive: {fname} not found (size tests)")
            tests.append(f"<missing {fname}>")
            continue
        found += 1
        for n in ast.walk(fn):
            test = None
            if isinstance(n, (ast.If, ast.While, ast.IfExp, ast.Assert)):
                test = n.test
            elif isinstance(n, ast.comprehension) and n.ifs:
                test = ast.BoolOp(op=ast.And(), values=list(n.ifs)) if len(n.ifs) > 1 else n.ifs[0]
            if test is not None:
                src = ast.unparse(test)
                # counting the deployments / secrets / generations handed in is not a size test
                lens = [ast.unparse(c.args[0]) for c in ast.walk(test) if isinstance(c, ast.Call) and isinstance(c.func, ast.Name)
                        and c.func.id == "len" and len(c.args) == 1]
                if any(a not in COUNTED for a in lens) or ".size" in src or "sizeof" in src or "nbytes" in src:
                    tests.append(f"{fname}: {src}")
            if isinstance(n, ast.Call) and isinstance(n.func, ast.Attribute) and n.func.attr in ("read", "read1", "readinto") \
                    and (n.args or n.keywords):
                tests.append(f"{fname}: bounded {ast.unparse(n)}")
            if isinstance(n, (ast.Constant, ast.BinOp, ast.Name)):
                v = _eval(n, env)
                if isinstance(v, int) and v >= SIZE_FLOOR:
                    consts.add(v)
    r["sizeTests"] = tests
    r["sizeConstants"] = sorted(consts)
    return r


def size_hints(notes: list[str] | None = None) -> list[int]:
    """Integers of the backup modules that could be size bounds (for the harness: build members just below / at / above):
    archive.py's size constants, and in encryption.py every evaluable integer >= 1024 inside a comparison."""
    notes = [] if notes is None else notes
    a = _parse(ARCHIVE, notes)
    e = _parse(ENCRYPTION, notes)
    res = set(extract_sizes(a, notes)["sizeConstants"])
    if e is not None:
        env = _int_consts(e)
        for n in ast.walk(e):
            if isinstance(n, ast.Compare):
                for x in ast.walk(n):
                    v = _eval(x, env) if isinstance(x, (ast.Constant, ast.BinOp, ast.Name)) else None
                    if isinstance(v, int) and v >= SIZE_FLOOR:
                        res.add(v)
    return sorted(res)


def extract_dns(tree: ast.Module | None, notes: list[str]) -> str:
    if tree is not None:
        for n in ast.walk(tree):
            if isinstance(n, ast.Assign) and isinstance(n.targets[0], ast.Name) and n.targets[0].id == "_DNS_1035_RE" \
                    and isinstance(n.value, ast.Call) and n.value.args and isinstance(n.value.args[0], ast.Constant):
                return n.value.args[0].value
    notes.append("gen/archive: _DNS_1035_RE not found")
    return "<missing>"


def extract(notes: list[str]) -> dict:
    a = _parse(ARCHIVE, notes)
    e = _parse(ENCRYPTION, notes)
    s = _parse(SCHEMA, notes)
    return {"w": extract_writer(a, notes), "r": extract_reader(a, notes), "e": extract_encryption(e, notes),
            "dns": extract_dns(s, notes), "z": extract_sizes(a, notes)}


def generate(notes: list[str]) -> list[str]:
    x = extract(notes)
    w, r, e, z = x["w"], x["r"], x["e"], x["z"]
    b = lambda v: "true" if v else "false"
    strs = lambda l: "[" + ", ".join(lean_str(str(s)) for s in l) + "]"
    chain = "[" + ",\n   ".join(f"({b(k)}, {lean_chars(lit)}, {lean_chars(rm)}, {code})" for k, lit, rm, code in r["chain"]) + "]"
    return [
        "namespace GenArchive",
        "/-! archive.py, create_backup_archive -/",
        f"def manifestName : List Char := {lean_chars(w['manifestName'])}",
        f"def crSuffix : List Char := {lean_chars(w['crSuffix'])}",
        f"def secEncSuffix : List Char := {lean_chars(w['secEncSuffix'])}",
        f"def secClearSuffix : List Char := {lean_chars(w['secClearSuffix'])}",
        f"def metaSuffix : List Char := {lean_chars(w['metaSuffix'])}",
        f"def defaultName : List Char := {lean_chars(w['defaultName'])}",
        "/-- pieces of one deployment in the order written: 4 = CR, 1 = secret (either form), 2 = generation meta -/",
        f"def writeOrder : List Nat := {w['writeOrder']}",
        f"def manifestFirst : Bool := {b(w['manifestFirst'])}",
        f"def manifestKeys : List String := {strs(w['manifestKeys'])}",
        f"def writeVersion : Int := {w['writeVersion']}",
        "/-- 0 = `encryption_password is not None`, 1 = truthiness, 9 = other -/",
        f"def manifestEncTest : Nat := {w['manifestEncTest']}",
        f"def writeEncTest : Nat := {w['writeEncTest']}",
        f"def countIsLenDeployments : Bool := {b(w['countIsLenDeployments'])}",
        f"def secretGuardIsNotNone : Bool := {b(w['secretGuardIsNotNone'])}",
        f"def genGuard : String := {lean_str(w['genGuard'])}",
        f"def genKeyWrite : String := {lean_str(w['genKeyWrite'])}",
        f"def nameFromMetadata : Bool := {b(w['nameFromMetadata'])}",
        "/-! archive.py, read_backup_archive -/",
        "/-- the if/elif chain in source order: (endswith? (false = `==`), literal, removesuffix literal,",
        "    target: 0 manifest_data, 1 secret_files after decrypt, 2 meta_files, 3 secret_files, 4 cr_files, 9 unknown) -/",
        f"def readerChain : List (Bool × List Char × List Char × Nat) :=\n  {chain}",
        "/-- 0 = `encryption_password is None`, 1 = `not encryption_password`, 9 = other -/",
        f"def readNoPwTest : Nat := {r['readNoPwTest']}",
        f"def supportedVersion : Int := {r['supportedVersion']}",
        f"def versionDefault : Int := {r['versionDefault']}",
        f"def manifestKeysRead : List String := {strs(r['manifestKeysRead'])}",
        f"def genKeyRead : String := {lean_str(r['genKeyRead'])}",
        f"def entriesFromCrFiles : Bool := {b(r['entriesFromCrFiles'])}",
        f"def skipsNonFiles : Bool := {b(r['skipsNonFiles'])}",
        "/-- tests on a length / member size and bounded reads in create_backup_archive, read_backup_archive, _add_bytes_to_tar -/",
        f"def sizeTests : List String := {strs(z['sizeTests'])}",
        "/-- integers >= 1024 that archive.py defines at module level or mentions in those functions -/",
        f"def sizeConstants : List Nat := {z['sizeConstants']}",
        "/-! encryption.py -/",
        f"def saltLength : Nat := {e['saltLength']}",
        f"def nonceLength : Nat := {e['nonceLength']}",
        f"def keyLength : Nat := {e['keyLength']}",
        f"def pbkdf2Iterations : Nat := {e['pbkdf2Iterations']}",
        f"def encSaltLen : Nat := {e['encSaltLen']}",
        f"def encNonceLen : Nat := {e['encNonceLen']}",
        f"def blobOrder : List String := {strs(e['blobOrder'])}",
        f"def minLength : Nat := {e['minLength']}",
        f"def minLengthCmp : String := {lean_str(e['minLengthCmp'])}",
        "/-- the integer literal(s) in `min_length = ...`: the AEAD tag the framing reserves room for -/",
        f"def tagLength : Nat := {e['tagLength']}",
        f"def decSaltLo : Nat := {e['decSaltLo']}",
        f"def decSaltHi : Nat := {e['decSaltHi']}",
        f"def decNonceLo : Nat := {e['decNonceLo']}",
        f"def decNonceHi : Nat := {e['decNonceHi']}",
        f"def decCtLo : Nat := {e['decCtLo']}",
        f"def decCtOpen : Bool := {b(e['decCtOpen'])}",
        f"def kdfLength : Nat := {e['kdfLength']}",
        f"def kdfIterations : Nat := {e['kdfIterations']}",
        f"def kdfAlgorithm : String := {lean_str(e['kdfAlgorithm'])}",
        f"def kdfSaltIsSalt : Bool := {b(e['kdfSaltIsSalt'])}",
        f"def kdfPasswordEncoding : String := {lean_str(e['kdfPasswordEncoding'])}",
        f"def keyFromPasswordAndSalt : Bool := {b(e['keyFromPasswordAndSalt'])}",
        f"def sealArgs : List String := {strs(e['sealArgs'])}",
        f"def openArgs : List String := {strs(e['openArgs'])}",
        "/-! core/schema/deployments.py -/",
        f"def dns1035Regex : String := {lean_str(x['dns'])}",
        "end GenArchive",
    ]
