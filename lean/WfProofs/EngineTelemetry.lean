import WfProofs.EngineReduce
/-!
Lifecycle telemetry (C35): reading the `StepStateChanged` publishes of a tick's
command list *in order* as an automaton over "open" (step, worker) slots —
`RUNNING` needs a closed slot and opens it, `NOT_RUNNING` needs an open slot and
closes it — the automaton never gets stuck and moves from the slot table of the
state before the tick to the slot table of the state after it.
-/
set_option linter.unusedSimpArgs false
set_option linter.unusedVariables false

namespace Engine

abbrev Open := Nat → Nat → Bool

def Open.upd (o : Open) (s w : Nat) (b : Bool) : Open :=
  fun s' w' => if s' = s ∧ w' = w then b else o s' w'

/-- `Valid o cmds o'`: the telemetry in `cmds` is well-ordered starting from the open
slots `o` and leaves the open slots `o'`. -/
inductive Valid : Open → List Cmd → Open → Prop
  | nil (o : Open) : Valid o [] o
  | running (o o' : Open) (s inTy : Nat) (out : OutName) (w : Nat) (cs : List Cmd) :
      o s w = false → Valid (o.upd s w true) cs o' →
      Valid o (.publish (.stepState .running s inTy out (some w)) :: cs) o'
  | notRunning (o o' : Open) (s inTy : Nat) (out : OutName) (w : Nat) (cs : List Cmd) :
      o s w = true → Valid (o.upd s w false) cs o' →
      Valid o (.publish (.stepState .notRunning s inTy out (some w)) :: cs) o'
  | other (o o' : Open) (c : Cmd) (cs : List Cmd) :
      (∀ s inTy out w, c ≠ .publish (.stepState .running s inTy out (some w))) →
      (∀ s inTy out w, c ≠ .publish (.stepState .notRunning s inTy out (some w))) →
      Valid o cs o' → Valid o (c :: cs) o'

theorem Valid.append {o1 o2 o3 : Open} {a b : List Cmd} (h1 : Valid o1 a o2) (h2 : Valid o2 b o3) :
    Valid o1 (a ++ b) o3 := by
  induction h1 with
  | nil o => simpa using h2
  | running o o' s inTy out w cs hclosed _ ih => exact Valid.running _ _ _ _ _ _ _ hclosed (ih h2)
  | notRunning o o' s inTy out w cs hopen _ ih => exact Valid.notRunning _ _ _ _ _ _ _ hopen (ih h2)
  | other o o' c cs hn1 hn2 _ ih => exact Valid.other _ _ _ _ hn1 hn2 (ih h2)

/-- a command that is not lifecycle telemetry with a worker id -/
def Neutral (c : Cmd) : Prop :=
  (∀ s inTy out w, c ≠ .publish (.stepState .running s inTy out (some w))) ∧
  (∀ s inTy out w, c ≠ .publish (.stepState .notRunning s inTy out (some w)))

theorem Valid.of_neutral (o : Open) : ∀ (cs : List Cmd), (∀ c ∈ cs, Neutral c) → Valid o cs o
  | [], _ => Valid.nil o
  | c :: cs, h =>
    Valid.other _ _ _ _ (h c (by simp)).1 (h c (by simp)).2
      (Valid.of_neutral o cs (fun d hd => h d (by simp [hd])))

/-- the open-slot view of one step agrees with its in-progress table -/
def AgreeS (o : Open) (s : Nat) (ss : StepState) : Prop :=
  ∀ w, o s w = true ↔ w ∈ usedIds ss

theorem AgreeS.upd_other {o : Open} {s t : Nat} {ss : StepState} (h : AgreeS o s ss) (hne : s ≠ t)
    (w : Nat) (b : Bool) : AgreeS (o.upd t w b) s ss := by
  intro w'
  simp only [Open.upd]
  split
  · rename_i hh; exact absurd hh.1 hne
  · exact h w'

/-! ### `addOrEnqueue` -/

theorem addOrEnqueue_valid (att : Attempt) (step : Nat) (ss : StepState) (nw : Nat) (now : Int)
    (o : Open) (hok : IdsOk ss nw) (hag : AgreeS o step ss) :
    ∃ o', Valid o (addOrEnqueue att step ss nw now).2 o' ∧
      AgreeS o' step (addOrEnqueue att step ss nw now).1 ∧
      (∀ t, t ≠ step → ∀ w, o' t w = o t w) := by
  unfold addOrEnqueue
  by_cases hlt : ss.inProg.length < nw
  · simp only [hlt, ↓reduceIte]
    cases hfree : freeIds ss nw with
    | nil => exact absurd hfree (freeIds_ne_nil hok hlt)
    | cons i rest =>
      have hmem : i ∈ freeIds ss nw := by rw [hfree]; simp
      obtain ⟨_, hnot⟩ := mem_freeIds hmem
      have hclosed : o step i = false := by
        cases hc : o step i with
        | false => rfl
        | true => exact absurd ((hag i).mp hc) hnot
      refine ⟨o.upd step i true, ?_, ?_, ?_⟩
      · apply Valid.other
        · intro s inTy out w; simp
        · intro s inTy out w; simp
        · exact Valid.running _ _ _ _ _ _ _ hclosed (Valid.nil _)
      · intro w
        simp only [Open.upd, usedIds, List.map_append, List.map_cons, List.map_nil, List.mem_append,
          List.mem_singleton, true_and]
        by_cases hw : w = i
        · subst hw; simp
        · simp only [hw, ↓reduceIte, or_false]
          exact hag w
      · intro t ht w
        simp only [Open.upd]
        split
        · rename_i hh; exact absurd hh.1 ht
        · rfl
  · simp only [hlt, ↓reduceIte]
    refine ⟨o, ?_, hag, fun _ _ _ => rfl⟩
    apply Valid.other
    · intro s inTy out w; simp
    · intro s inTy out w; simp
    · exact Valid.nil _

theorem drain_valid (step nw : Nat) (now : Int) :
    ∀ (fuel : Nat) (ss : StepState) (o : Open), IdsOk ss nw → AgreeS o step ss →
      ∃ o', Valid o (drain step nw now fuel ss).2 o' ∧ AgreeS o' step (drain step nw now fuel ss).1 ∧
        (∀ t, t ≠ step → ∀ w, o' t w = o t w)
  | 0, ss, o, _, hag => ⟨o, by simp [drain]; exact Valid.nil _, by simpa [drain] using hag, fun _ _ _ => rfl⟩
  | fuel + 1, ss, o, hok, hag => by
    unfold drain
    split
    · exact ⟨o, Valid.nil _, hag, fun _ _ _ => rfl⟩
    · rename_i a q hq
      split
      · have hok1 : IdsOk { ss with queue := q } nw := hok
        have hag1 : AgreeS o step { ss with queue := q } := hag
        obtain ⟨o1, hv1, ha1, hf1⟩ := addOrEnqueue_valid a step _ nw now o hok1 hag1
        obtain ⟨o2, hv2, ha2, hf2⟩ := drain_valid step nw now fuel _ o1
          (addOrEnqueue_idsOk a step _ nw now hok1) ha1
        exact ⟨o2, hv1.append hv2, ha2, fun t ht w => (hf2 t ht w).trans (hf1 t ht w)⟩
      · exact ⟨o, Valid.nil _, hag, fun _ _ _ => rfl⟩

theorem resolveLoop_valid (ev : Ev) (step nw : Nat) (now : Int) :
    ∀ (rest done : List Waiter) (ss : StepState) (cmds : List Cmd) (hd : Bool) (o0 o : Open),
      IdsOk ss nw → AgreeS o step ss → Valid o0 cmds o → (∀ t, t ≠ step → ∀ w, o t w = o0 t w) →
      ∃ o', Valid o0 (resolveLoop ev step nw now done rest ss cmds hd).2.1 o' ∧
        AgreeS o' step (resolveLoop ev step nw now done rest ss cmds hd).1 ∧
        (∀ t, t ≠ step → ∀ w, o' t w = o0 t w)
  | [], done, ss, cmds, hd, o0, o, hok, hag, hv, hf => by
    refine ⟨o, ?_, ?_, hf⟩
    · simpa [resolveLoop] using hv
    · simp only [resolveLoop]; exact hag
  | w :: rest, done, ss, cmds, hd, o0, o, hok, hag, hv, hf => by
    unfold resolveLoop
    split
    · have hok1 : IdsOk { ss with waiters := done ++ { w with resolved := some ev } :: rest } nw := hok
      have hag1 : AgreeS o step { ss with waiters := done ++ { w with resolved := some ev } :: rest } := hag
      obtain ⟨o1, hv1, ha1, hf1⟩ := addOrEnqueue_valid w.replay step _ nw now o hok1 hag1
      exact resolveLoop_valid ev step nw now rest _ _ _ _ o0 o1
        (addOrEnqueue_idsOk _ step _ nw now hok1) ha1 (hv.append hv1)
        (fun t ht w' => (hf1 t ht w').trans (hf t ht w'))
    · exact resolveLoop_valid ev step nw now rest _ ss cmds hd o0 o hok hag hv hf

/-! ### whole-state agreement -/

def Agree (cfg : Cfg) (o : Open) (st : State) : Prop :=
  ∀ c ∈ cfg.steps, AgreeS o c.name (st.workers c.name)

theorem Agree.set {cfg : Cfg} (hwf : cfg.WF) {o o' : Open} {st : State} (h : Agree cfg o st)
    {c : StepCfg} (hc : c ∈ cfg.steps) {ss : StepState} (hs : AgreeS o' c.name ss)
    (hf : ∀ t, t ≠ c.name → ∀ w, o' t w = o t w) : Agree cfg o' (st.set c.name ss) := by
  intro d hd
  simp only [State.set]
  split
  · rename_i heq; rw [heq]; exact hs
  · rename_i hne
    intro w
    rw [hf d.name hne w]
    exact h d hd w

theorem Agree.of_inProg_eq {cfg : Cfg} {o : Open} {st st' : State} (h : Agree cfg o st)
    (heq : ∀ s, (st'.workers s).inProg = (st.workers s).inProg) : Agree cfg o st' := by
  intro c hc w
  have := h c hc w
  simpa [usedIds, heq c.name] using this

/-! ### add-event -/

theorem addEventWaiters_valid (cfg : Cfg) (hwf : cfg.WF) (ev : Ev) (target : Option Nat) (now : Int) :
    ∀ (cs : List StepCfg) (acc : AddAcc) (o0 o : Open), (∀ c ∈ cs, c ∈ cfg.steps) →
      IdsInv cfg acc.st → Agree cfg o acc.st → Valid o0 acc.cmds o →
      ∃ o', Valid o0 (addEventWaiters cfg ev target now cs acc).cmds o' ∧
        Agree cfg o' (addEventWaiters cfg ev target now cs acc).st
  | [], acc, o0, o, _, _, hag, hv => ⟨o, by simpa [addEventWaiters] using hv, by simpa [addEventWaiters] using hag⟩
  | c :: cs, acc, o0, o, hsub, hinv, hag, hv => by
    have hc : c ∈ cfg.steps := hsub c (by simp)
    have hsub' : ∀ d ∈ cs, d ∈ cfg.steps := fun d hd => hsub d (by simp [hd])
    unfold addEventWaiters
    split
    · exact addEventWaiters_valid cfg hwf ev target now cs acc o0 o hsub' hinv hag hv
    · obtain ⟨o1, hv1, ha1, hf1⟩ := resolveLoop_valid ev c.name c.numWorkers now
        (acc.st.workers c.name).waiters [] (acc.st.workers c.name) [] false o o
        (hinv c hc) (hag c hc) (Valid.nil _) (fun _ _ _ => rfl)
      dsimp only
      split
      · apply addEventWaiters_valid cfg hwf ev target now cs _ o0 o1 hsub'
        · exact IdsInv.set hwf hinv hc (resolveLoop_idsOk _ _ _ _ _ _ _ _ _ (hinv c hc))
        · exact Agree.set hwf hag hc ha1 hf1
        · exact hv.append hv1
      · exact addEventWaiters_valid cfg hwf ev target now cs acc o0 o hsub' hinv hag hv

theorem addEventRoute_valid (cfg : Cfg) (hwf : cfg.WF) (att : Attempt) (target : Option Nat) (now : Int) :
    ∀ (cs : List StepCfg) (acc : AddAcc) (o0 o : Open), (∀ c ∈ cs, c ∈ cfg.steps) →
      IdsInv cfg acc.st → Agree cfg o acc.st → Valid o0 acc.cmds o →
      ∃ o', Valid o0 (addEventRoute att target now cs acc).cmds o' ∧
        Agree cfg o' (addEventRoute att target now cs acc).st
  | [], acc, o0, o, _, _, hag, hv => ⟨o, by simpa [addEventRoute] using hv, by simpa [addEventRoute] using hag⟩
  | c :: cs, acc, o0, o, hsub, hinv, hag, hv => by
    have hc : c ∈ cfg.steps := hsub c (by simp)
    have hsub' : ∀ d ∈ cs, d ∈ cfg.steps := fun d hd => hsub d (by simp [hd])
    unfold addEventRoute
    split
    · exact addEventRoute_valid cfg hwf att target now cs acc o0 o hsub' hinv hag hv
    · split
      · obtain ⟨o1, hv1, ha1, hf1⟩ := addOrEnqueue_valid att c.name (acc.st.workers c.name)
          c.numWorkers now o (hinv c hc) (hag c hc)
        apply addEventRoute_valid cfg hwf att target now cs _ o0 o1 hsub'
        · exact IdsInv.set hwf hinv hc (addOrEnqueue_idsOk _ _ _ _ _ (hinv c hc))
        · exact Agree.set hwf hag hc ha1 hf1
        · exact hv.append hv1
      · exact addEventRoute_valid cfg hwf att target now cs acc o0 o hsub' hinv hag hv

theorem unhandledCmds_neutral (cfg : Cfg) (att : Attempt) (target : Option Nat) (a : AddAcc) :
    ∀ c ∈ unhandledCmds cfg att target a, Neutral c := by
  intro c hc
  unfold unhandledCmds at hc
  split at hc
  · simp at hc
  · split at hc
    · simp at hc
    · simp only [List.mem_singleton] at hc
      subst hc
      exact ⟨by intro s i o w; simp, by intro s i o w; simp⟩

theorem processAddEvent_valid (cfg : Cfg) (hwf : cfg.WF) (att : Attempt) (target : Option Nat)
    (st : State) (now : Int) (o : Open) (hinv : IdsInv cfg st) (hag : Agree cfg o st) :
    ∃ o', Valid o (processAddEvent cfg att target st now).2 o' ∧
      Agree cfg o' (processAddEvent cfg att target st now).1 := by
  have hinv0 : IdsInv cfg (addEventStart att st) := by unfold addEventStart; split <;> exact hinv
  have hag0 : Agree cfg o (addEventStart att st) := by unfold addEventStart; split <;> exact hag
  obtain ⟨o1, hv1, ha1⟩ := addEventWaiters_valid cfg hwf att.ev target now cfg.steps
    { st := addEventStart att st } o o (fun _ h => h) hinv0 hag0 (Valid.nil _)
  have hinv1 := addEventWaiters_idsInv cfg hwf att.ev target now cfg.steps
    { st := addEventStart att st } (fun _ h => h) hinv0
  obtain ⟨o2, hv2, ha2⟩ := addEventRoute_valid cfg hwf att target now cfg.steps _ o o1
    (fun _ h => h) hinv1 ha1 hv1
  refine ⟨o2, ?_, ha2⟩
  show Valid o (_ ++ unhandledCmds cfg att target _) o2
  exact hv2.append (Valid.of_neutral _ _ (unhandledCmds_neutral cfg att target _))

/-! ### step results -/

theorem applyRes_neutral (cfg : Cfg) (pol : Policy) (step : Nat) (tickEv : Ev) (dc : Bool)
    (acc : ResAcc) (r : Res) (h : ∀ c ∈ acc.cmds, Neutral c) :
    ∀ c ∈ (applyRes cfg pol step tickEv dc acc r).cmds, Neutral c := by
  have neutral_of : ∀ (l : List Cmd), (∀ c ∈ l, Neutral c) → ∀ c ∈ acc.cmds ++ l, Neutral c := by
    intro l hl c hc
    rcases List.mem_append.mp hc with hc | hc
    · exact h c hc
    · exact hl c hc
  cases r with
  | result r =>
    cases r with
    | none => simpa [applyRes] using h
    | some ev =>
      simp only [applyRes]
      split
      · apply neutral_of
        intro c hc
        simp only [List.mem_cons, List.mem_nil_iff, or_false] at hc
        rcases hc with hc | hc <;> subst hc <;> exact ⟨by intro s i o w; simp, by intro s i o w; simp⟩
      · simp only [List.append_assoc]
        apply neutral_of
        intro c hc
        simp only [List.mem_append, List.mem_singleton] at hc
        rcases hc with hc | hc
        · split at hc
          · simp only [List.mem_singleton] at hc; subst hc
            exact ⟨by intro s i o w; simp, by intro s i o w; simp⟩
          · simp at hc
        · subst hc; exact ⟨by intro s i o w; simp, by intro s i o w; simp⟩
  | failed exc failedAt =>
    simp only [applyRes]
    split
    · exact h
    split
    · apply neutral_of
      intro c hc; simp only [List.mem_singleton] at hc; subst hc
      exact ⟨by intro s i o w; simp, by intro s i o w; simp⟩
    all_goals
      split
      · split
        · apply neutral_of
          intro c hc; simp only [List.mem_singleton] at hc; subst hc
          exact ⟨by intro s i o w; simp, by intro s i o w; simp⟩
        · apply neutral_of
          intro c hc
          simp only [List.mem_cons, List.mem_nil_iff, or_false] at hc
          rcases hc with hc | hc <;> subst hc <;> exact ⟨by intro s i o w; simp, by intro s i o w; simp⟩
      · apply neutral_of
        intro c hc
        simp only [List.mem_cons, List.mem_nil_iff, or_false] at hc
        rcases hc with hc | hc <;> subst hc <;> exact ⟨by intro s i o w; simp, by intro s i o w; simp⟩
  | addCollected buf ev =>
    simp only [applyRes]
    split
    · exact h
    split
    · apply neutral_of
      intro c hc; simp only [List.mem_singleton] at hc; subst hc
      exact ⟨by intro s i o w; simp, by intro s i o w; simp⟩
    · exact h
  | deleteCollected buf =>
    simp only [applyRes]
    split <;> exact h
  | addWaiter wid waiterEv req timeout ty =>
    simp only [applyRes]
    split
    · exact h
    · simp only [List.append_assoc]
      apply neutral_of
      intro c hc
      simp only [List.mem_append] at hc
      rcases hc with hc | hc
      · cases waiterEv with
        | none => simp at hc
        | some e =>
          simp only [List.mem_singleton] at hc; subst hc
          exact ⟨by intro s i o w; simp, by intro s i o w; simp⟩
      · cases timeout with
        | none => simp at hc
        | some t =>
          simp only [List.mem_singleton] at hc; subst hc
          exact ⟨by intro s i o w; simp, by intro s i o w; simp⟩
  | deleteWaiter wid =>
    simp only [applyRes]
    split <;> exact h

theorem foldl_applyRes_neutral (cfg : Cfg) (pol : Policy) (step : Nat) (tickEv : Ev) (dc : Bool) :
    ∀ (res : List Res) (acc : ResAcc), (∀ c ∈ acc.cmds, Neutral c) →
      ∀ c ∈ (res.foldl (applyRes cfg pol step tickEv dc) acc).cmds, Neutral c
  | [], acc, h => by simpa using h
  | r :: rs, acc, h => by
    simp only [List.foldl_cons]
    exact foldl_applyRes_neutral cfg pol step tickEv dc rs _ (applyRes_neutral cfg pol step tickEv dc acc r h)

theorem mem_eraseP_wid (worker : Nat) :
    ∀ (l : List InProg), (l.map (·.wid)).Nodup → ∀ w,
      (w ∈ (l.eraseP (fun x => x.wid == worker)).map (·.wid) ↔ (w ∈ l.map (·.wid) ∧ w ≠ worker))
  | [], _, w => by simp
  | x :: xs, hnd, w => by
    simp only [List.map_cons, List.nodup_cons] at hnd
    simp only [List.eraseP_cons]
    by_cases hx : x.wid = worker
    · have : (x.wid == worker) = true := by simpa using hx
      simp only [this, cond_true, List.map_cons, List.mem_cons]
      constructor
      · intro hw
        refine ⟨Or.inr hw, ?_⟩
        intro hww; subst hww
        rw [← hx] at hw; exact hnd.1 hw
      · rintro ⟨hw | hw, hne⟩
        · exact absurd (hw.trans hx) hne
        · exact hw
    · have : (x.wid == worker) = false := by simpa using hx
      simp only [this, cond_false, List.map_cons, List.mem_cons]
      rw [mem_eraseP_wid worker xs hnd.2 w]
      constructor
      · rintro (hw | ⟨hw, hne⟩)
        · exact ⟨Or.inl hw, by rw [hw]; exact hx⟩
        · exact ⟨Or.inr hw, hne⟩
      · rintro ⟨hw | hw, hne⟩
        · exact Or.inl hw
        · exact Or.inr ⟨hw, hne⟩

theorem settle_valid (acc : ResAcc) (step worker : Nat) (tickEv : Ev) (nw : Nat) (o : Open)
    (hwid : acc.exec.wid = worker) (hok : IdsOk (acc.st.workers step) nw)
    (hmem : worker ∈ usedIds (acc.st.workers step))
    (hag : AgreeS o step (acc.st.workers step)) (hneu : ∀ c ∈ acc.cmds, Neutral c) :
    ∃ o', Valid o (settle acc step worker tickEv).2 o' ∧
      AgreeS o' step (settle acc step worker tickEv).1 ∧ (∀ t, t ≠ step → ∀ w, o' t w = o t w) := by
  unfold settle
  simp only
  split
  · refine ⟨o, Valid.of_neutral _ _ hneu, ?_, fun _ _ _ => rfl⟩
    intro w
    simp only [usedIds]
    rw [map_wid_modifyFirst worker acc.exec hwid]
    exact hag w
  · refine ⟨o.upd step worker false, ?_, ?_, ?_⟩
    · exact Valid.notRunning _ _ _ _ _ _ _ ((hag worker).mpr hmem) (Valid.of_neutral _ _ hneu)
    · intro w
      simp only [usedIds]
      rw [mem_eraseP_wid worker _ hok.1 w]
      simp only [Open.upd, true_and]
      by_cases hw : w = worker
      · subst hw; simp
      · simp only [hw, ↓reduceIte, ne_eq, not_false_eq_true, and_true]
        exact hag w
    · intro t ht w
      simp only [Open.upd]
      split
      · rename_i hh; exact absurd hh.1 ht
      · rfl

theorem processStepResult_valid (cfg : Cfg) (hwf : cfg.WF) (pol : Policy) (step worker : Nat)
    (tickEv : Ev) (res : List Res) (st : State) (now : Int) (o : Open)
    (hinv : IdsInv cfg st) (hag : Agree cfg o st)
    (hnc : Cmd.crash ∉ (processStepResult cfg pol step worker tickEv res st now).2) :
    ∃ o', Valid o (processStepResult cfg pol step worker tickEv res st now).2 o' ∧
      Agree cfg o' (processStepResult cfg pol step worker tickEv res st now).1 := by
  unfold processStepResult at hnc ⊢
  split
  · rename_i h; simp [h] at hnc
  · rename_i hhas
    simp only [hhas, ↓reduceIte] at hnc
    split
    · rename_i h; simp [h] at hnc
    · rename_i exec hfind
      obtain ⟨c, hc⟩ := hasStep_find hhas
      obtain ⟨hcmem, hcname⟩ := Cfg.mem_of_find hc
      subst hcname
      have hnw : cfg.nw c.name = c.numWorkers := Cfg.nw_of_mem hwf hcmem
      have hfold := foldl_applyRes_inProg cfg pol c.name tickEv (res.any isResult) res
        { st := st, exec := exec }
      have hneu := foldl_applyRes_neutral cfg pol c.name tickEv (res.any isResult) res
        { st := st, exec := exec } (by simp)
      have hinv1 : IdsInv cfg (res.foldl (applyRes cfg pol c.name tickEv (res.any isResult))
          { st := st, exec := exec }).st := IdsInv.of_inProg_eq hinv hfold.1
      have hag1 : Agree cfg o (res.foldl (applyRes cfg pol c.name tickEv (res.any isResult))
          { st := st, exec := exec }).st := Agree.of_inProg_eq hag hfold.1
      have hwid : (res.foldl (applyRes cfg pol c.name tickEv (res.any isResult))
          { st := st, exec := exec }).exec.wid = worker := by
        rw [hfold.2]; exact find?_wid hfind
      have hmem0 : worker ∈ usedIds (st.workers c.name) := by
        have := List.mem_of_find?_eq_some hfind
        have hw := find?_wid hfind
        simp only [usedIds, List.mem_map]
        exact ⟨exec, this, hw⟩
      have hmem1 : worker ∈ usedIds ((res.foldl (applyRes cfg pol c.name tickEv (res.any isResult))
          { st := st, exec := exec }).st.workers c.name) := by
        simpa [usedIds, hfold.1 c.name] using hmem0
      simp only
      generalize (res.foldl (applyRes cfg pol c.name tickEv (res.any isResult))
          { st := st, exec := exec }) = acc at hinv1 hag1 hwid hmem1 hneu
      obtain ⟨o1, hv1, ha1, hf1⟩ := settle_valid acc c.name worker tickEv c.numWorkers o hwid
        (hinv1 c hcmem) hmem1 (hag1 c hcmem) hneu
      have hss1 := settle_idsOk acc c.name worker tickEv c.numWorkers hwid (hinv1 c hcmem)
      split
      · exact ⟨o1, hv1, Agree.set hwf hag1 hcmem ha1 hf1⟩
      · rw [hnw]
        obtain ⟨o2, hv2, ha2, hf2⟩ := drain_valid c.name c.numWorkers now _ _ o1 hss1 ha1
        refine ⟨o2, hv1.append hv2, ?_⟩
        exact Agree.set hwf hag1 hcmem ha2 (fun t ht w => (hf2 t ht w).trans (hf1 t ht w))

theorem processWaiterTimeout_valid (cfg : Cfg) (hwf : cfg.WF) (step waiter : Nat) (st : State)
    (now : Int) (o : Open) (hinv : IdsInv cfg st) (hag : Agree cfg o st) :
    ∃ o', Valid o (processWaiterTimeout cfg step waiter st now).2 o' ∧
      Agree cfg o' (processWaiterTimeout cfg step waiter st now).1 := by
  unfold processWaiterTimeout
  split
  · exact ⟨o, Valid.nil _, hag⟩
  · rename_i hhas
    dsimp only
    split
    · exact ⟨o, Valid.nil _, hag⟩
    · rename_i wt hfindw
      split
      · exact ⟨o, Valid.nil _, hag⟩
      · obtain ⟨c, hc⟩ := hasStep_find hhas
        obtain ⟨hcmem, hcname⟩ := Cfg.mem_of_find hc
        subst hcname
        have hnw : cfg.nw c.name = c.numWorkers := Cfg.nw_of_mem hwf hcmem
        rw [hnw]
        obtain ⟨o1, hv1, ha1, hf1⟩ := addOrEnqueue_valid wt.replay c.name
          { st.workers c.name with
            waiters := modifyFirst (fun x => x.wid == waiter) (fun x => { x with timedOut := true })
              (st.workers c.name).waiters } c.numWorkers now o (hinv c hcmem) (hag c hcmem)
        exact ⟨o1, hv1, Agree.set hwf hag hcmem ha1 hf1⟩

theorem valid_snoc_neutral {o o' : Open} {cs : List Cmd} (h : Valid o cs o') (c : Cmd) (hn : Neutral c) :
    Valid o (cs ++ [c]) o' :=
  h.append (Valid.other _ _ _ _ hn.1 hn.2 (Valid.nil _))

/-- **C35, one tick**: the lifecycle telemetry of any tick's command list is
well-ordered from the slot table before the tick to the slot table after it. -/
theorem reduce_valid (cfg : Cfg) (hwf : cfg.WF) (pol : Policy) (tick : Tick) (st : State) (now : Int)
    (o : Open) (hinv : IdsInv cfg st) (hag : Agree cfg o st)
    (hnc : Cmd.crash ∉ (reduce cfg pol tick st now).2) :
    ∃ o', Valid o (reduce cfg pol tick st now).2 o' ∧ Agree cfg o' (reduce cfg pol tick st now).1 := by
  have hidle : Neutral Cmd.scheduleIdleCheck := ⟨by intro s i o w; simp, by intro s i o w; simp⟩
  have wrap : ∀ (r : State × List Cmd), (∃ o', Valid o r.2 o' ∧ Agree cfg o' r.1) →
      ∃ o', Valid o (if checkIdle cfg r.1 then (r.1, r.2 ++ [Cmd.scheduleIdleCheck]) else r).2 o' ∧
        Agree cfg o' (if checkIdle cfg r.1 then (r.1, r.2 ++ [Cmd.scheduleIdleCheck]) else r).1 := by
    intro r ⟨o', hv, ha⟩
    split
    · exact ⟨o', valid_snoc_neutral hv _ hidle, ha⟩
    · exact ⟨o', hv, ha⟩
  unfold reduce at hnc ⊢
  cases tick with
  | stepResult step worker ev res =>
    simp only at hnc ⊢
    apply wrap
    apply processStepResult_valid cfg hwf pol step worker ev res st now o hinv hag
    intro hcr
    apply hnc
    split
    · simp [hcr]
    · exact hcr
  | addEvent att target =>
    simp only
    exact wrap _ (processAddEvent_valid cfg hwf att target st now o hinv hag)
  | cancelRun =>
    simp only
    apply wrap (st, _)
    refine ⟨o, ?_, hag⟩
    apply Valid.of_neutral
    intro c hc
    simp only [List.mem_cons, List.mem_nil_iff, or_false] at hc
    rcases hc with hc | hc <;> subst hc <;> exact ⟨by intro s i o w; simp, by intro s i o w; simp⟩
  | idleRelease =>
    refine ⟨o, ?_, hag⟩
    apply Valid.of_neutral
    intro c hc
    simp only [List.mem_singleton] at hc; subst hc
    exact ⟨by intro s i o w; simp, by intro s i o w; simp⟩
  | publish ev =>
    simp only
    apply wrap (st, _)
    refine ⟨o, ?_, hag⟩
    apply Valid.of_neutral
    intro c hc
    simp only [List.mem_singleton] at hc; subst hc
    exact ⟨by intro s i o w; simp, by intro s i o w; simp⟩
  | timeout t =>
    simp only
    apply wrap ({ st with isRunning := false }, _)
    refine ⟨o, ?_, hag⟩
    apply Valid.of_neutral
    intro c hc
    simp only [List.mem_cons, List.mem_nil_iff, or_false] at hc
    rcases hc with hc | hc <;> subst hc <;> exact ⟨by intro s i o w; simp, by intro s i o w; simp⟩
  | waiterTimeout step waiter =>
    simp only
    exact wrap _ (processWaiterTimeout_valid cfg hwf step waiter st now o hinv hag)
  | idleCheck =>
    simp only
    split
    · refine ⟨o, ?_, hag⟩
      apply Valid.of_neutral
      intro c hc
      simp only [List.mem_singleton] at hc; subst hc
      exact ⟨by intro s i o w; simp, by intro s i o w; simp⟩
    · exact ⟨o, Valid.nil _, hag⟩

end Engine

namespace Engine

/-! ### rewind -/

theorem rewindLoop_valid (cfg : Cfg) (hwf : cfg.WF) (now : Int) :
    ∀ (cs : List StepCfg) (st : State) (cmds : List Cmd) (o0 o : Open),
      (∀ c ∈ cs, c ∈ cfg.steps) → (cs.map (·.name)).Nodup →
      (∀ c ∈ cs, ∀ w, o c.name w = false) → Valid o0 cmds o →
      ∃ o', Valid o0 (rewindLoop now cs st cmds).2 o' ∧
        (∀ c ∈ cs, AgreeS o' c.name ((rewindLoop now cs st cmds).1.workers c.name)) ∧
        (∀ t, t ∉ cs.map (·.name) → ∀ w, o' t w = o t w) ∧
        (∀ t, t ∉ cs.map (·.name) → (rewindLoop now cs st cmds).1.workers t = st.workers t)
  | [], st, cmds, o0, o, _, _, _, hv => by
    refine ⟨o, by simpa [rewindLoop] using hv, by simp, fun _ _ _ => rfl, fun _ _ => by simp [rewindLoop]⟩
  | c :: cs, st, cmds, o0, o, hsub, hnd, hclosed, hv => by
    simp only [List.map_cons, List.nodup_cons] at hnd
    unfold rewindLoop
    -- this step
    have hag0 : AgreeS o c.name
        { st.workers c.name with
          queue := ((st.workers c.name).inProg.map inProgToAttempt).reverse ++ (st.workers c.name).queue,
          inProg := [] } := by
      intro w; simp [usedIds, hclosed c (by simp) w]
    have hok0 : IdsOk
        { st.workers c.name with
          queue := ((st.workers c.name).inProg.map inProgToAttempt).reverse ++ (st.workers c.name).queue,
          inProg := [] } c.numWorkers := by simp [IdsOk, usedIds]
    obtain ⟨o1, hv1, ha1, hf1⟩ := drain_valid c.name c.numWorkers now _ _ o hok0 hag0
    have hclosed' : ∀ d ∈ cs, ∀ w, o1 d.name w = false := by
      intro d hd w
      have hne : d.name ≠ c.name := by
        intro heq; apply hnd.1; rw [← heq]; exact List.mem_map_of_mem hd
      rw [hf1 d.name hne w]; exact hclosed d (by simp [hd]) w
    obtain ⟨o2, hv2, ha2, hf2, hst2⟩ := rewindLoop_valid cfg hwf now cs
      (st.set c.name (rewindStep c (st.workers c.name) now).1)
      (cmds ++ (rewindStep c (st.workers c.name) now).2) o0 o1
      (fun d hd => hsub d (by simp [hd])) hnd.2 hclosed' (hv.append hv1)
    refine ⟨o2, hv2, ?_, ?_, ?_⟩
    · intro d hd
      rcases List.mem_cons.mp hd with hd | hd
      · subst hd
        have hnot : d.name ∉ cs.map (·.name) := hnd.1
        rw [hst2 d.name hnot]
        intro w
        rw [hf2 d.name hnot w]
        simp only [State.set, ↓reduceIte]
        exact ha1 w
      · exact ha2 d hd
    · intro t ht w
      simp only [List.map_cons, List.mem_cons, not_or] at ht
      rw [hf2 t ht.2 w, hf1 t ht.1 w]
    · intro t ht
      simp only [List.map_cons, List.mem_cons, not_or] at ht
      rw [hst2 t ht.2]
      simp [State.set, ht.1]

theorem insertSorted_names (c : StepCfg) :
    ∀ l : List StepCfg, ((insertSorted c l).map (·.name)).Perm ((c :: l).map (·.name))
  | [] => by simp [insertSorted]
  | d :: ds => by
    unfold insertSorted
    split
    · exact List.Perm.refl _
    · simp only [List.map_cons]
      exact ((insertSorted_names c ds).cons d.name).trans (List.Perm.swap _ _ _)

theorem sortedSteps_names_perm (cfg : Cfg) : ((sortedSteps cfg).map (·.name)).Perm cfg.names := by
  unfold sortedSteps Cfg.names
  induction cfg.steps with
  | nil => simp
  | cons c cs ih =>
    simp only [List.foldr_cons]
    exact (insertSorted_names c _).trans (by simpa using ih.cons c.name)

theorem mem_insertSorted_iff {c d : StepCfg} : ∀ {l : List StepCfg}, d ∈ insertSorted c l ↔ d = c ∨ d ∈ l
  | [] => by simp [insertSorted]
  | e :: es => by
    unfold insertSorted
    split
    · simp
    · simp only [List.mem_cons, mem_insertSorted_iff (l := es)]
      constructor
      · rintro (h | h | h)
        · exact Or.inr (Or.inl h)
        · exact Or.inl h
        · exact Or.inr (Or.inr h)
      · rintro (h | h | h)
        · exact Or.inr (Or.inl h)
        · exact Or.inl h
        · exact Or.inr (Or.inr h)

theorem mem_sortedSteps_iff {cfg : Cfg} {d : StepCfg} : d ∈ sortedSteps cfg ↔ d ∈ cfg.steps := by
  unfold sortedSteps
  induction cfg.steps with
  | nil => simp
  | cons c cs ih =>
    simp only [List.foldr_cons, mem_insertSorted_iff, ih, List.mem_cons]

/-- rewinding publishes a fresh `RUNNING` for every invocation it restarts -/
theorem rewind_valid (cfg : Cfg) (hwf : cfg.WF) (st : State) (now : Int) :
    ∃ o', Valid (fun _ _ => false) (rewind cfg st now).2 o' ∧ Agree cfg o' (rewind cfg st now).1 := by
  unfold rewind
  have hnd : ((sortedSteps cfg).map (·.name)).Nodup := (sortedSteps_names_perm cfg).nodup_iff.mpr hwf
  obtain ⟨o', hv, ha, _, _⟩ := rewindLoop_valid cfg hwf now (sortedSteps cfg) st [] (fun _ _ => false)
    (fun _ _ => false) (fun c hc => mem_sortedSteps hc) hnd (fun _ _ _ => rfl) (Valid.nil _)
  exact ⟨o', hv, fun c hc => ha c (mem_sortedSteps_iff.mpr hc)⟩

end Engine

namespace Engine

theorem rewindLoop_frame (now : Int) :
    ∀ (cs : List StepCfg) (st : State) (cmds : List Cmd) (t : Nat), t ∉ cs.map (·.name) →
      (rewindLoop now cs st cmds).1.workers t = st.workers t
  | [], st, cmds, t, _ => by simp [rewindLoop]
  | d :: ds, st, cmds, t, ht => by
    simp only [List.map_cons, List.mem_cons, not_or] at ht
    unfold rewindLoop
    rw [rewindLoop_frame now ds _ _ t ht.2]
    simp [State.set, ht.1]

/-- after a rewind every `in_progress` table is freshly allocated, whatever it held before -/
theorem rewindLoop_idsOk_fresh (now : Int) :
    ∀ (cs : List StepCfg) (st : State) (cmds : List Cmd), (cs.map (·.name)).Nodup →
      ∀ c ∈ cs, IdsOk ((rewindLoop now cs st cmds).1.workers c.name) c.numWorkers
  | [], _, _, _, c, hc => by cases hc
  | d :: ds, st, cmds, hnd, c, hc => by
    simp only [List.map_cons, List.nodup_cons] at hnd
    unfold rewindLoop
    rcases List.mem_cons.mp hc with hc | hc
    · subst hc
      rw [rewindLoop_frame now ds _ _ c.name hnd.1]
      simp only [State.set, ↓reduceIte]
      exact rewindStep_idsOk c _ now
    · exact rewindLoop_idsOk_fresh now ds _ _ hnd.2 c hc

theorem rewind_idsInv_fresh (cfg : Cfg) (hwf : cfg.WF) (st : State) (now : Int) :
    IdsInv cfg (rewind cfg st now).1 := by
  intro c hc
  unfold rewind
  exact rewindLoop_idsOk_fresh now (sortedSteps cfg) st []
    ((sortedSteps_names_perm cfg).nodup_iff.mpr hwf) c (mem_sortedSteps_iff.mpr hc)

theorem foldl_cmds_mono (cfg : Cfg) (pol : Policy) :
    ∀ (ticks : List (Tick × Int)) (acc : State × List Cmd) (x : Cmd), x ∈ acc.2 →
      x ∈ (ticks.foldl (fun acc tn => let r := reduce cfg pol tn.1 acc.1 tn.2; (r.1, acc.2 ++ r.2)) acc).2
  | [], acc, x, h => by simpa using h
  | tn :: rest, acc, x, h => by
    simp only [List.foldl_cons]
    exact foldl_cmds_mono cfg pol rest _ x (by simp [h])

end Engine
