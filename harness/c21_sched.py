"""C21 — concurrent schedules over several state stores of one workflow store, in both connection modes.

A *scenario* is a handful of tasks, each a little program over the state-store objects that ONE
`SqliteWorkflowStore` created (several runs, or several objects of one run) and over the workflow store
itself; `edit_state` bodies are programs too, so a body can work on another store (a step that drives a
child run while it holds its own state open), wait for an `asyncio.Event` that another task sets after
its own write, yield, or fail.  The tasks are real `asyncio` tasks on the real stores, run under the
scripted scheduler (`harness/sloop.py`): the schedule decides which task runs its next await-free
section, until nothing is runnable (quiescence).

The scenario is run twice with the same schedule — per-call connections, single connection — and the two
runs are compared: same tasks finished, same results per task, same final database content.  A task that
is still blocked at quiescence in one mode only is reported with the operation it is blocked in and what
holds the lock it waits for.

Step language (JSON lists):
  ["set", obj, path, value]   ["setstate", obj, {..}]   ["clear", obj]   ["get", obj, path]   ["getstate", obj]
  ["edit", obj, [body steps]]     body steps: any step, plus ["mut", path, value] on the state being edited
  ["wait", ev]  ["signal", ev]  ["yield"]  ["raise"]
  ["ws", {op description as in the sequential histories}]
"""
from __future__ import annotations

import asyncio
import copy
import os
import sqlite3
from datetime import datetime, timezone
from typing import Any

from .sloop import SLoop

STEP_LIMIT = 4000
LOCK_OPS = {"set": "ss.set", "setstate": "ss.set_state", "clear": "ss.clear", "edit": "ss.edit_state"}

ACTIVE: list[Any] = [None]


class TracingLock(asyncio.Lock):
    """asyncio.Lock that reports request / grant / release to the running scenario (behaviour unchanged)."""

    async def acquire(self) -> bool:  # type: ignore[override]
        run = ACTIVE[0]
        if run is None:
            return await super().acquire()
        ev = run.lock_request(self)
        try:
            r = await super().acquire()
        except BaseException:
            run.lock_abandoned(ev)
            raise
        run.lock_granted(ev)
        return r

    def release(self) -> None:  # type: ignore[override]
        run = ACTIVE[0]
        if run is not None:
            run.lock_released(self)
        super().release()


def _deps() -> Any:
    from .props import c21

    return c21


class Run:
    def __init__(self, mode: str, path: str, sc: dict):
        from llama_agents.server._store.sqlite.sqlite_workflow_store import SqliteWorkflowStore

        c21 = _deps()
        self.c21 = c21
        self.mode = mode
        self.sc = sc
        self.loop = SLoop()
        self.side = c21.Side(mode, path)
        self.side.store = SqliteWorkflowStore(path, poll_interval=0.05, single_connection=(mode == "single"))
        self.objs: list[Any] = []
        self.create_errors: list[str] = []
        for run_id in sc["stores"]:
            try:
                self.objs.append(self.side.store.create_state_store(run_id))
            except Exception as e:  # noqa: BLE001
                self.objs.append(None)
                self.create_errors.append(f"{type(e).__name__}: {e}")
        self.side.objs = self.objs
        self.events: dict[Any, asyncio.Event] = {}
        n = len(sc["tasks"])
        self.results: list[list[str]] = [[] for _ in range(n + 1)]
        self.stack: list[list[dict]] = [[] for _ in range(n + 1)]  # in-flight operations per task, innermost last
        self.waiting_event: list[Any] = [None] * (n + 1)
        self.log: list[dict] = []          # lock requests / grants / releases, in order
        self.holder: dict[int, dict] = {}  # id(lock) -> the request that holds it
        self.lock_ids: dict[int, int] = {}
        self.step_no = 0
        self.trace: list[int] = []
        self.tasks: list[Any] = []
        self.tix: dict[int, int] = {}
        self.quiescent = False
        self.log_len_at_quiescence = 0

    # ---- lock events (called by TracingLock)
    def _cur(self) -> tuple[int, dict | None]:
        t = asyncio.current_task()
        i = self.tix.get(id(t), -1)
        st = self.stack[i] if i >= 0 else []
        return i, (st[-1] if st else None)

    def lock_request(self, lock: Any) -> dict:
        i, ent = self._cur()
        lid = self.lock_ids.setdefault(id(lock), len(self.lock_ids))
        ev = {"k": "req", "lock": lid, "task": i, "obj": ent["obj"] if ent else -1, "op": ent["op"] if ent else "?",
              "step": self.step_no, "granted_step": None, "released": False}
        self.log.append(ev)
        return ev

    def lock_granted(self, ev: dict) -> None:
        ev["granted_step"] = self.step_no
        self.holder[ev["lock"]] = ev
        self.log.append({"k": "got", "lock": ev["lock"], "task": ev["task"], "obj": ev["obj"], "req": ev, "step": self.step_no})

    def lock_abandoned(self, ev: dict) -> None:
        ev["abandoned"] = True

    def lock_released(self, lock: Any) -> None:
        lid = self.lock_ids.get(id(lock), -1)
        h = self.holder.pop(lid, None)
        if h is not None:
            h["released"] = True
        i, _ent = self._cur()
        self.log.append({"k": "rel", "lock": lid, "task": h["task"] if h else i, "obj": h["obj"] if h else -1,
                         "step": self.step_no})

    # ---- the tasks
    def _event(self, name: Any) -> asyncio.Event:
        if name not in self.events:
            self.events[name] = asyncio.Event()
        return self.events[name]

    async def _steps(self, ti: int, steps: list, state: Any, top: bool) -> None:
        from workflows.context.state_store import DictState, set_by_path

        c21 = self.c21
        res = self.results[ti]
        for st in steps:
            k = st[0]
            try:
                if k == "mut":
                    set_by_path(state, st[1], copy.deepcopy(st[2]))
                elif k == "yield":
                    await asyncio.sleep(0)
                elif k == "raise":
                    raise RuntimeError("edit body failed")
                elif k == "signal":
                    self._event(st[1]).set()
                elif k == "wait":
                    self.waiting_event[ti] = st[1]
                    await self._event(st[1]).wait()
                    self.waiting_event[ti] = None
                elif k == "ws":
                    self.stack[ti].append({"op": st[1]["op"], "obj": -1, "open": False})
                    try:
                        res.append(await c21.exec_op(self.side, st[1]))
                    finally:
                        self.stack[ti].pop()
                else:
                    oi = st[1]
                    obj = self.objs[oi] if 0 <= oi < len(self.objs) else None
                    if obj is None:
                        res.append("no-such-store")
                        continue
                    ent = {"op": LOCK_OPS.get(k, "ss." + k), "obj": oi, "open": False}
                    self.stack[ti].append(ent)
                    try:
                        if k == "set":
                            await obj.set(st[2], copy.deepcopy(st[3]))
                        elif k == "setstate":
                            await obj.set_state(DictState(**copy.deepcopy(st[2])))
                        elif k == "clear":
                            await obj.clear()
                        elif k == "get":
                            res.append(c21.canon(await obj.get(st[2], None)))
                        elif k == "getstate":
                            res.append(c21.canon(await obj.get_state()))
                        elif k == "edit":
                            async with obj.edit_state() as inner:
                                ent["open"] = True
                                try:
                                    await self._steps(ti, st[2], inner, False)
                                finally:
                                    ent["open"] = False
                        else:
                            raise ValueError(f"unknown step {st!r}")
                    finally:
                        self.stack[ti].pop()
            except asyncio.CancelledError:
                raise
            except Exception as e:  # noqa: BLE001 - an operation that raises: that is its result
                if not top:
                    raise  # leaves the enclosing edit_state block (nothing saved), recorded at the top level
                res.append(c21.canon_exc(e, self.side))

    async def _task(self, ti: int, steps: list) -> None:
        await self._steps(ti, steps, None, True)

    # ---- scheduling
    def _drain(self, task: Any) -> None:
        n = 0
        while not task.done() and self.loop.has_ready(task) and n < STEP_LIMIT:
            self.loop.run_one(task)
            n += 1

    def run(self) -> None:
        from .props.c21 import FakeDatetime

        sc = self.sc
        FakeDatetime.current = datetime(2026, 1, 1, tzinfo=timezone.utc)
        ACTIVE[0] = self
        try:
            n = len(sc["tasks"])
            if sc.get("setup"):
                t = self.loop.create_task(self._task(n, sc["setup"]))
                self.tix[id(t)] = n
                self._drain(t)
                self.setup_done = t.done()
            self.log.clear()
            self.tasks = [self.loop.create_task(self._task(i, prog)) for i, prog in enumerate(sc["tasks"])]
            for i, t in enumerate(self.tasks):
                self.tix[id(t)] = i
            sched = sc.get("schedule", [])
            k = 0
            while self.step_no < STEP_LIMIT:
                en = [i for i, t in enumerate(self.tasks) if not t.done() and self.loop.has_ready(t)]
                if not en:
                    self.quiescent = True
                    break
                want = sched[k] if k < len(sched) else en[0]
                pick = want if want in en else en[want % len(en)]
                k += 1
                self.step_no += 1
                self.trace.append(pick)
                self.loop.run_one(self.tasks[pick])
            self.log_len_at_quiescence = len(self.log)
            self.blocked = [i for i, t in enumerate(self.tasks) if not t.done()]
            self.blocked_info = {i: self._blocked_info(i) for i in self.blocked}
            self.task_errors = []
            for i, t in enumerate(self.tasks):
                if t.done() and not t.cancelled() and t.exception() is not None:
                    self.task_errors.append(f"task {i}: {t.exception()!r}")
        finally:
            try:
                self._close()
            finally:
                ACTIVE[0] = None

    def _blocked_info(self, i: int) -> dict:
        """what task i is blocked in at quiescence (from what the harness saw, not from lock internals)"""
        st = self.stack[i]
        ent = st[-1] if st else None
        pend = [e for e in self.log if e["k"] == "req" and e["task"] == i and e["granted_step"] is None]
        if pend:
            req = pend[-1]
            h = self.holder.get(req["lock"])
            info = {"kind": "lock", "op": req["op"], "obj": req["obj"], "holder": None}
            if h is not None:
                if h["obj"] == req["obj"]:
                    rel = "same_store_object"
                elif self.sc["stores"][h["obj"]] == self.sc["stores"][req["obj"]]:
                    rel = "other_object_same_run"
                else:
                    rel = "other_run"
                hold_ent = next((e for e in self.stack[h["task"]] if e["obj"] == h["obj"] and e["op"] == h["op"]), None)
                info["holder"] = {"task": h["task"], "op": h["op"], "obj": h["obj"], "relation": rel,
                                  "who": "same_task" if h["task"] == i else "other_task",
                                  "block_open": bool(hold_ent and hold_ent.get("open"))}
            return info
        if self.waiting_event[i] is not None:
            return {"kind": "event", "event": self.waiting_event[i], "op": ent["op"] if ent else "-",
                    "obj": ent["obj"] if ent else -1}
        return {"kind": "other", "op": ent["op"] if ent else "-", "obj": ent["obj"] if ent else -1}

    def _close(self) -> None:
        for _ in range(2000):
            for t in self.tasks:
                if not t.done():
                    t.cancel()
            live = [t for t in self.tasks if not t.done() and self.loop.has_ready(t)]
            if not live:
                break
            self.loop.run_one(live[0])
        for t in self.tasks:
            if t.done() and not t.cancelled():
                t.exception()
        self.loop.discard_all()
        self.loop.close()
        sh = self.side.shared
        self.pending_on_shared = False
        if sh is not None:
            try:
                self.pending_on_shared = bool(sh.in_transaction)
                sqlite3.Connection.close(sh)
            except Exception:  # noqa: BLE001
                pass

    # ---- observations
    def status(self) -> list[str]:
        out = []
        for i, t in enumerate(self.tasks):
            if not t.done() or i in self.blocked:
                b = self.blocked_info.get(i, {})
                out.append("blocked:" + b.get("kind", "?") + ":" + str(b.get("op")))
            else:
                out.append("done")
        return out

    def lock_events(self) -> list[dict]:
        """requests and releases up to quiescence, each with the answer it got"""
        evs = []
        log = self.log[: self.log_len_at_quiescence]
        pos_of = {id(e): n for n, e in enumerate(log)}
        got_pos = {id(g["req"]): n for n, g in enumerate(log) if g["k"] == "got"}
        for pos, e in enumerate(log):
            if e["k"] == "req":
                # asyncio.Lock.acquire does not suspend when it can take the lock: granted within the same section
                evs.append({"kind": "acq", "task": e["task"], "obj": e["obj"],
                            "ans": "got" if e["granted_step"] == e["step"] else "wait"})
            elif e["k"] == "rel":
                waiters = [r for r in log[:pos] if r["k"] == "req" and r["lock"] == e["lock"]
                           and got_pos.get(id(r), len(log) + 1) > pos]
                nxt = "-"
                if waiters:
                    got = next((g for g in log[pos + 1:] if g["k"] == "got" and g["lock"] == e["lock"]), None)
                    nxt = str(got["task"]) if got is not None else "?"
                evs.append({"kind": "rel", "task": e["task"], "obj": e["obj"], "ans": "next:" + nxt})
        del pos_of
        return evs


def final_dump(path: str) -> dict:
    return _deps().dump_file(path)


def run_scenario(sc: dict, tmp: str, idx: int) -> dict:
    """both modes; returns the observations"""
    runs: dict[str, Run] = {}
    dumps: dict[str, dict] = {}
    for mode in ("percall", "single"):
        path = os.path.join(tmp, f"s{idx}_{mode}.db")
        # every lock the stores create from here on (lazily, or at construction) reports to the scenario
        old_lock = asyncio.Lock
        asyncio.Lock = TracingLock  # type: ignore[misc]
        try:
            r = Run(mode, path, sc)
            r.run()
        finally:
            asyncio.Lock = old_lock  # type: ignore[misc]
        runs[mode] = r
        dumps[mode] = final_dump(path)
        for f in (path, path + "-wal", path + "-shm", path + "-journal"):
            try:
                os.unlink(f)
            except OSError:
                pass
    return {"runs": runs, "dumps": dumps}


def _describe_block(i: int, b: dict, sc: dict) -> str:
    if b["kind"] == "lock":
        s = f"task {i} is blocked in {b['op']} on store object {b['obj']} (run {sc['stores'][b['obj']]!r}), waiting for a lock"
        h = b.get("holder")
        if h:
            s += (f" held by task {h['task']}'s {h['op']} on store object {h['obj']} (run {sc['stores'][h['obj']]!r}; "
                  f"{h['relation']}, {h['who']}{', block still open' if h['block_open'] else ''})")
        return s
    if b["kind"] == "event":
        return f"task {i} waits for event {b['event']!r} that is never set (inside {b['op']})"
    return f"task {i} is suspended in {b['op']}"


def block_signature(b: dict) -> str:
    if b["kind"] == "lock":
        h = b.get("holder")
        if h:
            return f"{b['op']}[behind={h['op']},{h['relation']},{h['who']}]"
        return f"{b['op']}[lock_without_holder]"
    return f"{b['op']}[{b['kind']}]"


def compare(sc: dict, obs: dict) -> list[tuple[str, str]]:
    """(signature, what) for every way the two runs differ"""
    rp: Run = obs["runs"]["percall"]
    rs: Run = obs["runs"]["single"]
    out: list[tuple[str, str]] = []
    sp, ss = rp.status(), rs.status()
    only_s = [i for i in rs.blocked if i not in rp.blocked]
    only_p = [i for i in rp.blocked if i not in rs.blocked]
    sched = f"schedule {rs.trace[:40]}"
    if only_s:
        # name the lock wait that differs (a task that waits for an event is usually the consequence)
        locks = [i for i in only_s if rs.blocked_info[i]["kind"] == "lock"]
        first = (locks or only_s)[0]
        b = rs.blocked_info[first]
        out.append((f"C21/single_connection_blocks:{block_signature(b)}",
                    f"with per-call connections every task of the scenario finishes ({sp}); on the single connection, "
                    f"same schedule, the loop is quiescent with tasks {only_s} still blocked: "
                    + "; ".join(_describe_block(i, rs.blocked_info[i], sc) for i in only_s) + f" ({sched})"))
    if only_p:
        locks = [i for i in only_p if rp.blocked_info[i]["kind"] == "lock"]
        first = (locks or only_p)[0]
        b = rp.blocked_info[first]
        out.append((f"C21/percall_blocks_single_completes:{block_signature(b)}",
                    f"on the single connection tasks {only_p} finish, with per-call connections they stay blocked: "
                    + "; ".join(_describe_block(i, rp.blocked_info[i], sc) for i in only_p) + f" ({sched})"))
    if not only_s and not only_p:
        if rp.results != rs.results:
            ti = next(i for i in range(len(rp.results)) if rp.results[i] != rs.results[i])
            a, b2 = rp.results[ti], rs.results[ti]
            j = next((j for j in range(min(len(a), len(b2))) if a[j] != b2[j]), min(len(a), len(b2)))
            out.append((f"C21/modes_disagree_under_schedule:task_result",
                        f"task {ti}, result #{j}: per-call -> {(a[j] if j < len(a) else '<none>')[:160]!r}, single connection -> "
                        f"{(b2[j] if j < len(b2) else '<none>')[:160]!r} ({sched})"))
        if obs["dumps"]["percall"] != obs["dumps"]["single"]:
            dp, ds = obs["dumps"]["percall"], obs["dumps"]["single"]
            tbl = next(t for t in dp if dp[t] != ds.get(t))
            out.append((f"C21/final_content_differs_under_schedule:{tbl}",
                        f"after the same schedule the table {tbl} differs: single {str(ds.get(tbl))[:200]} vs per-call "
                        f"{str(dp[tbl])[:200]} ({sched})"))
    if rs.pending_on_shared:
        out.append(("C21/uncommitted_write:under_schedule", f"at quiescence the persistent connection is inside a transaction ({sched})"))
    for r in (rp, rs):
        for e in r.task_errors + r.create_errors:
            out.append((f"C21/scenario_task_crashed:{r.mode}", e))
    return out


def check_expect(sc: dict, obs: dict) -> list[tuple[str, str]]:
    """corpus cases carry the expected outcome, recomputed by hand from the inputs: checked in BOTH modes"""
    import json

    exp = sc.get("expect")
    if not exp:
        return []
    out = []
    for mode in ("percall", "single"):
        r: Run = obs["runs"][mode]
        if exp.get("all_done") and r.blocked:
            if mode == "single" and not obs["runs"]["percall"].blocked:
                continue  # reported by compare() with the precise signature
            out.append((f"C21/expected_completion:{mode}", f"{mode}: tasks {r.blocked} still blocked at quiescence"))
            continue
        if "results" in exp and not r.blocked and r.results[: len(exp["results"])] != exp["results"]:
            out.append((f"C21/expected_results:{mode}", f"{mode}: task results {r.results} != expected {exp['results']}"))
        if "states" in exp and not r.blocked:
            rows = {row[0]: row[1] for row in obs["dumps"][mode].get("workflow_state", []) if isinstance(row, list)}
            for run_id, want in exp["states"].items():
                have = None
                if run_id in rows:
                    try:
                        have = {k: json.loads(v) for k, v in json.loads(rows[run_id])["_data"].items()}
                    except Exception:  # noqa: BLE001
                        have = rows[run_id]
                if have != want:
                    out.append((f"C21/expected_final_state:{mode}", f"{mode}: state of run {run_id!r} is {have!r}, expected {want!r}"))
    return out


def lock_lines(sc: dict, obs: dict) -> tuple[list[str], list[str]]:
    """(K) the lock requests / releases of the per-call run, with what both real runs answered"""
    rp: Run = obs["runs"]["percall"]
    rs: Run = obs["runs"]["single"]
    lines = ["reset"] + ["new|1"] * len(sc["stores"])
    impl = ["reset"] + [f"store={i} given={1 if getattr(rs.objs[i], '_shared_conn', None) is not None else 0}"
                        for i in range(len(sc["stores"]))]
    ep, es = rp.lock_events(), rs.lock_events()
    for k, e in enumerate(ep):
        if e["obj"] < 0:
            break
        if k >= len(es) or (es[k]["kind"], es[k]["task"], es[k]["obj"]) != (e["kind"], e["task"], e["obj"]):
            break  # the single-connection run went another way: reported by the monitors
        lines.append(f"lk|{e['task']}|{e['obj']}|{e['kind']}")
        impl.append(f"single={es[k]['ans']} percall={e['ans']}")
        if es[k]["ans"] != e["ans"]:
            break
    return lines, impl


# --------------------------------------------------------------------------
# generation

PATHS = ["a", "b", "c", "n.x", "items"]
RUNS = ["r0", "r1", "r2"]


def _val(rng: Any) -> Any:
    return rng.choice([0, 1, 7, "s", [1, 2], {"x": 1}, None, True])


def _simple_op(rng: Any, obj: int) -> list:
    r = rng.random()
    if r < 0.45:
        return ["set", obj, rng.choice(PATHS), _val(rng)]
    if r < 0.6:
        return ["setstate", obj, {rng.choice("abc"): _val(rng)}]
    if r < 0.7:
        return ["clear", obj]
    if r < 0.8:
        return ["edit", obj, [["mut", rng.choice(["a", "b", "c"]), _val(rng)]]]
    if r < 0.9:
        return ["get", obj, rng.choice(PATHS)]
    return ["getstate", obj]


def _ws_op(rng: Any, n: int) -> list:
    run = rng.choice(RUNS)
    r = rng.random()
    if r < 0.3:
        return ["ws", {"op": "ws.append_event", "run": run, "value": {"n": n}, "type": "MyEvent", "types": None}]
    if r < 0.55:
        return ["ws", {"op": "ws.append_tick", "run": run, "data": {"n": n}}]
    if r < 0.7:
        return ["ws", {"op": "ws.get_ticks", "run": run}]
    if r < 0.85:
        return ["ws", {"op": "ws.query_events", "run": run, "after": None, "limit": None}]
    return ["ws", {"op": "ws.update", "handler": {"id": f"h{n % 3}", "wf": "wfA", "status": "running", "run": run, "error": None,
                                                  "result": None, "started": 1, "updated": 2, "completed": None, "idle": None}}]


def _stores(rng: Any) -> list[str]:
    n = rng.choice([2, 2, 3, 3, 4])
    st = [rng.choice(RUNS) for _ in range(n)]
    if len(set(st)) == 1 and rng.random() < 0.6:
        st[1] = next(r for r in RUNS if r != st[0])
    return st


def _setup(rng: Any, stores: list[str]) -> list:
    out: list = []
    for i in range(len(stores)):
        if rng.random() < 0.6:
            out.append(["set", i, "warm", i])
    for j in range(rng.randint(0, 3)):
        out.append(_ws_op(rng, 100 + j))
    return out


def gen_nested(rng: Any) -> dict:
    """an edit_state body that itself works on other stores (possibly two levels deep)"""
    stores = _stores(rng)
    a = rng.randrange(len(stores))
    others = [i for i in range(len(stores)) if i != a]
    body: list = [["mut", "phase", "editing"]]
    for _ in range(rng.randint(1, 3)):
        b = rng.choice(others)
        r = rng.random()
        if r < 0.25 and len(others) > 1:
            c = rng.choice([i for i in others if i != b])
            body.append(["edit", b, [["mut", "inner", _val(rng)], _simple_op(rng, c) if rng.random() < 0.7 else ["yield"]]])
        else:
            body.append(_simple_op(rng, b))
        if rng.random() < 0.3:
            body.append(["yield"])
        if rng.random() < 0.3:
            body.append(_ws_op(rng, 7))
    body.append(["mut", "seen", _val(rng)])
    if rng.random() < 0.1:
        body.append(["raise"])
    tasks = [[["edit", a, body], ["getstate", a]]]
    for _ in range(rng.randint(0, 2)):
        o = rng.randrange(len(stores))
        tasks.append([_simple_op(rng, o) for _ in range(rng.randint(1, 3))] + [["getstate", o]])
    return {"family": "nested", "stores": stores, "setup": _setup(rng, stores), "tasks": tasks,
            "schedule": [rng.randrange(len(tasks)) for _ in range(rng.randint(0, 30))]}


def gen_handshake(rng: Any) -> dict:
    """A keeps its block open until B (another store object) has written: order fixed by events"""
    stores = _stores(rng)
    a = rng.randrange(len(stores))
    others = [i for i in range(len(stores)) if i != a]
    b = rng.choice(others)
    n_round = rng.randint(1, 2)
    body: list = [["mut", "round", "open"]]
    tb: list = []
    for k in range(n_round):
        body += [["signal", f"a{k}"], ["wait", f"b{k}"], ["mut", f"after{k}", _val(rng)]]
        tb += [["wait", f"a{k}"]] + [_simple_op(rng, rng.choice(others) if rng.random() < 0.3 else b)
                                     for _ in range(rng.randint(1, 2))] + [["signal", f"b{k}"]]
    tasks = [[["edit", a, body], ["getstate", a]], tb + [["getstate", b]]]
    if rng.random() < 0.5:
        o = rng.randrange(len(stores))
        tasks.append([_simple_op(rng, o), _ws_op(rng, 9), ["getstate", o]])
    order = list(range(len(tasks)))
    rng.shuffle(order)
    tasks = [tasks[i] for i in order]
    return {"family": "handshake", "stores": stores, "setup": _setup(rng, stores), "tasks": tasks,
            "schedule": [rng.randrange(len(tasks)) for _ in range(rng.randint(0, 40))]}


def gen_random(rng: Any) -> dict:
    """free-form: overlapping edits with yields, nested edits anywhere (may deadlock on its own: compared all the same)"""
    stores = _stores(rng)
    nt = rng.randint(2, 4)
    evs = 0

    def prog(depth: int, inside: list[int]) -> list:
        nonlocal evs
        out: list = []
        for _ in range(rng.randint(1, 3)):
            r = rng.random()
            o = rng.randrange(len(stores))
            if r < 0.3 and depth < 2:
                if o in inside and rng.random() < 0.85:
                    o = next((i for i in range(len(stores)) if i not in inside), o)
                body = [["mut", rng.choice("abc"), _val(rng)]]
                if rng.random() < 0.6:
                    body.append(["yield"])
                body += prog(depth + 1, inside + [o])
                out.append(["edit", o, body])
            elif r < 0.4:
                out.append(["yield"])
            elif r < 0.5:
                out.append(_ws_op(rng, evs))
            else:
                if o in inside and rng.random() < 0.85:
                    o = next((i for i in range(len(stores)) if i not in inside), o)
                out.append(_simple_op(rng, o))
        return out

    tasks = [prog(0, []) for _ in range(nt)]
    if rng.random() < 0.4:  # one signal/wait pair between two tasks
        i, j = rng.sample(range(nt), 2)
        tasks[i].insert(rng.randint(0, len(tasks[i])), ["signal", "e"])
        tasks[j].insert(rng.randint(0, len(tasks[j])), ["wait", "e"])
    for t in tasks:
        t.append(["getstate", rng.randrange(len(stores))])
    return {"family": "random", "stores": stores, "setup": _setup(rng, stores), "tasks": tasks,
            "schedule": [rng.randrange(nt) for _ in range(rng.randint(0, 60))]}


def gen_scenario(rng: Any) -> dict:
    r = rng.random()
    if r < 0.35:
        return gen_nested(rng)
    if r < 0.65:
        return gen_handshake(rng)
    return gen_random(rng)
