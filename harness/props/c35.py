"""C35 — step lifecycle telemetry on the stream is balanced and ordered."""
from __future__ import annotations

from ..engine import monitors, suite
from ..runner import Env, Outcome

THEOREMS = ["C35_stream_ordered", "C35_tick_ordered", "C35_preparing_when_queued", "C35_input_required_once"]
LEAN_TARGETS = ["WfProps.C35"]
EXPLANATION = (
    "Lean: the StepStateChanged publishes of the concatenated command lists of ANY tick history (rewind + arbitrary "
    "ticks the reducer accepts) are a valid run of the open-slot automaton (RUNNING only on a closed slot, "
    "NOT_RUNNING only on an open one) ending exactly at the in-progress table; PREPARING is emitted iff the attempt "
    "is queued; a returned InputRequiredEvent yields exactly one publish command. Tie: reducer/runner correspondence "
    "(the runner writes publish commands to the stream in list order - compared tick by tick incl. stream length). "
    "Search: automaton on the real published stream, PREPARING/RUNNING counts at quiescence, InputRequiredEvent counts."
)
ASSUMPTIONS = suite.ENGINE_ASSUMPTIONS + [
    "'unless the run ends first': a run that exits leaves RUNNING slots unmatched by design (workers are cancelled)",
]


def run(env: Env) -> Outcome:
    out = Outcome()
    out.rule = ("direct (state,tick) pairs + live scripted workflows under random gate schedules; non-trivial = more than 2 ticks; "
                "distinct by (spec, schedule)")
    suite.direct_corr(env, out, env.budget(3000, 60000))
    suite.live_runs(env, out, env.budget(400, 8000), [monitors.mon_c35], extra_specs=suite.load_corpus("C35"))

    def _ire_consumer(spec: dict, rng) -> dict:
        """a step RETURNS an InputRequiredEvent subclass and another step, with zero-delay retries, CONSUMES it and fails once or
        twice: the event is then carried by re-queue commands too, and must still be published exactly once"""
        plain = [s for s in spec["steps"] if s.get("role") != "handler" and s["script"] and s["script"][-1][0] == "ret"
                 and not any(a[0] in ("collect", "wait") for a in s["script"])]
        if not plain or any(s["name"] == "s20" for s in spec["steps"]):
            return spec
        src = rng.choice(plain)
        src["script"][-1] = ["ret", rng.choice(["2", "2", "13"])]
        spec["steps"].append({"name": "s20", "accepts": [2, 13], "nw": rng.randint(1, 2),
                              "retry": rng.choice([{"kind": "attempts", "n": rng.randint(2, 4), "wait": 0}, {"kind": "legacy", "n": 3, "wait": 0}, None]),
                              "script": ([["gate"]] if rng.random() < 0.3 else []) + [["fail_until", rng.randint(1, 2), 4], ["ret", rng.choice(["none", "stop"])]]})
        return spec

    suite.live_runs(env, out, env.budget(120, 2400), [monitors.mon_c35], gen_kwargs={"family": "general"}, mutate_spec=_ire_consumer)
    return out
