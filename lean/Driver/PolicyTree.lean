import WfModel.PolicyTree
import Driver.Policy
/-! Line protocol for nested policy trees and `retry_info()` (model `policytree`).

Trees are written in prefix form: `L <leaf>` | `A <n> <tree>…` (any) | `B <n> <tree>…` (all); a retry condition is `CN`
(no condition) or a tree.  Ops:
* `nstop <stree> <attempts> <elapsed> <upcoming>` → `0`/`1`
* `ncond <CN|ctree> <exc>` → `none`/`0`/`1`
* `nnext <CN|ctree> <wspec> <stree> <elapsed> <attempts> <exc> <u>` → `none` / `some p/q`
* `bounds <stree>` → `<cap|inf> <lo|inf>`
* `rinfo <retry_number:int> <first_attempt_at> <exc|_> <last_failed_at|_> <now>` → `<n> <elapsed> <exc|_> <failed|_>`
-/
open Policy Drv.Engine Drv.Policy

namespace Drv.PolicyTree

partial def stree : P STree := do
  match ← tok with
  | "L" => do let l ← sleaf; pure (.leaf l)
  | "A" => do let ts ← counted stree; pure (.any ts)
  | "B" => do let ts ← counted stree; pure (.all ts)
  | _ => fun _ => none

partial def ctree : P CTree := do
  match ← tok with
  | "L" => do let l ← cleaf; pure (.leaf l)
  | "A" => do let ts ← counted ctree; pure (.any ts)
  | "B" => do let ts ← counted ctree; pure (.all ts)
  | _ => fun _ => none

def optCtree : P (Option CTree) := fun ts =>
  match ts with
  | "CN" :: r => some (none, r)
  | _ => (ctree ts).map (fun (c, r) => (some c, r))

def sENat : Option Nat → String
  | some n => toString n
  | none => "inf"

def optRat : P (Option Rat) := fun ts =>
  match ts with
  | "_" :: r => some (none, r)
  | _ => (rat ts).map (fun (q, r) => (some q, r))

def step (_ : Unit) (line : String) : Unit × String :=
  match tokens line with
  | "nstop" :: ts =>
    match (do let s ← stree; let k ← nat; let el ← rat; let up ← rat; pure (s, k, el, up)) ts with
    | some ((s, k, el, up), []) => ((), sBool (s.eval k el up))
    | _ => ((), "bad-op")
  | "ncond" :: ts =>
    match (do let c ← optCtree; let e ← nat; pure (c, e)) ts with
    | some ((c, e), []) => ((), match c with | some t => sBool (t.eval e) | none => "none")
    | _ => ((), "bad-op")
  | "nnext" :: ts =>
    match (do let c ← optCtree; let w ← wspec; let s ← stree; let el ← rat; let k ← nat; let e ← nat; let u ← rat
              pure (({ retry := c, wait := w, stop := s } : TSpec), el, k, e, u)) ts with
    | some ((p, el, k, e, u), []) =>
      match p.eval.next el k e u with
      | some d => ((), "some " ++ sRat d)
      | none => ((), "none")
    | _ => ((), "bad-op")
  | "bounds" :: ts =>
    match stree ts with
    | some (s, []) => ((), sENat s.cap ++ " " ++ sENat s.lo)
    | _ => ((), "bad-op")
  | "rinfo" :: ts =>
    match (do let n ← int; let f ← rat; let x ← optNat; let l ← optRat; let now ← rat; pure (n, f, x, l, now)) ts with
    | some ((n, f, x, l, now), []) =>
      let ri := retryInfo { retryNumber := n, firstAt := f, lastExc := x, lastFailedAt := l } now
      ((), s!"{ri.retryNumber} {sRat ri.elapsed} {match ri.lastExc with | some e => toString e | none => "_"} {match ri.lastFailedAt with | some t => sRat t | none => "_"}")
    | _ => ((), "bad-op")
  | _ => ((), "bad-op")

end Drv.PolicyTree
