import WfModel.MigrateShipped
import WfProofs.Migrate
import WfProofs.MigrateLoader
import WfProofs.MigrateConn
import WfProofs.MigrateHist
/-!
C28 — SQLite schema migrations converge from any earlier schema.

Generic part: for **every** migration list `ms` satisfying the decidable hypotheses `WellFormed`
(versions positive, strictly increasing in file order, the scripts apply in order to an empty schema)
and **every** database in `Reach ms` — the fresh file, a legacy file at any `PRAGMA user_version = k`,
and anything obtained from those by any number of runs of earlier releases (any prefix of the list) —
`run_migrations` succeeds with the one final schema, records every version exactly once, and a second
run changes nothing.  Shipped part: the hypotheses are discharged by `decide` on the table regenerated
from `/repo`'s current migration files (`Gen.Migrate.files`), versions parsed by the model of
`parse_target_version`, files ordered by the model of `iter_migration_files`.
-/
open Migrate

namespace C28

/-- The start states the property quantifies over, for the server package and migration list `ms`. -/
inductive Reach (ms : List Migration) : Db → Prop
  /-- an empty database file -/
  | fresh : Reach ms fresh
  /-- a pre-`schema_migrations` database: scripts with version `≤ k` applied, `PRAGMA user_version = k` -/
  | legacy (k : Nat) (s : Schema) (h : foldMigs [] (upTo k ms) = some s) :
      Reach ms { hasSM := false, rows := [], schema := s, userVersion := k }
  /-- a run of a release that shipped only the prefix `l` of today's list -/
  | upgrade (l : List Migration) (db db' : Db) (hl : l <+: ms) (hr : Reach ms db)
      (hrun : runOn l db = .ok db') : Reach ms db'

theorem seedRows_zero : seedRows 0 = [] := rfl

theorem bootstrap_legacy (k : Nat) (s : Schema) :
    bootstrap { hasSM := false, rows := [], schema := s, userVersion := (k : Int) } =
      { hasSM := true, rows := seedRows k, schema := s, userVersion := (k : Int) } := by
  have hrows : (if 0 < (k : Int) then seedRows (k : Int).toNat else []) = seedRows k := by
    split
    · simp
    · have : k = 0 := by omega
      subst this
      rfl
  simp only [bootstrap, Bool.false_eq_true, if_false, hrows]

theorem reach_inv {ms : List Migration} (hwf : WellFormed ms) {db : Db} (hr : Reach ms db) :
    ∃ a, InvAt ms a (bootstrap db) ∧ (bootstrap db).userVersion = db.userVersion := by
  induction hr with
  | fresh =>
    refine ⟨[], ⟨rfl, 0, ms, rfl, rfl, rfl, fun m hm => hwf.1 m hm, rfl⟩, rfl⟩
  | legacy k s h =>
    rw [bootstrap_legacy]
    refine ⟨upTo k ms, ⟨rfl, k, above k ms, rfl, upTo_append_above k ms hwf.2.1, h, ?_, ?_⟩, rfl⟩
    · intro m hm
      simpa [above] using (List.mem_filter.mp hm).2
    · have : above k (upTo k ms) = [] := by
        simp only [above, upTo, List.filter_filter, List.filter_eq_nil_iff]
        intro m _
        simp <;> omega
      simp [this, rowsOf]
  | upgrade l db db' hl _ hrun ih =>
    obtain ⟨a, hinv, _⟩ := ih
    obtain ⟨db1, a', hrun1, hinv1, _, _⟩ := hinv.step hwf l hl
    have : db' = db1 := by
      have := hrun.symm.trans hrun1
      simpa using this
    subst this
    rw [bootstrap_of_hasSM hinv1.1]
    exact ⟨a', hinv1, rfl⟩

/-- the state `run_migrations` ends in, as a function of the list and the start's `user_version` only -/
def finalDb (ms : List Migration) (full : Schema) (k : Nat) : Db :=
  { hasSM := true, rows := seedRows k ++ rowsOf bootstrapPkg (above k ms), schema := full, userVersion := (k : Int) }

theorem run_final {ms : List Migration} (hwf : WellFormed ms) {db : Db} (hr : Reach ms db) :
    ∃ (k : Nat) (full : Schema), db.userVersion = (k : Int) ∧ foldMigs [] ms = some full ∧
      runOn ms db = .ok (finalDb ms full k) := by
  obtain ⟨a, hinv, huv⟩ := reach_inv hwf hr
  obtain ⟨db', a', hrun, hinv', huv', ha'⟩ := hinv.step hwf ms (List.prefix_refl ms)
  have hpa : a <+: ms := by
    obtain ⟨_, _, b, _, hms, _⟩ := hinv
    exact ⟨b, hms.symm⟩
  have := ha' hpa
  subst this
  obtain ⟨hsm, k, b, hk, hms, hfold, _, hrows⟩ := hinv'
  refine ⟨k, db'.schema, by rw [← huv, ← huv', hk], hfold, ?_⟩
  unfold runOn
  rw [hrun]
  cases db' with
  | mk sm rows schema uv =>
    simp only at hsm hk hrows
    simp [finalDb, hsm, hk, hrows]

theorem run_final_inv {ms : List Migration} (hwf : WellFormed ms) {d : Db} {a : List Migration}
    (hinv : InvAt ms a d) :
    ∃ (k : Nat) (full : Schema), d.userVersion = (k : Int) ∧ foldMigs [] ms = some full ∧
      runOn ms d = .ok (finalDb ms full k) := by
  obtain ⟨db', a', hrun, hinv', huv', ha'⟩ := hinv.step hwf ms (List.prefix_refl ms)
  have hpa : a <+: ms := by
    obtain ⟨_, _, b, _, hms, _⟩ := hinv
    exact ⟨b, hms.symm⟩
  have := ha' hpa
  subst this
  have hsm0 := hinv.1
  obtain ⟨hsm, k, b, hk, hms, hfold, _, hrows⟩ := hinv'
  refine ⟨k, db'.schema, by rw [← huv', hk], hfold, ?_⟩
  unfold runOn
  rw [bootstrap_of_hasSM hsm0, hrun]
  cases db' with
  | mk sm rows schema uv =>
    simp only at hsm hk hrows
    simp [finalDb, hsm, hk, hrows]

/-- the write calls of `run_migrations(conn)` (server package, list `ms`) on a new connection to `db` -/
def runOnT (ms : List Migration) (db : Db) : List Conn × Option String :=
  runLoadedT [(bootstrapPkg, ms)] (Conn.connect db)

theorem mem_runSourcesT_single {p : String} {ms : List Migration} {c c' : Conn}
    (h : c' ∈ (runSourcesT [(p, ms)] c).1) : c' ∈ (runFilesT p ms (appliedOf p c.cur.rows) c).1 := by
  simp only [runSourcesT] at h
  split at h
  · exact h
  · simpa using h

theorem final_rows_lt (ms : List Migration) (hwf : WellFormed ms) (k : Nat) :
    (List.range' 1 k ++ versions (above k ms)).Pairwise (· < ·) := by
  rw [List.pairwise_append]
  refine ⟨List.pairwise_lt_range' .., ?_, ?_⟩
  · exact hwf.2.1.sublist ((List.filter_sublist (l := ms)).map _)
  · intro x hx y hy
    have := (mem_range'_one.mp hx).2
    obtain ⟨m, hm, rfl⟩ := List.mem_map.mp hy
    have hk : k < m.version := by simpa [above] using (List.mem_filter.mp hm).2
    omega

theorem final_rows_eq (ms : List Migration) (k : Nat) :
    seedRows k ++ rowsOf bootstrapPkg (above k ms) =
      (List.range' 1 k ++ versions (above k ms)).map fun v => (bootstrapPkg, v) := by
  simp [seedRows, rowsOf, versions]

theorem final_rows_count (ms : List Migration) (hwf : WellFormed ms) (k : Nat) :
    ∀ m ∈ ms, (seedRows k ++ rowsOf bootstrapPkg (above k ms)).count (bootstrapPkg, m.version) = 1 := by
  intro m hm
  have hnd : (seedRows k ++ rowsOf bootstrapPkg (above k ms)).Nodup := by
    rw [final_rows_eq, List.Nodup, List.pairwise_map]
    refine (final_rows_lt ms hwf k).imp ?_
    intro a b hab hc
    have : a = b := by simpa using hc
    omega
  rw [hnd.count]
  have hmem : (bootstrapPkg, m.version) ∈ seedRows k ++ rowsOf bootstrapPkg (above k ms) := by
    rw [final_rows_eq]
    refine List.mem_map.mpr ⟨m.version, ?_, rfl⟩
    rw [List.mem_append]
    by_cases hk : m.version ≤ k
    · exact .inl (mem_range'_one.mpr ⟨hwf.1 m hm, hk⟩)
    · exact .inr (List.mem_map.mpr ⟨m, List.mem_filter.mpr ⟨hm, by simp; omega⟩, rfl⟩)
  simp [hmem]

end C28

open C28

/-! ## generic theorems -/

/-- **Converges.** From every start state the run succeeds, the final schema is the fold of all scripts
over the empty schema (so it does not depend on the start), `schema_migrations` exists and
`user_version` is left alone. -/
theorem C28_converges (ms : List Migration) (hwf : WellFormed ms) (db : Db) (hr : Reach ms db) :
    ∃ db', runOn ms db = .ok db' ∧ foldMigs [] ms = some db'.schema ∧ db'.hasSM = true ∧
      db'.userVersion = db.userVersion := by
  obtain ⟨k, full, hk, hfull, hrun⟩ := run_final hwf hr
  exact ⟨_, hrun, hfull, rfl, hk.symm⟩

/-- Two databases with different histories end with the same schema. -/
theorem C28_same_schema (ms : List Migration) (hwf : WellFormed ms) (db₁ db₂ d₁ d₂ : Db)
    (h₁ : Reach ms db₁) (h₂ : Reach ms db₂) (r₁ : runOn ms db₁ = .ok d₁) (r₂ : runOn ms db₂ = .ok d₂) :
    d₁.schema = d₂.schema := by
  obtain ⟨e₁, hr₁, hf₁, _⟩ := C28_converges ms hwf db₁ h₁
  obtain ⟨e₂, hr₂, hf₂, _⟩ := C28_converges ms hwf db₂ h₂
  have a : d₁ = e₁ := by simpa using r₁.symm.trans hr₁
  have b : d₂ = e₂ := by simpa using r₂.symm.trans hr₂
  subst a b
  exact Option.some.inj (hf₁.symm.trans hf₂)

/-- **Every version recorded exactly once.** -/
theorem C28_each_version_once (ms : List Migration) (hwf : WellFormed ms) (db db' : Db) (hr : Reach ms db)
    (hrun : runOn ms db = .ok db') : ∀ m ∈ ms, db'.rows.count (bootstrapPkg, m.version) = 1 := by
  obtain ⟨k, full, _, _, hrun'⟩ := run_final hwf hr
  have : db' = finalDb ms full k := by simpa using hrun.symm.trans hrun'
  subst this
  exact final_rows_count ms hwf k

/-- The bookkeeping table in full: the seeded legacy rows, then the versions above `user_version` in
file order — nothing else. -/
theorem C28_rows_exact (ms : List Migration) (hwf : WellFormed ms) (db db' : Db) (hr : Reach ms db)
    (hrun : runOn ms db = .ok db') :
    db'.rows = seedRows db.userVersion.toNat ++ rowsOf bootstrapPkg (above db.userVersion.toNat ms) := by
  obtain ⟨k, full, hk, _, hrun'⟩ := run_final hwf hr
  have : db' = finalDb ms full k := by simpa using hrun.symm.trans hrun'
  subst this
  simp [finalDb, hk]

/-- When seeding `1..k` lines up with the list (`LegacyAligned`: versions are `1..N`) every start whose
`user_version` does not exceed the number of migrations ends in literally the same database (apart from
the untouched pragma): rows `(server, v)` for the versions in file order. -/
theorem C28_same_final_state (ms : List Migration) (hwf : WellFormed ms) (hal : LegacyAligned ms) (db : Db)
    (hr : Reach ms db) (hk : db.userVersion ≤ ms.length) :
    ∃ full, foldMigs [] ms = some full ∧
      runOn ms db = .ok { hasSM := true, rows := rowsOf bootstrapPkg ms, schema := full, userVersion := db.userVersion } := by
  obtain ⟨k, full, hk', hfull, hrun⟩ := run_final hwf hr
  refine ⟨full, hfull, ?_⟩
  rw [hrun, finalDb, hal k (by omega), hk']

/-- **Idempotent** — unconditionally: for any sources (several packages, malformed headers, duplicate
versions, any file order) and any database, a run that succeeded changes nothing when repeated. -/
theorem C28_idempotent (sources : List (String × List File)) (db db' : Db)
    (h : runMigrations sources db = .ok db') : runMigrations sources db' = .ok db' := by
  unfold runMigrations at h ⊢
  have hsm : db'.hasSM = true := by
    rw [(runSources_rows_mono _ _ _ h).2, bootstrap_hasSM]
  rw [bootstrap_of_hasSM hsm]
  exact runSources_noop_of_rows _ _ _ h db' (fun _ hr => hr)

/-- A failing script leaves the database as it was before that script: earlier scripts of the run stay
applied and recorded, the failing version is not recorded. -/
theorem C28_failed_not_recorded (p : String) (m : Migration) (rest : List Migration) (applied : List Nat) (db : Db)
    (hp : m.version ≠ 0) (hn : m.version ∉ applied) (hf : applyStmts db.schema m.stmts = none) :
    runFiles p (m :: rest) applied db = .failed m.name db := by
  have hc : (applied.contains m.version || m.version == 0) = false := by simp [hn, hp]
  simp only [runFiles, hc, hf, Bool.false_eq_true, if_false]

/-- The order in which the directory happens to be listed (`iterdir()` promises none) does not matter:
any two listings of the same entries (entry names are unique in a directory) give the same run. -/
theorem C28_listing_order_irrelevant (p : String) (fs gs : List File) (hp : fs.Perm gs)
    (hu : ∀ f ∈ fs, ∀ g ∈ fs, f.name = g.name → f = g) (db : Db) :
    runMigrations [(p, fs)] db = runMigrations [(p, gs)] db := by
  simp [runMigrations, loadMigrations_perm fs gs hp hu]

-- non-vacuity: the shipped directory listed backwards
example : shippedFiles.reverse.Perm shippedFiles ∧
    (shippedFiles.map (·.name)).Nodup ∧ shippedFiles.reverse.map (·.name) ≠ shippedFiles.map (·.name) :=
  ⟨List.reverse_perm _, by decide +kernel, by decide +kernel⟩

/-! ## what is durable: process starts that close without commit, killed runs -/

/-- **Nothing is left to the caller.**  A process start the way `DBOSRuntime.run_migrations` does it —
connect, `run_migrations`, close, no commit by the caller — leaves in the *file* exactly what the
running connection saw, with no transaction open at close; for any sources and any database, failed
runs included. -/
theorem C28_close_without_commit (sources : List (String × List File)) (db : Db) :
    session sources db = (runMigrations sources db, false) := by
  simp [session, runMigrations, sessionLoaded_eq]

/-- **C28 on the re-opened file.**  From every start state a process start that commits nothing itself
succeeds; the file then has the one final schema and every version recorded once; the next process
start changes nothing. -/
theorem C28_restart_converges (ms : List Migration) (hwf : WellFormed ms) (db : Db) (hr : Reach ms db) :
    ∃ db', sessionLoaded [(bootstrapPkg, ms)] db = (.ok db', false) ∧ foldMigs [] ms = some db'.schema ∧
      (∀ m ∈ ms, db'.rows.count (bootstrapPkg, m.version) = 1) ∧
      sessionLoaded [(bootstrapPkg, ms)] db' = (.ok db', false) := by
  obtain ⟨db', hrun, hfull, hsm, _⟩ := C28_converges ms hwf db hr
  have hrun' : runSources [(bootstrapPkg, ms)] (bootstrap db) = .ok db' := hrun
  refine ⟨db', by rw [sessionLoaded_eq, hrun'], hfull, C28_each_version_once ms hwf db db' hr hrun, ?_⟩
  rw [sessionLoaded_eq, bootstrap_of_hasSM hsm]
  have := runSources_noop_of_rows _ _ _ hrun' db' (fun _ h => h)
  rw [this]

/-- **Every file a killed run can leave** (the process dies before any write call of the run; `durable`
is what the file then holds): either the start was a legacy database being seeded and the file is the
start plus an *empty* `schema_migrations` table (between the autocommitted `CREATE TABLE` and the commit
of the seed rows), or the file satisfies the invariant of the start states. -/
theorem C28_kill_points (ms : List Migration) (hwf : WellFormed ms) (db : Db) (hr : Reach ms db) :
    ∀ c ∈ (runOnT ms db).1,
      (db.hasSM = false ∧ 0 < db.userVersion ∧ c.durable = seedWindow db) ∨
      ∃ a, InvAt ms a c.durable ∧ c.durable.userVersion = db.userVersion := by
  intro c hc
  obtain ⟨a, hinv, huv⟩ := reach_inv hwf hr
  obtain ⟨b1, b2, b3⟩ := bootstrapT_spec (Conn.connect db) (Conn.clean_connect db)
  simp only [runOnT, runLoadedT, List.mem_append] at hc
  rcases hc with hc | hc
  · rcases b3 c hc with h | h
    · exact .inl h
    · exact .inr ⟨a, by rw [h]; exact hinv, by rw [h]; exact huv⟩
  · have hc' := mem_runSourcesT_single hc
    have hcur : (lastOf (Conn.connect db) (bootstrapT (Conn.connect db))).cur = bootstrap db := b2
    obtain ⟨a', h1, h2⟩ := runFilesT_inv hwf ms [] a _ _ (by simp) (List.nil_prefix) (by rw [hcur]; exact hinv) b1
      (fun v => mem_appliedOf) c hc'
    exact .inr ⟨a', h1, by rw [h2, hcur, huv]⟩

/-- … and from every such file except the seed window a restarted run ends exactly where an
undisturbed run from the start state ends. -/
theorem C28_killed_run_recovers (ms : List Migration) (hwf : WellFormed ms) (db : Db) (hr : Reach ms db) :
    ∀ c ∈ (runOnT ms db).1,
      (db.hasSM = false ∧ 0 < db.userVersion ∧ c.durable = seedWindow db) ∨
      runOn ms c.durable = runOn ms db := by
  intro c hc
  rcases C28_kill_points ms hwf db hr c hc with h | ⟨a, hinv, huv⟩
  · exact .inl h
  · refine .inr ?_
    obtain ⟨k, full, hk, hfull, hrun⟩ := run_final_inv hwf hinv
    obtain ⟨k', full', hk', hfull', hrun'⟩ := run_final hwf hr
    have e1 : full = full' := Option.some.inj (hfull.symm.trans hfull')
    have e2 : k = k' := by
      have : (k : Int) = (k' : Int) := by rw [← hk, ← hk', huv]
      omega
    rw [hrun, hrun', e1, e2]

/-! ## the shipped table -/

/-- today's migration list: the model of the loader applied to the regenerated directory listing -/
def C28.shipped : List Migration := loadMigrations shippedFiles

/-- The source still has the constants and shapes the model transcribes. Regenerated on every run. -/
theorem C28_source_shape :
    Gen.Migrate.versionPattern = "--\\s*migration:\\s*(\\d+)" ∧ Gen.Migrate.patternMethod = "search" ∧
    Gen.Migrate.lineSplit = "splitlines()" ∧ Gen.Migrate.lineIndex = 0 ∧ Gen.Migrate.groupIndex = 1 ∧
    Gen.Migrate.suffix = ".sql" ∧ Gen.Migrate.sortKeyAttr = "name" ∧ Gen.Migrate.sortReverse = false ∧
    Gen.Migrate.rangeLo = 1 ∧ Gen.Migrate.rangeHiOffset = 1 ∧
    Gen.Migrate.legacyGuardOp = "Gt" ∧ Gen.Migrate.legacyGuardRhs = 0 ∧
    Gen.Migrate.bootstrapPackage = bootstrapPkg ∧ Gen.Migrate.defaultPackage = bootstrapPkg ∧
    Gen.Migrate.sourceTuplePackage = bootstrapPkg ∧
    Gen.Migrate.bootstrapChecksTable = "SELECT 1 FROM sqlite_master WHERE type='table' AND name='schema_migrations'" ∧
    Gen.Migrate.versionOrZero = true ∧ Gen.Migrate.skipIfApplied = true ∧ Gen.Migrate.skipIfZero = true ∧
    Gen.Migrate.appliedQueryFiltersPackage = true ∧ Gen.Migrate.scriptPrefix = "BEGIN;\n" ∧
    Gen.Migrate.applyThenRecord = true ∧ Gen.Migrate.rollbackOnError = true ∧ Gen.Migrate.reraises = true ∧
    Gen.Migrate.appliedUpdated = true ∧ Gen.Migrate.seedsCommitted = true := by decide

/-- The hypotheses of the generic theorems hold of the shipped files: versions (as the loader parses
them) positive and strictly increasing in file-name order, all scripts apply in order to an empty schema. -/
theorem C28_shipped_table : WellFormed shipped ∧ shipped ≠ [] := by
  refine ⟨?_, ?_⟩ <;> decide +kernel

/-- The shipped versions are exactly `1..N`, so the legacy seeding `range(1, user_version + 1)` lines up
with the list for every `user_version ≤ N`. -/
theorem C28_shipped_contiguous :
    versions shipped = List.range' 1 shipped.length ∧ LegacyAligned shipped := by
  refine ⟨?_, ?_⟩ <;> decide +kernel

theorem C28.run_shipped (db : Db) : runMigrations shippedSources db = runOn shipped db := by
  have : Gen.Migrate.defaultPackage = bootstrapPkg := by decide
  simp [runMigrations, shippedSources, runOn, shipped, this]

/-- **C28 for the code as shipped**: `run_migrations(conn)` from every start state: succeeds, final
schema is the fold of the shipped scripts, every shipped version recorded once, second run is a no-op. -/
theorem C28_shipped_converges (db : Db) (hr : Reach shipped db) :
    ∃ full, foldMigs [] shipped = some full ∧
      (∃ db', runMigrations shippedSources db = .ok db' ∧ db'.schema = full ∧ db'.hasSM = true ∧
        db'.userVersion = db.userVersion ∧
        (∀ m ∈ shipped, db'.rows.count (bootstrapPkg, m.version) = 1) ∧
        runMigrations shippedSources db' = .ok db') := by
  have hwf := C28_shipped_table.1
  obtain ⟨db', hrun, hfull, hsm, huv⟩ := C28_converges shipped hwf db hr
  exact ⟨db'.schema, hfull, db', by rw [run_shipped, hrun], rfl, hsm, huv,
    C28_each_version_once shipped hwf db db' hr hrun, C28_idempotent _ _ _ (by rw [run_shipped, hrun])⟩

/-- ... and when the start's `user_version` is at most the number of shipped migrations the whole final
database is the same one: rows `(server, 1..N)` in order. -/
theorem C28_shipped_same_final_state (db : Db) (hr : Reach shipped db) (hk : db.userVersion ≤ shipped.length) :
    ∃ full, foldMigs [] shipped = some full ∧ runMigrations shippedSources db =
      .ok { hasSM := true, rows := rowsOf bootstrapPkg shipped, schema := full, userVersion := db.userVersion } := by
  rw [run_shipped]
  exact C28_same_final_state shipped C28_shipped_table.1 C28_shipped_contiguous.2 db hr hk

/-- **C28 for the code as shipped, on the re-opened file**: process starts that commit nothing themselves. -/
theorem C28_shipped_restart_converges (db : Db) (hr : Reach shipped db) :
    ∃ db', session shippedSources db = (.ok db', false) ∧ foldMigs [] shipped = some db'.schema ∧
      (∀ m ∈ shipped, db'.rows.count (bootstrapPkg, m.version) = 1) ∧
      session shippedSources db' = (.ok db', false) := by
  have hs : ∀ d, session shippedSources d = sessionLoaded [(bootstrapPkg, shipped)] d := by
    intro d
    have : Gen.Migrate.defaultPackage = bootstrapPkg := by decide
    simp [session, shippedSources, shipped, this]
  obtain ⟨db', h1, h2, h3, h4⟩ := C28_restart_converges shipped C28_shipped_table.1 db hr
  exact ⟨db', by rw [hs, h1], h2, h3, by rw [hs, h4]⟩

/-! ## non-vacuity -/

namespace C28

/-- a legacy start of the shipped list at `user_version = k` -/
def legacyDb (k : Nat) : Db :=
  { hasSM := false, rows := [], schema := (foldMigs [] (upTo k shipped)).getD [], userVersion := k }

theorem reach_legacy (k : Nat) (h : (foldMigs [] (upTo k shipped)).isSome = true) : Reach shipped (legacyDb k) := by
  obtain ⟨s, hs⟩ := Option.isSome_iff_exists.mp h
  have : legacyDb k = { hasSM := false, rows := [], schema := s, userVersion := k } := by simp [legacyDb, hs]
  rw [this]
  exact Reach.legacy k s hs

-- a legacy database at user_version = 2 is a start state, is non-trivial, and is not already final
example : Reach shipped (legacyDb 2) ∧ (legacyDb 2).schema ≠ [] ∧
    some (legacyDb 2).schema ≠ foldMigs [] shipped :=
  ⟨reach_legacy 2 (by decide +kernel), by decide +kernel, by decide +kernel⟩

-- ... upgraded by the release that shipped three migrations: still a start state, with rows 1,2 seeded and 3 applied
example : ∃ db, Reach shipped db ∧ db.rows = [("server", 1), ("server", 2), ("server", 3)] ∧ db.userVersion = 2 := by
  have h : ∃ db, runOn (shipped.take 3) (legacyDb 2) = .ok db ∧
      db.rows = [("server", 1), ("server", 2), ("server", 3)] ∧ db.userVersion = 2 := by
    have : (match runOn (shipped.take 3) (legacyDb 2) with
        | .ok db => decide (db.rows = [("server", 1), ("server", 2), ("server", 3)] ∧ db.userVersion = 2)
        | .failed .. => false) = true := by decide +kernel
    cases hr : runOn (shipped.take 3) (legacyDb 2) with
    | ok db => rw [hr] at this; exact ⟨db, rfl, by simpa using this⟩
    | failed f d => rw [hr] at this; cases this
  obtain ⟨db, hrun, h1, h2⟩ := h
  exact ⟨db, Reach.upgrade _ _ _ (List.take_prefix 3 shipped) (reach_legacy 2 (by decide +kernel)) hrun, h1, h2⟩

-- the hypotheses are not trivially true: a list whose file order disagrees with its version order is rejected,
-- and from a legacy database it really does not converge (the model of the code applies nothing above k)
def swapped : List Migration :=
  [{ name := "10_b.sql", version := 10, stmts := [.addColumn "t" { name := "b", decl := "TEXT|0||0" }] },
   { name := "2_a.sql", version := 2, stmts := [.createTable false "t" [{ name := "a", decl := "TEXT|0||0" }]] }]

example : ¬ WellFormed swapped := by decide

-- the failure clause is exercised: the first script of `swapped` fails on an empty database and nothing is recorded
example : runOn swapped fresh = .failed "10_b.sql" { hasSM := true, rows := [], schema := [], userVersion := 0 } := by
  decide

-- idempotence hypothesis is satisfiable with several packages and a malformed header (version 0 is skipped)
example : (match runMigrations
    [("server", [{ name := "1.sql", text := "-- migration: 1".toList, stmts := [.createTable true "t" [{ name := "a", decl := "|0||0" }]] },
                 { name := "2.sql", text := "migration: 2".toList, stmts := [.invalid] }]),
     ("dbos", [{ name := "1.sql", text := "--migration:1 x".toList, stmts := [.createIndex true false "i" "t" ["a"]] }])]
    fresh with
    | .ok db' => db'.rows == [("server", 1), ("dbos", 1)]
    | .failed .. => false) = true := by decide +kernel

-- the kill points are there: a run on the legacy database at user_version = 2 makes write calls, some of which
-- leave the start state, some the final state
example : (runOnT shipped (legacyDb 2)).1.length > 6 ∧ (runOnT shipped (legacyDb 2)).2 = none ∧
    (runOnT shipped (legacyDb 2)).1.any (fun c => c.durable == legacyDb 2) = false ∧
    (runOnT shipped (legacyDb 2)).1.any (fun c => some c.durable.schema == foldMigs [] shipped) = true := by
  refine ⟨?_, ?_, ?_, ?_⟩ <;> decide +kernel

end C28

/-! ## every run, any sources, any database (wave 11): refinement, primary key never hit, failed runs -/

/-- **What a run is, for any sources and any database, whether it returns or raises**: a list `L` of
(package, script) pairs was applied in order — each a file of one of the sources with a non-zero version —,
`schema_migrations` grew by exactly their `(package, version)` rows in that order and the schema is `L` folded
over the old schema.  Nothing is applied without being recorded, nothing recorded without being applied; the
table exists afterwards and `user_version` is left alone. -/
theorem C28_run_refines_trace (sources : List (String × List File)) (db : Db) :
    ∃ L : C28Trace,
      (runMigrations sources db).db.rows = (bootstrap db).rows ++ c28TraceRows L ∧
      foldMigs db.schema (L.map (·.2)) = some (runMigrations sources db).db.schema ∧
      (runMigrations sources db).db.hasSM = true ∧ (runMigrations sources db).db.userVersion = db.userVersion ∧
      (∀ e ∈ L, ∃ s ∈ sources, s.1 = e.1 ∧ e.2 ∈ loadMigrations s.2 ∧ e.2.version ≠ 0) := by
  obtain ⟨L, h1, h2, h3, h4, h5⟩ := c28_runSources_trace (sources.map fun s => (s.1, loadMigrations s.2)) (bootstrap db)
  have hs : (bootstrap db).schema = db.schema := by unfold bootstrap; split <;> rfl
  have hu : (bootstrap db).userVersion = db.userVersion := by unfold bootstrap; split <;> rfl
  refine ⟨L, h1, by rw [← hs]; exact h2, by rw [runMigrations, h3, bootstrap_hasSM], by rw [runMigrations, h4, hu], ?_⟩
  intro e he
  obtain ⟨s, hs, e1, e2, e3⟩ := h5 e he
  obtain ⟨s0, hs0, rfl⟩ := List.mem_map.mp hs
  exact ⟨s0, hs0, e1, e2, e3⟩

-- non-vacuity: a run over two packages that FAILS in the second one still has a two-entry trace
example : (match runMigrations
    [("server", [{ name := "1.sql", text := "-- migration: 1".toList, stmts := [.createTable true "t" [{ name := "a", decl := "|0||0" }]] }]),
     ("dbos", [{ name := "1.sql", text := "-- migration: 1".toList, stmts := [.createIndex true false "i" "t" ["a"]] },
               { name := "2.sql", text := "-- migration: 2".toList, stmts := [.invalid] }])] fresh with
    | .failed f d => f == "2.sql" && d.rows == [("server", 1), ("dbos", 1)]
    | .ok _ => false) = true := by decide +kernel

/-- **Never recorded twice, in any history**: whatever the sources (duplicate versions, the same package
twice, unsorted files) and whatever the database, if `schema_migrations` had no duplicate row before the run it
has none after it — succeeded or failed.  The `INSERT` of the loop therefore never meets the table's primary
key, which is why the model has no `IntegrityError` branch. -/
theorem C28_never_recorded_twice (sources : List (String × List File)) (db : Db)
    (hnd : db.hasSM = true → db.rows.Nodup) : (runMigrations sources db).db.rows.Nodup :=
  c28_runSources_nodup _ _ (c28_bootstrap_nodup db hnd)

/-- **Every version once, for any sources**: a run that succeeded on a duplicate-free table has recorded every
non-zero version of every file of every source exactly once (no well-formedness of the lists assumed). -/
theorem C28_any_sources_each_version_once (sources : List (String × List File)) (db db' : Db)
    (hnd : db.hasSM = true → db.rows.Nodup) (h : runMigrations sources db = .ok db') :
    ∀ s ∈ sources, ∀ m ∈ loadMigrations s.2, m.version ≠ 0 → db'.rows.count (s.1, m.version) = 1 := by
  intro s hs m hm hv
  have hn := C28_never_recorded_twice sources db hnd
  rw [h] at hn
  simp only [Result.db] at hn
  rw [hn.count]
  have := c28_runSources_records _ _ _ h (s.1, loadMigrations s.2) (List.mem_map.mpr ⟨s, hs, rfl⟩) m hm
  rcases this with h0 | hr
  · exact absurd h0 hv
  · simp [hr]

-- non-vacuity: duplicate versions inside one package and the same package listed twice
example : (match runMigrations
    [("server", [{ name := "1.sql", text := "-- migration: 1".toList, stmts := [.createTable true "t" [{ name := "a", decl := "|0||0" }]] },
                 { name := "2.sql", text := "-- migration: 1".toList, stmts := [.invalid] }]),
     ("server", [{ name := "9.sql", text := "-- migration: 1".toList, stmts := [.invalid] },
                 { name := "x.sql", text := "-- migration: 7".toList, stmts := [.createIndex true false "i" "t" ["a"]] }])] fresh with
    | .ok d => d.rows == [("server", 1), ("server", 7)]
    | .failed .. => false) = true := by decide +kernel

/-- **A failed run, in full** (any sources, any database): the file named in the error is a file of one of the
sources, its version is not zero and is NOT recorded in what the run leaves, its script is rejected by the schema
the run leaves, the table exists, no earlier row was lost … -/
theorem C28_failed_run_in_full (sources : List (String × List File)) (db db' : Db) (f : String)
    (h : runMigrations sources db = .failed f db') :
    (∃ s ∈ sources, ∃ m ∈ loadMigrations s.2, m.name = f ∧ m.version ≠ 0 ∧ (s.1, m.version) ∉ db'.rows ∧
      applyStmts db'.schema m.stmts = none) ∧
    db'.hasSM = true ∧ (∀ r ∈ (bootstrap db).rows, r ∈ db'.rows) := by
  unfold runMigrations at h
  obtain ⟨s, hs, m, hm, e⟩ := c28_runSources_failed_spec _ _ _ _ h
  obtain ⟨s0, hs0, rfl⟩ := List.mem_map.mp hs
  have hmono := c28_runSources_mono (sources.map fun s => (s.1, loadMigrations s.2)) (bootstrap db)
  rw [h] at hmono
  simp only [Result.db] at hmono
  exact ⟨⟨s0, hs0, m, hm, e⟩, by rw [hmono.2, bootstrap_hasSM], hmono.1⟩

/-- … and **a failed run is a fixed point**: running again (a restart loop) skips what was recorded, reaches
the same file with the same schema, raises the same error and leaves the database exactly as it is — no partial
effect accumulates over retries. -/
theorem C28_failed_run_is_fixed_point (sources : List (String × List File)) (db db' : Db) (f : String)
    (h : runMigrations sources db = .failed f db') : runMigrations sources db' = .failed f db' := by
  have hsm := (C28_failed_run_in_full sources db db' f h).2.1
  unfold runMigrations at h ⊢
  rw [bootstrap_of_hasSM hsm]
  exact c28_runSources_failed_repeat _ _ _ _ h

-- non-vacuity: the swapped list fails on a fresh database (and the theorem says it will keep failing the same way)
example : runMigrations [("server", [{ name := "10_b.sql", text := "-- migration: 10".toList, stmts := [.addColumn "t" { name := "b", decl := "TEXT|0||0" }] }])]
    fresh = .failed "10_b.sql" { hasSM := true, rows := [], schema := [], userVersion := 0 } := by decide +kernel

/-! ## a second package on top of the server's (the production call of `DBOSRuntime.run_migrations`) -/

/-- hypotheses on the second package's list: versions positive and strictly increasing in file order, and its
scripts apply, in order, to the final schema of the first list -/
def C28.SecondOk (ms ms2 : List Migration) : Prop :=
  (∀ m ∈ ms2, 0 < m.version) ∧ (versions ms2).Pairwise (· < ·) ∧ (foldMigs [] (ms ++ ms2)).isSome = true

instance (ms ms2 : List Migration) : Decidable (C28.SecondOk ms ms2) := by unfold C28.SecondOk; infer_instance

/-- **Two packages converge.**  From every start state of the server list (any server-only history: fresh,
legacy, any runs of earlier server releases) the run over `[(server, ms), (q, ms2)]` succeeds, the schema is
all scripts of `ms` then all of `ms2` folded over the empty schema, the rows are the server's final rows
followed by `(q, v)` for `ms2` in file order, every version of either package is recorded exactly once, and
the second run changes nothing. -/
theorem C28_second_package_converges (ms ms2 : List Migration) (q : String) (hq : q ≠ bootstrapPkg)
    (hwf : WellFormed ms) (h2 : C28.SecondOk ms ms2) (db : Db) (hr : Reach ms db) :
    ∃ db', runSources [(bootstrapPkg, ms), (q, ms2)] (bootstrap db) = .ok db' ∧
      foldMigs [] (ms ++ ms2) = some db'.schema ∧
      db'.rows = seedRows db.userVersion.toNat ++ rowsOf bootstrapPkg (above db.userVersion.toNat ms) ++ rowsOf q ms2 ∧
      (∀ m ∈ ms, db'.rows.count (bootstrapPkg, m.version) = 1) ∧ (∀ m ∈ ms2, db'.rows.count (q, m.version) = 1) ∧
      db'.userVersion = db.userVersion ∧
      runSources [(bootstrapPkg, ms), (q, ms2)] (bootstrap db') = .ok db' := by
  obtain ⟨k, full, hk, hfull, hrun⟩ := run_final hwf hr
  obtain ⟨full2, hfull2⟩ := Option.isSome_iff_exists.mp h2.2.2
  have hf2 : foldMigs full ms2 = some full2 := by
    rw [foldMigs_append, hfull] at hfull2
    simpa using hfull2
  have hrun1 : runFiles bootstrapPkg ms (appliedOf bootstrapPkg (bootstrap db).rows) (bootstrap db) = .ok (finalDb ms full k) := by
    have := hrun
    simp only [runOn, runSources] at this
    cases h1 : runFiles bootstrapPkg ms (appliedOf bootstrapPkg (bootstrap db).rows) (bootstrap db) with
    | failed f d => simp [h1] at this
    | ok d => simp only [h1, Result.ok.injEq] at this; rw [this]
  have hforeign : appliedOf q (finalDb ms full k).rows = [] := by
    apply c28_appliedOf_foreign
    intro r hr'
    simp only [finalDb, List.mem_append, seedRows, rowsOf, List.mem_map] at hr'
    rcases hr' with ⟨_, _, rfl⟩ | ⟨_, _, rfl⟩ <;> exact fun h => hq h.symm
  have hrun2 := runFiles_pending q ms2 [] (finalDb ms full k) full2 h2.1 (fun _ _ => by simp) h2.2.1 hf2
  have hres : runSources [(bootstrapPkg, ms), (q, ms2)] (bootstrap db) =
      .ok { finalDb ms full k with schema := full2, rows := (finalDb ms full k).rows ++ rowsOf q ms2 } := by
    simp only [runSources, hrun1, hforeign, hrun2]
  have hnd : ({ finalDb ms full k with schema := full2, rows := (finalDb ms full k).rows ++ rowsOf q ms2 } : Db).rows.Nodup := by
    have := c28_runSources_nodup [(bootstrapPkg, ms), (q, ms2)] (bootstrap db)
      (c28_bootstrap_nodup db (fun hsm => by
        obtain ⟨a, hinv, _⟩ := reach_inv hwf hr
        rw [bootstrap_of_hasSM hsm] at hinv
        obtain ⟨_, k', b, _, hms, _, _, hrows⟩ := hinv
        rw [hrows, final_rows_eq]
        have hsorted : (versions a).Pairwise (· < ·) := by
          have := hwf.2.1
          rw [hms, versions, List.map_append, List.pairwise_append] at this
          exact this.1
        refine List.Pairwise.map _ (fun x y hxy hc => ?_) (show (List.range' 1 k' ++ versions (above k' a)).Pairwise (· < ·) from ?_)
        · have : x = y := by simpa using hc
          omega
        · rw [List.pairwise_append]
          refine ⟨List.pairwise_lt_range' .., hsorted.sublist ((List.filter_sublist (l := a)).map _), ?_⟩
          intro x hx y hy
          have := (mem_range'_one.mp hx).2
          obtain ⟨m, hm, rfl⟩ := List.mem_map.mp hy
          have hk' : k' < m.version := by simpa [above] using (List.mem_filter.mp hm).2
          omega))
    rw [hres] at this
    exact this
  refine ⟨_, hres, by rw [hfull2], by simp [finalDb, hk], ?_, ?_, by simp [finalDb, hk], ?_⟩
  · intro m hm
    have h1 := final_rows_count ms hwf k m hm
    rw [hnd.count]
    have : (bootstrapPkg, m.version) ∈ (finalDb ms full k).rows := by
      simp only [finalDb]
      exact List.count_pos_iff.mp (by omega)
    simp [this]
  · intro m hm
    rw [hnd.count]
    have : (q, m.version) ∈ rowsOf q ms2 := List.mem_map.mpr ⟨m, hm, rfl⟩
    simp [this]
  · rw [bootstrap_of_hasSM (by simp [finalDb])]
    exact runSources_noop_of_rows _ _ _ hres _ (fun _ h => h)

/-- the production `sources=` list, as regenerated from `runtime.py` and the two store `__init__`s: the server
package first, then the dbos package, both resolved to the directories the model decodes -/
theorem C28_production_shape :
    Gen.Migrate.productionPackages = [bootstrapPkg, Gen.Migrate.dbosPackage] ∧
    Gen.Migrate.productionModules = [Gen.Migrate.defaultModule, Gen.Migrate.dbosModule] ∧
    Gen.Migrate.productionPassesSources = true ∧ Gen.Migrate.dbosPackage ≠ bootstrapPkg ∧
    Gen.Migrate.dbosModule ≠ Gen.Migrate.defaultModule := by decide

/-- the dbos package's list as the loader reads the regenerated directory -/
def C28.dbosShipped : List Migration := loadMigrations dbosShippedFiles

theorem C28.production_eq :
    productionSources = [(bootstrapPkg, shippedFiles), (Gen.Migrate.dbosPackage, dbosShippedFiles)] := by
  have h1 : Gen.Migrate.productionPackages = [bootstrapPkg, Gen.Migrate.dbosPackage] := by decide
  have h2 : (bootstrapPkg = Gen.Migrate.dbosPackage) = False := by decide
  have h3 : (bootstrapPkg = Gen.Migrate.defaultPackage) = True := by decide
  simp only [productionSources, h1, List.map_cons, List.map_nil, h2, h3, if_true, if_false]

/-- the hypotheses hold of the two shipped directories -/
theorem C28_production_table : C28.SecondOk shipped C28.dbosShipped ∧ C28.dbosShipped ≠ [] := by
  refine ⟨?_, ?_⟩ <;> decide +kernel

/-- **C28 for the production call** `sqlite_run_migrations(conn, sources=_SQLITE_SOURCES)`: from every start
state of the server list the run succeeds, the schema is the server scripts then the dbos scripts, every shipped
version of either package is recorded exactly once, `user_version` untouched, the second run changes nothing. -/
theorem C28_production_converges (db : Db) (hr : Reach shipped db) :
    ∃ db', runMigrations productionSources db = .ok db' ∧
      foldMigs [] (shipped ++ C28.dbosShipped) = some db'.schema ∧
      (∀ m ∈ shipped, db'.rows.count (bootstrapPkg, m.version) = 1) ∧
      (∀ m ∈ C28.dbosShipped, db'.rows.count (Gen.Migrate.dbosPackage, m.version) = 1) ∧
      db'.userVersion = db.userVersion ∧ runMigrations productionSources db' = .ok db' := by
  obtain ⟨db', h1, h2, _, h4, h5, h6, h7⟩ := C28_second_package_converges shipped C28.dbosShipped
    Gen.Migrate.dbosPackage (by decide) C28_shipped_table.1 C28_production_table.1 db hr
  have hrun : ∀ d, runMigrations productionSources d =
      runSources [(bootstrapPkg, shipped), (Gen.Migrate.dbosPackage, C28.dbosShipped)] (bootstrap d) := by
    intro d
    simp [runMigrations, C28.production_eq, shipped, C28.dbosShipped]
  exact ⟨db', by rw [hrun, h1], h2, h4, h5, h6, by rw [hrun, h7]⟩

-- non-vacuity: the legacy database at user_version = 2 is a start state and the dbos scripts really add objects
example : Reach shipped (legacyDb 2) ∧ foldMigs [] (shipped ++ C28.dbosShipped) ≠ foldMigs [] shipped :=
  ⟨reach_legacy 2 (by decide +kernel), by decide +kernel⟩

/-- **Every start state is consistent**: its schema is the fold of a prefix of the list, and if the bookkeeping
table exists its rows have no duplicates and cover that prefix. -/
theorem C28_start_states_consistent (ms : List Migration) (hwf : WellFormed ms) (db : Db) (hr : Reach ms db) :
    ∃ a, a <+: ms ∧ foldMigs [] a = some db.schema ∧
      (db.hasSM = true → db.rows.Nodup ∧ ∀ m ∈ a, (bootstrapPkg, m.version) ∈ db.rows) := by
  obtain ⟨a, hinv, _⟩ := reach_inv hwf hr
  have hs : (bootstrap db).schema = db.schema := by unfold bootstrap; split <;> rfl
  have hmem := hinv.applied_mem hwf
  obtain ⟨_, k, b, _, hms, hfold, _, hrows⟩ := hinv
  refine ⟨a, ⟨b, hms.symm⟩, by rw [← hs]; exact hfold, ?_⟩
  intro hsm
  rw [bootstrap_of_hasSM hsm] at hrows hmem
  refine ⟨?_, fun m hm => mem_appliedOf.mp (hmem m hm)⟩
  rw [hrows, final_rows_eq]
  have hsorted : (versions a).Pairwise (· < ·) := by
    have := hwf.2.1
    rw [hms, versions, List.map_append, List.pairwise_append] at this
    exact this.1
  refine List.Pairwise.map _ (fun x y hxy hc => ?_) (show (List.range' 1 k ++ versions (above k a)).Pairwise (· < ·) from ?_)
  · have : x = y := by simpa using hc
    omega
  · rw [List.pairwise_append]
    refine ⟨List.pairwise_lt_range' .., hsorted.sublist ((List.filter_sublist (l := a)).map _), ?_⟩
    intro x hx y hy
    have := (mem_range'_one.mp hx).2
    obtain ⟨m, hm, rfl⟩ := List.mem_map.mp hy
    have hk' : k < m.version := by simpa [above] using (List.mem_filter.mp hm).2
    omega


/-- The exception in `C28_kill_points` is real for the shipped list (an observation outside the property's
quantifier, which does not speak of killed runs): the legacy database at `user_version = 2` passes through
the seed window, and from that file the next run fails. -/
theorem C28_seed_window_witness :
    (C28.runOnT C28.shipped (C28.legacyDb 2)).1.any (fun c => c.durable == seedWindow (C28.legacyDb 2)) = true ∧
    (match runOn C28.shipped (seedWindow (C28.legacyDb 2)) with
     | .failed .. => true
     | .ok _ => false) = true := by
  constructor <;> decide +kernel
