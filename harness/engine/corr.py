"""Correspondence of live runs: every reducer call the real runner made is
replayed, in order, on the Lean model; canonical command lists and states must
agree line by line."""
from __future__ import annotations

from typing import Any

from . import enc
from .direct import oracle_tokens
from .live import Trace


def live_lines(tr: Trace) -> tuple[list[str], list[str]]:
    ops: list[str] = []
    outs: list[str] = []
    started = False
    for c in tr.calls:
        if c.caller not in ("run", "_process_tick"):
            continue  # replays through rebuild_state_from_ticks are checked by the C11 monitor
        if c.kind == "rewind":
            ops.append("cfg " + enc.cfg(c.before))
            outs.append("ok")
            ops.append("state " + enc.state(c.before))
            outs.append(enc.state(c.before))
            ops.append(f"rewind {enc.num(c.now)}")
            outs.append(enc.result_line(c.after, c.cmds))
            started = True
            continue
        if not started:
            continue
        ops.append(f"reduce {enc.num(c.now)} {oracle_tokens(c.oracle)} {enc.tick(c.tick)}")
        outs.append("crash" if c.error is not None else enc.result_line(c.after, c.cmds))
    return ops, outs
