"""C23 — workflow validation accepts exactly the well-formed graphs."""
from __future__ import annotations

import gc
import json
import os
import random
import re
import typing
from typing import Any

from ..boot import VERIF
from ..runner import Divergence, Driver, Env, Outcome, Violation, diff_streams

THEOREMS = [
    "C23_source_shape",
    "C23_dfs_is_reachability",
    "C23_forward_reachable",
    "C23_reverse_reachable",
    "C23_accepts_iff_wellformed",
    "C23_validate_iff_wellformed",
    "C23_hitl_flag",
    "C23_validate_hitl_flag",
    "C23_error_is_first_failure",
    "C23_subclass_is_closure",
    "C23_unfed_step_unreachable",
    "C23_unfed_step_rejected",
    # extension: offender sets, skip sets, order of the steps
    "C23_graph_offenders_exact",
    "C23_skip_only_affects_graph_checks",
    "C23_skip_monotone",
    "C23_all_skipped",
    "C23_dangling_only_human_response",
    "C23_unconsumed_return_rejected",
    "C23_order_independent",
    # extension: the whole result record, and the life of a verdict (add_step / validate() / cached _validate())
    "C23_result_record",
    "C23_result_iff_wellformed",
    "C23_cache_source_shape",
    "C23_session_names_distinct",
    "C23_cached_verdict_is_fresh",
    "C23_session_accepts_iff_wellformed",
    "C23_validated_instance_is_fresh",
    "C23_disabled_instance_skips_validation",
]
LEAN_TARGETS = ["WfProps.C23"]
EXPLANATION = (
    "Lean model of representation/validate.py (_ensure_start/_ensure_stop, _validate_event_connectivity, the @catch_error "
    "table shared with C08, build_step_graph with the stack-based _dfs, validate_graph with workflow- and step-level "
    "skip_graph_checks, _validate_workflow, and Workflow.__init__ + validate()) over class tables with multiple inheritance. "
    "Theorems, for every class table, step list with distinct names and skip setting: the DFS returns exactly the "
    "reflexive-transitive closure of the edge relation from its seeds (any graph, any adjacency order); validation accepts iff "
    "the declarative WellFormed spec holds; the returned flag is true iff some produced type is an InputRequiredEvent or some "
    "consumed type is a HumanResponseEvent (issubclass); the reported error is the first failing clause in source order; "
    "isSub is the closure of the direct-base relation. Tie: the tuples of root classes of every issubclass test, the order of checks "
    "(in _validate_workflow, Workflow.__init__ and the handler collection), which reachable set and which skip names each graph check "
    "reads, and the shape of the flag expression are regenerated from the source (independently of local variable names), used by the "
    "model and pinned by C23_source_shape; random workflows built as "
    "real StepConfig dicts and as real Workflow subclasses with dynamically created event classes are validated by the real code "
    "and by the compiled model (result, error kind and offending names compared), plus build_step_graph's reachable sets, _dfs on "
    "random digraphs and issubclass on the generated class tables. Search: an independent set-based statement of the property in "
    "Python (fixpoint reachability) is checked against the real code's accept/reject decision, error kind and flag: the reference "
    "oracle recomputes the verdict (accept, or the failing clause; for the graph clause which of reachability / terminal_event / "
    "dead_end fail and for which steps / events) from the step set alone and any difference is a violation "
    "`C23/verdict_differs:<expected>-><got>` with the step set as replay.  Entry points of the oracle's reachability are what the "
    "engine delivers (start event, HumanResponseEvent types, handler steps by name), so an ordinary step consuming an event type "
    "nothing feeds - StepFailedEvent next to wildcard / scoped handlers or without handlers - must be rejected "
    "(C23_unfed_step_unreachable / _rejected); such steps are generated dead, in dead chains, live through a union or a producer, "
    "and with the check skipped.  "
    "Extension: the names a graph error carries are exactly the offenders (member by member); only the graph checks read "
    "skip_graph_checks, skipping more never rejects, with all three skipped exactly the unskippable clauses decide; once event "
    "connectivity holds the terminal-event check can only report returned-and-unconsumed HumanResponseEvent types; the verdict "
    "(accept / flag / failing clause / offender sets) does not depend on the order of the steps dict.  The whole result record of "
    "_validate_workflow is modelled (start and stop classes, handler descriptors, the handler_for_step routing table: scoped claims, "
    "then the wildcard for unclaimed non-handler steps) and compared (op X).  Sessions: a second model (WfModel/ValidateCache.lean) "
    "covers Workflow.__init__, add_step (per-class _step_functions, the class version looked up along the subclass chain), "
    "validate() (forced) and the cached _validate() that run() calls; theorems over every history of class definitions, add_step "
    "calls, constructions and validations: step names stay distinct, a cached verdict is never stale (the answer is the answer "
    "of a fresh _validate_workflow on the current steps), hence run()-time validation passes iff the current step set is well "
    "formed, and the start/stop classes, handler descriptors and routing table the engine reads are the fresh ones.  The guards "
    "of _validate, the version bump of add_step and which entry point forces are regenerated (harness/gen/validate_cache.py) and "
    "pinned by C23_cache_source_shape.  Real chains of Workflow subclasses with instances, free-function steps added between "
    "validations, validate() and _validate() are run against the compiled session model (answers and the instance's attributes "
    "after every call), with a model-independent monitor: every _validate() answer equals a fresh _validate_workflow on the "
    "instance's current steps (`C23/stale_cached_verdict`), the attributes equal the fresh result (`C23/stale_validation_state`), "
    "and the reference oracle is applied to the current step set."
)
ASSUMPTIONS = [
    "accepted_events / return_types hold classes (issubclass never raises); generic aliases and other non-class annotations are out of the domain",
    "step names are dict keys, hence distinct (hypothesis `(names W).Nodup` of the theorems)",
    "resource validation (validate_resource_configs / validate_resources) is not part of the property; generated workflows declare no resources",
    "max_recoveries is a natural number in the model (the isinstance(int) half of the check is exercised only on the implementation)",
    "the @step / @catch_error decorators and typing.get_type_hints turn annotations into StepConfig lists as read back from the real objects (the model starts from StepConfig)",
    "Python set iteration order only affects the order of names inside messages; offending sets are compared sorted",
    "the model's `incoming` adjacency lists are in edge-insertion order, the code's in dict order of `outgoing`: irrelevant, C23_dfs_is_reachability holds for every order",
    "sessions: classes form one subclass chain below Workflow (class k+1 derives from class k); nobody calls Workflow.add_step on the root class itself, "
    "mutates _step_functions / _step_functions_version directly or replaces methods after the class statement; @catch_error handlers are methods",
    "sessions: resource validation is outside (generated steps declare no resources), so a successful _validate_workflow is a successful _validate",
]
TRUSTED_EXTRA = [
    "harness/gen/validate.py (AST extraction of the class tuples, check order, _dfs body and flag expression into WfModel/GenValidate.lean)",
    "message-to-kind classifier for WorkflowConfigurationError / WorkflowValidationError texts in harness/props/c23.py",
    "harness/gen/validate_cache.py (AST extraction of the guards of Workflow._validate, the version bump of add_step and the force arguments into WfModel/GenValidateCache.lean)",
    "harness/c23_session.py (building real Workflow subclass chains / free-function steps from a session description and reading the instance attributes back)",
]

ROOT_NAMES = ["Event", "StartEvent", "StopEvent", "InputRequiredEvent", "HumanResponseEvent", "StepFailedEvent", "NoneType"]
CHECKS = ["reachability", "terminal_event", "dead_end"]
NB = 7  # number of built-in classes


# --------------------------------------------------------------------------
# real objects from a case description


def _roots() -> list[type]:
    from workflows.events import Event, HumanResponseEvent, InputRequiredEvent, StartEvent, StepFailedEvent, StopEvent

    return [Event, StartEvent, StopEvent, InputRequiredEvent, HumanResponseEvent, StepFailedEvent, type(None)]


_POOL_CACHE: dict[str, list[type] | None] = {}


def build_classes(bases: list[list[int]]) -> list[type] | None:
    """Real classes for a class table (user part); None when Python refuses the table (MRO / layout conflict)."""
    key = json.dumps(bases)
    if key in _POOL_CACHE:
        return _POOL_CACHE[key]
    classes = _roots()
    res: list[type] | None = classes
    for i, bs in enumerate(bases):
        cid = NB + i
        if any(b >= cid or b == 6 for b in bs):
            res = None
            break
        try:
            pb = tuple(classes[b] for b in bs)
            classes.append(type(f"C{cid}", pb, {"__module__": "c23_generated"}))
        except TypeError:
            res = None
            break
    _POOL_CACHE[key] = res
    return res


def step_name(n: int) -> str:
    return f"s{n:02d}"


def direct_configs(case: dict, classes: list[type]) -> dict[str, Any]:
    from workflows.decorators import StepConfig

    steps: dict[str, Any] = {}
    for s in case["steps"]:
        steps[step_name(s["name"])] = StepConfig(
            accepted_events=[classes[c] for c in s["acc"]], event_name="ev", return_types=[classes[c] for c in s["ret"]],
            context_parameter=None, num_workers=1, retry_policy=None, resources=[], skip_graph_checks=list(s["skip"]),
            role="catch_error" if s["handler"] else "step",
            catch_error_for_steps=None if s["for"] is None else [step_name(t) for t in s["for"]],
            catch_error_max_recoveries=s["maxrec"])
    return steps


def _union(ts: list[type]) -> Any:
    if len(ts) == 1:
        return ts[0]
    return typing.Union[tuple(ts)]  # noqa: UP007


def build_workflow_class(case: dict, classes: list[type]) -> type:
    """A real Workflow subclass whose steps are declared with @step / @catch_error.  May raise
    WorkflowValidationError at decoration time (then the case is not expressible this way)."""
    from workflows import Workflow, catch_error, step

    methods: dict[str, Any] = {}
    free: list[tuple[dict, Any]] = []
    for s in case["steps"]:
        name = step_name(s["name"])

        async def fn(self: Any, ev: Any) -> Any:  # pragma: no cover - never run
            return None

        fn.__name__ = name
        ret = [classes[c] for c in s["ret"]]
        fn.__annotations__ = {"ev": _union([classes[c] for c in s["acc"]]), "return": None if ret == [type(None)] else _union(ret)}
        if s.get("free") and not s["handler"]:
            async def ffn(ev: Any) -> Any:  # pragma: no cover
                return None

            ffn.__name__ = name
            ffn.__qualname__ = name
            ffn.__annotations__ = dict(fn.__annotations__)
            free.append((s, ffn))
            continue
        fn.__qualname__ = f"WF.{name}"
        if s["handler"]:
            methods[name] = catch_error(for_steps=None if s["for"] is None else [step_name(t) for t in s["for"]],
                                        max_recoveries=s["maxrec"])(fn)
        else:
            methods[name] = step(skip_graph_checks=list(s["skip"]))(fn)
    methods["__module__"] = "c23_generated"
    wf_cls = type(Workflow)("WF", (Workflow,), methods)
    for s, ffn in free:
        step(workflow=wf_cls, skip_graph_checks=list(s["skip"]))(ffn)
    return wf_cls


# --------------------------------------------------------------------------
# canonical forms


def cls_id(classes: list[type], c: type) -> int:
    for i, k in enumerate(classes):
        if k is c:
            return i
    raise KeyError(c)


def _name_to_id(classes: list[type], name: str) -> int:
    for i, k in enumerate(classes):
        if k.__name__ == name:
            return i
    return 9999


def _sset(xs: list[int]) -> str:
    return ",".join(str(x) for x in sorted(xs)) if xs else "-"


def _names_ids(txt: str) -> list[int]:
    return [int(t.strip()[1:]) for t in txt.split(",") if t.strip()]


def classify(exc: BaseException, classes: list[type]) -> str:
    """error kind + offending names, in the driver's notation"""
    from workflows.errors import WorkflowConfigurationError, WorkflowValidationError

    msg = str(exc)
    cfg = isinstance(exc, WorkflowConfigurationError)
    val = isinstance(exc, WorkflowValidationError)

    def typed(kind: str, want_cfg: bool) -> str:
        return kind if (cfg if want_cfg else val) else f"{kind}!raised-as-{type(exc).__name__}"

    if "has no configured steps" in msg:
        return typed("noSteps", True)
    if msg.startswith("At least one Event of type StartEvent"):
        return typed("noStart", True)
    if msg.startswith("Only one type of StartEvent is allowed"):
        return typed("multiStart", True)
    if msg.startswith("At least one Event of type StopEvent"):
        return typed("noStop", True)
    if msg.startswith("Only one type of StopEvent is allowed"):
        return typed("multiStop", True)
    if msg.startswith("Unknown graph check names"):
        return typed("unknownCheck", False)
    m = re.match(r"Steps? '(.*)' cannot accept StopEvent", msg)
    if m:
        ids = [int(t[1:]) for t in m.group(1).split("', '")]
        return typed("acceptsStop " + (",".join(map(str, ids)) if ids else "-"), False)
    m = re.match(r"The following events are consumed but never produced: (.*)$", msg)
    if m:
        return typed("consumedNotProduced " + _sset([_name_to_id(classes, n.strip()) for n in m.group(1).split(",")]), False)
    m = re.match(r"The following events are produced but never consumed: (.*)$", msg)
    if m:
        return typed("producedNotConsumed " + _sset([_name_to_id(classes, n.strip()) for n in m.group(1).split(",")]), False)
    if "has max_recoveries=" in msg:
        return typed("handlerMaxRec", False)
    if any(p in msg for p in ("Only one wildcard @catch_error handler", "lists unknown step", "cannot cover another handler step",
                              "is claimed by two @catch_error handlers")):
        return typed("handlerStructure", False)
    if msg.startswith("Graph validation failed:"):
        r = t = d = "-"
        for line in msg.splitlines():
            line = line.strip()
            mm = re.match(r"- \[reachability\] Unreachable steps: (.*)$", line)
            if mm:
                r = _sset(_names_ids(mm.group(1)))
            mm = re.match(r"- \[terminal_event\] Events produced but never consumed: (.*)$", line)
            if mm:
                t = _sset([_name_to_id(classes, n.strip()) for n in mm.group(1).split(",")])
            mm = re.match(r"- \[dead_end\] Dead-end steps: (.*)$", line)
            if mm:
                d = _sset(_names_ids(mm.group(1)))
        return typed(f"graph R={r} T={t} D={d}", False)
    return f"other:{type(exc).__name__}:{msg[:80]}"


def _code(name: str) -> int:
    return CHECKS.index(name) if name in CHECKS else 9


def op_steps(steps: dict[str, Any], classes: list[type]) -> str:
    """the model's step list, read back from real StepConfig objects in dict order"""
    toks = [str(len(steps))]
    for name, cfg in steps.items():
        acc = [cls_id(classes, c) for c in cfg.accepted_events]
        ret = [cls_id(classes, c) for c in cfg.return_types]
        skip = [_code(x) for x in cfg.skip_graph_checks]
        fs = cfg.catch_error_for_steps
        toks += [str(int(name[1:])), str(len(acc)), *map(str, acc), str(len(ret)), *map(str, ret), str(len(skip)), *map(str, skip),
                 "1" if cfg.role == "catch_error" else "0"]
        toks += ["_"] if fs is None else [str(len(fs)), *[str(int(t[1:])) for t in fs]]
        toks.append(str(cfg.catch_error_max_recoveries))
    return " ".join(toks)


def op_hier(bases: list[list[int]]) -> str:
    toks = [str(len(bases))]
    for bs in bases:
        toks += [str(len(bs)), *map(str, bs)]
    return " ".join(toks)


# --------------------------------------------------------------------------
# (S) the property, stated independently of the model on the real StepConfig objects


def spec(steps: dict[str, Any], skip: list[str], via_constructor: bool,
         classes: list[type] | None = None) -> tuple[list[str], bool, str]:
    """The reference oracle: the property recomputed from the step set alone (set comprehensions and a least-fixpoint
    closure; nothing of the implementation is called, nothing of the Lean model is read).
    -> (names of the failing clauses in the order the property lists them, expected human-in-the-loop flag,
        expected graph verdict `graph[<R|T|D letters>] R=.. T=.. D=..` or "" when the graph clauses hold)

    Reachability is stated on what the engine delivers: execution enters at the start event, at any
    HumanResponseEvent type and at every @catch_error handler *step* (a StepFailedEvent is handed to the owning
    handler by name).  An event type is reachable only when a reachable step returns it or it is one of those
    entry events, so a plain step consuming an event nobody produces and nobody sends in is not reachable -
    StepFailedEvent included, whether or not handlers exist."""
    from workflows.events import HumanResponseEvent, InputRequiredEvent, StartEvent, StepFailedEvent, StopEvent

    none = type(None)
    failing: list[str] = []
    consumed = {c for cfg in steps.values() for c in cfg.accepted_events}
    returned = {c for cfg in steps.values() for c in cfg.return_types if c is not none}
    starts = {c for c in consumed if issubclass(c, StartEvent)}
    stops = {c for cfg in steps.values() for c in cfg.return_types if issubclass(c, StopEvent)}
    produced = returned | starts
    if not steps:
        failing.append("noSteps")
    if len(starts) == 0:
        failing.append("noStart")
    if len(starts) > 1:
        failing.append("multiStart")
    if len(stops) == 0:
        failing.append("noStop")
    if len(stops) > 1:
        failing.append("multiStop")
    if via_constructor and any(s not in CHECKS for s in skip):
        failing.append("unknownCheck")
    if any(issubclass(c, StopEvent) for c in consumed):
        failing.append("acceptsStop")
    if any(c not in produced and not issubclass(c, (InputRequiredEvent, HumanResponseEvent, StopEvent, StepFailedEvent)) for c in consumed):
        failing.append("consumedNotProduced")
    if any(c not in consumed and not issubclass(c, (InputRequiredEvent, HumanResponseEvent, StopEvent)) for c in produced):
        failing.append("producedNotConsumed")
    handlers = {n: cfg for n, cfg in steps.items() if cfg.role == "catch_error"}
    if any(not isinstance(h.catch_error_max_recoveries, int) or h.catch_error_max_recoveries < 1 for h in handlers.values()):
        failing.append("handlerMaxRec")
    claims = [t for h in handlers.values() if h.catch_error_for_steps is not None for t in h.catch_error_for_steps]
    if (sum(1 for h in handlers.values() if h.catch_error_for_steps is None) > 1 or any(t not in steps or t in handlers for t in claims)
            or len(set(claims)) != len(claims)):
        failing.append("handlerStructure")
    # graph clauses: reachability as a least fixpoint over the declared edges
    succ: dict[Any, set] = {}
    for n, cfg in steps.items():
        for c in cfg.accepted_events:
            succ.setdefault(c, set()).add(n)
        for c in cfg.return_types:
            if c is not none:
                succ.setdefault(n, set()).add(c)
    event_types = consumed | returned

    def closure(seed: set) -> set:
        reach = set(seed)
        changed = True
        while changed:
            changed = False
            for a in list(reach):
                for b in succ.get(a, ()):
                    if b not in reach:
                        reach.add(b)
                        changed = True
        return reach

    fwd = closure(starts | {c for c in event_types if issubclass(c, HumanResponseEvent)} | set(handlers))
    outputs = {c for c in event_types if issubclass(c, (StopEvent, InputRequiredEvent))}
    # nodes from which an output event can be reached: least fixpoint of "is an output, or has a successor in the set"
    to_output = set(outputs)
    grew = True
    while grew:
        grew = False
        for a, bs in succ.items():
            if a not in to_output and bs & to_output:
                to_output.add(a)
                grew = True
    bad_r: list[Any] = []
    bad_t: list[Any] = []
    bad_d: list[Any] = []
    if "reachability" not in skip:
        bad_r = [n for n, cfg in steps.items() if "reachability" not in cfg.skip_graph_checks and n not in fwd]
    if "terminal_event" not in skip:
        bad_t = [c for c in event_types if c not in consumed and c not in outputs]
    if "dead_end" not in skip:
        bad_d = [n for n, cfg in steps.items() if "dead_end" not in cfg.skip_graph_checks
                 and any(c is not none for c in cfg.return_types) and n not in to_output]
    graph = ""
    if bad_r or bad_t or bad_d:
        failing.append("graph")
        letters = ("R" if bad_r else "") + ("T" if bad_t else "") + ("D" if bad_d else "")
        graph = f"graph[{letters}]"
        if classes is not None:
            graph += (f" R={_sset([int(n[1:]) for n in bad_r])} T={_sset([cls_id(classes, c) for c in bad_t])}"
                      f" D={_sset([int(n[1:]) for n in bad_d])}")
    hitl = any(issubclass(c, InputRequiredEvent) for c in produced) or any(issubclass(c, HumanResponseEvent) for c in consumed)
    return failing, hitl, graph


def hitl_only_by_subclass(steps: dict[str, Any]) -> bool:
    from workflows.events import HumanResponseEvent, InputRequiredEvent

    none = type(None)
    direct = any(c is InputRequiredEvent for cfg in steps.values() for c in cfg.return_types if c is not none) or any(
        c is HumanResponseEvent for cfg in steps.values() for c in cfg.accepted_events)
    return not direct


# --------------------------------------------------------------------------
# running one case on the implementation


def run_case(case: dict) -> tuple[str, str, dict[str, Any], list[type]] | None:
    """-> (op line, implementation answer, real step configs, classes); None if the case cannot be built"""
    from workflows.errors import WorkflowConfigurationError, WorkflowValidationError
    from workflows.representation.validate import _validate_workflow

    classes = build_classes(case["bases"])
    if classes is None:
        return None
    hier = op_hier(case["bases"])
    skip_codes = [_code(s) for s in case["skip"]]
    skip_txt = " ".join([str(len(skip_codes)), *map(str, skip_codes)])
    if case["path"] == "V":
        steps = direct_configs(case, classes)
        op = f"V {hier} {op_steps(steps, classes)} {skip_txt}"
        try:
            res = _validate_workflow(steps, "WF", set(case["skip"]))
            out = f"ok {int(bool(res.uses_hitl))}" if isinstance(res.uses_hitl, bool) else f"ok?{res.uses_hitl!r}"
        except (WorkflowConfigurationError, WorkflowValidationError) as e:
            out = "err " + classify(e, classes)
        return op, out, steps, classes
    try:
        wf_cls = build_workflow_class(case, classes)
    except WorkflowValidationError:
        return None
    steps = {name: fn._step_config for name, fn in wf_cls._get_steps_from_class().items()}
    try:
        op = f"W {hier} {op_steps(steps, classes)} {skip_txt}"
    except KeyError as e:  # a step that does not belong to this class (its events are of another class pool)
        return f"W {hier} 0 {skip_txt}", f"err other:class lists a step it never declared ({e})", steps, classes
    try:
        wf = wf_cls(skip_graph_checks=set(case["skip"]))
        steps2 = wf._step_configs()
        if list(steps2) != list(steps):
            return op, f"other:instance steps {list(steps2)} differ from class steps", steps, classes
        r = wf.validate()
        out = f"ok {int(r)}" if isinstance(r, bool) else f"ok?{r!r}"
    except (WorkflowConfigurationError, WorkflowValidationError) as e:
        out = "err " + classify(e, classes)
    return op, out, steps, classes


def _graph_letters(out: str) -> str:
    """`err graph R=1 T=- D=2` -> `graph[RD]`"""
    m = re.match(r"err graph R=(\S+) T=(\S+) D=(\S+)", out)
    if not m:
        return "graph[?]"
    return "graph[" + "".join(k for k, v in zip("RTD", m.groups()) if v != "-") + "]"


def monitor(case: dict, out: str, steps: dict[str, Any], o: Outcome, classes: list[type] | None = None) -> Violation | None:
    """The decision procedure against the reference oracle `spec` (computed from the step set only).  The verdict is
    `accept` or the clause the error stands for (`graph[..]` names the graph checks that fail).  Where several clauses
    fail the property does not say which one is reported: any failing one is fine."""
    failing, hitl, graph = spec(steps, case["skip"], case["path"] == "W", classes)
    want = "accept" if not failing else (graph.split(" ")[0] if failing[0] == "graph" else failing[0])

    def shape() -> str:
        plain_sf = handlers = False
        try:
            from workflows.events import StepFailedEvent
            plain_sf = any(cfg.role != "catch_error" and any(issubclass(c, StepFailedEvent) for c in cfg.accepted_events)
                           for cfg in steps.values())
            handlers = any(cfg.role == "catch_error" for cfg in steps.values())
        except Exception:  # noqa: BLE001
            pass
        return f" (plain step consuming StepFailedEvent: {plain_sf}; handlers: {handlers}; skip={case['skip']})"

    if out.startswith("ok"):
        if failing:
            return Violation(f"C23/verdict_differs:{want}->accept",
                             f"validation accepted a step set that violates {failing}" + (f" [{graph}]" if graph else "") + shape(), case)
        got = out[3:]
        if got != str(int(hitl)):
            sub = "subclass_only" if hitl_only_by_subclass(steps) else "direct"
            return Violation(f"C23/hitl_flag_{got}_expected_{int(hitl)}_{sub}",
                             f"validate() returned {got} but an InputRequiredEvent is produced or a HumanResponseEvent is consumed = {hitl}", case)
        return None
    kind = out[4:].split(" ")[0].split("!")[0]
    if "!" in out or out.startswith("err other"):
        return Violation("C23/unexpected_error:" + out[4:40], f"validation raised an unclassified or wrongly typed error: {out}", case)
    got_v = _graph_letters(out) if kind == "graph" else kind
    if not failing:
        return Violation(f"C23/verdict_differs:accept->{got_v}", f"validation rejected a well-formed step set with {out}" + shape(), case)
    if kind not in failing:
        return Violation(f"C23/verdict_differs:{want}->{got_v}", f"validation reported {out} but the failing clauses are {failing}" + shape(), case)
    if kind == "graph" and graph:
        exp_letters = graph.split(" ")[0]
        if got_v != exp_letters:
            return Violation(f"C23/verdict_differs:{exp_letters}->{got_v}",
                             f"validation reported {out} but the graph checks that fail are {graph}" + shape(), case)
        if classes is not None and out[4:] != "graph " + graph.split(" ", 1)[1]:
            return Violation(f"C23/verdict_differs:{exp_letters}->{got_v}:offenders",
                             f"validation reported {out} but the offending steps / events are {graph}" + shape(), case)
    return None


# --------------------------------------------------------------------------
# generators


def gen_hier(rng: random.Random) -> list[list[int]]:
    n = rng.randint(5, 11)
    bases: list[list[int]] = []
    fam: list[int] = [0, 1, 2, 3, 4, 5, -1]  # family root of every class (-1: not an event)

    def of(f: int) -> list[int]:
        return [i for i, x in enumerate(fam) if x == f and i != 6]

    for i in range(n):
        r = rng.random()
        if r < 0.42 or i == 0:
            f = 0
        elif r < 0.55:
            f = 1
        elif r < 0.68:
            f = 2
        elif r < 0.79:
            f = 3
        elif r < 0.90:
            f = 4
        elif r < 0.93:
            f = 5
        elif r < 0.96:
            f = -1
        else:
            f = -2  # two unrelated bases
        if f == -1:
            bases.append([])
            fam.append(-1)
        elif f == -2:
            cands = [c for c in range(len(fam)) if c != 6 and fam[c] != -1 and c != 0]
            a = rng.choice(cands)
            others = [c for c in cands if fam[c] != fam[a]]
            if others:
                bases.append([a, rng.choice(others)])
                fam.append(fam[a])
            else:
                bases.append([0])
                fam.append(0)
        else:
            pool = of(f)
            # mostly the family root or a recent member: chains
            b = pool[-1] if rng.random() < 0.4 else rng.choice(pool)
            bases.append([b])
            fam.append(f)
    return bases


def _families(bases: list[list[int]]) -> dict[str, list[int]]:
    """ids grouped by which roots they derive from (computed on the table, not on the classes)"""
    allb = [[], [0], [0], [0], [0], [0], []] + bases
    anc: list[set[int]] = []
    for i, bs in enumerate(allb):
        s = {i}
        for b in bs:
            s |= anc[b]
        anc.append(s)
    fam: dict[str, list[int]] = {"start": [], "stop": [], "ir": [], "hr": [], "sf": [], "plain": [], "non": []}
    for i, s in enumerate(anc):
        if i == 6:
            continue
        hit = [k for k, r in (("start", 1), ("stop", 2), ("ir", 3), ("hr", 4), ("sf", 5)) if r in s]
        if 0 not in s:
            fam["non"].append(i)
        elif not hit:
            if i != 0 or True:
                fam["plain"].append(i)
        for k in hit:
            fam[k].append(i)
    return fam


def _mk(name: int, acc: list[int], ret: list[int], **kw: Any) -> dict:
    d = {"name": name, "acc": acc, "ret": ret, "skip": [], "handler": False, "for": None, "maxrec": 1, "free": False}
    d.update(kw)
    return d


def gen_flow(rng: random.Random, bases: list[list[int]], path: str) -> tuple[dict, str]:
    """a mostly-valid workflow, then possibly one mutation; -> (case, label)"""
    fam = _families(bases)
    ids = rng.sample(range(0, 40), 14)
    nxt = iter(ids)
    S = rng.choice(fam["start"])
    T = rng.choice(fam["stop"])
    plains = [p for p in fam["plain"] if p != 0 or rng.random() < 0.1]
    mids = rng.sample(plains, min(max(len(plains) - 2, 1), rng.randint(0, 4)))
    steps: list[dict] = []
    cur = S
    for m in mids + [T]:
        steps.append(_mk(next(nxt), [cur], [m]))
        cur = m
    for _ in range(rng.randint(0, 2)):
        if not mids:
            break
        acc = rng.sample(mids, min(len(mids), rng.randint(1, 2)))
        ret = rng.sample(mids + [T, 6], rng.randint(1, 2))
        steps.append(_mk(next(nxt), acc, ret))
    for s in steps:
        if rng.random() < 0.2 and mids:
            m = rng.choice(mids)
            if m not in s["ret"]:
                s["ret"].append(m)
        if rng.random() < 0.15 and 6 not in s["ret"]:
            s["ret"].append(6)
        if rng.random() < 0.15 and mids and s["acc"] != [S]:
            m = rng.choice(mids)
            if m not in s["acc"]:
                s["acc"].append(m)
    label = "valid"
    if rng.random() < 0.35:
        ir, hr = rng.choice(fam["ir"]), rng.choice(fam["hr"])
        mode = rng.random()
        if mode < 0.8:
            rng.choice(steps)["ret"].append(ir)
        if mode > 0.2:
            steps.append(_mk(next(nxt), [hr], [rng.choice(mids + [T])]))
        label = "valid+hitl"
    if rng.random() < 0.3:
        normal = [s["name"] for s in steps]
        nh = rng.randint(1, 2)
        free = normal[:]
        rng.shuffle(free)
        wild_used = False
        for _ in range(nh):
            if not wild_used and rng.random() < 0.5:
                fs = None
                wild_used = True
            else:
                k = rng.randint(0, min(2, len(free)))
                fs, free = free[:k], free[k:]
            steps.append(_mk(next(nxt), [5], [rng.choice(mids + [T, T])], handler=True, **{"for": fs}, maxrec=rng.randint(1, 3)))
        label += "+handlers"
    skip: list[str] = []
    if rng.random() < 0.15:
        skip = rng.sample(CHECKS, rng.randint(1, 2))
    tag = None
    if rng.random() < 0.16:
        tag = failed_event_consumers(rng, fam, steps, skip, nxt, T, mids)
        label += "+sfplain"
    for s in steps:
        if not s["handler"] and rng.random() < 0.06:
            s["skip"] = rng.sample(["reachability", "dead_end"], rng.randint(1, 2))
    if rng.random() < 0.38:
        label = mutate(rng, fam, steps, skip, nxt, S, T, mids, path)
    if path == "W":
        for s in steps:
            if not s["handler"] and rng.random() < 0.15:
                s["free"] = True
    rng.shuffle(steps)
    case = {"path": path, "bases": bases, "steps": steps, "skip": skip}
    if tag is not None:
        case["tag"] = tag
    return case, label


def failed_event_consumers(rng: random.Random, fam: dict, steps: list[dict], skip: list[str], nxt: Any, T: int, mids: list[int]) -> str:
    """Ordinary steps that consume StepFailedEvent (or a subclass), next to a wildcard handler, scoped handlers or no
    handler at all.  The engine hands a StepFailedEvent to the owning handler by name only, so such a step is
    reachable only through its other accepted events or when some reachable step *returns* the event type."""
    normal = [s["name"] for s in steps if not s["handler"]]
    have = [s for s in steps if s["handler"]]
    sf = 5 if rng.random() < 0.8 else rng.choice(fam["sf"])
    r = rng.random()
    if not have and r < 0.7:
        if r < 0.35:
            fs = None
        else:
            fs = rng.sample(normal, min(len(normal), rng.randint(0, 2)))
        steps.append(_mk(next(nxt), [5], [rng.choice(mids + [T, T])], handler=True, **{"for": fs}, maxrec=rng.randint(1, 3)))
        hk = "wild" if fs is None else "scoped"
    else:
        hk = "none" if not have else ("wild" if any(h["for"] is None for h in have) else "scoped")
    fresh = [p for p in fam["plain"] if p not in mids and p != 0]
    shape = rng.choice(["dead", "dead", "dead_chain", "live_union", "produced", "dead_skipped", "dead_wfskip", "dead_none"])
    if shape == "dead_chain" and not fresh:
        shape = "dead"
    if shape in ("live_union", "produced") and not mids:
        shape = "dead"
    if shape == "dead":
        steps.append(_mk(next(nxt), [sf], [rng.choice(mids + [T, T])]))
    elif shape == "dead_none":
        steps.append(_mk(next(nxt), [sf], [6]))
    elif shape == "dead_chain":
        q = rng.choice(fresh)
        steps.append(_mk(next(nxt), [sf], [q]))
        steps.append(_mk(next(nxt), [q], [T]))
    elif shape == "live_union":
        steps.append(_mk(next(nxt), [sf, rng.choice(mids)], [T]))
    elif shape == "produced":
        rng.choice([s for s in steps if not s["handler"]])["ret"].append(sf)
        steps.append(_mk(next(nxt), [sf], [T]))
    elif shape == "dead_skipped":
        steps.append(_mk(next(nxt), [sf], [T], skip=rng.choice([["reachability"], ["reachability", "dead_end"], ["dead_end"]])))
    elif shape == "dead_wfskip":
        steps.append(_mk(next(nxt), [sf], [T]))
        skip[:] = sorted({*skip, rng.choice(["reachability", "reachability", "dead_end", "terminal_event"])})
    return f"sfplain:{shape}:{hk}"


def mutate(rng: random.Random, fam: dict, steps: list[dict], skip: list[str], nxt: Any, S: int, T: int, mids: list[int], path: str) -> str:
    normal = [s for s in steps if not s["handler"]]
    handlers = [s for s in steps if s["handler"]]
    fresh_plain = [p for p in fam["plain"] if p not in mids and p != 0]
    kinds = ["start2", "nostart", "stop2", "nostop", "accept_stop", "orphan_consume", "orphan_produce", "island", "sink",
             "hr_produced", "wild2", "unknown_target", "cover_handler", "double_claim", "unknown_check", "skip_all", "nonevent",
             "island", "sink", "hr_produced", "island", "sink"]
    if path == "V":
        kinds += ["maxrec0", "empty", "none_accepted", "dup_lists", "handler_accepts_other"]
    k = rng.choice(kinds)
    if k == "start2":
        others = [c for c in fam["start"] if c != S]
        if others:
            rng.choice(normal)["acc"].append(rng.choice(others))
    elif k == "nostart":
        for s in steps:
            if S in s["acc"]:
                s["acc"] = [c for c in s["acc"] if c != S] or ([mids[0]] if mids else [T])
    elif k == "stop2":
        others = [c for c in fam["stop"] if c != T]
        if others:
            rng.choice(steps)["ret"].append(rng.choice(others))
    elif k == "nostop":
        for s in steps:
            s["ret"] = [c for c in s["ret"] if c != T] or [6]
    elif k == "accept_stop":
        rng.choice(normal)["acc"].append(rng.choice(fam["stop"]))
        if rng.random() < 0.4:
            rng.choice(normal)["acc"].append(T)
    elif k == "orphan_consume":
        c = rng.choice(fresh_plain or fam["plain"])
        if rng.random() < 0.5:
            rng.choice(normal)["acc"].append(c)
        else:
            steps.append(_mk(next(nxt), [c], [T]))
    elif k == "orphan_produce":
        c = rng.choice(fresh_plain or fam["plain"])
        rng.choice(steps)["ret"].append(c)
    elif k == "nonevent":
        if fam["non"]:
            rng.choice(steps)["ret"].append(rng.choice(fam["non"]))
    elif k == "island":
        if len(fresh_plain) >= 2:
            p, q = rng.sample(fresh_plain, 2)
            to_stop = rng.random() < 0.5
            a, b = _mk(next(nxt), [p], [q]), _mk(next(nxt), [q], [p] + ([T] if to_stop else []))
            sk = rng.random()
            if sk < 0.25:
                a["skip"], b["skip"] = ["reachability", "dead_end"], ["reachability", "dead_end"]
            elif sk < 0.45:
                a["skip"], b["skip"] = ["reachability"], ["reachability"]  # decides iff the island reaches the stop event
            elif sk < 0.55:
                a["skip"], b["skip"] = ["dead_end"], ["dead_end"]
            elif sk < 0.65:
                a["skip"] = ["reachability"]
            elif sk < 0.75:
                skip[:] = sorted({*skip, "reachability", "dead_end"})
            elif sk < 0.82:
                skip[:] = sorted({*skip, "reachability"})
            steps += [a, b]
    elif k == "sink":
        if fresh_plain and mids:
            q = rng.choice(fresh_plain)
            a, b = _mk(next(nxt), [rng.choice(mids)], [q]), _mk(next(nxt), [q], [6])
            if rng.random() < 0.3:
                a["skip"] = ["dead_end"]
            if rng.random() < 0.2:
                skip[:] = sorted({*skip, "dead_end"})
            steps += [a, b]
    elif k == "hr_produced":
        rng.choice(steps)["ret"].append(rng.choice(fam["hr"]))
        if rng.random() < 0.3:
            skip[:] = sorted({*skip, "terminal_event"})
    elif k == "wild2":
        steps.append(_mk(next(nxt), [5], [T], handler=True))
        steps.append(_mk(next(nxt), [5], [T], handler=True))
    elif k == "unknown_target":
        steps.append(_mk(next(nxt), [5], [T], handler=True, **{"for": [rng.randint(50, 60)]}))
    elif k == "cover_handler":
        h = _mk(next(nxt), [5], [T], handler=True, **{"for": [normal[0]["name"]]})
        steps.append(h)
        tgt = h["name"] if rng.random() < 0.5 or not handlers else handlers[0]["name"]
        steps.append(_mk(next(nxt), [5], [T], handler=True, **{"for": [tgt]}))
    elif k == "double_claim":
        t = normal[0]["name"]
        if rng.random() < 0.5:
            steps.append(_mk(next(nxt), [5], [T], handler=True, **{"for": [t, t]}))
        else:
            for h in handlers:
                if h["for"] is not None:
                    h["for"] = [x for x in h["for"] if x != t]
            steps.append(_mk(next(nxt), [5], [T], handler=True, **{"for": [t]}))
            steps.append(_mk(next(nxt), [5], [T], handler=True, **{"for": [t]}))
    elif k == "unknown_check":
        skip.append("bogus")
        if rng.random() < 0.5:
            rng.choice(normal)["skip"].append("terminal_event")
    elif k == "skip_all":
        skip[:] = list(CHECKS)
    elif k == "maxrec0":
        steps.append(_mk(next(nxt), [5], [T], handler=True, maxrec=0, **{"for": [rng.randint(50, 60)] if rng.random() < 0.4 else None}))
    elif k == "empty":
        del steps[:]
    elif k == "none_accepted":
        rng.choice(normal)["acc"].append(6)
    elif k == "dup_lists":
        s = rng.choice(steps)
        s["acc"] = s["acc"] + s["acc"][:1]
        s["ret"] = s["ret"] + s["ret"][:1]
    elif k == "handler_accepts_other":
        steps.append(_mk(next(nxt), [5] + mids[:1], [T], handler=True))
    return "mut:" + k


def gen_random_flow(rng: random.Random, bases: list[list[int]], path: str) -> tuple[dict, str]:
    """small unconstrained step sets: the malformed stream"""
    ncls = NB + len(bases)
    pool = [c for c in range(ncls) if c != 6]
    rng.shuffle(pool)
    pool = pool[: rng.randint(3, 6)] + [1, 2] + ([5] if rng.random() < 0.3 else [])
    steps = []
    for name in rng.sample(range(0, 40), rng.randint(1, 4)):
        acc = rng.sample(pool, rng.randint(1, 2))
        ret = rng.sample(pool + [6], rng.randint(1, 2))
        steps.append(_mk(name, acc, ret, skip=rng.sample(["reachability", "dead_end"], rng.randint(0, 1)) if rng.random() < 0.2 else []))
    if rng.random() < 0.3:
        used = {s["name"] for s in steps}
        hname = next(n for n in range(40, 60) if n not in used)
        fs = None if rng.random() < 0.5 else rng.sample(sorted(used), rng.randint(0, min(2, len(used))))
        steps.append(_mk(hname, [5], rng.sample(pool + [6], 1), handler=True, **{"for": fs}))
    skip = rng.sample(CHECKS, rng.randint(0, 3)) if rng.random() < 0.4 else []
    return {"path": path, "bases": bases, "steps": steps, "skip": skip}, "random"


def corpus() -> list[tuple[dict, str]]:
    # 7:IR' 8:HR' 9:plain 10:IR'' 11:HR'' 12:Start' 13:Stop' 14:plain' 15:(HR,Event) 16:StepFailed'
    B = [[3], [4], [0], [7], [8], [1], [2], [9], [4, 0], [5]]

    def c(path: str, steps: list[dict], skip: list[str] | None = None) -> dict:
        return {"path": path, "bases": B, "steps": steps, "skip": skip or []}

    res = []
    for p in ("V", "W"):
        res += [
            (c(p, [_mk(1, [1], [7]), _mk(2, [8], [2])]), "F21: subclasses of InputRequiredEvent / HumanResponseEvent"),
            (c(p, [_mk(1, [1], [10]), _mk(2, [1], [2])]), "F21: only a second-level InputRequiredEvent subclass produced"),
            (c(p, [_mk(1, [1], [2]), _mk(2, [11], [2])]), "F21: only a HumanResponseEvent sub-subclass consumed"),
            (c(p, [_mk(1, [1], [3]), _mk(2, [4], [2])]), "direct InputRequiredEvent / HumanResponseEvent"),
            (c(p, [_mk(1, [1], [2])]), "minimal"),
            (c(p, [_mk(1, [12], [9]), _mk(2, [9], [13])]), "custom start/stop"),
            (c(p, [_mk(1, [1], [9]), _mk(2, [9, 12], [2])]), "two start types"),
            (c(p, [_mk(1, [1], [2, 13])]), "two stop types"),
            (c(p, [_mk(1, [1], [9]), _mk(2, [9, 13], [2])]), "step accepts a StopEvent subclass"),
            (c(p, [_mk(1, [1], [2, 8])]), "HumanResponseEvent subclass produced, never consumed (terminal_event)"),
            (c(p, [_mk(1, [1], [2, 8])], ["terminal_event"]), "same, check skipped"),
            (c(p, [_mk(1, [1], [2]), _mk(2, [9], [14]), _mk(3, [14], [9])]), "unreachable dead-end island"),
            (c(p, [_mk(1, [1], [2]), _mk(2, [9], [14], skip=["reachability", "dead_end"]), _mk(3, [14], [9], skip=["reachability", "dead_end"])]),
             "island skipped per step"),
            (c(p, [_mk(1, [1], [2]), _mk(2, [9], [14]), _mk(3, [14], [9])], ["reachability", "dead_end"]), "island skipped per workflow"),
            (c(p, [_mk(1, [1], [2]), _mk(5, [5], [9], handler=True), _mk(3, [9], [2])]), "handler sub-graph reachable only as a handler seed"),
            (c(p, [_mk(1, [1], [2]), _mk(5, [5], [2], handler=True), _mk(6, [5], [2], handler=True)]), "two wildcard handlers"),
            (c(p, [_mk(1, [1], [2]), _mk(5, [5], [2], handler=True, **{"for": [1]}), _mk(6, [5], [2], handler=True, **{"for": [1]})]), "double claim"),
            (c(p, [_mk(1, [1], [2]), _mk(5, [5], [2], handler=True, **{"for": [5]})]), "handler covers itself"),
            (c(p, [_mk(1, [1], [2]), _mk(5, [5], [2], handler=True, **{"for": [44]})]), "unknown for_steps target"),
            (c(p, [_mk(1, [1], [9, 6]), _mk(2, [9], [6]), _mk(3, [9], [2])]), "None returns"),
            (c(p, [_mk(1, [1], [2])], ["bogus"]), "unknown check name"),
            (c(p, [_mk(1, [1], [2]), _mk(2, [15], [2])]), "class deriving from HumanResponseEvent and Event consumed"),
            (c(p, [_mk(1, [1], [2]), _mk(3, [5], [2])]), "plain step consuming StepFailedEvent, no handler: unreachable"),
            (c(p, [_mk(1, [1], [2]), _mk(5, [5], [2], handler=True), _mk(3, [5], [2])]),
             "plain step consuming StepFailedEvent next to a wildcard handler: still unreachable"),
            (c(p, [_mk(1, [1], [2]), _mk(5, [5], [2], handler=True, **{"for": [1]}), _mk(3, [5], [9]), _mk(4, [9], [2])]),
             "scoped handler; the StepFailedEvent consumer heads an unreachable sub-graph"),
            (c(p, [_mk(1, [1], [2]), _mk(5, [5], [2], handler=True), _mk(3, [16], [2])]),
             "plain step consuming a StepFailedEvent subclass next to a wildcard handler"),
            (c(p, [_mk(1, [1], [9, 2]), _mk(5, [5], [2], handler=True), _mk(3, [5, 9], [2])]),
             "StepFailedEvent consumer that is reachable through its other accepted event"),
            (c(p, [_mk(1, [1], [5, 2]), _mk(5, [5], [2], handler=True), _mk(3, [5], [2])]),
             "StepFailedEvent returned by a reachable step: its plain consumer is reachable"),
            (c(p, [_mk(1, [1], [2]), _mk(5, [5], [2], handler=True), _mk(3, [5], [2], skip=["reachability"])]),
             "unreachable StepFailedEvent consumer, reachability skipped on the step"),
            (c(p, [_mk(1, [1], [2]), _mk(5, [5], [2], handler=True), _mk(3, [5], [2])], ["reachability"]),
             "unreachable StepFailedEvent consumer, reachability skipped on the workflow"),
            (c(p, [_mk(1, [1], [9]), _mk(2, [9], [6])]), "no stop event"),
            (c(p, [_mk(1, [9], [2])]), "no start event"),
        ]
    res += [
        ({"path": "V", "bases": B, "steps": [], "skip": []}, "no steps"),
        (c("V", [_mk(1, [1], [2]), _mk(5, [5], [2], handler=True, maxrec=0, **{"for": [44]})]), "max_recoveries 0 wins over structure"),
        (c("V", [_mk(1, [1, 1], [2, 2, 6])]), "duplicates in the lists"),
        (c("V", [_mk(1, [1, 6], [2])]), "NoneType accepted"),
    ]
    return res


# --------------------------------------------------------------------------
# auxiliary correspondences: build_step_graph, _dfs, issubclass


def graph_corr(env: Env, out: Outcome, cases: list[dict]) -> None:
    from workflows.representation.validate import build_step_graph

    rng = random.Random(env.rng.randrange(1 << 30))
    ops, exp = [], []
    for case in cases:
        classes = build_classes(case["bases"])
        if classes is None or not case["steps"]:
            continue
        steps = direct_configs(case, classes)
        used = sorted({cls_id(classes, c) for cfg in steps.values() for c in cfg.accepted_events})
        start = rng.choice(used) if used and rng.random() < 0.9 else rng.randrange(len(classes))
        handlers = [n for n, cfg in steps.items() if cfg.role == "catch_error"]
        g = build_step_graph(steps, classes[start], handlers)

        def nodes(s: set) -> str:
            st = [int(x[1:]) for x in s if isinstance(x, str)]
            ev = [cls_id(classes, x) for x in s if not isinstance(x, str)]
            return f"{_sset(st)}/{_sset(ev)}"

        ops.append(f"G {op_hier(case['bases'])} {op_steps(steps, classes)} {start}")
        exp.append(f"F={nodes(g.forward_reachable)} R={nodes(g.reverse_reachable)} E={_sset([cls_id(classes, c) for c in g.event_types])}")
        out.evaluations += 1
        out.count("graph-op")
    _diff(out, "validate", ops, exp)


def dfs_corr(env: Env, out: Outcome, n: int) -> None:
    from workflows.representation.validate import _dfs

    rng = random.Random(env.rng.randrange(1 << 30))
    ops, exp = [], []
    for _ in range(n):
        k = rng.randint(1, 9)
        ne = rng.randint(0, 2 * k + 2)
        edges = [(rng.randrange(k), rng.randrange(k)) for _ in range(ne)]
        seeds = [rng.randrange(k + 1) for _ in range(rng.randint(0, 3))]
        adj: dict[Any, list] = {}
        for a, b in edges:
            adj.setdefault(a, []).append(b)
        got = _dfs(list(seeds), adj)
        # (S) independent closure
        reach = set(seeds)
        changed = True
        while changed:
            changed = False
            for a, b in edges:
                if a in reach and b not in reach:
                    reach.add(b)
                    changed = True
        if set(got) != reach:
            out.violations.append(Violation("C23/dfs_not_reachability", f"_dfs({seeds}, {adj}) = {sorted(got)} but reachable = {sorted(reach)}",
                                            {"dfs": {"seeds": seeds, "edges": edges}}))
        ops.append(f"D {len(seeds)} {' '.join(map(str, seeds))} {len(edges)} {' '.join(f'{a} {b}' for a, b in edges)}".replace("  ", " ").strip())
        exp.append(_sset(list(got)))
        out.evaluations += 1
        out.count("dfs-op")
    _diff(out, "validate", ops, exp)


def hier_corr(env: Env, out: Outcome, hiers: list[list[list[int]]]) -> None:
    ops, exp = [], []
    seen = set()
    for bases in hiers:
        key = json.dumps(bases)
        if key in seen:
            continue
        seen.add(key)
        classes = build_classes(bases)
        if classes is None:
            continue
        roots = classes[:6]
        ops.append(f"I {op_hier(bases)}")
        exp.append(" ".join(f"{i}:" + "".join("1" if issubclass(c, r) else "0" for r in roots) for i, c in enumerate(classes)))
        out.evaluations += 1
        out.count("issubclass-op")
    _diff(out, "validate", ops, exp)


def _diff(out: Outcome, model: str, ops: list[str], exp: list[str], ctx: list | None = None) -> None:
    if not ops:
        return
    try:
        mo = Driver(model).run(ops)
    except Exception as ex:  # noqa: BLE001
        out.divergences.append(Divergence(model, 0, "<driver>", repr(ex), ""))
        return
    out.traces_validated += len(ops)
    out.disagreements_checked += len(ops)
    d = diff_streams(model, ops, mo, exp, None)
    if d is not None:
        if ctx is not None and d.index < len(ctx):
            d.context = ctx[d.index]
        out.divergences.append(d)


# --------------------------------------------------------------------------


def run_batch(env: Env, out: Outcome, cases: list[tuple[dict, str]], hiers: list[list[list[int]]], graph_n: int) -> None:
    ops, exp, ctx = [], [], []
    for case, label in cases:
        r = run_case(case)
        if r is None:
            out.count("not-expressible-with-decorators" if case["path"] == "W" else "class-table-refused")
            continue
        op, res, steps, _classes = r
        ops.append(op)
        exp.append(res)
        ctx.append(case)
        out.evaluations += 1
        out.count("path:" + case["path"])
        out.count("gen:" + (label if label.startswith(("valid", "mut:", "random")) else "corpus"))
        if case.get("tag"):
            out.count("shape:" + case["tag"])
        kind = res.split(" ")[0] + (" " + res.split(" ")[1] if res.startswith("err") else (" hitl" if res.endswith("1") else ""))
        out.count("impl:" + kind)
        if kind not in ("err noStart", "err noStop", "err noSteps"):
            out.nontrivial(op)
        out.sample({"label": label, "op": op, "impl": res})
        try:
            v = monitor(case, res, steps, out, _classes)
        except KeyError as e:  # an event class that is not of this case's pool: the class lists a step it never declared
            v = Violation("C23/unexpected_error:foreign_step", f"the workflow class lists a step it never declared ({e!r}); answer {res}", case)
        if v is not None:
            out.violations.append(v)
    _diff(out, "validate", ops, exp, ctx)
    graph_corr(env, out, [c for c, _l in cases if c["path"] == "V"][:graph_n])
    from ..c23_session import result_corr
    result_corr(out, [c for c, _l in cases if c["path"] == "V"][:max(graph_n, 100)])
    hier_corr(env, out, hiers)
    _POOL_CACHE.clear()
    gc.collect()


def run(env: Env) -> Outcome:
    from ..boot import boot

    boot()
    out = Outcome()
    out.rule = ("class tables with chains / multiple inheritance x constructed mostly-valid workflows (backbone, unions, None returns, "
                "HITL events, handlers, ordinary StepFailedEvent consumers in ~16%, skip settings) with one mutation in ~38% + unconstrained small step sets; both as StepConfig dicts "
                "(_validate_workflow) and as real Workflow subclasses (constructor + validate()); non-trivial = accepted or rejected by a "
                "check after start/stop inference; distinct by op line.  Sessions: a generated workflow split into the methods of a first class "
                "and free-function steps added later (35% of the plain steps), 8-24 further ops: instances (12% disable_validation, skip sets), "
                "validate(), _validate() (30%), add_step of a planned or an extra step (extending, HITL-flipping, breaking connectivity, "
                "duplicate name, second start type, island, StopEvent consumer), up to three further subclasses (new / overriding methods); "
                "how each _validate() was answered (first / cache-hit / stale-revalidate / disabled) is counted")
    rng = random.Random(env.rng.randrange(1 << 30))
    from ..c23_session import corpus_sessions, gen_session, run_sessions

    first: list[tuple[dict, str]] = []
    first_sessions: list[tuple[dict, str]] = []
    if env.replay is not None:
        rc = env.replay["payload"]["case"]
        if isinstance(rc, dict) and "steps" in rc:
            first.append((rc, "replay"))
        if isinstance(rc, dict) and "session" in rc:
            first_sessions.append((rc["session"], "replay"))
    run_sessions(env, out, first_sessions + corpus_sessions())
    first += corpus()
    wpath = os.path.join(VERIF, "harness", "corpus", "c23_hitl_subclass.json")
    if os.path.exists(wpath):
        first.append((json.load(open(wpath))["case"], "witness F21"))
    spath = os.path.join(VERIF, "harness", "corpus", "c23_failed_event_plain_consumer.json")
    if os.path.exists(spath):
        first.append((json.load(open(spath))["case"], "corpus: StepFailedEvent plain consumer"))
    run_batch(env, out, first, [c["bases"] for c, _l in first[:1]] + [first[-1][0]["bases"]], 100)
    n = env.budget(3000, 150000)
    per_hier = 8 if env.tier == "quick" else 12
    batch = 3000
    bases: list[list[int]] = []
    done = 0
    while done < n:
        cases: list[tuple[dict, str]] = []
        hiers: list[list[list[int]]] = []
        for i in range(min(batch, n - done)):
            if i % per_hier == 0:
                for _ in range(20):
                    bases = gen_hier(rng)
                    fam = _families(bases)
                    if build_classes(bases) is not None and fam["plain"] and fam["ir"] and fam["hr"]:
                        break
                hiers.append(bases)
            path = "V" if rng.random() < 0.5 else "W"
            if rng.random() < 0.15:
                cases.append(gen_random_flow(rng, bases, path))
            else:
                cases.append(gen_flow(rng, bases, path))
        done += len(cases)
        run_batch(env, out, cases, hiers, max(1, len(cases) // 4))
    dfs_corr(env, out, env.budget(1500, 60000))
    # sessions: chains of real Workflow subclasses, add_step between validations, validate() / cached _validate()
    srng = random.Random(env.rng.randrange(1 << 30))
    n_sessions = env.budget(400, 5000)
    sdone = 0
    while sdone < n_sessions:
        chunk: list[tuple[dict, str]] = []
        for i in range(min(400, n_sessions - sdone)):
            if i % 4 == 0:
                for _ in range(20):
                    sb = gen_hier(srng)
                    fam = _families(sb)
                    if build_classes(sb) is not None and fam["plain"] and fam["ir"] and fam["hr"]:
                        break
            chunk.append((gen_session(srng, sb), "generated"))
        sdone += len(chunk)
        run_sessions(env, out, chunk)
        _POOL_CACHE.clear()
        gc.collect()
    return out
