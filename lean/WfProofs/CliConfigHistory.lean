import WfProofs.CliConfig
/-! Helper lemmas for the history theorems of C37 (model M16): profile ids are unique, the
active profile is the very profile the latest pick designated and has been active in every
state since, and `get_current_environment()` never fabricates an environment. -/
namespace CliConfig

/-! ## Profile ids -/

/-- `idx_profiles_id`: ids are pairwise different; and all ids are below the creation counter. -/
structure Ids (s : State) : Prop where
  fresh : ∀ p ∈ s.profiles, p.pid < s.nextId
  nodup : s.profiles.Pairwise (fun p q => p.pid ≠ q.pid)

theorem ids_map {ps : List Profile} (f : Profile → Profile) (hf : ∀ p, (f p).pid = p.pid)
    (h : ps.Pairwise (fun p q => p.pid ≠ q.pid)) : (ps.map f).Pairwise (fun p q => p.pid ≠ q.pid) := by
  apply List.Pairwise.map f _ h
  intro a b hab
  rw [hf a, hf b]; exact hab

theorem fresh_map {ps : List Profile} {n : Nat} (f : Profile → Profile) (hf : ∀ p, (f p).pid = p.pid)
    (h : ∀ p ∈ ps, p.pid < n) : ∀ p ∈ ps.map f, p.pid < n := by
  intro p hp
  obtain ⟨q, hq, rfl⟩ := List.mem_map.mp hp
  rw [hf q]; exact h q hq

theorem ids_mapState {s : State} (f : Profile → Profile) (hf : ∀ p, (f p).pid = p.pid) (h : Ids s)
    {s' : State} (hp : s'.profiles = s.profiles.map f) (hn : s'.nextId = s.nextId) : Ids s' :=
  ⟨by rw [hp, hn]; exact fresh_map f hf h.fresh, by rw [hp]; exact ids_map f hf h.nodup⟩

theorem ids_filterState {s : State} (q : Profile → Bool) (h : Ids s)
    {s' : State} (hp : s'.profiles = s.profiles.filter q) (hn : s'.nextId = s.nextId) : Ids s' :=
  ⟨by rw [hp, hn]; intro p hp'; exact h.fresh p (List.mem_filter.mp hp').1,
   by rw [hp]; exact List.Pairwise.filter q h.nodup⟩

theorem ids_sameState {s : State} (h : Ids s)
    {s' : State} (hp : s'.profiles = s.profiles) (hn : s'.nextId = s.nextId) : Ids s' :=
  ⟨by rw [hp, hn]; exact h.fresh, by rw [hp]; exact h.nodup⟩

theorem createAndSelect_ids {s : State} (name project : String) (key : Option String) (o : Option Oidc)
    (h : Ids s) : Ids (createAndSelect s name project key o).1 := by
  unfold createAndSelect
  split
  · exact h
  · split
    · exact h
    · refine ⟨?_, ?_⟩
      · intro p hp
        simp only [List.mem_append, List.mem_singleton] at hp
        rcases hp with hp | hp
        · exact Nat.lt_succ_of_lt (h.fresh p hp)
        · subst hp; exact Nat.lt_succ_self _
      · simp only
        rw [List.pairwise_append]
        refine ⟨h.nodup, by simp, ?_⟩
        intro a ha b hb
        simp only [List.mem_singleton] at hb
        subst hb
        exact Nat.ne_of_lt (h.fresh a ha)

theorem ids_init (c : Cfg) : Ids (init c) := ⟨by simp [init], by simp [init]⟩

theorem ids_step (c : Cfg) {s : State} (h : Ids s) (op : Op) : Ids (step c s op).1 := by
  cases op with
  | envAdd url ra mv => exact ids_sameState h rfl rfl
  | envUpsert url ra mv => exact ids_sameState h rfl rfl
  | envSwitch url =>
    simp only [step]; split
    · exact h
    · exact ids_sameState h rfl rfl
  | envDelete url =>
    simp only [step]; split
    · exact h
    · split
      · exact ids_filterState _ h rfl rfl
      · exact ids_filterState _ h rfl rfl
  | createToken project key => exact createAndSelect_ids _ _ _ _ h
  | createOidc project uid email tok =>
    simp only [step]; split
    · exact ids_mapState _ (by intro p; split <;> rfl) h rfl rfl
    · exact createAndSelect_ids _ _ _ _ h
  | select name => exact ids_sameState h rfl rfl
  | selectAny =>
    simp only [step]; split
    · exact h
    · exact ids_sameState h rfl rfl
  | deleteProfile name => exact ids_filterState _ h rfl rfl
  | setProject name project => exact ids_mapState _ (by intro p; split <;> rfl) h rfl rfl
  | updateKey name key keyId =>
    simp only [step]; split
    · exact h
    · exact ids_mapState _ (by intro p; split <;> rfl) h rfl rfl
  | destroy => exact ⟨by simp [step, init], by simp [step, init]⟩
  | probe ra mv =>
    simp only [step]; split
    · exact h
    · exact ids_sameState h rfl rfl
  | refresh pid uid tok =>
    simp only [step]; split
    · exact h
    · exact ids_mapState _ (by intro p; split <;> rfl) h rfl rfl

theorem ids_run (c : Cfg) : ∀ (ops : List Op) (s : State), Ids s → Ids (run c s ops)
  | [], _, h => h
  | op :: ops, _, h => ids_run c ops _ (ids_step c h op)

/-! ## `get_profile` under the primary key -/

theorem keys_eq {ps : List Profile} (h : KeysUnique ps) {a b : Profile} (ha : a ∈ ps) (hb : b ∈ ps)
    (hn : a.name = b.name) (he : a.env = b.env) : a = b := by
  induction ps with
  | nil => cases ha
  | cons x xs ih =>
    unfold KeysUnique at h
    rw [List.pairwise_cons] at h
    rcases List.mem_cons.mp ha with ha' | ha' <;> rcases List.mem_cons.mp hb with hb' | hb'
    · rw [ha', hb']
    · rw [ha'] at hn he; exact absurd ⟨hn, he⟩ (h.1 b hb')
    · rw [hb'] at hn he; exact absurd ⟨hn.symm, he.symm⟩ (h.1 a ha')
    · exact ih h.2 ha' hb'

/-- With the key `(name, api_url)`, `get_profile(n, e)` answers `p` exactly when `p` is a stored
row with that name and environment. -/
theorem getProfile_iff {s : State} (hk : KeysUnique s.profiles) {n e : String} {p : Profile} :
    getProfile s n e = some p ↔ p ∈ s.profiles ∧ p.name = n ∧ p.env = e := by
  constructor
  · exact getProfile_some
  · rintro ⟨hm, hn, he⟩
    cases hg : getProfile s n e with
    | none => exact absurd ⟨hn, he⟩ (getProfile_none hg p hm)
    | some q =>
      obtain ⟨hqm, hqn, hqe⟩ := getProfile_some hg
      rw [keys_eq hk hqm hm (hqn.trans hn.symm) (hqe.trans he.symm)]

/-! ## One step backwards -/

/-- same row identity: id, name and environment (the other columns may have been updated) -/
def Same (p q : Profile) : Prop := p.pid = q.pid ∧ p.name = q.name ∧ p.env = q.env

theorem active_some {s : State} {p : Profile} (h : active s = some p) :
    s.curProf = some p.name ∧ p ∈ s.profiles ∧ p.env = s.curEnv := by
  unfold active at h
  split at h
  · simp at h
  · rename_i n hn
    split at h
    · simp at h
    · obtain ⟨hm, hname, henv⟩ := getProfile_some h
      exact ⟨by rw [hn, hname], hm, henv⟩

/-- If pointer and current environment are those of `s` and every row of `s'` is a row of `s`
up to updated columns, then a profile active in `s'` was already active in `s`. -/
theorem active_back_of_sub {s s' : State} {p : Profile} (h : active s' = some p) (hk : KeysUnique s.profiles)
    (hp : s'.curProf = s.curProf) (he : s'.curEnv = s.curEnv)
    (hsub : ∀ p ∈ s'.profiles, ∃ p0 ∈ s.profiles, Same p0 p) : ∃ p0, active s = some p0 ∧ Same p0 p := by
  unfold active at h
  split at h
  · simp at h
  · rename_i n hn
    split at h
    · simp at h
    · rename_i hne
      obtain ⟨hm, hname, henv⟩ := getProfile_some h
      obtain ⟨p0, hp0, hs⟩ := hsub p hm
      refine ⟨p0, ?_, hs⟩
      unfold active
      rw [← hp, hn]
      simp only [hne]
      rw [← he]
      exact (getProfile_iff hk).mpr ⟨hp0, hs.2.1.trans hname, hs.2.2.trans henv⟩

theorem sub_refl (ps : List Profile) : ∀ p ∈ ps, ∃ p0 ∈ ps, Same p0 p :=
  fun p hp => ⟨p, hp, rfl, rfl, rfl⟩

theorem sub_filter (ps : List Profile) (q : Profile → Bool) : ∀ p ∈ ps.filter q, ∃ p0 ∈ ps, Same p0 p :=
  fun p hp => ⟨p, (List.mem_filter.mp hp).1, rfl, rfl, rfl⟩

theorem sub_map (ps : List Profile) (f : Profile → Profile)
    (hf : ∀ p, (f p).pid = p.pid ∧ (f p).name = p.name ∧ (f p).env = p.env) :
    ∀ p ∈ ps.map f, ∃ p0 ∈ ps, Same p0 p := by
  intro p hp
  obtain ⟨q, hq, rfl⟩ := List.mem_map.mp hp
  exact ⟨q, hq, (hf q).1.symm, (hf q).2.1.symm, (hf q).2.2.symm⟩

theorem createAndSelect_cases (s : State) (name project : String) (key : Option String) (o : Option Oidc) :
    createAndSelect s name project key o = (s, .errBlankProject) ∨
    createAndSelect s name project key o = (s, .errExists) ∨
    ((createAndSelect s name project key o).2 = .profile s.nextId name ∧
     (createAndSelect s name project key o).1.curProf = some name ∧
     (createAndSelect s name project key o).1.curEnv = s.curEnv) := by
  unfold createAndSelect
  split
  · exact Or.inl rfl
  · split
    · exact Or.inr (Or.inl rfl)
    · exact Or.inr (Or.inr ⟨rfl, rfl, rfl⟩)

/-- Every operation that changes the current environment leaves the selection empty. -/
theorem env_change_clears {c : Cfg} (hg : Good c) (s : State) (op : Op) :
    (step c s op).1.curEnv = s.curEnv ∨ (step c s op).1.curProf = none := by
  obtain ⟨hsw, had, hdel, _⟩ := hg
  cases op with
  | envAdd url ra mv => right; simp only [step, had, if_true]
  | envUpsert url ra mv => left; rfl
  | envSwitch url =>
    simp only [step]; split
    · left; rfl
    · right; simp only [hsw, if_true]
  | envDelete url =>
    simp only [step]; split
    · left; rfl
    · split
      · right; simp only [hdel, if_true]
      · left; rfl
  | createToken project key =>
    simp only [step]
    rcases createAndSelect_cases s (tokenName key) project key none with h | h | h
    · left; rw [h]
    · left; rw [h]
    · left; exact h.2.2
  | createOidc project uid email tok =>
    simp only [step]; split
    · left; rfl
    · rcases createAndSelect_cases s email project none (some ⟨uid, tok⟩) with h | h | h
      · left; rw [h]
      · left; rw [h]
      · left; exact h.2.2
  | select name => left; rfl
  | selectAny => simp only [step]; split <;> (left; rfl)
  | deleteProfile name => left; rfl
  | setProject name project => left; rfl
  | updateKey name key keyId => simp only [step]; split <;> (left; rfl)
  | destroy => right; rfl
  | probe ra mv => simp only [step]; split <;> (left; rfl)
  | refresh pid uid tok => simp only [step]; split <;> (left; rfl)

theorem step_curEnv_of_active {c : Cfg} (hg : Good c) (s : State) (op : Op) {p : Profile}
    (h : active (step c s op).1 = some p) : (step c s op).1.curEnv = s.curEnv := by
  rcases env_change_clears hg s op with h1 | h1
  · exact h1
  · rw [(active_some h).1] at h1; cases h1

/-- **One step backwards.**  If a profile is active after an operation, then either the operation
is a pick event of exactly that name, or it is no pick event and the same row (same id) was
already active before. -/
theorem active_back {c : Cfg} (hg : Good c) {s : State} (hi : Inv c s) (op : Op) {p : Profile}
    (h : active (step c s op).1 = some p) :
    picks c s op = some p.name ∨ (picks c s op = none ∧ ∃ p0, active s = some p0 ∧ Same p0 p) := by
  obtain ⟨hsw, had, hdel, _⟩ := hg
  have hk := hi.keys
  have hptr := (active_some h).1
  cases op with
  | envAdd url ra mv =>
    simp only [step, had, if_true] at hptr; cases hptr
  | envUpsert url ra mv =>
    exact Or.inr ⟨rfl, active_back_of_sub h hk rfl rfl (sub_refl _)⟩
  | envSwitch url =>
    have hpk : picks c s (.envSwitch url) = none := rfl
    simp only [step] at h hptr
    split at h
    · exact Or.inr ⟨hpk, p, h, rfl, rfl, rfl⟩
    · rename_i r hr
      simp only [hr, hsw, if_true] at hptr; cases hptr
  | envDelete url =>
    have hpk : picks c s (.envDelete url) = none := rfl
    simp only [step] at h hptr
    split at h
    · exact Or.inr ⟨hpk, p, h, rfl, rfl, rfl⟩
    · rename_i r hr
      split at h
      · rename_i hcur
        simp only [hr, hcur, hdel, if_true] at hptr; cases hptr
      · exact Or.inr ⟨hpk, active_back_of_sub h hk rfl rfl (sub_filter _ _)⟩
  | createToken project key =>
    have hpk : picks c s (.createToken project key) =
        match (createAndSelect s (tokenName key) project key none).2 with
        | .profile _ n => some n
        | _ => none := by
      simp only [picks, step]; split <;> simp_all
    simp only [step] at h hptr
    rw [hpk]
    rcases createAndSelect_cases s (tokenName key) project key none with hc | hc | hc
    · rw [hc] at h ⊢; exact Or.inr ⟨rfl, p, h, rfl, rfl, rfl⟩
    · rw [hc] at h ⊢; exact Or.inr ⟨rfl, p, h, rfl, rfl, rfl⟩
    · rw [hc.2.1] at hptr
      simp only [Option.some.injEq] at hptr
      rw [hc.1, hptr]; exact Or.inl rfl
  | createOidc project uid email tok =>
    simp only [step] at h hptr
    split at h
    · rename_i ex hex
      simp only [hex, Option.some.injEq] at hptr
      left
      simp only [picks, step, hex, hptr]
    · rename_i hnone
      have hpk : picks c s (.createOidc project uid email tok) =
          match (createAndSelect s email project none (some ⟨uid, tok⟩)).2 with
          | .profile _ n => some n
          | _ => none := by
        simp only [picks, step, hnone]; split <;> simp_all
      simp only [hnone] at hptr
      rw [hpk]
      rcases createAndSelect_cases s email project none (some ⟨uid, tok⟩) with hc | hc | hc
      · rw [hc] at h ⊢; exact Or.inr ⟨rfl, p, h, rfl, rfl, rfl⟩
      · rw [hc] at h ⊢; exact Or.inr ⟨rfl, p, h, rfl, rfl, rfl⟩
      · rw [hc.2.1] at hptr
        simp only [Option.some.injEq] at hptr
        rw [hc.1, hptr]; exact Or.inl rfl
  | select name =>
    simp only [step, Option.some.injEq] at hptr
    left; simp only [picks, hptr]
  | selectAny =>
    simp only [step] at h hptr
    split at h
    · rename_i hnone
      exact Or.inr ⟨by simp only [picks, hnone, Option.map_none], p, h, rfl, rfl, rfl⟩
    · rename_i q hq
      simp only [hq, Option.some.injEq] at hptr
      left; simp only [picks, hq, Option.map_some, hptr]
  | deleteProfile name =>
    have hpk : picks c s (.deleteProfile name) = none := rfl
    simp only [step] at h hptr
    by_cases hc : s.curProf = some name
    · simp only [hc, if_true] at hptr; cases hptr
    · simp only [hc, if_false] at h
      exact Or.inr ⟨hpk, active_back_of_sub h hk rfl rfl (sub_filter _ _)⟩
  | setProject name project =>
    exact Or.inr ⟨rfl, active_back_of_sub h hk rfl rfl (sub_map _ _ (by intro q; split <;> simp))⟩
  | updateKey name key keyId =>
    have hpk : picks c s (.updateKey name key keyId) = none := rfl
    simp only [step] at h
    split at h
    · exact Or.inr ⟨hpk, p, h, rfl, rfl, rfl⟩
    · exact Or.inr ⟨hpk, active_back_of_sub h hk rfl rfl (sub_map _ _ (by intro q; split <;> simp))⟩
  | destroy =>
    simp only [step, init] at hptr; cases hptr
  | probe ra mv =>
    have hpk : picks c s (.probe ra mv) = none := rfl
    simp only [step] at h
    split at h
    · exact Or.inr ⟨hpk, p, h, rfl, rfl, rfl⟩
    · exact Or.inr ⟨hpk, active_back_of_sub h hk rfl rfl (sub_refl _)⟩
  | refresh pid uid tok =>
    have hpk : picks c s (.refresh pid uid tok) = none := rfl
    simp only [step] at h
    split at h
    · exact Or.inr ⟨hpk, p, h, rfl, rfl, rfl⟩
    · exact Or.inr ⟨hpk, active_back_of_sub h hk rfl rfl (sub_map _ _ (by intro q; split <;> simp))⟩

/-! ## "Active ever since" -/

/-- In state `s` the environment `e` is current and the row with id `pid`, name `n` of `e` is active. -/
def HeldAt (n e : String) (pid : Nat) (s : State) : Prop :=
  s.curEnv = e ∧ ∃ q, active s = some q ∧ q.pid = pid ∧ q.name = n ∧ q.env = e

/-- Along `ops` from `s`: in every state passed (the first and the last included) `e` is the
current environment and the row `(pid, n, e)` is the active profile, and no operation is a
pick event. -/
def Kept (c : Cfg) (n e : String) (pid : Nat) : State → List Op → Prop
  | s, [] => HeldAt n e pid s
  | s, op :: ops => HeldAt n e pid s ∧ picks c s op = none ∧ Kept c n e pid (step c s op).1 ops

theorem heldAt_iff (n e : String) (pid : Nat) (s : State) :
    HeldAt n e pid s ↔ (s.curEnv = e ∧ (active s).any (fun q => decide (q.pid = pid ∧ q.name = n ∧ q.env = e)) = true) := by
  unfold HeldAt
  cases active s with
  | none => simp
  | some q => simp

instance (n e : String) (pid : Nat) (s : State) : Decidable (HeldAt n e pid s) :=
  decidable_of_iff _ (heldAt_iff n e pid s).symm

instance keptDec (c : Cfg) (n e : String) (pid : Nat) : ∀ (s : State) (ops : List Op), Decidable (Kept c n e pid s ops)
  | s, [] => by unfold Kept; infer_instance
  | s, op :: ops => by
    unfold Kept
    exact @instDecidableAnd _ _ _ (@instDecidableAnd _ _ _ (keptDec c n e pid _ ops))

theorem Kept.head {c : Cfg} {n e : String} {pid : Nat} : ∀ {s : State} {ops : List Op},
    Kept c n e pid s ops → HeldAt n e pid s
  | _, [], h => h
  | _, _ :: _, h => h.1

/-- `Kept` spelled out with quantifiers: at every cut of the list the row is active, and the
operation after the cut (if any) is not a pick event. -/
theorem kept_iff (c : Cfg) (n e : String) (pid : Nat) : ∀ (ops : List Op) (s : State),
    Kept c n e pid s ops ↔
      ∀ mid rest, ops = mid ++ rest →
        HeldAt n e pid (run c s mid) ∧ ∀ o rest', rest = o :: rest' → picks c (run c s mid) o = none
  | [], s => by
    constructor
    · intro h mid rest hmr
      have hm : mid = [] := (List.append_eq_nil_iff.mp hmr.symm).1
      have hr : rest = [] := (List.append_eq_nil_iff.mp hmr.symm).2
      subst hm; subst hr
      exact ⟨h, by intro o r hh; cases hh⟩
    · intro h
      exact (h [] [] rfl).1
  | op :: ops, s => by
    constructor
    · intro h mid rest hmr
      cases mid with
      | nil =>
        simp only [List.nil_append] at hmr
        subst hmr
        refine ⟨h.1, ?_⟩
        intro o r hh
        simp only [List.cons.injEq] at hh
        rw [← hh.1]; exact h.2.1
      | cons m mid' =>
        simp only [List.cons_append, List.cons.injEq] at hmr
        obtain ⟨rfl, hmr'⟩ := hmr
        exact ((kept_iff c n e pid ops _).mp h.2.2) mid' rest hmr'
    · intro h
      refine ⟨(h [] (op :: ops) rfl).1, (h [] (op :: ops) rfl).2 op ops rfl, ?_⟩
      apply (kept_iff c n e pid ops _).mpr
      intro mid rest hmr
      exact h (op :: mid) rest (by rw [hmr]; rfl)

/-- From any state satisfying the invariant: a profile active after `ops` either has been active
all along (no pick event in `ops`), or `ops` contains a pick event of its name, made while its
environment was current, since which it has been active all along. -/
theorem active_since {c : Cfg} (hg : Good c) : ∀ (ops : List Op) (s : State), Inv c s → ∀ p,
    active (run c s ops) = some p →
    Kept c p.name p.env p.pid s ops ∨
    ∃ pre op post, ops = pre ++ op :: post ∧ picks c (run c s pre) op = some p.name ∧
      (run c s pre).curEnv = p.env ∧ Kept c p.name p.env p.pid (step c (run c s pre) op).1 post
  | [], s, _, p, h => Or.inl ⟨(active_some h).2.2.symm, p, h, rfl, rfl, rfl⟩
  | op :: ops, s, hi, p, h => by
    have hi1 := inv_step hg hi op
    rcases active_since hg ops _ hi1 p h with hk | ⟨pre, o, post, hops, hp, he, hk⟩
    · obtain ⟨hcur, q, hq, hqpid, hqname, hqenv⟩ := hk.head
      have henv := step_curEnv_of_active hg s op hq
      rcases active_back hg hi op hq with hpick | ⟨hnone, p0, hp0, hsame⟩
      · right
        refine ⟨[], op, ops, rfl, ?_, ?_, hk⟩
        · simp only [run]; rw [hpick, hqname]
        · simp only [run]; rw [← henv, hcur]
      · left
        refine ⟨⟨?_, p0, hp0, ?_, ?_, ?_⟩, hnone, hk⟩
        · rw [← henv, hcur]
        · rw [hsame.1, hqpid]
        · rw [hsame.2.1, hqname]
        · rw [hsame.2.2, hqenv]
    · right
      exact ⟨op :: pre, o, post, by rw [hops]; rfl, hp, he, hk⟩

/-! ## `get_current_environment()` -/

theorem getEnv_none {s : State} {u : String} (h : getEnv s u = none) : ∀ r ∈ s.envs, r.url ≠ u := by
  unfold getEnv at h
  intro r hr
  have := List.find?_eq_none.mp h r hr
  simpa using this

/-- Under the invariant the third branch of `get_current_environment()` (an `Environment`
made up for a URL that is neither stored nor the default) is never taken. -/
theorem currentEnvironment_real {c : Cfg} {s : State} (hi : Inv c s) :
    (currentEnvironment c s).url = s.curEnv ∧
    (currentEnvironment c s ∈ s.envs ∨
     (getEnv s s.curEnv = none ∧ s.curEnv = c.defaultUrl ∧
      currentEnvironment c s = ⟨c.defaultUrl, c.defaultRequiresAuth, none⟩)) := by
  unfold currentEnvironment
  cases hg : getEnv s s.curEnv with
  | some r =>
    obtain ⟨hm, hu⟩ := getEnv_some hg
    exact ⟨hu, Or.inl hm⟩
  | none =>
    have hd : s.curEnv = c.defaultUrl := by
      rcases hi.envKnown with h | ⟨r, hr, hru⟩
      · exact h
      · exact absurd hru (getEnv_none hg r hr)
    simp only [hd, if_true]
    exact ⟨trivial, Or.inr ⟨trivial, trivial, trivial⟩⟩

end CliConfig
