import WfModel.GenCliConfig
/-!
# M16 — llamactl configuration (`ConfigManager` / `EnvService` / `AuthService`)

Executable model of the SQLite-backed configuration of `llamactl`
(`packages/llamactl/src/llama_agents/cli/config/{_config,env_service,auth_service}.py`):

* table `environments` (key `api_url`), table `profiles` (key `(name, api_url)`),
* the two settings `current_environment_api_url` and `current_profile`
  (the latter stores a profile *name* only),
* every service operation that changes them, with its error branches.

Each profile operation is the method of a *fresh* `EnvService.current_auth_service()`,
i.e. of an `AuthService` bound to the environment that is current when the
operation starts — exactly how every CLI command obtains it.

`State.pick` is a ghost field: the `(name, environment)` of the latest
"select" or "create" event, the environment being the one that was current when
the event happened.  It is never cleared; the code does not have it.

The three places where the code clears `current_profile` on an environment
change are parameters (`Cfg`), instantiated by `srcCfg` from constants that are
re-extracted from the sources on every run (`WfModel/GenCliConfig.lean`).
-/
namespace CliConfig

structure EnvRow where
  url : String
  requiresAuth : Bool
  minVer : Option String
deriving DecidableEq, Repr

/-- `device_oidc` as far as the configuration code looks at it: `user_id` (used to
find an existing login) and one token field standing for the refreshable rest. -/
structure Oidc where
  uid : String
  tok : String
deriving DecidableEq, Repr

structure Profile where
  /-- creation counter; stands for the random `uuid4` id -/
  pid : Nat
  name : String
  env : String
  project : String
  apiKey : Option String
  apiKeyId : Option String
  oidc : Option Oidc
deriving DecidableEq, Repr

structure State where
  envs : List EnvRow
  profiles : List Profile
  /-- settings row `current_environment_api_url` -/
  curEnv : String
  /-- settings row `current_profile` (absent = `none`) -/
  curProf : Option String
  nextId : Nat
  /-- ghost: latest select/create event, `(profile name, environment current at that time)` -/
  pick : Option (String × String)
deriving DecidableEq, Repr

/-- What the sources say (regenerated), as parameters of the model. -/
structure Cfg where
  defaultUrl : String
  defaultRequiresAuth : Bool
  seedCurrent : String
  seedEnv : EnvRow
  /-- `EnvService.switch_environment` calls `set_settings_current_profile(None)` -/
  switchClears : Bool
  /-- `EnvService.create_or_update_environment` calls `set_settings_current_profile(None)` -/
  addClears : Bool
  /-- `ConfigManager.delete_environment` clears `current_profile` when it resets the current environment -/
  deleteClears : Bool
deriving DecidableEq, Repr

def srcCfg : Cfg :=
  { defaultUrl := Gen.CliConfig.defaultUrl
    defaultRequiresAuth := Gen.CliConfig.defaultRequiresAuth
    seedCurrent := Gen.CliConfig.seedCurrentEnv
    seedEnv := ⟨Gen.CliConfig.seedEnvUrl, Gen.CliConfig.seedEnvRequiresAuth, none⟩
    switchClears := Gen.CliConfig.switchClearsProfile
    addClears := Gen.CliConfig.addClearsProfile
    deleteClears := Gen.CliConfig.deleteClearsProfile }

/-- A fresh database after the migrations ran. -/
def init (c : Cfg) : State :=
  { envs := [c.seedEnv], profiles := [], curEnv := c.seedCurrent, curProf := none, nextId := 0, pick := none }

/-! ## Profile names -/

/-- `redact_api_key` with its default parameters. -/
def redact (tok : String) : String :=
  let cleaned := tok.toList.filter (fun ch => ch != ' ')
  if cleaned.isEmpty then "-" else
    let lastLen := if cleaned.length > Gen.CliConfig.longThreshold then Gen.CliConfig.visibleSuffixLong
                   else Gen.CliConfig.visibleSuffixShort
    let last := if lastLen > 0 then cleaned.drop (cleaned.length - lastLen) else []
    String.ofList (cleaned.take Gen.CliConfig.visiblePrefix ++ Gen.CliConfig.mask.toList ++ last)

/-- `_auto_profile_name_from_token(api_key) if api_key else "default"`. -/
def tokenName (key : Option String) : String :=
  match key with
  | none => Gen.CliConfig.keylessProfileName
  | some k => if k.isEmpty then Gen.CliConfig.keylessProfileName else redact k

/-- code points removed by Python's `str.strip()` -/
def pySpace (ch : Char) : Bool :=
  [9, 10, 11, 12, 13, 28, 29, 30, 31, 32, 133, 160, 5760, 8192, 8193, 8194, 8195, 8196, 8197, 8198,
   8199, 8200, 8201, 8202, 8232, 8233, 8239, 8287, 12288].contains ch.toNat

/-- `not project_id.strip()` -/
def isBlank (s : String) : Bool := s.toList.all pySpace

/-! ## Queries -/

def hasKey (n e : String) (p : Profile) : Bool := decide (p.name = n ∧ p.env = e)

/-- `ConfigManager.get_profile(name, env_url)` -/
def getProfile (s : State) (n e : String) : Option Profile := s.profiles.find? (hasKey n e)

def getEnv (s : State) (u : String) : Option EnvRow := s.envs.find? (fun r => decide (r.url = u))

/-- `ConfigManager.get_current_environment()`: the row, or an in-memory fallback. -/
def currentEnvironment (c : Cfg) (s : State) : EnvRow :=
  match getEnv s s.curEnv with
  | some r => r
  | none => if s.curEnv = c.defaultUrl then ⟨c.defaultUrl, c.defaultRequiresAuth, none⟩ else ⟨s.curEnv, false, none⟩

/-- `AuthService.get_current_profile()` of `current_auth_service()`:
`get_profile(current_name, env)` when the setting is a non-empty string. -/
def active (s : State) : Option Profile :=
  match s.curProf with
  | none => none
  | some n => if n.isEmpty then none else getProfile s n s.curEnv

/-- `list_profiles(env)` is `ORDER BY name`; `select_any_profile` takes the first. -/
def firstByName : List Profile → Option Profile
  | [] => none
  | p :: ps =>
    match firstByName ps with
    | none => some p
    | some q => if q.name < p.name then some q else some p

def profilesOf (s : State) (e : String) : List Profile := s.profiles.filter (fun p => decide (p.env = e))

/-! ## Operations -/

inductive Op where
  /-- `EnvService.create_or_update_environment(Environment(url, ra, minVer))` (`auth env add`) -/
  | envAdd (url : String) (ra : Bool) (minVer : Option String)
  /-- `ConfigManager.create_or_update_environment(...)` alone (`auto_update_env` persists this way) -/
  | envUpsert (url : String) (ra : Bool) (minVer : Option String)
  /-- `EnvService.switch_environment(url)` -/
  | envSwitch (url : String)
  /-- `EnvService.delete_environment(url)` -/
  | envDelete (url : String)
  /-- `AuthService.create_profile_from_token(project, key)` -/
  | createToken (project : String) (key : Option String)
  /-- `AuthService.create_or_update_profile_from_oidc(project, DeviceOIDC(user_id, email, token…))` -/
  | createOidc (project uid email tok : String)
  /-- `AuthService.set_current_profile(name)` (not validated by the service) -/
  | select (name : String)
  /-- `AuthService.select_any_profile()` -/
  | selectAny
  /-- `AuthService.delete_profile(name)` -/
  | deleteProfile (name : String)
  /-- `AuthService.set_project(name, project)` -/
  | setProject (name project : String)
  /-- `p = get_profile(name); p.api_key, p.api_key_id = …; AuthService.update_profile(p)` -/
  | updateKey (name : String) (key keyId : Option String)
  /-- `ConfigManager(init_database=False).destroy_database()` -/
  | destroy
  /-- `EnvService.auto_update_env(get_current_environment())` with a server answering
  `(requires_auth, min_llamactl_version)` (`env switch` and the capability probes): persists through
  `ConfigManager.create_or_update_environment` only when one of the two stored fields changes;
  the current environment and the selected profile are not touched -/
  | probe (ra : Bool) (minVer : Option String)
  /-- `AuthService.refresh_to_db(profile_id, DeviceOIDC(user_id, …token…))` (what the token-refresh
  middleware of a client calls, possibly long after the command started): `get_profile_by_id` —
  in *any* environment — then `update_profile` with the new `device_oidc`; nothing when the id
  is gone.  `pid` is the creation counter standing for the uuid. -/
  | refresh (pid : Nat) (uid tok : String)
deriving DecidableEq, Repr

inductive Res where
  | ok
  /-- an `Auth` was returned -/
  | profile (pid : Nat) (name : String)
  | bool (b : Bool)
  /-- `get_profile` returned `None` (nothing to update) -/
  | noProfile
  /-- `ValueError("Environment … not found")` -/
  | errEnvNotFound
  /-- `ValueError("Profile … already exists for environment …")` -/
  | errExists
  /-- `ValueError("Project ID is required")` -/
  | errBlankProject
deriving DecidableEq, Repr

/-- `INSERT OR REPLACE INTO environments` -/
def upsertEnv (s : State) (r : EnvRow) : State :=
  { s with envs := s.envs.filter (fun x => decide (x.url ≠ r.url)) ++ [r] }

/-- `ConfigManager.create_profile` + `set_settings_current_profile(auth.name)` in the current environment. -/
def createAndSelect (s : State) (name project : String) (key : Option String) (oidc : Option Oidc) : State × Res :=
  if isBlank project then (s, .errBlankProject)
  else if (getProfile s name s.curEnv).isSome then (s, .errExists)
  else
    let p : Profile := { pid := s.nextId, name := name, env := s.curEnv, project := project,
                         apiKey := key, apiKeyId := none, oidc := oidc }
    ({ s with profiles := s.profiles ++ [p], nextId := s.nextId + 1,
              curProf := some name, pick := some (name, s.curEnv) }, .profile p.pid name)

def step (c : Cfg) (s : State) : Op → State × Res
  | .envAdd url ra mv =>
    let s1 := upsertEnv s ⟨url, ra, mv⟩
    ({ s1 with curEnv := url, curProf := if c.addClears then none else s1.curProf }, .ok)
  | .envUpsert url ra mv => (upsertEnv s ⟨url, ra, mv⟩, .ok)
  | .envSwitch url =>
    match getEnv s url with
    | none => (s, .errEnvNotFound)
    | some _ => ({ s with curEnv := url, curProf := if c.switchClears then none else s.curProf }, .ok)
  | .envDelete url =>
    match getEnv s url with
    | none => (s, .bool false)
    | some _ =>
      let s1 := { s with profiles := s.profiles.filter (fun p => decide (p.env ≠ url)),
                         envs := s.envs.filter (fun r => decide (r.url ≠ url)) }
      if s.curEnv = url then
        ({ s1 with curEnv := c.defaultUrl, curProf := if c.deleteClears then none else s.curProf }, .bool true)
      else (s1, .bool true)
  | .createToken project key => createAndSelect s (tokenName key) project key none
  | .createOidc project uid email tok =>
    match s.profiles.find? (fun p => decide (p.env = s.curEnv ∧ p.oidc.map (·.uid) = some uid)) with
    | some ex =>
      ({ s with profiles := s.profiles.map (fun p => if p.pid = ex.pid then { p with oidc := some ⟨uid, tok⟩ } else p),
                curProf := some ex.name, pick := some (ex.name, s.curEnv) }, .profile ex.pid ex.name)
    | none => createAndSelect s email project none (some ⟨uid, tok⟩)
  | .select name => ({ s with curProf := some name, pick := some (name, s.curEnv) }, .ok)
  | .selectAny =>
    match firstByName (profilesOf s s.curEnv) with
    | none => (s, .ok)
    | some p => ({ s with curProf := some p.name, pick := some (p.name, s.curEnv) }, .ok)
  | .deleteProfile name =>
    let found := (getProfile s name s.curEnv).isSome
    ({ s with profiles := s.profiles.filter (fun p => !hasKey name s.curEnv p),
              curProf := if s.curProf = some name then none else s.curProf }, .bool found)
  | .setProject name project =>
    ({ s with profiles := s.profiles.map (fun p => if hasKey name s.curEnv p then { p with project := project } else p) }, .ok)
  | .updateKey name key keyId =>
    match getProfile s name s.curEnv with
    | none => (s, .noProfile)
    | some ex =>
      ({ s with profiles := s.profiles.map (fun p => if p.pid = ex.pid then { p with apiKey := key, apiKeyId := keyId } else p) }, .ok)
  | .destroy => ({ init c with nextId := s.nextId, pick := s.pick }, .ok)
  | .probe ra mv =>
    let e := currentEnvironment c s
    if e.requiresAuth = ra ∧ e.minVer = mv then (s, .ok) else (upsertEnv s ⟨e.url, ra, mv⟩, .ok)
  | .refresh pid uid tok =>
    match s.profiles.find? (fun p => decide (p.pid = pid)) with
    | none => (s, .ok)
    | some ex =>
      ({ s with profiles := s.profiles.map (fun p => if p.pid = ex.pid then { p with oidc := some ⟨uid, tok⟩ } else p) }, .ok)

def run (c : Cfg) (s : State) : List Op → State
  | [] => s
  | op :: ops => run c (step c s op).1 ops

/-- The name an operation selects or creates in state `s`, if it does (the "pick" event). -/
def picks (c : Cfg) (s : State) (op : Op) : Option String :=
  match op, (step c s op).2 with
  | .createToken _ _, .profile _ n => some n
  | .createOidc _ _ _ _, .profile _ n => some n
  | .select n, _ => some n
  | .selectAny, _ => (firstByName (profilesOf s s.curEnv)).map (·.name)
  | _, _ => none

end CliConfig

namespace CliConfig

/-- The latest pick event of a history, computed from the events alone (no ghost field):
start from `acc`, and at every operation that selects or creates a name (`picks`) record that
name together with the environment that is current *when the operation starts*. -/
def lastPickFrom (c : Cfg) (s : State) (acc : Option (String × String)) : List Op → Option (String × String)
  | [] => acc
  | op :: ops =>
    lastPickFrom c (step c s op).1
      (match picks c s op with
        | some n => some (n, s.curEnv)
        | none => acc) ops

/-- C37 for one state: the current environment is a known environment or the built-in
default, and the active profile is none or a stored profile of the current environment whose
name is the latest pick, made while this environment was current. -/
def Holds (c : Cfg) (s : State) : Prop :=
  (s.curEnv = c.defaultUrl ∨ ∃ r ∈ s.envs, r.url = s.curEnv) ∧
  ∀ p, active s = some p → p ∈ s.profiles ∧ p.env = s.curEnv ∧ s.pick = some (p.name, s.curEnv)

end CliConfig
