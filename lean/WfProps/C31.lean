import WfModel.Serial
import WfProofs.RunnerTimeout
import WfProps.C04
import WfProps.C02
/-!
# C31 — timeout and cancellation stop the run cleanly and keep it resumable

* the timeout tick: publishes `WorkflowTimedOutEvent` naming exactly the steps with an
  invocation in progress, then halts with `timeout`; queues, in-progress tables, buffers and
  waiters are kept;
* the cancel tick: publishes `WorkflowCancelledEvent`, then halts with `cancelledByUser`; the
  broker state is **unchanged**, hence serialisable and resumable exactly as before the cancel;
* on the runner, for every schedule: processing either tick ends the run with that event last
  in the stream, no worker left, and nothing whatsoever happens afterwards (no further step, no
  further publication) — so a run that finished first is never timed out;
* the run timeout is the only source of `TickTimeout`; it is processed, and the run halted with
  `timeout`, only at a clock value ≥ start + timeout;
* a failed attempt whose retry is due at once never leaves the reducer's reach: the re-queue goes
  to the tick buffer (not to the timer heap), the buffer is drained before the mailbox — where a
  `TickCancelRun` may already wait — is looked at, and reducing the re-queue tick puts the event
  back into the step's tables; so the state the cancel tick keeps (and `ctx.to_dict()` writes)
  holds it.
-/
set_option linter.unusedVariables false
open Engine

/-- the steps named by `WorkflowTimedOutEvent` are exactly the steps with an invocation in progress -/
theorem C31_active_steps (cfg : Cfg) (st : State) (s : Nat) :
    s ∈ activeSteps cfg st ↔ s ∈ cfg.names ∧ (st.workers s).inProg ≠ [] := by
  simp [activeSteps, List.mem_filter]

/-- **timeout tick** -/
theorem C31_timeout_tick (cfg : Cfg) (pol : Policy) (t : Nat) (st : State) (now : Int) :
    (reduce cfg pol (.timeout t) st now).2 =
      [.publish (.timedOut t (activeSteps cfg st)), .halt .timeout] ∧
    (reduce cfg pol (.timeout t) st now).1.workers = st.workers ∧
    (reduce cfg pol (.timeout t) st now).1.isRunning = false := by
  simp [reduce, checkIdle]

/-- **cancel tick**: state unchanged; `WorkflowCancelledEvent` then the halt come first -/
theorem C31_cancel_tick (cfg : Cfg) (pol : Policy) (st : State) (now : Int) :
    (reduce cfg pol .cancelRun st now).1 = st ∧
    ∃ tail, (reduce cfg pol .cancelRun st now).2 = [.publish .cancelled, .halt .cancelledByUser] ++ tail := by
  simp only [reduce]
  split
  · exact ⟨rfl, [.scheduleIdleCheck], rfl⟩
  · exact ⟨rfl, [], by simp⟩

/-- processing the timeout tick on a live runner: event last, outcome `timeout`, no worker left -/
theorem C31_drain_timeout (cfg : Cfg) (pol : Policy) (r : Runner) (t : Nat) (rest : List Tick)
    (hlive : r.outcome = none) (hbuf : r.buf = .timeout t :: rest) :
    let r' := r.step cfg pol .drain
    r'.outcome = some (.halted .timeout) ∧
    r'.stream = r.stream ++ [.timedOut t (activeSteps cfg r.st)] ∧
    r'.running = [] ∧ r'.st.workers = r.st.workers := by
  simp only [Runner.step, hlive, Option.isSome_none, Bool.false_eq_true, if_false, hbuf]
  have hc := C31_timeout_tick cfg pol t r.st r.now
  simp only [hc.1]
  simp [execCmds, execCmd, Runner.finish, hc.2.1]

/-- processing the cancel tick on a live runner -/
theorem C31_drain_cancel (cfg : Cfg) (pol : Policy) (r : Runner) (rest : List Tick)
    (hlive : r.outcome = none) (hbuf : r.buf = .cancelRun :: rest) :
    let r' := r.step cfg pol .drain
    r'.outcome = some (.halted .cancelledByUser) ∧
    r'.stream = r.stream ++ [.cancelled] ∧ r'.running = [] ∧ r'.st = r.st := by
  simp only [Runner.step, hlive, Option.isSome_none, Bool.false_eq_true, if_false, hbuf, reduce]
  by_cases hi : checkIdle cfg r.st = true
  · simp [hi, execCmds, execCmd, Runner.finish]
  · simp [hi, execCmds, execCmd, Runner.finish]

/-- **no further steps**: once the run is halted (or ended in any way) no action — worker
completion, mailbox pull, timer, external tick — changes anything -/
theorem C31_nothing_after_end (cfg : Cfg) (pol : Policy) (r : Runner) (acts : List Act)
    (h : r.outcome.isSome = true) : Runner.run cfg pol r acts = r :=
  run_ended cfg pol acts r h

/-- in particular **a run that finished first is never timed out**: its stream and outcome stay -/
theorem C31_finished_never_timed_out (cfg : Cfg) (pol : Policy) (r : Runner) (o : Outcome) (acts : List Act)
    (h : r.outcome = some o) :
    (Runner.run cfg pol r acts).outcome = some o ∧ (Runner.run cfg pol r acts).stream = r.stream := by
  rw [run_ended cfg pol acts r (by simp [h])]
  exact ⟨h, rfl⟩

theorem C31.init_inv (cfg : Cfg) (st0 : State) (now0 : Int) (start : Option Ev) (t : Nat) :
    TimeoutInv (now0 + t) (Runner.init cfg st0 now0 start (some t)) := by
  unfold Runner.init
  dsimp only
  apply execCmds_timeoutInv
  · refine ⟨?_, ?_, ?_, ?_, ?_⟩
    · intro tm htm _
      simp only [Runner.push, List.nil_append, List.mem_singleton] at htm
      subst htm; rfl
    · rintro ⟨x, hx, hxt⟩
      simp only [Runner.push] at hx
      rcases List.mem_append.mp hx with hx | hx
      · simp only [rehydrateTicks, List.mem_flatMap, List.mem_map] at hx
        obtain ⟨_, _, _, _, rfl⟩ := hx
        simp [Tick.isTimeout] at hxt
      · cases start with
        | none => simp at hx
        | some e => simp only [List.mem_singleton] at hx; subst hx; simp [Tick.isTimeout] at hxt
    · intro x hx; simp [Runner.push] at hx
    · intro p hp; simp [Runner.push] at hp
    · intro h; simp [Runner.push] at h
  · intro hm
    have := (C04.rewind_plain cfg st0 now0 _ hm).1
    simp [plainCmd, Cmd.isExit] at this

/-- **not before the deadline**, for every schedule: a run started at `now0` with timeout `t` is
halted with `timeout` only at a clock value ≥ `now0 + t`, and every timeout tick in its tick log
was processed at such a time -/
theorem C31_timeout_only_after_deadline (cfg : Cfg) (pol : Policy) (st0 : State) (now0 : Int)
    (start : Option Ev) (t : Nat) (acts : List Act) :
    let r := Runner.run cfg pol (Runner.init cfg st0 now0 start (some t)) acts
    (r.outcome = some (.halted .timeout) → now0 + t ≤ r.now) ∧
    (∀ p ∈ r.log, p.1.isTimeout = true → now0 + t ≤ p.2) := by
  have h := run_timeoutInv cfg pol (now0 + t) acts _ (C31.init_inv cfg st0 now0 start t)
  exact ⟨h.outcome, h.log⟩

/-- only the timeout tick produces `halt timeout` -/
theorem C31_halt_timeout_only_by_timeout_tick (cfg : Cfg) (pol : Policy) (tick : Tick) (st : State) (now : Int)
    (h : Cmd.halt .timeout ∈ (reduce cfg pol tick st now).2) : tick.isTimeout = true :=
  reduce_halt_timeout cfg pol tick st now h

/-- cancelling leaves exactly the serialised context the run had: what is written by
`ctx.to_dict()` after the cancel is what would have been written just before it -/
theorem C31_cancel_keeps_serialised_context (cfg : Cfg) (pol : Policy) (r : Runner) (rest : List Tick)
    (hlive : r.outcome = none) (hbuf : r.buf = .cancelRun :: rest) :
    ser cfg (r.step cfg pol .drain).st = ser cfg r.st := by
  rw [(C31_drain_cancel cfg pol r rest hlive hbuf).2.2.2]

/-! ## non-vacuity -/

def C31.cfg : Cfg := { steps := [{ name := 0, accepted := [0], numWorkers := 1, hasRetry := false }] }
def C31.start : Ev := { ty := 0, kind := .start, uid := 1 }

/-- a run with timeout 5: start event drained, the step is still busy when the timer fires -/
example :
    let r := Runner.run C31.cfg (fun _ _ _ _ => .stop) (Runner.init C31.cfg initState 0 (some C31.start) (some 5))
      [.drain, .advance 5, .timer, .drain]
    r.outcome = some (.halted .timeout) ∧ r.stream.getLast? = some (.timedOut 5 [0]) ∧ r.now = 5 := by decide

example :
    let r := Runner.run C31.cfg (fun _ _ _ _ => .stop) (Runner.init C31.cfg initState 0 (some C31.start) (some 5))
      [.drain, .external .cancelRun, .pull, .drain, .workerDone 0 0 [.result none], .drain]
    r.outcome = some (.halted .cancelledByUser) ∧ r.stream.getLast? = some .cancelled ∧
      (r.st.workers 0).inProg.length = 1 := by decide


/-! ## a retry that is due at once is in the broker state before a cancel can be handled -/

/-- `process_command`: a re-queue without a positive delay — a retry whose policy answers 0 as well
as a plain `delay = None` — is appended to the tick buffer; timer heap, sequence counter, workers,
stream and state are untouched -/
theorem C31_immediate_retry_buffered (r : Runner) (att : Attempt) (step : Option Nat) :
    execCmd r (.queueEvent att step (some 0)) = { r with buf := r.buf ++ [.addEvent att step] } ∧
    execCmd r (.queueEvent att step none) = { r with buf := r.buf ++ [.addEvent att step] } :=
  ⟨rfl, rfl⟩

/-- while a tick is buffered the loop does not look at the mailbox (where a `TickCancelRun` may
wait), takes in no other worker's result and fires no timer: the buffer is drained first -/
theorem C31_buffer_drained_before_mailbox (cfg : Cfg) (pol : Policy) (r : Runner) (t : Tick) (rest : List Tick)
    (hb : r.buf = t :: rest) :
    r.step cfg pol .pull = r ∧ r.step cfg pol .timer = r ∧
    ∀ s w res, r.step cfg pol (.workerDone s w res) = r := by
  refine ⟨?_, ?_, ?_⟩
  · unfold Runner.step; split
    · rfl
    · simp [hb]
  · unfold Runner.step; split
    · rfl
    · simp [hb]
  · intro s w res
    unfold Runner.step; split
    · rfl
    · simp [hb]

/-- reducing the re-queue tick of a retry (`TickAddEvent` addressed to the step) puts the event
back into that step's tables: it holds one attempt more (in progress or queued) — or as many more
as it had waiters for the event -/
theorem C31_requeue_tick_held (cfg : Cfg) (hwf : cfg.WF) (pol : Policy) (att : Attempt) (c : StepCfg)
    (hc : c ∈ cfg.steps) (hacc : c.accepted.contains att.ev.ty = true) (st : State) (now : Int)
    (hinv : IdsInv cfg st) :
    size (st.workers c.name) + 1 ≤
      size ((reduce cfg pol (.addEvent att (some c.name)) st now).1.workers c.name) := by
  have h1 : (reduce cfg pol (.addEvent att (some c.name)) st now).1 =
      (processAddEvent cfg att (some c.name) st now).1 := by
    simp only [reduce]; split <;> rfl
  rw [h1, C02_route_count cfg hwf att (some c.name) st now hinv c hc]
  unfold C02.recipients
  split
  · omega
  · have hm : att.ev.ty ∈ c.accepted := by simpa using hacc
    simp [hm]

/-! Non-vacuity: a step whose policy retries at once; the attempt fails while a cancel is already
in the mailbox.  The result tick re-queues through the buffer (heap empty; for that one tick the
step's tables are empty, hence the idle check behind it), the retry is in progress again before
the cancel tick can be pulled, and the halted run's state still holds it. -/
def C31.retryCfg : Cfg := { steps := [{ name := 0, accepted := [0], numWorkers := 1, hasRetry := true }] }
def C31.atOnce : Policy := fun _ _ _ _ => .retry 0
def C31.race : List Act :=
  [.drain, .external .cancelRun, .workerDone 0 0 [.failed 9 0], .drain]

example : C31.retryCfg.WF := by simp [Cfg.WF, Cfg.names, C31.retryCfg]
example :
    let r := Runner.run C31.retryCfg C31.atOnce (Runner.init C31.retryCfg initState 0 (some C31.start) none) C31.race
    r.outcome = none ∧ r.heap = [] ∧ r.mailbox = [.cancelRun] ∧
    r.buf = [.addEvent { ev := C31.start, attempts := some 1, firstAt := some 0, lastExc := some 9,
                         lastFailedAt := some 0 } (some 0), .idleCheck] ∧
    (r.st.workers 0).inProg = [] ∧
    -- the mailbox is not looked at while the re-queue tick is buffered
    (r.step C31.retryCfg C31.atOnce .pull).mailbox = [.cancelRun] ∧
    (r.step C31.retryCfg C31.atOnce .pull).buf = r.buf := by decide
example :
    let r := Runner.run C31.retryCfg C31.atOnce (Runner.init C31.retryCfg initState 0 (some C31.start) none)
      (C31.race ++ [.pull, .drain, .drain, .pull, .drain])
    r.outcome = some (.halted .cancelledByUser) ∧ r.stream.getLast? = some .cancelled ∧
    ((r.st.workers 0).inProg.map (·.ev)) = [C31.start] ∧ ((r.st.workers 0).inProg.map (·.attempts)) = [1] := by decide
