class SchemaGenerator:
    def __init__(self, base_schema=None):
        self.base_schema = base_schema or {}

    def get_schema(self, routes=None):
        return dict(self.base_schema)
