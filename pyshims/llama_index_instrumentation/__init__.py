"""Import-surface shim for llama_index_instrumentation (absent in the sandbox).

Tracing is assumed to have no functional effect on workflow execution: every
dispatcher method is a no-op and `span` returns the function unchanged.
Part of the trusted base (see /verif/DESIGN.md section 3).
"""
from __future__ import annotations

from typing import Any, Callable


class Dispatcher:
    def __init__(self, name: str = "root") -> None:
        self.name = name

    def event(self, event: Any, **kwargs: Any) -> None:
        return None

    def span(self, func: Callable[..., Any]) -> Callable[..., Any]:
        return func

    def span_enter(self, *args: Any, **kwargs: Any) -> None:
        return None

    def span_exit(self, *args: Any, **kwargs: Any) -> None:
        return None

    def span_drop(self, *args: Any, **kwargs: Any) -> None:
        return None

    def capture_propagation_context(self) -> dict[str, Any]:
        return {}

    def restore_propagation_context(self, tags: dict[str, Any]) -> None:
        return None


_DISPATCHERS: dict[str, Dispatcher] = {}


def get_dispatcher(name: str = "root") -> Dispatcher:
    d = _DISPATCHERS.get(name)
    if d is None:
        d = _DISPATCHERS[name] = Dispatcher(name)
    return d
