import WfModel.Version
/-!
Helper lemmas for M15 (`WfModel/Version.lean`): character classes, the greedy
release scanner on joined digit runs, parsing of the two printed spellings.
-/
namespace Version

/-! ## characters -/

theorem isDig_iff (c : Char) : isDig c = true ↔ 48 ≤ c.toNat ∧ c.toNat ≤ 57 := by
  simp [isDig]

theorem isDig_of_isDigit {c : Char} (h : c.isDigit = true) : isDig c = true := by
  simp only [Char.isDigit, Bool.and_eq_true, decide_eq_true_eq] at h
  rw [isDig_iff]
  have h1 := h.1
  have h2 := h.2
  simp only [ge_iff_le, UInt32.le_iff_toNat_le] at h1 h2
  exact ⟨h1, h2⟩

theorem toNat_cases_of_isDig {c : Char} (h : isDig c = true) :
    c.toNat = 48 ∨ c.toNat = 49 ∨ c.toNat = 50 ∨ c.toNat = 51 ∨ c.toNat = 52 ∨
    c.toNat = 53 ∨ c.toNat = 54 ∨ c.toNat = 55 ∨ c.toNat = 56 ∨ c.toNat = 57 := by
  rw [isDig_iff] at h; omega

theorem isDecimal_of_isDig {c : Char} (h : isDig c = true) : isDecimal c = true := by
  rw [isDig_iff] at h
  unfold isDecimal
  rw [List.any_eq_true]
  exact ⟨(48, 57), by decide, by simp [h.1, h.2]⟩

theorem isSpace_of_isDig {c : Char} (h : isDig c = true) : isSpace c = false := by
  unfold isSpace
  rcases toNat_cases_of_isDig h with h | h | h | h | h | h | h | h | h | h <;> rw [h] <;> decide

theorem isLetter_of_isDig {c : Char} (h : isDig c = true) : isLetter c = false := by
  rw [isDig_iff] at h
  simp only [isLetter, Bool.or_eq_false_iff, Bool.and_eq_false_iff, decide_eq_false_iff_not]
  omega

theorem isSep_of_isDig {c : Char} (h : isDig c = true) : isSep c = false := by
  rw [isDig_iff] at h
  simp only [isSep, Bool.or_eq_false_iff, beq_eq_false_iff_ne, ne_eq]
  refine ⟨⟨?_, ?_⟩, ?_⟩ <;> intro hc <;> subst hc <;> simp at h

theorem ne_dot_of_isDig {c : Char} (h : isDig c = true) : c ≠ '.' := by
  intro hc; subst hc; simp [isDig] at h

theorem eqCI_of_not_letter {w c : Char} (hw : 97 ≤ w.toNat ∧ w.toNat ≤ 122) (hc : isLetter c = false) :
    eqCI w c = false := by
  simp only [isLetter, Bool.or_eq_false_iff, Bool.and_eq_false_iff, decide_eq_false_iff_not] at hc
  simp only [eqCI, lowerNat, beq_eq_false_iff_ne, ne_eq]
  split <;> omega

theorem isDecimal_dot : isDecimal '.' = false := by decide
theorem isDecimal_dash : isDecimal '-' = false := by decide

/-! ## digits -/

theorem natDigits_ne_nil (n : Nat) : natDigits n ≠ [] := Nat.toDigits_ne_nil

theorem natDigits_isDig (n : Nat) : ∀ c ∈ natDigits n, isDig c = true := fun _ hc =>
  isDig_of_isDigit (Nat.isDigit_of_mem_toDigits (by decide) (by decide) hc)

theorem digitsVal_natDigits (n : Nat) : digitsVal (natDigits n) = n := Nat.ofDigitChars_ten_toDigits

/-- a non-empty run of ASCII digits -/
def DigRun (x : List Char) : Prop := x ≠ [] ∧ ∀ c ∈ x, isDig c = true

theorem digRun_natDigits (n : Nat) : DigRun (natDigits n) := ⟨natDigits_ne_nil n, natDigits_isDig n⟩

/-! ## the scanner on joined runs -/

/-- the rest cannot continue `D+(?:\.D+)*` -/
def Stops (isD : Char → Bool) (rest : List Char) : Prop := ∀ c ∈ rest.head?, isD c = false ∧ c ≠ '.'

theorem stops_nil (isD : Char → Bool) : Stops isD [] := by simp [Stops]

theorem stops_cons {isD : Char → Bool} {c : Char} {t : List Char} (h1 : isD c = false) (h2 : c ≠ '.') :
    Stops isD (c :: t) := by
  intro d hd; simp at hd; subst hd; exact ⟨h1, h2⟩

theorem scanGo_run (isD : Char → Bool) (x rest : List Char) (acc : List (List Char)) (cur : List Char)
    (hx : ∀ c ∈ x, isD c = true) :
    scanGo isD (x ++ rest) false acc cur = scanGo isD rest false acc (cur ++ x) := by
  induction x generalizing cur with
  | nil => simp
  | cons c x ih =>
    have hc : isD c = true := hx c (by simp)
    simp only [List.cons_append, scanGo, hc, if_true]
    rw [ih _ (fun d hd => hx d (by simp [hd]))]
    simp

theorem scanGo_stop {isD : Char → Bool} {rest : List Char} (h : Stops isD rest) (acc : List (List Char)) (cur : List Char) :
    scanGo isD rest false acc cur = (acc ++ [cur], rest) := by
  cases rest with
  | nil => simp [scanGo]
  | cons c t =>
    have := h c (by simp)
    simp [scanGo, this.1, this.2]

theorem scanGo_dotTail (isD : Char → Bool) (hdot : isD '.' = false) (xs : List (List Char))
    (hxs : ∀ x ∈ xs, x ≠ [] ∧ ∀ c ∈ x, isD c = true) (rest : List Char) (hs : Stops isD rest)
    (acc : List (List Char)) (cur : List Char) :
    scanGo isD (dotTail xs ++ rest) false acc cur = ((acc ++ [cur]) ++ xs, rest) := by
  induction xs generalizing acc cur with
  | nil => simpa [dotTail] using scanGo_stop hs acc cur
  | cons x xs ih =>
    obtain ⟨hne, hall⟩ := hxs x (by simp)
    cases x with
    | nil => exact absurd rfl hne
    | cons d x' =>
      have hd : isD d = true := hall d (by simp)
      simp only [dotTail, List.cons_append, List.append_assoc, scanGo, hdot, hd, if_true, Bool.false_eq_true, if_false]
      rw [scanGo_run isD x' _ _ _ (fun c hc => hall c (by simp [hc]))]
      rw [ih (fun y hy => hxs y (by simp [hy]))]
      simp

theorem scanRel_join (isD : Char → Bool) (hdot : isD '.' = false) (x : List Char) (xs : List (List Char))
    (hxs : ∀ y ∈ x :: xs, y ≠ [] ∧ ∀ c ∈ y, isD c = true) (rest : List Char) (hs : Stops isD rest) :
    scanRel isD (joinDot (x :: xs) ++ rest) = some (x :: xs, rest) := by
  obtain ⟨hne, hall⟩ := hxs x (by simp)
  cases x with
  | nil => exact absurd rfl hne
  | cons d x' =>
    have hd : isD d = true := hall d (by simp)
    simp only [joinDot, List.cons_append, List.append_assoc, scanRel, hd, if_true]
    rw [scanGo_run isD x' _ _ _ (fun c hc => hall c (by simp [hc]))]
    rw [scanGo_dotTail isD hdot xs (fun y hy => hxs y (by simp [hy])) rest hs]
    simp

theorem scanGo_fst_ne_nil (isD : Char → Bool) (s : List Char) (dot : Bool) (acc : List (List Char)) (cur : List Char) :
    (scanGo isD s dot acc cur).1 ≠ [] := by
  induction s generalizing dot acc cur with
  | nil => simp [scanGo]
  | cons c cs ih =>
    cases dot
    · simp only [scanGo]
      split
      · exact ih _ _ _
      · split
        · exact ih _ _ _
        · simp
    · simp only [scanGo]
      split
      · exact ih _ _ _
      · simp

/-- a parsed version always has at least one release component -/
theorem parsePep_release_ne_nil {s : List Char} {v : Ver} (h : parsePep s = some v) : v.release ≠ [] := by
  unfold parsePep at h
  split at h
  · simp at h
  · rename_i comps rest hscan
    split at h
    · simp at h
    · simp only [Option.some.injEq] at h
      subst h
      simp only [ne_eq, List.map_eq_nil_iff]
      cases hd : dropV (stripSpace s) with
      | nil => simp [hd, scanRel] at hscan
      | cons c cs =>
        simp only [hd, scanRel] at hscan
        split at hscan
        · simp only [Option.some.injEq] at hscan
          have := scanGo_fst_ne_nil isDig cs false [] [c]
          rw [hscan] at this
          exact this
        · simp at hscan

/-! ## raw spellings: digit runs with leading zeros allowed -/

/-- A version written with arbitrary (non-empty) ASCII digit runs. -/
structure Raw where
  comps : List (List Char)
  pre : Option (Label × List Char)

def Raw.WF (r : Raw) : Prop :=
  r.comps ≠ [] ∧ (∀ x ∈ r.comps, DigRun x) ∧ ∀ p ∈ r.pre, DigRun p.2

def Raw.val (r : Raw) : Ver :=
  { release := r.comps.map digitsVal, pre := r.pre.map fun p => (p.1, digitsVal p.2) }

/-- PEP 440 spelling `1.2.3rc1` -/
def Raw.pep (r : Raw) : List Char :=
  joinDot r.comps ++ match r.pre with
    | none => []
    | some (l, num) => l.chars ++ num

/-- semver spelling `1.2.3-rc.1` -/
def Raw.semver (r : Raw) : List Char :=
  joinDot r.comps ++ match r.pre with
    | none => []
    | some (l, num) => '-' :: l.chars ++ '.' :: num

/-- the canonical raw form of a structured version -/
def Raw.ofVer (v : Ver) : Raw :=
  { comps := v.release.map natDigits, pre := v.pre.map fun p => (p.1, natDigits p.2) }

theorem Raw.ofVer_wf (v : Ver) (h : v.release ≠ []) : (Raw.ofVer v).WF := by
  refine ⟨by simpa [Raw.ofVer] using h, ?_, ?_⟩
  · intro x hx
    simp only [Raw.ofVer, List.mem_map] at hx
    obtain ⟨n, _, rfl⟩ := hx
    exact digRun_natDigits n
  · intro p hp
    simp only [Raw.ofVer, Option.mem_def, Option.map_eq_some_iff] at hp
    obtain ⟨q, _, rfl⟩ := hp
    exact digRun_natDigits q.2

theorem Raw.ofVer_val (v : Ver) : (Raw.ofVer v).val = v := by
  cases v with
  | mk rel pre =>
    simp only [Raw.ofVer, Raw.val, List.map_map, Option.map_map, Ver.mk.injEq]
    constructor
    · conv => rhs; rw [← List.map_id rel]
      apply List.map_congr_left
      intro n _; simp [digitsVal_natDigits]
    · cases pre with
      | none => rfl
      | some p => simp [digitsVal_natDigits]

theorem Raw.ofVer_pep (v : Ver) : (Raw.ofVer v).pep = showPep v := by
  cases v with
  | mk rel pre => cases pre with
    | none => rfl
    | some p => cases p; rfl

theorem Raw.ofVer_semver (v : Ver) : (Raw.ofVer v).semver = showSemver v := by
  cases v with
  | mk rel pre => cases pre with
    | none => rfl
    | some p => cases p; rfl

/-! ## ends of printed strings, white space, `v` -/

def EndsDig (s : List Char) : Prop := ∃ init d, s = init ++ [d] ∧ isDig d = true

theorem endsDig_append_right {a b : List Char} (h : EndsDig b) : EndsDig (a ++ b) := by
  obtain ⟨i, d, rfl, hd⟩ := h
  exact ⟨a ++ i, d, by simp, hd⟩

theorem endsDig_of_digRun {x : List Char} (h : DigRun x) : EndsDig x :=
  ⟨x.dropLast, x.getLast h.1, (List.dropLast_concat_getLast h.1).symm, h.2 _ (List.getLast_mem h.1)⟩

theorem endsDig_dotTail (xs : List (List Char)) (hne : xs ≠ []) (h : ∀ x ∈ xs, DigRun x) : EndsDig (dotTail xs) := by
  induction xs with
  | nil => exact absurd rfl hne
  | cons x xs ih =>
    cases xs with
    | nil =>
      simp only [dotTail, List.append_nil]
      exact endsDig_append_right (a := ['.']) (endsDig_of_digRun (h x (by simp)))
    | cons y ys =>
      have := ih (by simp) (fun z hz => h z (by simp [hz]))
      simp only [dotTail] at this ⊢
      exact endsDig_append_right (a := '.' :: x) this

theorem endsDig_joinDot (xs : List (List Char)) (hne : xs ≠ []) (h : ∀ x ∈ xs, DigRun x) : EndsDig (joinDot xs) := by
  cases xs with
  | nil => exact absurd rfl hne
  | cons x xs =>
    cases xs with
    | nil => simpa [joinDot, dotTail] using endsDig_of_digRun (h x (by simp))
    | cons y ys =>
      simp only [joinDot]
      exact endsDig_append_right (endsDig_dotTail (y :: ys) (by simp) (fun z hz => h z (by simp [hz])))

theorem stripSpace_eq {d : Char} {t : List Char} (hd : isDig d = true) (he : EndsDig (d :: t)) :
    stripSpace (d :: t) = d :: t := by
  obtain ⟨i, e, hs, hed⟩ := he
  have h1 : isSpace d = false := isSpace_of_isDig hd
  have h2 : isSpace e = false := isSpace_of_isDig hed
  unfold stripSpace
  rw [List.dropWhile_cons_of_neg (by simp [h1]), hs, List.reverse_append]
  simp only [List.reverse_cons, List.reverse_nil, List.nil_append, List.singleton_append]
  rw [List.dropWhile_cons_of_neg (by simp [h2])]
  simp

theorem dropV_dig {d : Char} {t : List Char} (hd : isDig d = true) : dropV (d :: t) = d :: t := by
  have : eqCI 'v' d = false := eqCI_of_not_letter (by decide) (isLetter_of_isDig hd)
  simp [dropV, this]

theorem joinDot_head (xs : List (List Char)) (hne : xs ≠ []) (h : ∀ x ∈ xs, DigRun x) :
    ∃ d t, joinDot xs = d :: t ∧ isDig d = true := by
  cases xs with
  | nil => exact absurd rfl hne
  | cons x xs =>
    have hx := h x (by simp)
    cases x with
    | nil => exact absurd rfl hx.1
    | cons d x' => exact ⟨d, x' ++ dotTail xs, by simp [joinDot], hx.2 d (by simp)⟩

theorem Raw.pep_endsDig (r : Raw) (h : r.WF) : EndsDig r.pep := by
  obtain ⟨hne, hc, hp⟩ := h
  have hj := endsDig_joinDot r.comps hne hc
  unfold Raw.pep
  cases hpre : r.pre with
  | none => simpa using hj
  | some p =>
    obtain ⟨l, num⟩ := p
    have := hp (l, num) (by simp [hpre])
    simp only
    rw [← List.append_assoc]
    exact endsDig_append_right (endsDig_of_digRun this)

theorem Raw.semver_endsDig (r : Raw) (h : r.WF) : EndsDig r.semver := by
  obtain ⟨hne, hc, hp⟩ := h
  have hj := endsDig_joinDot r.comps hne hc
  unfold Raw.semver
  cases hpre : r.pre with
  | none => simpa using hj
  | some p =>
    obtain ⟨l, num⟩ := p
    have := hp (l, num) (by simp [hpre])
    simp only
    have e : joinDot r.comps ++ ('-' :: l.chars ++ '.' :: num) = (joinDot r.comps ++ '-' :: (l.chars ++ ['.'])) ++ num := by simp
    rw [e]
    exact endsDig_append_right (endsDig_of_digRun this)

/-! ## parsing the printed spellings -/

theorem matchLabel_chars (l : Label) (rest : List Char) (h : ∀ c ∈ rest.head?, isLetter c = false) :
    matchLabel (l.chars ++ rest) = some (l, rest) := by
  cases rest with
  | nil =>
    cases l <;> simp [matchLabel, Gen.Version.preAlts, List.findSome?, stripPrefixCI, Label.ofChars, Label.chars, eqCI, lowerNat]
  | cons c t =>
    have hc : isLetter c = false := h c (by simp)
    have hl : eqCI 'l' c = false := eqCI_of_not_letter (by decide) hc
    have he : eqCI 'e' c = false := eqCI_of_not_letter (by decide) hc
    cases l <;> simp [matchLabel, Gen.Version.preAlts, List.findSome?, stripPrefixCI, Label.ofChars, Label.chars, hl, he,
      show eqCI 'a' 'a' = true from by decide, show eqCI 'b' 'b' = true from by decide,
      show eqCI 'a' 'b' = false from by decide, show eqCI 'a' 'r' = false from by decide,
      show eqCI 'b' 'r' = false from by decide, show eqCI 'p' 'r' = false from by decide,
      show eqCI 'c' 'r' = false from by decide, show eqCI 'r' 'r' = true from by decide,
      show eqCI 'c' 'c' = true from by decide]

theorem Label.chars_head (l : Label) : ∃ c t, l.chars = c :: t ∧ isLetter c = true ∧ isSep c = false ∧ isDig c = false ∧ c ≠ '.' := by
  cases l
  · exact ⟨'a', [], rfl, by decide, by decide, by decide, by decide⟩
  · exact ⟨'b', [], rfl, by decide, by decide, by decide, by decide⟩
  · exact ⟨'r', ['c'], rfl, by decide, by decide, by decide, by decide⟩

theorem dropSep_digRun {x : List Char} (h : DigRun x) : dropSep x = x := by
  cases x with
  | nil => rfl
  | cons d t => simp [dropSep, isSep_of_isDig (h.2 d (by simp))]

theorem all_isDig_of_digRun {x : List Char} (h : DigRun x) : x.all isDig = true := by
  simpa [List.all_eq_true] using h.2

/-- `rc1` -/
theorem parsePre_pep (l : Label) (num : List Char) (h : DigRun num) :
    parsePre (l.chars ++ num) = some (some (l, digitsVal num)) := by
  obtain ⟨c, t, hct, _, hsep, _, _⟩ := l.chars_head
  have hnum : ∀ c ∈ num.head?, isLetter c = false := fun c hc =>
    isLetter_of_isDig (h.2 c (List.mem_of_mem_head? hc))
  have hd : dropSep (l.chars ++ num) = l.chars ++ num := by simp [hct, dropSep, hsep]
  have hm := matchLabel_chars l num hnum
  unfold parsePre
  rw [hct] at hd hm ⊢
  simp only [List.cons_append] at hd hm ⊢
  rw [hd, hm]
  simp [dropSep_digRun h, all_isDig_of_digRun h]

/-- `-rc.1` -/
theorem parsePre_semver (l : Label) (num : List Char) (h : DigRun num) :
    parsePre ('-' :: l.chars ++ '.' :: num) = some (some (l, digitsVal num)) := by
  have hm := matchLabel_chars l ('.' :: num) (by intro c hc; simp at hc; subst hc; decide)
  unfold parsePre
  simp only [List.cons_append, dropSep, show isSep '-' = true from by decide, if_true]
  rw [hm]
  simp [show isSep '.' = true from by decide, all_isDig_of_digRun h]

theorem stripSpace_of_shape {s : List Char} {d : Char} {t : List Char} (hs : s = d :: t) (hd : isDig d = true)
    (he : EndsDig s) : dropV (stripSpace s) = s := by
  subst hs
  rw [stripSpace_eq hd he, dropV_dig hd]

theorem stops_label (l : Label) (rest : List Char) : Stops isDig (l.chars ++ rest) := by
  obtain ⟨c, t, hct, _, _, hdig, hdot⟩ := l.chars_head
  rw [hct]; exact stops_cons hdig hdot

theorem parsePep_pep (r : Raw) (h : r.WF) : parsePep r.pep = some r.val := by
  obtain ⟨d, t, hj, hd⟩ := joinDot_head r.comps h.1 h.2.1
  have hshape : r.pep = d :: (t ++ match r.pre with | none => [] | some (l, num) => l.chars ++ num) := by
    simp [Raw.pep, hj]
  unfold parsePep
  rw [stripSpace_of_shape hshape hd (r.pep_endsDig h)]
  obtain ⟨hne, hc, hp⟩ := h
  cases hcs : r.comps with
  | nil => exact absurd hcs hne
  | cons x xs =>
    have hwf : ∀ y ∈ x :: xs, y ≠ [] ∧ ∀ c ∈ y, isDig c = true := fun y hy => hc y (by simp [hcs, hy])
    cases hpre : r.pre with
    | none =>
      simp only [Raw.pep, hcs, hpre]
      rw [scanRel_join isDig (by decide) x xs hwf [] (stops_nil _)]
      simp [parsePre, Raw.val, hcs, hpre]
    | some p =>
      obtain ⟨l, num⟩ := p
      have hn : DigRun num := hp (l, num) (by simp [hpre])
      simp only [Raw.pep, hcs, hpre]
      rw [scanRel_join isDig (by decide) x xs hwf _ (stops_label l num)]
      simp [parsePre_pep l num hn, Raw.val, hcs, hpre]

theorem parsePep_semver (r : Raw) (h : r.WF) : parsePep r.semver = some r.val := by
  obtain ⟨d, t, hj, hd⟩ := joinDot_head r.comps h.1 h.2.1
  have hshape : r.semver = d :: (t ++ match r.pre with | none => [] | some (l, num) => '-' :: l.chars ++ '.' :: num) := by
    simp [Raw.semver, hj]
  unfold parsePep
  rw [stripSpace_of_shape hshape hd (r.semver_endsDig h)]
  obtain ⟨hne, hc, hp⟩ := h
  cases hcs : r.comps with
  | nil => exact absurd hcs hne
  | cons x xs =>
    have hwf : ∀ y ∈ x :: xs, y ≠ [] ∧ ∀ c ∈ y, isDig c = true := fun y hy => hc y (by simp [hcs, hy])
    cases hpre : r.pre with
    | none =>
      simp only [Raw.semver, hcs, hpre]
      rw [scanRel_join isDig (by decide) x xs hwf [] (stops_nil _)]
      simp [parsePre, Raw.val, hcs, hpre]
    | some p =>
      obtain ⟨l, num⟩ := p
      have hn : DigRun num := hp (l, num) (by simp [hpre])
      simp only [Raw.semver, hcs, hpre, List.cons_append]
      rw [scanRel_join isDig (by decide) x xs hwf _ (stops_cons (by decide) (by decide))]
      have hps := parsePre_semver l num hn
      simp only [List.cons_append] at hps
      simp [hps, Raw.val, hcs, hpre]

/-! ## the semver regex on the printed spellings -/

theorem Label.takeWhile_letters (l : Label) (num : List Char) :
    (l.chars ++ '.' :: num).takeWhile isLetter = l.chars ∧ (l.chars ++ '.' :: num).dropWhile isLetter = '.' :: num := by
  have hdot : isLetter '.' = false := by decide
  cases l <;> simp [Label.chars, List.takeWhile, List.dropWhile, hdot,
    show isLetter 'a' = true from by decide, show isLetter 'b' = true from by decide,
    show isLetter 'r' = true from by decide, show isLetter 'c' = true from by decide]

theorem Label.mem_labels (l : Label) : Gen.Version.labels.contains l.chars = true := by
  cases l <;> decide

theorem takeWhile_all {p : Char → Bool} {x : List Char} (h : ∀ c ∈ x, p c = true) :
    x.takeWhile p = x ∧ x.dropWhile p = [] := by
  have h1 := List.takeWhile_append_of_pos (p := p) (l₁ := x) (l₂ := []) h
  have h2 := List.dropWhile_append_of_pos (p := p) (l₁ := x) (l₂ := []) h
  simpa using And.intro h1 h2

theorem semverMatch_semver (r : Raw) (h : r.WF) :
    semverMatch r.semver = match r.pre with
      | none => none
      | some (l, num) => some (joinDot r.comps, l.chars, num) := by
  obtain ⟨hne, hc, hp⟩ := h
  cases hcs : r.comps with
  | nil => exact absurd hcs hne
  | cons x xs =>
    have hwf : ∀ y ∈ x :: xs, y ≠ [] ∧ ∀ c ∈ y, isDecimal c = true := fun y hy =>
      ⟨(hc y (by simp [hcs, hy])).1, fun c hcy => isDecimal_of_isDig ((hc y (by simp [hcs, hy])).2 c hcy)⟩
    cases hpre : r.pre with
    | none =>
      simp only [Raw.semver, hcs, hpre, semverMatch]
      rw [scanRel_join isDecimal isDecimal_dot x xs hwf [] (stops_nil _)]
    | some p =>
      obtain ⟨l, num⟩ := p
      have hn : DigRun num := hp (l, num) (by simp [hpre])
      have hdec : ∀ c ∈ num, isDecimal c = true := fun c hcn => isDecimal_of_isDig (hn.2 c hcn)
      obtain ⟨c0, t0, hl0⟩ : ∃ c t, l.chars = c :: t := by cases l <;> exact ⟨_, _, rfl⟩
      simp only [Raw.semver, hcs, hpre, semverMatch, List.cons_append]
      rw [scanRel_join isDecimal isDecimal_dot x xs hwf _ (stops_cons isDecimal_dash (by decide))]
      simp only
      rw [(l.takeWhile_letters num).1, (l.takeWhile_letters num).2, hl0]
      simp only
      rw [(takeWhile_all hdec).1, (takeWhile_all hdec).2]
      simp [hn.1]

end Version
