"""Case generation, correspondence and monitors for C26 / C36 on the in-process server stack.

`check_case(case)` runs one case (harness/server/idle.py) and returns
  * the first model/implementation divergence, if any (K),
  * monitor findings as (signature, what) pairs (S), computed from the observation log only —
    independent of the Lean model.
"""
from __future__ import annotations

import json
import random
import re
from typing import Any

from ..runner import Divergence, Driver, diff_streams
from . import idle as IDLE

C26_RULES = ("two_live_loops", "lock_section_overlap", "released_while_busy", "event_not_processed", "step_ran_twice",
             "reload_beside_live_loop", "send_failed")
C36_RULES = ("released_early", "not_released_after_timeout", "release_outside_lock", "release_while_sending",
             "send_section_outside_lock", "released_state_wrong", "reload_state_wrong", "reload_not_once",
             "result_differs_after_reload", "released_while_not_idle")


# --------------------------------------------------------------------------
# generation


def gen_case(rng: random.Random, *, yielding: bool, long_work: bool, store: str | None = None) -> dict:
    tau = rng.choice([0.1, 0.2, 0.4])
    q = tau / 4  # all times stay on the millisecond grid
    n_ev = rng.randint(1, 5)
    dur: dict[str, float] = {}
    for n in range(1, n_ev + 1):
        if long_work:
            dur[str(n)] = rng.choice([0, q, 2 * q, tau, 1.5 * tau, 2.5 * tau])
        else:
            dur[str(n)] = rng.choice([0, 0, 0.005, q])
    plan = []
    t = 0.0
    for n in range(1, n_ev + 1):
        gap = rng.choice([0.0, 0.0, q, 2 * q, tau - 0.001, tau, tau + 0.001, 1.5 * tau, 2.5 * tau, 3 * tau])
        t = round(t + gap, 6)
        plan.append({"at": t, "n": n})
    if rng.random() < 0.7:
        t = round(t + rng.choice([0.0, q, tau, tau + 0.001, 2 * tau]), 6)
        plan.append({"at": t, "n": 99})
    wf: dict[str, Any] = {"dur": dur, "final": 99, "nw": rng.choice([1, 1, 2])}
    if long_work and rng.random() < 0.3:
        wf["fail_once"] = [rng.randint(1, n_ev)]
        wf["retry_wait"] = rng.choice([q, tau, 2 * tau])
    return {"tau": tau, "store": store or rng.choice(["memory", "memory", "sqlite"]), "yielding": yielding, "wf": wf,
            "plan": plan, "seed": rng.randrange(1 << 30)}


CORPUS: list[tuple[str, dict]] = [
    # release exactly at the threshold, send exactly at the release time, send one ms before / after
    ("send_at_release_time", {"tau": 0.2, "store": "memory", "yielding": False, "wf": {"dur": {}, "final": 99},
                              "plan": [{"at": 0.2, "n": 1}, {"at": 0.4, "n": 2}, {"at": 0.9, "n": 99}]}),
    ("send_just_before_after", {"tau": 0.2, "store": "memory", "yielding": False, "wf": {"dur": {}, "final": 99},
                                "plan": [{"at": 0.199, "n": 1}, {"at": 0.4, "n": 2}, {"at": 0.601, "n": 3}, {"at": 1.5, "n": 99}]}),
    ("concurrent_senders_on_released_run", {"tau": 0.1, "store": "sqlite", "yielding": False, "wf": {"dur": {"1": 0.02}, "final": 99, "nw": 2},
                                            "plan": [{"at": 0.5, "n": 1}, {"at": 0.5, "n": 2}, {"at": 0.5, "n": 3}, {"at": 1.0, "n": 99}]}),
    ("reannounced_idleness", {"tau": 0.2, "store": "memory", "yielding": False, "wf": {"dur": {"1": 0.05, "2": 0.05}, "final": 99},
                              "plan": [{"at": 0.1, "n": 1}, {"at": 0.25, "n": 2}, {"at": 1.0, "n": 99}]}),
    ("never_finishes_stays_released", {"tau": 0.5, "store": "memory", "yielding": False, "wf": {"dur": {}, "final": 99},
                                       "plan": [{"at": 0.1, "n": 1}]}),
    ("yielding_reload_interleaved", {"tau": 0.2, "store": "memory", "yielding": True, "wf": {"dur": {"1": 0.02}, "final": 99},
                                     "plan": [{"at": 0.5, "n": 1}, {"at": 0.5, "n": 2}, {"at": 0.9, "n": 99}], "seed": 5}),
]

# known-finding witnesses (F14 and the send window); also kept under harness/corpus/
WITNESS_PREMATURE_IDLE = {"tau": 0.2, "store": "memory", "yielding": False,
                          "wf": {"dur": {"5": 1.0}, "start_sends": [5], "final": 99}, "plan": []}
WITNESS_SEND_WINDOW = {"tau": 0.2, "store": "memory", "yielding": True, "wf": {"dur": {"1": 0.1, "2": 1.0}, "final": 99},
                       "plan": [{"at": 0.05, "n": 1}, {"at": 0.1, "n": 2}], "choices": [0, 1, 0]}
# wait_for_event(requirements={"k": 1}); released while waiting; Ext(k=2) sent to the released run (found by the C14 builder)
WITNESS_REQUIREMENTS_LOST = {"tau": 1.0, "store": "memory", "yielding": False, "wf": {"kind": "waiter", "nw": 1, "req_k": 1},
                             "plan": [{"at": 1.5, "n": 1, "k": 2}, {"at": 1.6, "n": 2, "k": 1}]}
WITNESS_QUERY_WINDOW = {"tau": 0.2, "store": "memory", "yielding": True, "wf": {"dur": {"1": 0, "2": 0.05}, "final": 99, "nw": 1},
                        "plan": [{"at": 0.0, "n": 1}, {"at": 0.6, "n": 2}, {"at": 0.801, "n": 99}],
                        "choices": [1, 1, 1, 1, 0, 0, 0, 0, 0, 0, 0]}


# --------------------------------------------------------------------------
# monitors


def _field(line: str, name: str) -> str:
    m = re.search(r"(?:^| )" + re.escape(name) + r"=(\S*)", line)
    return m.group(1) if m else ""


def monitors(case: dict, r: dict, ref: dict | None) -> list[tuple[str, str]]:
    """(signature, what) list; signatures are `C26/<rule>[:cause]` or `C36/<rule>[:cause]`"""
    ev = r["events"]
    tau = r["tau_ms"]
    out: list[tuple[str, str]] = []
    impl = r["impl"]
    yielding = bool(case.get("yielding"))

    # ---- single loop
    for e in ev:
        if "live" in e and e["live"] > 1:
            out.append(("C26/two_live_loops", f"{e['live']} live control loops of the run after {e.get('op', e['ev'])} at t={e['t']}"))
            break
    for e in ev:
        if e["ev"] == "loop_start" and e["live"] != 1:
            out.append(("C26/reload_beside_live_loop", f"a control loop was started by {e['by']} while {e['live'] - 1} other(s) were alive (t={e['t']})"))
            break
    # ---- lock discipline
    for e in ev:
        if e["ev"] == "lock_overlap":
            out.append(("C26/lock_section_overlap", f"{e['by']} entered the reload-lock section while {e['holder']} was inside (t={e['t']})"))
            break
    for e in ev:
        if e["ev"] == "op":
            kind, _, arg = e["op"].partition("|")
            if kind in ("sclear", "squery", "slog", "sstart", "srclear") and e.get("lock") != ("s", int(arg)):
                out.append(("C36/send_section_outside_lock", f"{e['op']} ran while the reload lock was held by {e.get('lock')} (t={e['t']})"))
                break
            if kind == "tquery" and not e.get("in_lock", True):
                out.append(("C36/release_outside_lock", f"release task {arg} read the handler row without holding the reload lock (holder {e.get('lock')}, t={e['t']})"))
                break
    open_senders: dict[int, int] = {}
    for e in ev:
        if e["ev"] == "op":
            kind, _, arg = e["op"].partition("|")
            if kind == "sacq":
                open_senders[int(arg)] = e["t"]
            elif kind == "sdeliver":
                open_senders.pop(int(arg), None)
        elif e["ev"] == "abort":
            if e.get("by", ("?",))[0] != "t" or e.get("lock") != e.get("by"):
                out.append(("C36/release_outside_lock", f"the run was aborted by {e.get('by')} while the reload lock was held by {e.get('lock')} (t={e['t']})"))
            if open_senders:
                out.append(("C36/release_while_sending", f"the run was aborted at t={e['t']} while sender(s) {sorted(open_senders)} were inside send_event's lock section"))
    # ---- every release: timing and idleness
    pubs = [e for e in ev if e["ev"] == "idle_published"]
    pos = {id(e): k for k, e in enumerate(ev)}
    busy_aborts: list[dict] = []
    for e in ev:
        if e["ev"] != "abort":
            continue
        prev = [p for p in pubs if pos[id(p)] < pos[id(e)]]
        last = prev[-1] if prev else None
        if last is None:
            out.append(("C36/released_early", f"the run was released at t={e['t']} without any idle announcement"))
        elif e["t"] - last["t"] < tau:
            in_window = last.get("lock") is not None and last.get("lock") == e.get("by") and e["by"][0] == "t"
            out.append(("C36/released_early" + (":query_window" if in_window else ""),
                        f"released at t={e['t']}, {e['t'] - last['t']} ms after the last idle announcement (idle_timeout {tau} ms)"
                        + ("; the announcement fell between the release task's handler query and its decision" if in_window else "")))
        busy = (not e["quiet"]) or e["steps_running"] > 0
        if busy:
            if last is None:
                cause = "no_announcement"
            elif not last["truly_idle"]["idle"]:
                cause = "premature_idle"
            elif last["open_sender_windows"]:
                cause = "send_window"
            else:
                cause = ""
            e["_cause"] = cause
            busy_aborts.append(e)
            what = (f"released at t={e['t']} while busy (work={e['work']}, mailbox={e['mailbox']}, buffer={e['buf']}, pending retries={e['retry']}, "
                    f"steps running={e['steps_running']}); last idle announcement at t={last['t'] if last else None}: "
                    f"{'engine not idle then ' + json.dumps(last['truly_idle']) if cause == 'premature_idle' else 'sender(s) ' + str(last['open_sender_windows']) + ' were between idle_since clear and delivery' if cause == 'send_window' else 'truthful and outside any window'}")
            sig = "released_while_busy" + (":" + cause if cause else "")
            out.append(("C26/" + sig, what))
            out.append(("C36/released_while_not_idle" + (":" + cause if cause else ""), what))
    # ---- state right after a release / a reload (read from the real objects: impl lines)
    aborters = {e["by"][1] for e in ev if e["ev"] == "abort" and e.get("by", ("?",))[0] == "t"}
    for e in ev:
        if e["ev"] == "op" and e["op"].startswith("tdecide|"):
            line = impl[e["idx"]]
            aborted_now = int(e["op"].split("|")[1]) in aborters
            if aborted_now and not (_field(line, "act") == "0" and _field(line, "loop") == "-" and _field(line, "idle") != "-"):
                out.append(("C36/released_state_wrong", f"after the release at t={e['t']}: active={_field(line, 'act')} loop={_field(line, 'loop')} idle_since={_field(line, 'idle')} (expected inactive, no loop, marked idle)"))
    reloaders: set[int] = set()
    rclear_pos: dict[int, int] = {}
    for e in ev:
        if e["ev"] == "op":
            kind, _, arg = e["op"].partition("|")
            if kind == "sstart":
                reloaders.add(int(arg))
            if kind == "srclear":
                rclear_pos[int(arg)] = pos[id(e)]
                line = impl[e["idx"]]
                if not (_field(line, "act") == "1" and _field(line, "idle") == "-"):
                    out.append(("C36/reload_state_wrong", f"after sender {arg} reloaded the run and cleared idle_since: active={_field(line, 'act')} idle_since={_field(line, 'idle')}"))
            if kind == "sdeliver" and int(arg) in reloaders and "error" not in e:
                line = impl[e["idx"]]
                mb = re.sub(r".*/mb:([^/]*)/.*", r"\1", _field(line, "loop")).split(",")
                # an idle announcement of the new loop between the clear and the delivery (store suspension) may have set idle_since again
                announced_between = any(p["ev"] == "idle_published" and rclear_pos.get(int(arg), 10**9) < pos[id(p)] < pos[id(e)] for p in pubs)
                ok = _field(line, "act") == "1" and arg in mb and (_field(line, "idle") == "-" or announced_between)
                if not ok:
                    out.append(("C36/reload_state_wrong", f"after sender {arg} reloaded the run and delivered: active={_field(line, 'act')} idle_since={_field(line, 'idle')} loop={_field(line, 'loop')}"))
    # ---- reload exactly once per release
    starts_since_abort = 0
    for e in ev:
        if e["ev"] == "abort":
            starts_since_abort = 0
        elif e["ev"] == "loop_start" and e["by"][0] == "s":
            starts_since_abort += 1
            if starts_since_abort > 1:
                out.append(("C36/reload_not_once", f"a second control loop was started (by {e['by']}) after one release (t={e['t']})"))
    for e in ev:
        if e["ev"] == "op" and e["op"].startswith("sacq|") and e.get("active") is False:
            i = int(e["op"].split("|")[1])
            if i not in reloaders and r["send_results"].get(i) == "ok":
                out.append(("C36/reload_not_once", f"sender {i} found the run released but did not reload it"))
    # ---- release liveness: a truthful announcement that stays undisturbed for idle_timeout is followed by the release
    end_t = max([e["t"] for e in ev if "t" in e] + [0])
    for p in pubs:
        if not p["truly_idle"]["idle"]:
            continue
        deadline = p["t"] + tau
        later = [e for e in ev if pos[id(e)] > pos[id(p)]]
        disturb = None
        for e in later:
            if e["ev"] == "abort":
                break
            if (e["ev"] == "idle_published" or (e["ev"] == "op" and e["op"].startswith(("scall|", "sacq|"))) or e["ev"] == "loop_start"
                    or (e["ev"] == "status" and e.get("status") in ("completed", "failed", "cancelled"))):
                disturb = e
                break
        ab = next((e for e in later if e["ev"] == "abort"), None)
        if disturb is not None and disturb["t"] <= deadline:
            continue  # something happened before the timeout had elapsed: only "not before the timeout" applies
        if ab is not None and (disturb is None or pos[id(ab)] < pos[id(disturb)]):
            if not yielding and ab["t"] != deadline:
                out.append(("C36/not_released_after_timeout", f"idle announced at t={p['t']} with idle_timeout {tau} ms and nothing in between — released only at t={ab['t']}"))
            continue
        # no release before the next disturbance (which came after the deadline), or none at all
        seen_until = disturb["t"] if disturb is not None else end_t
        if seen_until > deadline and not (yielding and disturb is not None):
            out.append(("C36/not_released_after_timeout",
                        f"idle announced at t={p['t']}, idle_timeout {tau} ms, nothing happened until t={seen_until} — the run was not released at t={deadline}"))
    # ---- every accepted send is processed; nothing runs twice
    entered: dict[int, int] = {}
    done: dict[int, int] = {}
    for e in ev:
        if e["ev"] == "step" and e["step"] == "b":
            if e["kind"] == "enter":
                entered[e["n"]] = entered.get(e["n"], 0) + 1
            elif e["kind"] == "done":
                done[e["n"]] = done.get(e["n"], 0) + 1
    completed_at = next((e["t"] for e in ev if e["ev"] == "status" and e.get("status") in ("completed", "failed", "cancelled")), None)
    for n, res in r["send_results"].items():
        if res != "ok":
            # (after a busy release the persisted ticks no longer describe one consistent run: a later reload can fail in
            #  replay_ticks_stream — "Worker 0 not found in in_progress", C13/second_restart_replays_across_resume — and the
            #  exception dies in ctx.send_event's fire-and-forget task; attributed to the release that caused it)
            if not busy_aborts:
                out.append(("C26/send_failed", f"send_event for tick {n} raised inside the lock section: {res}"))
                out.append(("C36/reload_failed", f"send_event for tick {n} raised inside the lock section: {res}"))
            continue
        if entered.get(n, 0) == 0:
            deliv = next((e for e in ev if e["ev"] == "deliver" and e["n"] == n), None)
            if completed_at is not None and deliv is not None and deliv["t"] >= completed_at:
                continue  # sent to a run that was ending
            if busy_aborts:
                continue  # attributed to the release that dropped it / stalled the run
            if completed_at is not None:
                continue
            out.append(("C26/event_not_processed", f"tick {n} was accepted by send_event but step b never entered for it (run status {r.get('status')})"))
    for n, k in done.items():
        if k > 1 and not busy_aborts and n not in case["wf"].get("fail_once", []):
            out.append(("C26/step_ran_twice", f"step b completed {k} times for tick {n} although no busy release happened"))
    for e in ev:
        if e["ev"] in ("send_error", "send_no_delivery") and not busy_aborts:
            out.append(("C26/send_failed", f"{e}"))
    # ---- a waiter's requirements survive the reload
    req_lost = False
    if case["wf"].get("kind") == "waiter":
        ks = {p["n"]: p.get("k") for p in case.get("plan", [])}
        req_k = case["wf"].get("req_k", 1)
        reloaded_at = [pos[id(e)] for e in ev if e["ev"] == "loop_start" and e["by"][0] == "s"]
        for e in ev:
            if e["ev"] == "step" and e["kind"] == "done" and e["step"] == "w" and ks.get(e["n"]) != req_k:
                after_reload = any(p < pos[id(e)] for p in reloaded_at)
                req_lost = True
                out.append(("C36/wait_requirements_lost_on_reload" if after_reload else "C36/wait_requirements_not_enforced",
                            f"wait_for_event(requirements={{'k': {req_k}}}) returned Ext(n={e['n']}, k={ks.get(e['n'])})"
                            + (" after the run had been released and reloaded from its persisted ticks" if after_reload else "")))
    # ---- result equals the uninterrupted run's
    if ref is not None and not busy_aborts and not yielding and not req_lost:
        # (with scheduler-delayed senders the delivery order is the scheduler's, not the plan's: no reference)
        def norm(x: Any) -> Any:
            # with several workers, invocations that end at the same virtual instant append in timer-tie order
            return sorted(x) if isinstance(x, list) and case["wf"].get("nw", 1) > 1 else x
        if (r.get("status"), norm(r.get("result"))) != (ref.get("status"), norm(ref.get("result"))):
            out.append(("C36/result_differs_after_reload", f"with idle release: status={r.get('status')} result={r.get('result')}; without: status={ref.get('status')} result={ref.get('result')}"))
    return out


def check_cases(cases: list[dict], with_reference: bool = True) -> list[dict]:
    """run the cases on the real stack, evaluate all observed action streams with ONE model driver call"""
    runs = [IDLE.run_case(c) for c in cases]
    lines: list[str] = []
    for r in runs:
        lines += r["ops"]
    model = Driver("lifecycle").run(lines) if lines else []
    res = []
    k = 0
    for case, r in zip(cases, runs):
        m = model[k:k + len(r["ops"])]
        k += len(r["ops"])
        replay_case = dict(case, choices=r["choices"])
        div = diff_streams("lifecycle", r["ops"], m, r["impl"], context={"case": replay_case})
        ref = IDLE.run_reference(case) if with_reference else None
        res.append({"run": r, "divergence": div, "findings": monitors(case, r, ref), "reference": ref, "replay_case": replay_case})
    return res


def check_case(case: dict, with_reference: bool = True) -> dict:
    return check_cases([case], with_reference)[0]
