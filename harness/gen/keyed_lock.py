"""Constants and control shape of KeyedLock.__call__ -> lean/WfModel/GenKeyedLock.lean.

Re-read from /repo's current `_keyed_lock.py` on every run.  The model
(`WfModel/KeyedLock.lean`) computes with these constants and `C25_source_shape`
pins the control shape the model's atomic actions are cut along.
"""
from __future__ import annotations

import ast

from ..boot import repo_path

LEAN_MODULE = "GenKeyedLock"
SRC = "packages/llama-agents-server/src/llama_agents/server/_keyed_lock.py"
MISSING = -999


def _is_refs_subscript(n: ast.AST) -> bool:
    return (isinstance(n, ast.Subscript) and isinstance(n.value, ast.Attribute) and n.value.attr == "_refs")


def _const_int(n: ast.AST):
    if isinstance(n, ast.Constant) and isinstance(n.value, int) and not isinstance(n.value, bool):
        return n.value
    if isinstance(n, ast.UnaryOp) and isinstance(n.op, ast.USub) and isinstance(n.operand, ast.Constant):
        return -n.operand.value
    return None


def _contains(node: ast.AST, pred) -> bool:
    return any(pred(x) for x in ast.walk(node))


def extract(notes: list[str]) -> dict:
    res = {"refInit": MISSING, "refInc": MISSING, "refDec": MISSING, "delAt": MISSING, "awaitCount": 999,
           "asyncWithCount": 999, "yieldInsideKeyLockWith": False, "registerBeforeTry": False,
           "deregisterInFinally": False}
    try:
        tree = ast.parse(open(repo_path(SRC)).read())
    except (OSError, SyntaxError) as e:
        notes.append(f"gen/keyed_lock: cannot parse {SRC}: {e!r}")
        return res
    fn = None
    for c in ast.walk(tree):
        if isinstance(c, ast.ClassDef) and c.name == "KeyedLock":
            for f in c.body:
                if isinstance(f, (ast.AsyncFunctionDef, ast.FunctionDef)) and f.name == "__call__":
                    fn = f
    if fn is None:
        notes.append("gen/keyed_lock: KeyedLock.__call__ not found")
        return res
    inits, incs, decs, dels = [], [], [], []
    for n in ast.walk(fn):
        if isinstance(n, ast.Assign) and len(n.targets) == 1 and _is_refs_subscript(n.targets[0]):
            inits.append(_const_int(n.value))
        if isinstance(n, ast.AugAssign) and _is_refs_subscript(n.target):
            if isinstance(n.op, ast.Add):
                incs.append(_const_int(n.value))
            elif isinstance(n.op, ast.Sub):
                decs.append(_const_int(n.value))
            else:
                notes.append("gen/keyed_lock: unexpected augmented assignment on _refs")
                incs.append(None)
        if isinstance(n, ast.If) and isinstance(n.test, ast.Compare) and len(n.test.ops) == 1 \
                and isinstance(n.test.ops[0], ast.Eq) and _is_refs_subscript(n.test.left) \
                and _contains(n, lambda x: isinstance(x, ast.Delete)):
            dels.append(_const_int(n.test.comparators[0]))
    for name, vals in (("refInit", inits), ("refInc", incs), ("refDec", decs), ("delAt", dels)):
        if len(vals) == 1 and vals[0] is not None:
            res[name] = vals[0]
        else:
            notes.append(f"gen/keyed_lock: expected exactly one constant for {name}, found {vals}")
    res["awaitCount"] = sum(isinstance(n, ast.Await) for n in ast.walk(fn))
    res["asyncWithCount"] = sum(isinstance(n, ast.AsyncWith) for n in ast.walk(fn))
    is_yield = lambda x: isinstance(x, (ast.Yield, ast.YieldFrom))
    # the yield sits inside an `async with <lock object>` (not the `async with self._get_main_lock()` call)
    for n in ast.walk(fn):
        if isinstance(n, ast.AsyncWith) and any(_contains(b, is_yield) for b in n.body):
            ctx = n.items[0].context_expr
            if len(n.items) == 1 and not isinstance(ctx, ast.Call):
                res["yieldInsideKeyLockWith"] = True
    # top-level statement order: register (+=) before the try holding the yield; deregister (-=) in its finally
    is_inc = lambda x: isinstance(x, ast.AugAssign) and _is_refs_subscript(x.target) and isinstance(x.op, ast.Add)
    is_dec = lambda x: isinstance(x, ast.AugAssign) and _is_refs_subscript(x.target) and isinstance(x.op, ast.Sub)
    seen_inc = False
    for stmt in fn.body:
        if isinstance(stmt, ast.Try) and any(_contains(b, is_yield) for b in stmt.body):
            res["registerBeforeTry"] = seen_inc and not _contains(stmt, is_inc)
            res["deregisterInFinally"] = (any(_contains(b, is_dec) for b in stmt.finalbody)
                                          and not any(_contains(b, is_dec) for b in stmt.body))
        elif _contains(stmt, is_inc):
            seen_inc = True
    return res


def generate(notes: list[str]) -> list[str]:
    r = extract(notes)
    b = lambda v: "true" if v else "false"
    return [
        "namespace GenKeyedLock",
        f"def refInit : Int := {r['refInit']}",
        f"def refInc : Int := {r['refInc']}",
        f"def refDec : Int := {r['refDec']}",
        f"def delAt : Int := {r['delAt']}",
        f"def awaitCount : Nat := {r['awaitCount']}",
        f"def asyncWithCount : Nat := {r['asyncWithCount']}",
        f"def yieldInsideKeyLockWith : Bool := {b(r['yieldInsideKeyLockWith'])}",
        f"def registerBeforeTry : Bool := {b(r['registerBeforeTry'])}",
        f"def deregisterInFinally : Bool := {b(r['deregisterInFinally'])}",
        "end GenKeyedLock",
    ]
