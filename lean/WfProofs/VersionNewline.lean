import WfProofs.Version
/-!
White space around a version is invisible to `packaging` (`\s*` on both sides of the
pattern), and a final newline is invisible to `_SEMVER_PRERELEASE_RE` (`$` matches
before it): the semver spelling followed by `\n`.
-/
namespace Version

theorem stripSpace_pad {s : List Char} {d : Char} {t : List Char} (hs : s = d :: t) (hd : isDig d = true)
    (he : EndsDig s) (pre post : List Char) (hpre : ∀ c ∈ pre, isSpace c = true) (hpost : ∀ c ∈ post, isSpace c = true) :
    stripSpace (pre ++ s ++ post) = s := by
  obtain ⟨i, e, hse, hed⟩ := he
  have h1 : isSpace d = false := isSpace_of_isDig hd
  have h2 : isSpace e = false := isSpace_of_isDig hed
  unfold stripSpace
  rw [List.append_assoc, List.dropWhile_append_of_pos hpre]
  have hdw : (s ++ post).dropWhile isSpace = s ++ post := by
    rw [hs, List.cons_append, List.dropWhile_cons_of_neg (by simp [h1])]
  rw [hdw, List.reverse_append]
  have hpost' : ∀ c ∈ post.reverse, isSpace c = true := fun c hc => hpost c (List.mem_reverse.1 hc)
  rw [List.dropWhile_append_of_pos hpost', hse, List.reverse_append]
  simp only [List.reverse_cons, List.reverse_nil, List.nil_append, List.singleton_append]
  rw [List.dropWhile_cons_of_neg (by simp [h2])]
  simp

/-- surrounding white space does not change what `Version(...)` reads -/
theorem parsePep_pad {s : List Char} {d : Char} {t : List Char} (hs : s = d :: t) (hd : isDig d = true)
    (he : EndsDig s) (pre post : List Char) (hpre : ∀ c ∈ pre, isSpace c = true) (hpost : ∀ c ∈ post, isSpace c = true) :
    parsePep (pre ++ s ++ post) = parsePep s := by
  have h1 := stripSpace_pad hs hd he pre post hpre hpost
  have h2 := stripSpace_pad hs hd he [] [] (by simp) (by simp)
  simp only [List.nil_append, List.append_nil] at h2
  unfold parsePep
  rw [h1, h2]

theorem isSpace_newline : isSpace '\n' = true := by decide
theorem isDecimal_newline : isDecimal '\n' = false := by decide

theorem Raw.semver_head (r : Raw) (h : r.WF) : ∃ d t, r.semver = d :: t ∧ isDig d = true := by
  obtain ⟨d, t, hj, hd⟩ := joinDot_head r.comps h.1 h.2.1
  cases hp : r.pre with
  | none => exact ⟨d, t, by simp [Raw.semver, hj, hp], hd⟩
  | some p =>
    obtain ⟨l, num⟩ := p
    exact ⟨d, t ++ ('-' :: l.chars ++ '.' :: num), by simp [Raw.semver, hj, hp], hd⟩

theorem Raw.pep_head (r : Raw) (h : r.WF) : ∃ d t, r.pep = d :: t ∧ isDig d = true := by
  obtain ⟨d, t, hj, hd⟩ := joinDot_head r.comps h.1 h.2.1
  cases hp : r.pre with
  | none => exact ⟨d, t, by simp [Raw.pep, hj, hp], hd⟩
  | some p =>
    obtain ⟨l, num⟩ := p
    exact ⟨d, t ++ (l.chars ++ num), by simp [Raw.pep, hj, hp], hd⟩

theorem parsePep_semver_newline (r : Raw) (h : r.WF) : parsePep (r.semver ++ ['\n']) = some r.val := by
  obtain ⟨d, t, hs, hd⟩ := r.semver_head h
  have := parsePep_pad hs hd (r.semver_endsDig h) [] ['\n'] (by simp) (by simp [isSpace_newline])
  simp only [List.nil_append] at this
  rw [this, parsePep_semver r h]

theorem semverMatch_semver_newline (r : Raw) (h : r.WF) :
    semverMatch (r.semver ++ ['\n']) = match r.pre with
      | none => none
      | some (l, num) => some (joinDot r.comps, l.chars, num) := by
  obtain ⟨hne, hc, hp⟩ := h
  cases hcs : r.comps with
  | nil => exact absurd hcs hne
  | cons x xs =>
    have hwf : ∀ y ∈ x :: xs, y ≠ [] ∧ ∀ c ∈ y, isDecimal c = true := fun y hy =>
      ⟨(hc y (by simp [hcs, hy])).1, fun c hcy => isDecimal_of_isDig ((hc y (by simp [hcs, hy])).2 c hcy)⟩
    cases hpre : r.pre with
    | none =>
      simp only [Raw.semver, hcs, hpre, semverMatch, List.append_nil]
      rw [scanRel_join isDecimal isDecimal_dot x xs hwf ['\n'] (stops_cons isDecimal_newline (by decide))]
      rfl
    | some p =>
      obtain ⟨l, num⟩ := p
      have hn : DigRun num := hp (l, num) (by simp [hpre])
      have hdec : ∀ c ∈ num, isDecimal c = true := fun c hcn => isDecimal_of_isDig (hn.2 c hcn)
      obtain ⟨c0, t0, hl0⟩ : ∃ c t, l.chars = c :: t := by cases l <;> exact ⟨_, _, rfl⟩
      have hshape : joinDot (x :: xs) ++ ('-' :: l.chars ++ '.' :: num) ++ ['\n'] =
          joinDot (x :: xs) ++ ('-' :: (l.chars ++ '.' :: (num ++ ['\n']))) := by simp
      simp only [Raw.semver, hcs, hpre, semverMatch]
      rw [hshape, scanRel_join isDecimal isDecimal_dot x xs hwf _ (stops_cons isDecimal_dash (by decide))]
      simp only
      rw [(l.takeWhile_letters (num ++ ['\n'])).1, (l.takeWhile_letters (num ++ ['\n'])).2, hl0]
      simp only
      have htw : (num ++ ['\n']).takeWhile isDecimal = num := by
        rw [List.takeWhile_append_of_pos hdec]; simp [isDecimal_newline]
      have hdw : (num ++ ['\n']).dropWhile isDecimal = ['\n'] := by
        rw [List.dropWhile_append_of_pos hdec]; simp [isDecimal_newline]
      rw [htw, hdw]
      simp [hn.1]

end Version
