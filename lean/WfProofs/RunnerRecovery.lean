import WfProofs.EngineRecovery
import WfProofs.RunnerTerminal
/-! Recovery budgets on the runner LTS (C08): the invariant of `EngineRecovery` extends to the
tick buffer, the mailbox and the timer heap, for every schedule. -/
set_option linter.unusedSimpArgs false
set_option linter.unusedVariables false

namespace Engine

def RunnerRc (cfg : Cfg) (r : Runner) : Prop :=
  RcInv cfg r.st ∧ (∀ t ∈ r.buf, tickRcOk cfg t) ∧ (∀ t ∈ r.mailbox, tickRcOk cfg t) ∧
    (∀ tm ∈ r.heap, tickRcOk cfg tm.tick)

theorem snoc_rc {cfg : Cfg} {l : List Tick} {t : Tick} (hl : ∀ x ∈ l, tickRcOk cfg x) (ht : tickRcOk cfg t) :
    ∀ x ∈ l ++ [t], tickRcOk cfg x := by
  intro x hx
  rcases List.mem_append.mp hx with hx | hx
  · exact hl x hx
  · simp only [List.mem_singleton] at hx; subst hx; exact ht

theorem execCmd_rc (cfg : Cfg) (r : Runner) (c : Cmd) (hc : cmdRcOk cfg c) (h : RunnerRc cfg r) :
    RunnerRc cfg (execCmd r c) := by
  obtain ⟨hs, hb, hm, hh⟩ := h
  cases c with
  | queueEvent att step delay =>
    have hatt : tickRcOk cfg (.addEvent att step) := hc
    simp only [execCmd]
    cases delay with
    | none => exact ⟨hs, snoc_rc hb hatt, hm, hh⟩
    | some d =>
      simp only
      split
      · refine ⟨hs, hb, hm, ?_⟩
        intro t ht
        simp only [Runner.push, List.mem_append, List.mem_singleton] at ht
        rcases ht with ht | ht
        · exact hh t ht
        · subst ht; exact hatt
      · exact ⟨hs, snoc_rc hb hatt, hm, hh⟩
  | runWorker s ev w => exact ⟨hs, hb, hm, hh⟩
  | halt k => exact ⟨hs, hb, hm, hh⟩
  | completeRun p => exact ⟨hs, hb, hm, hh⟩
  | failWorkflow s x => exact ⟨hs, hb, hm, hh⟩
  | publish p => exact ⟨hs, hb, hm, hh⟩
  | scheduleIdleCheck =>
    simp only [execCmd]
    split
    · exact ⟨hs, hb, hm, hh⟩
    · exact ⟨hs, snoc_rc hb trivial, hm, hh⟩
  | scheduleWaiterTimeout s w t =>
    refine ⟨hs, hb, hm, ?_⟩
    intro x hx
    simp only [execCmd, Runner.push, List.mem_append, List.mem_singleton] at hx
    rcases hx with hx | hx
    · exact hh x hx
    · subst hx; trivial
  | crash => exact ⟨hs, hb, hm, hh⟩

theorem execCmds_rc (cfg : Cfg) : ∀ (cmds : List Cmd) (r : Runner), (∀ c ∈ cmds, cmdRcOk cfg c) →
    RunnerRc cfg r → RunnerRc cfg (execCmds r cmds)
  | [], r, _, h => by simpa [execCmds] using h
  | c :: cs, r, hc, h => by
    simp only [execCmds]
    have h1 := execCmd_rc cfg r c (hc c (by simp)) h
    split
    · exact h1
    · exact execCmds_rc cfg cs _ (fun x hx => hc x (by simp [hx])) h1

/-- external parties hand in admissible recovery counts (`ctx.send_event` copies those of the
running invocation, external senders send none) -/
def Act.rcOk (cfg : Cfg) : Act → Prop
  | .external t => tickRcOk cfg t
  | _ => True

theorem step_rc (cfg : Cfg) (pol : Policy) (r : Runner) (a : Act) (ha : Act.rcOk cfg a) (h : RunnerRc cfg r) :
    RunnerRc cfg (r.step cfg pol a) := by
  obtain ⟨hs, hb, hm, hh⟩ := h
  unfold Runner.step
  split
  · exact ⟨hs, hb, hm, hh⟩
  · cases a with
    | drain =>
      simp only
      cases hbuf : r.buf with
      | nil => simp only; exact ⟨hs, by simpa [hbuf] using hb, hm, hh⟩
      | cons t rest =>
        simp only
        have hrest : ∀ x ∈ rest, tickRcOk cfg x := fun x hx => hb x (by simp [hbuf, hx])
        split
        · exact ⟨hs, hrest, hm, hh⟩
        · have hr := reduce_rc cfg pol t r.st r.now hs (hb t (by simp [hbuf]))
          exact execCmds_rc cfg _ _ hr.2 ⟨hr.1, hrest, hm, hh⟩
    | workerDone s w res =>
      simp only
      split
      · exact ⟨hs, hb, hm, hh⟩
      · split
        · exact ⟨hs, hb, hm, hh⟩
        · refine ⟨hs, ?_, hm, hh⟩
          intro t ht; simp only [List.mem_singleton] at ht; subst ht; trivial
    | pull =>
      simp only
      split
      · exact ⟨hs, hb, hm, hh⟩
      · split
        · exact ⟨hs, hb, hm, hh⟩
        · rename_i t m hmb
          refine ⟨hs, ?_, fun x hx => hm x (by simp [hmb, hx]), hh⟩
          intro x hx; simp only [List.mem_singleton] at hx; subst hx; exact hm x (by simp [hmb])
    | timer =>
      simp only
      split
      · exact ⟨hs, hb, hm, hh⟩
      · refine ⟨hs, ?_, hm, ?_⟩
        · intro x hx
          simp only [List.mem_map] at hx
          obtain ⟨tm, htm, rfl⟩ := hx
          exact hh tm (List.mem_filter.mp (mem_sortTimers htm)).1
        · intro x hx; exact hh x (List.mem_filter.mp hx).1
    | advance dt => exact ⟨hs, hb, hm, hh⟩
    | external t =>
      simp only
      split
      · exact ⟨hs, hb, snoc_rc hm ha, hh⟩
      · exact ⟨hs, hb, hm, hh⟩
    | stepWrite p => exact ⟨hs, hb, hm, hh⟩

theorem run_rc (cfg : Cfg) (pol : Policy) : ∀ (acts : List Act) (r : Runner), (∀ a ∈ acts, Act.rcOk cfg a) →
    RunnerRc cfg r → RunnerRc cfg (Runner.run cfg pol r acts)
  | [], r, _, h => h
  | a :: as, r, ha, h => by
    simp only [Runner.run, List.foldl_cons]
    exact run_rc cfg pol as _ (fun x hx => ha x (by simp [hx])) (step_rc cfg pol r a (ha a (by simp)) h)

end Engine
