"""C05 — retry budgets count attempts and elapsed time correctly."""
from __future__ import annotations

from .. import policy, policy_tree
from ..engine import c05_fork, c05_resume, monitors, suite
from ..runner import Env, Outcome

THEOREMS = ["C05_source_shape", "C05_attempt_budget", "C05_non_retryable_once", "C05_delay_budget", "C05_retry_requeue",
            "C05_failure_report", "C05_retry_number", "C05_first_attempt", "C05_wait_replay_is_the_suspended_attempt",
            "C05_wait_replay_keeps_attempts", "C05_failure_after_wait_counts_on", "C05_unrepaired_wait_replay_restarts_count",
            # composed policies of any nesting depth, every clock
            "C05_executions_least", "C05_attempt_cap_tree", "C05_attempt_floor_tree", "C05_attempt_budget_tree", "C05_stop_tree_run",
            "C05_delay_budget_run", "C05_budget_monotone", "C05_attempt_threshold",
            # every reachable state of the runner, every schedule
            "C05_accounting_init", "C05_accounting_init_resumed", "C05_accounting_invariant", "C05_retry_records_wellformed",
            "C05_budget_never_exceeded", "C05_reported_attempts_exact", "C05_no_policy_single_attempt", "C05_delay_budget_reachable",
            "C05_step_failed_event_exact", "C05_retry_info_reachable", "C05_accounting_source_shape",
            # one failed execution, one successor (re-run in place or retry, never both): proved for the reducer, refuted for the one before the repair
            "C05_failed_execution_one_successor", "C05_one_successor_source_shape", "C05_refuted_failed_execution_one_successor_unrepaired",
            "C05_failed_execution_one_successor_partial", "C05_failure_after_scheduled_rerun_skipped",
            "C05_fork_run_exceeds_budget_unrepaired", "C05_fork_run_within_budget",
            "C05_retry_numbers_consecutive", "C05_reported_attempts_consecutive"]
LEAN_TARGETS = ["WfProps.C05"]
EXPLANATION = (
    "Policy layer (bodies translated from retry_policy.py on every run): stop_after_attempt(n) => exactly max(n,1) "
    "executions for every retryable error, wait strategy and clock; non-retryable => 1; stop_after_delay(d) retries iff "
    "elapsed < d. Engine layer (reducer model): the policy is asked with failures = attempts+1 and elapsed = "
    "failed_at - first_attempt_at; a granted retry is re-queued with attempts+1, the same first_attempt_at and the "
    "exception; started attempts carry retry_number 0,1,2,...; failure events report attempts+1 and that elapsed; an "
    "invocation that suspends in wait_for_event is replayed with the attempt record it had (same retry_number, "
    "first_attempt_at, last exception) - the unrepaired replay restarted at 0 (kept as a refuted variant). "
    "Tie: policy correspondence (exact rationals) + reducer/runner correspondence with the policy's decisions as "
    "oracle. For EVERY composed policy the executions of an always-failing invocation are the least failure number at which "
    "next() refuses; for stop trees of any nesting the attempt limits cap them on every clock (stop_any = least operand, "
    "stop_all = greatest), the tree's lower bound holds from below, equal bounds give exactly max(n,1); attempt/delay trees are "
    "monotone. Runner LTS, every schedule from a fresh or resumed start (clock assumption: failures stamped on the runner's clock): "
    "every attempt record anywhere (queue, in progress, waiter, tick buffer, mailbox, timer heap) with retry number k != 0 carries "
    "first-attempt time <= last-failure time <= now, the exception, and was GRANTED by the step's policy at exactly (elapsed, k, "
    "exception); hence no invocation ever runs beyond an attempt cap, retries under a delay limit were granted while elapsed < d, "
    "a step without policy runs once, every WorkflowFailedEvent / StepFailedEvent reports attempts = k+1 >= 1 and elapsed >= 0 and "
    "is issued only when the policy refused at exactly these numbers (exactly max(n,1) for stop_after_attempt trees), and "
    "retry_info() of every reachable invocation reports the record (elapsed = now - first_attempt_at on a retry, 0 on the first "
    "attempt; retry_number = 0 iff no previous exception). Source shape: every place the four accounting fields are written, "
    "the failure-count / elapsed expressions, both clock sources and the body of retry_info() are re-extracted "
    "(GenRetryAcct). Tie additions: nested stop/retry trees (operators and named combinators mixed, depth <= 4) and next() over "
    "them against the driver; the trees' cap/lo bounds (from the driver) against the real retry loop on random clocks; the real "
    "InternalContext.retry_info() on arbitrary records and clock readings against Policy.retryInfo. One failed execution has ONE "
    "successor (a re-run on a refreshed collect_events snapshot, or a retry, never both) on every result list in which nothing is "
    "collected after the failure (what the step wrapper returns): proved for the reducer, refuted for the reducer before repair "
    "fix-C05x (the failure of an execution already scheduled to run again is now skipped), with the whole-run consequence (retry 1 "
    "delivered twice under stop_after_attempt(2)); retry numbers are never skipped (a record with number k has granted retries 1..k "
    "behind it). Search: executions per lineage vs budget, retry_info numbers/exceptions, reported attempts and elapsed "
    "vs virtual time actually elapsed, stop_after_delay against really-elapsed time; on waiting steps: retry_number = "
    "failed executions of the invocation so far across suspensions, reported attempts count failures before the wait. "
    "Across snapshot/stop/resume (c05_resume): a step with an elapsed-time stop condition (stop_after_delay, stop_before_delay, "
    "stop_any/stop_all with an attempt limit) suspended in wait_for_event on its first attempt or on a retry is replayed by the reply in "
    "a run resumed `gap` virtual seconds later and fails: policy.next() gets elapsed = failure time - first body entry (observed before "
    "the snapshot) and all failures so far, the retry/stop decisions are those of the stop condition recomputed by the harness at the "
    "really elapsed time, WorkflowFailedEvent / retry_info() report that time, and the serialized waiter carries first_attempt_at = "
    "that first entry and attempts = failures so far."
)
ASSUMPTIONS = suite.ENGINE_ASSUMPTIONS + [
    "first_attempt_at (adapter.get_now) and failed_at (time.time in the step wrapper) are one clock: true on BasicRuntime since fix 1b4aba5 and on the DBOS adapter (epoch seconds); the harness virtualises both",
    "runner-level accounting theorems (AcctInv): schedules are admissible (AcctSched) - a finishing worker stamps its failure with the runner's clock (the clock assumption above, both sources pinned by GenRetryAcct), clock readings are positive (epoch seconds; `first_attempt_at or now` treats 0 as unset), other parties put accounted (in practice fresh) attempt records into the mailbox, no step writes a forged WorkflowFailedEvent to the stream",
    "C05_failed_execution_one_successor: result lists in which no AddCollectedEvent follows a StepWorkerFailed (the step wrapper appends the failure last: GenRetryAcct.wrapperAppendsAfterFailure = []); a background task of a step that calls collect_events after the body raised is outside it",
    "C05.oracle abstracts the delay rounding of the integral-second runner model (any rounding function); budgets do not depend on it",
]


def run(env: Env) -> Outcome:
    out = Outcome()
    out.rule = ("policy specs (exact) + direct reducer pairs + live retry-heavy scripted workflows; non-trivial = more than 2 ticks / every policy line; "
                "distinct by (spec, schedule) / op line")
    policy.correspondence(env, out, env.budget(3000, 60000))
    policy.budget_stream(env, out, env.budget(600, 12000))
    policy.units_stream(env, out, env.budget(150, 3000))
    # nested combinator trees, the theorems' attempt bounds against the real retry loop, Context.retry_info()
    policy_tree.tree_correspondence(env, out, env.budget(1500, 20000))
    policy_tree.bounds_stream(env, out, env.budget(400, 5000))
    policy_tree.retry_info_correspondence(env, out, env.budget(300, 4000))
    suite.direct_corr(env, out, env.budget(2000, 40000))
    # + one failed execution has one successor (re-run in place OR retry, c05_fork.mon_fork); the corpus holds the regression case
    suite.live_runs(env, out, env.budget(200, 4000), [c05_fork.mon_fork, monitors.mon_c05], extra_specs=[c for c in suite.load_corpus("C05") if "spec" in c])
    suite.live_runs(env, out, env.budget(300, 6000), [c05_fork.mon_fork, monitors.mon_c05], gen_kwargs={"family": "retry"})
    # collecting steps with retry policies that raise while their collection is incomplete (stale snapshots + failures in one result list)
    suite.live_runs(env, out, env.budget(60, 600), [c05_fork.mon_fork, monitors.mon_c05], gen_kwargs={"family": "fanin", "raise_incomplete": True})
    # retried invocations that suspend in wait_for_event (before / after / around the wait), also under a catch_error handler
    suite.live_runs(env, out, env.budget(120, 2400), [monitors.mon_c05], gen_kwargs={"family": "wait_retry"})
    # an elapsed-time budget across snapshot -> stop -> resume: a step suspended in wait_for_event (first attempt or a retry) is replayed
    # in the resumed run and fails; elapsed time handed to the policy / reported / in retry_info() counts from the REAL first attempt
    c05_resume.resumed_delay_runs(env, out, env.budget(150, 3000), suite.load_corpus("C05"))
    # K for the same path: to_serialized -> JSON -> from_serialized of generated broker states against the model's `serde` (the generated
    # waiters include attempts = 0 with a first_attempt_at, and retries with their failure record)
    suite.serde_corr(env, out, env.budget(200, 4000))
    return out
