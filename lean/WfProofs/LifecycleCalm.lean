import WfProofs.LifecycleRow
/-!
M7 (B): "the row says `released`" ⇒ "no workflow of the run is executing" — and hence the next sender's resume is
enabled at once — holds along the schedules in which (a) a release begins only while the workflow is up and (b) no
resumer takes a `releasing` row over (`calmAt`).  Without (a) or (b) it fails (witnesses in `WfProps/C36.lean`).
-/
set_option linter.unusedVariables false
set_option linter.unusedSimpArgs false
namespace Lifecycle

/-- schedule guard: `begin_release` is issued only while the workflow is up (what the timer discipline of one
replica provides as long as no timer outlives its workflow), and `try_begin_resume` does not find a `releasing`
row older than the crash timeout (no takeover) -/
def calmAt (s : Sys) : BAct → Bool
  | .rBegin _ => s.wfUp
  | .uTry _ =>
    match s.db with
    | some r => !(r.st == .releasing && GenLifecycle.crashExpired (s.now - r.upd) crashTimeout)
    | none => true
  | _ => true

/-- the releaser is between its CAS win and its `complete_release` -/
def RPc.inFlight : RPc → Bool
  | .won _ => true
  | .sentRelease _ _ => true
  | _ => false

structure Calm (s : Sys) : Prop where
  q1 : ∀ i, (s.rel i).inFlight = true → ∃ u, s.db = some ⟨.releasing, u⟩
  q1u : ∀ i j, (s.rel i).inFlight = true → (s.rel j).inFlight = true → i = j
  q2 : ∀ i t inc, s.rel i = .sentRelease t inc → inc = s.wfInc
  q3 : ∀ k, s.res k = .owner → s.wfUp = false ∧ ∃ u, s.db = some ⟨.active, u⟩
  q3u : ∀ k k', s.res k = .owner → s.res k' = .owner → k = k'
  p : ∀ u, s.db = some ⟨.released, u⟩ → s.wfUp = false

theorem Calm.init : Calm {} := by
  constructor <;> simp [RPc.inFlight]

/-- actions that touch neither the row, the releasers, the resumers' ownership nor the workflow -/
theorem Calm.frame (s s' : Sys) (h : Calm s) (hdb : s'.db = s.db) (hrel : s'.rel = s.rel) (hup : s'.wfUp = s.wfUp)
    (hinc : s'.wfInc = s.wfInc) (hown : ∀ k, s'.res k = .owner → s.res k = .owner) : Calm s' := by
  refine ⟨?_, ?_, ?_, ?_, ?_, ?_⟩
  · intro i hi; rw [hrel] at hi; rw [hdb]; exact h.q1 i hi
  · intro i j hi hj; rw [hrel] at hi hj; exact h.q1u i j hi hj
  · intro i t inc hi; rw [hrel] at hi; rw [hinc]; exact h.q2 i t inc hi
  · intro k hk; rw [hup, hdb]; exact h.q3 k (hown k hk)
  · intro k k' hk hk'; exact h.q3u k k' (hown k hk) (hown k' hk')
  · intro u hu; rw [hdb] at hu; rw [hup]; exact h.p u hu

theorem inFlight_upd (rel : Nat → RPc) (i j : Nat) (v : RPc) (hv : v.inFlight = false) (h : (upd rel i v j).inFlight = true) :
    j ≠ i ∧ (rel j).inFlight = true := by
  by_cases e : j = i
  · subst e; simp [upd_apply, hv] at h
  · simp [upd_apply, e] at h; exact ⟨e, h⟩

theorem owner_upd (res : Nat → UPc) (k k' : Nat) (v : UPc) (hv : v ≠ .owner) (h : upd res k v k' = .owner) : k' ≠ k ∧ res k' = .owner := by
  by_cases e : k' = k
  · subst e; simp [upd_apply] at h; exact absurd h hv
  · simp [upd_apply, e] at h; exact ⟨e, h⟩

/-- one releaser moves to a position outside CAS-win … completion; nothing else that matters changes -/
theorem Calm.frameRel (s s' : Sys) (h : Calm s) (i : Nat) (v : RPc) (hv : v.inFlight = false) (hdb : s'.db = s.db)
    (hrel : s'.rel = upd s.rel i v) (hup : s'.wfUp = s.wfUp) (hinc : s'.wfInc = s.wfInc) (hres : s'.res = s.res) : Calm s' := by
  refine ⟨?_, ?_, ?_, ?_, ?_, ?_⟩
  · intro j hj; rw [hrel] at hj; rw [hdb]; exact h.q1 j (inFlight_upd _ _ _ _ hv hj).2
  · intro j j' hj hj'; rw [hrel] at hj hj'; exact h.q1u j j' (inFlight_upd _ _ _ _ hv hj).2 (inFlight_upd _ _ _ _ hv hj').2
  · intro j t inc hj
    rw [hrel] at hj; rw [hinc]
    have hf : (upd s.rel i v j).inFlight = true := by rw [hj]; rfl
    obtain ⟨hne, _⟩ := inFlight_upd _ _ _ _ hv hf
    simp [upd_apply, hne] at hj
    exact h.q2 j t inc hj
  · intro k hk; rw [hres] at hk; rw [hup, hdb]; exact h.q3 k hk
  · intro k k' hk hk'; rw [hres] at hk hk'; exact h.q3u k k' hk hk'
  · intro u hu; rw [hdb] at hu; rw [hup]; exact h.p u hu

/-- nobody is between CAS win and completion unless the row says `releasing` -/
theorem Calm.noFlight (s : Sys) (hc : Calm s) (h : ∀ u, s.db ≠ some ⟨.releasing, u⟩) (i : Nat) : (s.rel i).inFlight = false := by
  cases hf : (s.rel i).inFlight with
  | false => rfl
  | true => obtain ⟨u, hu⟩ := hc.q1 i hf; exact absurd hu (h u)

/-- nobody owns a resume unless the row says `active` -/
theorem Calm.noOwner (s : Sys) (hc : Calm s) (h : ∀ u, s.db ≠ some ⟨.active, u⟩) (k : Nat) : s.res k ≠ .owner := by
  intro hk; obtain ⟨_, u, hu⟩ := hc.q3 k hk; exact absurd hu (h u)

theorem Calm.step (s s' : Sys) (a : BAct) (h : bstep s a = some s') (hc : Calm s) (hg : calmAt s a = true) : Calm s' := by
  cases a with
  | tick dt => bdestruct h; exact hc.frame _ _ rfl rfl rfl rfl (fun _ h => h)
  | create =>
    bdestruct h
    rename_i hnone
    have hdb : s.db = none := by simpa using hnone
    refine ⟨?_, hc.q1u, hc.q2, ?_, hc.q3u, ?_⟩
    · intro i hi; obtain ⟨u, hu⟩ := hc.q1 i hi; rw [hdb] at hu; cases hu
    · intro k hk; obtain ⟨_, u, hu⟩ := hc.q3 k hk; rw [hdb] at hu; cases hu
    · intro u hu; simp [dbCreate, createTo, LState.ofName, GenLifecycle.sqlite_create_to] at hu
  | rSpawn i =>
    bdestruct h
    exact hc.frameRel _ _ i .start rfl rfl rfl rfl rfl rfl
  | rCrash i => bdestruct h <;> exact hc.frame _ _ rfl rfl rfl rfl (fun _ h => h)
  | uSpawn k =>
    bdestruct h
    exact hc.frame _ _ rfl rfl rfl rfl (fun k' hk' => (owner_upd _ _ _ _ (by simp) hk').2)
  | uSend k =>
    bdestruct h
    all_goals exact hc.frame _ _ rfl rfl rfl rfl (fun k' hk' => (owner_upd _ _ _ _ (by simp) hk').2)
  | wfStep =>
    simp only [bstep] at h
    split at h
    · cases h
    · rename_i hup
      have hup' : s.wfUp = true := by simpa using hup
      split at h
      · simp only [Option.some.injEq] at h; subst h
        exact hc.frame _ _ rfl rfl rfl rfl (fun _ h => h)
      · -- TickIdleRelease: the workflow exits
        simp only [Option.some.injEq] at h; subst h
        refine ⟨hc.q1, hc.q1u, hc.q2, ?_, hc.q3u, ?_⟩
        · intro k hk
          have := (hc.q3 k hk).1
          rw [hup'] at this; cases this
        · intro u hu; rfl
      · cases h
  | uFinish k =>
    bdestruct h
    rename_i hcond
    simp only [Bool.and_eq_true, beq_iff_eq, Bool.not_eq_true'] at hcond
    obtain ⟨_, u, hu⟩ := hc.q3 k hcond.1
    have hnone := hc.noFlight s (by intro u' hu'; rw [hu] at hu'; cases hu')
    refine ⟨hc.q1, hc.q1u, ?_, ?_, ?_, ?_⟩
    · intro i t inc hi
      have := hnone i; rw [hi] at this; cases this
    · intro k' hk'
      obtain ⟨hne, hold⟩ := owner_upd _ _ _ _ (by simp) hk'
      exact absurd (hc.q3u k' k hold hcond.1) hne
    · intro k1 k2 h1 h2
      exact hc.q3u k1 k2 (owner_upd _ _ _ _ (by simp) h1).2 (owner_upd _ _ _ _ (by simp) h2).2
    · intro u' hu'; rw [hu] at hu'; cases hu'
  | rSend i =>
    bdestruct h
    rename_i x t hrel hcr
    have hfl : (s.rel i).inFlight = true := by rw [hrel]; rfl
    have back : ∀ j, (upd s.rel i (RPc.sentRelease t s.wfInc) j).inFlight = true → (s.rel j).inFlight = true := by
      intro j hj
      by_cases e : j = i
      · subst e; exact hfl
      · simp [upd_apply, e] at hj; exact hj
    refine ⟨?_, ?_, ?_, hc.q3, hc.q3u, hc.p⟩
    · intro j hj; exact hc.q1 j (back j hj)
    · intro j j' hj hj'; exact hc.q1u j j' (back j hj) (back j' hj')
    · intro j t' inc hj
      by_cases e : j = i
      · subst e; simp [upd_apply] at hj; exact hj.2.symm
      · simp [upd_apply, e] at hj; exact hc.q2 j t' inc hj
  | rBegin i =>
    have hup : s.wfUp = true := by simpa [calmAt] using hg
    have hno : ∀ k, s.res k ≠ .owner := by
      intro k hk; have := (hc.q3 k hk).1; rw [hup] at this; cases this
    rcases hdb : s.db with _ | ⟨st, u⟩
    · simp [bstep, hdb, dbBeginRelease] at h
      obtain ⟨hcnd, rfl⟩ := h
      exact hc.frameRel _ _ i .lostCas rfl (by simp [hdb]) rfl rfl rfl rfl
    · cases st
      · -- active: the CAS wins
        simp [bstep, hdb, dbBeginRelease] at h
        obtain ⟨hcnd, rfl⟩ := h
        have hnone := hc.noFlight s (by intro u' hu'; rw [hdb] at hu'; cases hu')
        have only : ∀ j, (upd s.rel i (RPc.won s.now) j).inFlight = true → j = i := by
          intro j hj
          by_cases e : j = i
          · exact e
          · simp [upd_apply, e] at hj; have := hnone j; rw [hj] at this; cases this
        refine ⟨?_, ?_, ?_, ?_, ?_, ?_⟩
        · intro j hj; exact ⟨s.now, rfl⟩
        · intro j j' hj hj'
          dsimp only at hj hj'
          rw [only j hj, only j' hj']
        · intro j t inc hj
          dsimp only at hj
          have hf : (upd s.rel i (RPc.won s.now) j).inFlight = true := by rw [hj]; rfl
          have := only j hf; subst this
          simp [upd_apply] at hj
        · intro k hk; exact absurd hk (hno k)
        · intro k k' hk; exact absurd hk (hno k)
        · intro u' hu'; simp at hu'
      all_goals (
        simp [bstep, hdb, dbBeginRelease] at h
        obtain ⟨hcnd, rfl⟩ := h
        exact hc.frameRel _ _ i .lostCas rfl (by simp [hdb]) rfl rfl rfl rfl)
  | rComplete i =>
    simp only [bstep] at h
    split at h
    · rename_i x t inc hrel
      split at h
      · cases h
      · rename_i hcond
        simp only [Option.some.injEq] at h; subst h
        have hfl : (s.rel i).inFlight = true := by rw [hrel]; rfl
        obtain ⟨u, hu⟩ := hc.q1 i hfl
        have hinc := hc.q2 i t inc hrel
        have hdown : s.wfUp = false := by
          subst hinc
          cases hw : s.wfUp with
          | false => rfl
          | true => simp [hw] at hcond
        have only : ∀ j, (upd s.rel i RPc.done j).inFlight = true → False := by
          intro j hj
          obtain ⟨hne, hold⟩ := inFlight_upd _ _ _ _ rfl hj
          exact hne (hc.q1u j i hold hfl)
        refine ⟨?_, ?_, ?_, ?_, hc.q3u, ?_⟩
        · intro j hj; exact (only j hj).elim
        · intro j j' hj; exact (only j hj).elim
        · intro j t' inc' hj
          dsimp only at hj
          have hf : (upd s.rel i RPc.done j).inFlight = true := by rw [hj]; rfl
          exact (only j hf).elim
        · intro k hk
          obtain ⟨_, u', hu'⟩ := hc.q3 k hk
          rw [hu] at hu'; cases hu'
        · intro u' _; exact hdown
    · cases h
  | uTry k =>
    rcases hdb : s.db with _ | ⟨st, u⟩
    · simp [bstep, hdb, dbTryBeginResume] at h
      obtain ⟨hcnd, rfl⟩ := h
      exact hc.frame _ _ (by simp [hdb]) rfl rfl rfl (fun k' hk' => (owner_upd _ _ _ _ (by simp) hk').2)
    · cases st
      · simp [bstep, hdb, dbTryBeginResume] at h
        obtain ⟨hcnd, rfl⟩ := h
        exact hc.frame _ _ (by simp [hdb]) rfl rfl rfl (fun k' hk' => (owner_upd _ _ _ _ (by simp) hk').2)
      · -- releasing: the guard excludes the takeover
        have hx : GenLifecycle.crashExpired (s.now - u) crashTimeout = false := by
          simp [calmAt, hdb] at hg
          cases hh : GenLifecycle.crashExpired (s.now - u) crashTimeout with
          | false => rfl
          | true => rw [hh] at hg; cases hg
        simp [bstep, hdb, dbTryBeginResume, hx] at h
        obtain ⟨hcnd, rfl⟩ := h
        exact hc.frame _ _ (by simp [hdb]) rfl rfl rfl (fun k' hk' => (owner_upd _ _ _ _ (by simp) hk').2)
      · -- released: the resume wins
        simp [bstep, hdb, dbTryBeginResume] at h
        obtain ⟨hcnd, rfl⟩ := h
        have hnone := hc.noFlight s (by intro u' hu'; rw [hdb] at hu'; cases hu')
        have hnoown := hc.noOwner s (by intro u' hu'; rw [hdb] at hu'; cases hu')
        have hdown := hc.p u hdb
        have only : ∀ k', upd s.res k UPc.owner k' = .owner → k' = k := by
          intro k' hk'
          by_cases e : k' = k
          · exact e
          · simp [upd_apply, e] at hk'; exact absurd hk' (hnoown k')
        refine ⟨?_, ?_, ?_, ?_, ?_, ?_⟩
        · intro j hj; have := hnone j; rw [hj] at this; cases this
        · intro j j' hj; have := hnone j; rw [hj] at this; cases this
        · intro j t inc hj; have := hnone j; rw [hj] at this; cases this
        · intro k' _; exact ⟨hdown, s.now, by simp [resumeTo, LState.ofName, GenLifecycle.sqlite_resume_to]⟩
        · intro k1 k2 h1 h2; rw [only k1 h1, only k2 h2]
        · intro u' hu'; simp [resumeTo, LState.ofName, GenLifecycle.sqlite_resume_to] at hu'

theorem Calm.run (acts : List BAct) (s : Sys) (hc : Calm s) (hg : balongB calmAt s acts = true) : Calm (brun s acts) := by
  induction acts generalizing s with
  | nil => exact hc
  | cons a as ih =>
    simp only [balongB, Bool.and_eq_true] at hg
    have hstep : Calm (bstepD s a) := by
      rcases bstepD_eq s a with e | e
      · rw [e]; exact hc
      · exact hc.step _ _ _ e hg.1
    exact ih _ hstep hg.2

end Lifecycle
