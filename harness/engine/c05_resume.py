"""C05 across a stop/resume: "elapsed since the first attempt" does not restart when the run is resumed from a snapshot.

Family: ONE invocation of a step with an elapsed-time stop condition (`stop_after_delay(d)`, `stop_before_delay(d)`,
`stop_any/stop_all(stop_after_delay(d), stop_after_attempt(n))`) suspends in `ctx.wait_for_event` -- on its FIRST attempt
(the human-in-the-loop case) or on a retry --, the context is snapshotted (`ctx.to_dict()` -> JSON) and the run stopped;
`gap` virtual seconds later a fresh workflow is resumed from the JSON; the awaited event arrives, the step is replayed and
fails (always, or a few times).

Oracle, from the inputs and the harness's own observations only (virtual clock readings taken by the step bodies; the
numbers d, n, wait of the spec): t0 = the clock reading at which the body of the invocation was entered for the first
time (before the snapshot).  Rules, for every failure of the invocation after the resume at clock reading tf:
  * the policy is asked with elapsed_time = tf - t0 and attempts = all failures so far (before the snapshot included)
  * it is retried iff the stop condition, evaluated by the harness at (tf - t0, failures), is false
  * `WorkflowFailedEvent.elapsed_seconds` = tf_last - t0, `.attempts` = all failures
  * `retry_info().elapsed_seconds` of a retry entered at te = te - t0
  * the snapshot's record of the suspended invocation (the serialized waiter) says first_attempt_at = t0 and
    attempts = failures so far: what the live waiter holds.
"""
from __future__ import annotations

import copy
import random
from typing import Any

from workflows.events import WorkflowFailedEvent

from ..runner import Env, Outcome, Violation
from . import live, monitors

STEP = "s02"
EPS = 1e-6


def gen_case(rng: random.Random) -> dict:
    kind = rng.choice(["delay", "delay", "delay", "before_delay", "delay_any", "delay_all"])
    d = rng.choice([3, 5, 10, 30])
    w = rng.choice([1, 1, 2, 5])
    pol: dict[str, Any] = {"kind": kind, "d": d, "wait": w}
    if kind in ("delay_any", "delay_all"):
        pol["n"] = rng.choice([2, 3, 6])
    nb = rng.choice([0, 0, 0, 1])  # failures before the wait (0: suspends on its first attempt)
    # (the reply comes from outside after the resume; a waiter TIMEOUT pending at the snapshot has no timer in the resumed
    # run -- DESIGN 14.4, C10 -- so it cannot be what replays the step there)
    wty = rng.choice([3, 11])
    timeout = rng.choice([None, None, None, 20, 50])
    reqk = rng.choice([None, 1])
    wid = rng.choice(["w01", "per"])
    script: list = []
    if nb:
        script.append(["fail_until", nb, rng.randint(1, 9)])
    script.append(["wait", wty, reqk, timeout, wid, rng.choice([None, 2]), rng.choice(["raise", "swallow"])])
    after = rng.choice(["always", "always", "until"])
    if after == "always":
        script.append(["fail_always", rng.randint(1, 9)])
    else:
        script.append(["fail_until", nb + rng.randint(1, 2), rng.randint(1, 9)])
    script.append(["ret", "stop"])
    steps = [{"name": "s00", "accepts": [0], "nw": 1, "retry": None, "script": [["send", 5, rng.choice([None, STEP]), 1], ["ret", "none"]]},
             {"name": STEP, "accepts": [5], "nw": rng.randint(1, 2), "retry": pol, "script": script},
             {"name": "s04", "accepts": [6], "nw": 1, "retry": None, "script": [["ret", "none"]]}]
    rng.shuffle(steps)
    ext: list[dict] = [{"op": "snapshot_stop", "after_quiet": nb}]
    ext.append({"op": "send", "ty": wty, "k": reqk, "step": None, "after_quiet": nb + 1})
    gap = rng.choice([0, 0.5, 1, 2, 4, 12, 40, 500])
    return {"spec": {"steps": steps, "externals": ext}, "seed": rng.randrange(1 << 30), "gap": gap}


def _stops(pol: dict, elapsed: float, failures: int) -> bool:
    """the stop condition of the spec at (seconds really elapsed since the first attempt, failures so far)"""
    k, d, w = pol["kind"], pol["d"], pol.get("wait", 1)
    if k == "delay":
        return elapsed >= d
    if k == "before_delay":
        return elapsed + w >= d
    if k == "delay_any":
        return elapsed >= d or failures >= pol["n"]
    if k == "delay_all":
        return elapsed >= d and failures >= pol["n"]
    raise ValueError(k)


def _failed(status: str | None) -> bool:
    return bool(status) and status.startswith("raise:") and status != "raise:WaitingForEvent"  # type: ignore[union-attr]


def run_case(case: dict, out: Outcome | None = None) -> list[Violation]:
    spec, seed, gap = case["spec"], case["seed"], case["gap"]
    vs: list[Violation] = []

    def cnt(k: str) -> None:
        if out is not None:
            out.count(k)

    tr1 = live.run_spec(spec, seed=seed, replay_actions=case.get("actions1"))
    snaps = [s for s in tr1.snapshots if s.get("stopped")]
    if not snaps:
        cnt("c05resume:no_snapshot")
        return vs
    snap = snaps[0]
    sd = next(s for s in spec["steps"] if s["name"] == STEP)
    pol = sd["retry"]
    lin1 = monitors._lineages(tr1)
    keys = [k for k in lin1 if k[0] == STEP]
    waiting = [(nm, w) for nm, w in monitors.live_waiters_at(tr1, snap["at_call"]) if nm == STEP]
    if len(keys) != 1 or len(waiting) != 1 or lin1[keys[0]][-1][3] != "raise:WaitingForEvent":
        cnt("c05resume:not_suspended_at_snapshot")
        return vs
    key = keys[0]
    execs1 = lin1[key]
    t0 = execs1[0][1]
    failures_before = sum(1 for e in execs1 if _failed(e[3]))
    rcase = {"c05_resume": {"spec": spec, "seed": seed, "gap": gap, "actions1": list(tr1.actions)}}
    cnt(f"c05resume:suspended_on_attempt:{min(failures_before, 2)}")

    # the snapshot's record of the suspended invocation
    recs = [w for w in snap["dict"].get("workers", {}).get(STEP, {}).get("collected_waiters", [])]
    if len(recs) == 1 and "first_attempt_at" in recs[0]:
        r = recs[0]
        if r.get("first_attempt_at") is None or abs(r["first_attempt_at"] - t0) > EPS:
            vs.append(Violation("C05/snapshot_waiter_record:first_attempt_at",
                                f"{STEP} uid={key[1]} suspended in wait_for_event with {failures_before} failure(s) on record; its body was first entered at "
                                f"t0={t0}, the serialized waiter says first_attempt_at={r.get('first_attempt_at')!r}", rcase))
        if (r.get("attempts") or 0) != failures_before:
            vs.append(Violation("C05/snapshot_waiter_record:attempts",
                                f"{STEP} uid={key[1]} failed {failures_before} time(s) before it suspended; the serialized waiter says attempts={r.get('attempts')!r}", rcase))

    spec2 = copy.deepcopy(spec)
    spec2["externals"] = [dict(e, after_quiet=0) for e in getattr(tr1, "remaining_externals", []) if e["op"] == "send"]
    spec2["_resumed"] = True
    resume_at = snap["vtime"] + gap
    tr2 = live.run_spec(spec2, seed=seed + 1, replay_actions=case.get("actions2"), resume_from=snap["dict"], start_time=resume_at, max_time=resume_at + 5000.0)
    rcase["c05_resume"]["actions2"] = list(tr2.actions)
    cnt("c05resume:runs")
    cnt("c05resume:outcome:" + tr2.outcome[0])
    cnt(f"c05resume:gap:{gap}")
    cnt("c05resume:policy:" + pol["kind"])
    execs2 = monitors._lineages(tr2).get(key, [])
    others = [k for k in monitors._lineages(tr2) if k[0] == STEP and k != key]
    if others or tr2.outcome[0] in ("invalid", "runaway", "aborted"):
        cnt("c05resume:not_accounted")
        return vs
    fails2 = [e for e in execs2 if _failed(e[3])]
    asked = [o for c in tr2.calls if c.kind == "reduce" and c.caller in ("run", "_process_tick") for o in c.oracle if o[0] == STEP]
    if out is not None and fails2:
        out.nontrivial((repr(spec), gap, tuple(tr1.actions), tuple(tr2.actions)))
    cnt(f"c05resume:failures_after_resume:{min(len(fails2), 4)}")
    if len(asked) == len(fails2):
        for i, (e, o) in enumerate(zip(fails2, asked)):
            tf = e[2]
            real = tf - t0
            nfail = failures_before + i + 1
            _nm, el, att, _err, delay = o
            if abs(el - real) > EPS:
                how = "restarted_at_resume" if abs(el - (tf - resume_at)) <= EPS or el < real else "other"
                vs.append(Violation(f"C05/elapsed_across_resume:policy_asked:{how}",
                                    f"{STEP} uid={key[1]}: first attempt at {t0}, snapshot/stop at {snap['vtime']}, resumed at {resume_at}, failure {nfail} at {tf}: "
                                    f"{real} s have really elapsed since the first attempt, the policy {pol} was asked with elapsed_time={el}", rcase))
                break
            if att != nfail:
                vs.append(Violation("C05/attempts_across_resume:policy_asked",
                                    f"{STEP} uid={key[1]}: failure {nfail} of the invocation ({failures_before} before the snapshot), the policy was asked with attempts={att}", rcase))
                break
            want_stop = _stops(pol, real, nfail)
            cnt("c05resume:decision:" + ("stop" if want_stop else "retry"))
            if delay == "RAISE":
                continue
            if want_stop and delay is not None:
                vs.append(Violation("C05/stop_after_delay_late:across_resume",
                                    f"{STEP}: retried although {real} s had elapsed since the first attempt ({nfail} failures), policy {pol}", rcase))
                break
            if not want_stop and delay is None:
                vs.append(Violation("C05/stop_after_delay_early:across_resume",
                                    f"{STEP}: gave up after {real} s / {nfail} failures, policy {pol}", rcase))
                break
    else:
        cnt("c05resume:policy_calls_unmatched")
    # the stop condition against the executions themselves (independent of what the policy object was told)
    for i, e in enumerate(fails2):
        real = e[2] - t0
        nfail = failures_before + i + 1
        if _stops(pol, real, nfail) and i + 1 < len(fails2) and not any(v.signature.startswith("C05/stop_after_delay_late") for v in vs):
            vs.append(Violation("C05/stop_after_delay_late:across_resume",
                                f"{STEP}: executed again after failure {nfail} although {real} s had elapsed since the first attempt at {t0} (resumed at {resume_at}), policy {pol}", rcase))
            break
    # retry_info() of the retries after the resume
    for e in execs2:
        ri = e[4] or {}
        if e[0] > 0 and ri.get("elapsed") is not None and abs(ri["elapsed"] - (e[1] - t0)) > EPS:
            vs.append(Violation("C05/retry_info_elapsed:across_resume",
                                f"{STEP}: retry {e[0]} entered at {e[1]}, first attempt at {t0}: retry_info().elapsed_seconds={ri['elapsed']}, really {e[1] - t0}", rcase))
            break
    # the failure report
    fe = [x for (x, *_r) in tr2.stream if isinstance(x, WorkflowFailedEvent) and x.step_name == STEP]
    if fe and fails2 and all(x[2] is not None for x in execs2):
        real = fails2[-1][2] - t0
        total = failures_before + len(fails2)
        if abs(fe[0].elapsed_seconds - real) > EPS:
            vs.append(Violation("C05/reported_elapsed:across_resume",
                                f"WorkflowFailedEvent.elapsed_seconds={fe[0].elapsed_seconds}, but {real} virtual seconds lie between the first attempt ({t0}) and the "
                                f"last failure ({fails2[-1][2]}); resumed at {resume_at}", rcase))
        if fe[0].attempts != total:
            vs.append(Violation("C05/reported_attempts:across_resume",
                                f"WorkflowFailedEvent.attempts={fe[0].attempts}, the invocation failed {total} times ({failures_before} before the snapshot)", rcase))
    return vs


def resumed_delay_runs(env: Env, out: Outcome, n: int, extra: list[dict]) -> None:
    rng = random.Random(env.rng.randrange(1 << 30))
    jobs: list[dict] = []
    if env.replay is not None and isinstance(env.replay.get("payload", {}).get("case"), dict) and "c05_resume" in env.replay["payload"]["case"]:
        jobs.append(env.replay["payload"]["case"]["c05_resume"])
    jobs += [item["c05_resume"] for item in extra if "c05_resume" in item]
    jobs += [gen_case(rng) for _ in range(n)]
    for case in jobs:
        out.evaluations += 1
        out.violations.extend(run_case(case, out))
