import WfModel.KeyedLock
import WfModel.KeyedLockSpec
import Driver.Util
open KeyedLock Drv

/-! Line protocol for M6.
  `enter|k|a` `resume|k|a` `cancel|k|a` `exit|k|a`  → `<status> <state>`
  `live|k|a`                                        → `live=<0|1> measure=<n>`
  `reset`                                           → `reset`
  `c25xabs|k`                                       → `abs <t> spec <t> drain=<n>`
`<t>` is a state of the ticket-lock specification (`WfModel/KeyedLockSpec.lean`): `h=<a|->:q=<a/w,a/c,a/g,..>`;
`abs` is the abstraction of the implementation model's slot for `k`, `spec` is the specification run on its own
(every action op is also applied to it with `tstepD`), `drain` = holders + 2·waiters of the implementation model.
`<state>` lists, for every key touched so far whose slot is not empty, in ascending key order,
`k:refs=<n|->:L=<0|1|->:in=<a,..>:q=<a/P,a/W,a/C,a/X,..>` joined by `;` (or `empty`). -/
namespace Drv.KeyedLock

structure St where
  kl : KL := {}
  keys : List Nat := []
  spec : Nat → TSt := fun _ => {}

def insertKey (k : Nat) : List Nat → List Nat
  | [] => [k]
  | x :: r => if k < x then k :: x :: r else if k = x then x :: r else x :: insertKey k r

def showFut : Fut → String
  | .pending => "P" | .woken => "W" | .cancelled => "C" | .wokenCancelled => "X"

def showKey (k : Nat) (st : KeySt) : String :=
  let refs := match st.refs with | none => "-" | some n => toString n
  let lk := match st.lock with | none => "-" | some l => if l.locked then "1" else "0"
  let q := match st.lock with
    | none => ""
    | some l => ",".intercalate (l.waiters.map fun (w : Nat × Fut) => s!"{w.1}/{showFut w.2}")
  s!"{k}:refs={refs}:L={lk}:in={",".intercalate (st.inside.map toString)}:q={q}"

def showState (s : St) : String :=
  let parts := (s.keys.filter fun k => !(empty (s.kl.slot k))).map fun k => showKey k (s.kl.slot k)
  let body := if parts.isEmpty then "empty" else ";".intercalate parts
  if s.kl.main then "MAIN " ++ body else body

def showTW : TW → String
  | .waiting => "w" | .cancelled => "c" | .grantCancelled => "g"

def showT (t : TSt) : String :=
  let h := match t.holder with | none => "-" | some a => toString a
  s!"h={h}:q={",".intercalate (t.queue.map fun (w : Nat × TW) => s!"{w.1}/{showTW w.2}")}"

def drainOf (st : KeySt) : Nat :=
  st.inside.length + 2 * (match st.lock with | none => 0 | some l => l.waiters.length)

def showErr : Err → String
  | .disabled => "disabled"
  | .keyError => "error:keyError"
  | .releaseUnlocked => "error:releaseUnlocked"
  | .mainWouldBlock => "error:mainWouldBlock"
  | .lostLock => "error:lostLock"

def act? (name : String) (a : Nat) : Option KAct :=
  match name with
  | "enter" => some (.enter a)
  | "resume" => some (.resume a)
  | "cancel" => some (.cancel a)
  | "exit" => some (.exit a)
  | _ => none

def step (s : St) (line : String) : St × String :=
  match line.splitOn "|" with
  | ["reset"] => ({}, "reset")
  | ["c25xabs", ks] =>
    match parseNat? ks with
    | some k => (s, s!"abs {showT (absK (s.kl.slot k))} spec {showT (s.spec k)} drain={drainOf (s.kl.slot k)}")
    | none => (s, "bad-op")
  | ["live", ks, as] =>
    match parseNat? ks, parseNat? as with
    | some k, some a =>
      let st := s.kl.slot k
      (s, s!"live={if live st a then 1 else 0} measure={measure st a}")
    | _, _ => (s, "bad-op")
  | [name, ks, as] =>
    match parseNat? ks, parseNat? as with
    | some k, some a =>
      match act? name a with
      | none => (s, "bad-op")
      | some x =>
        let sp := s.spec
        let s1 : St := { s with keys := insertKey k s.keys,
                                spec := fun j => if j = k then tstepD (sp k) x else sp j }
        match _root_.KeyedLock.step s1.kl ⟨k, x⟩ with
        | .ok kl' => let s2 : St := { s1 with kl := kl' }; (s2, "ok " ++ showState s2)
        | .error e => (s1, showErr e ++ " " ++ showState s1)
    | _, _ => (s, "bad-op")
  | _ => (s, "bad-op")

end Drv.KeyedLock
