"""C08 — exhausted failures route to the owning error handler within budget."""
from __future__ import annotations

import random
import re
from typing import Any

from ..engine import monitors, suite
from ..runner import Divergence, Driver, Env, Outcome, Violation, diff_streams

THEOREMS = ["C08_owner_is_handler", "C08_never_handler_of_handler", "C08_scoped_owner", "C08_wildcard_otherwise",
            "C08_layout_accepted_iff_no_errors", "C08_layout_covering_handler_rejected", "C08_layout_scoped_over_wildcard_rejected",
            "C08_layout_covering_handler_reported", "C08_accepted_layout_handler_steps_unowned",
            "C08_route", "C08_fail", "C08_lineage_budget", "C08_count_raised_by_one", "C08_other_counts_kept", "C08_init",
            "C08_init_resumed", "C08_lineage_budget_waiters", "C08_wait_suspend_records_attempt", "C08_wait_replay_keeps_budget",
            "C08_wait_replay_lands", "C08_wait_replay_keeps_budget_resolve", "C08_wait_replay_keeps_budget_timeout",
            "C08_wait_replay_keeps_budget_rehydrate", "C08_wait_record_survives_serialisation",
            "C08_wait_replay_budget_spent_fails", "C08_unrepaired_wait_replay_resets_budget", "C08_unrepaired_variant_is_the_model",
            "C08_send_event_carries_counts", "C08_send_event_within_budget", "C08_send_event_reaches_mailbox",
            "C08_lineage_budget_sends", "C08_send_event_lands", "C08_send_event_budget_spent_fails",
            "C08_send_event_without_counts_reenters"]
LEAN_TARGETS = ["WfProps.C08"]
EXPLANATION = (
    "Lean: (1) handler table model: scoped owner first, else wildcard, never for a handler step, owner is a declared "
    "handler; which layouts are accepted: `errors` models the messages of validate_catch_error_handlers one by one (wildcard count, then per claim "
    "unknown / covers a handler step / claimed twice), accepted <=> no message and budgets >= 1, any layout in which a handler lists a handler step "
    "(scoped, the wildcard, itself) is rejected with that message, accepted layouts leave every handler step unowned; (2) reducer: exhausted failure with owner and budget left => exactly one StepFailedEvent to the owner "
    "with count+1 (other counts kept), state unchanged; no owner or budget spent => WorkflowFailedEvent + failure with "
    "the original exception; (3) runner LTS invariant for every schedule, fresh and resumed runs: no attempt, waiter, tick "
    "or timer ever carries a recovery count above a handler's max_recoveries; (4) a suspension in wait_for_event keeps "
    "the lineage's counts: the waiter stores the suspended invocation's attempt record and resolution, timeout and "
    "rehydration replay exactly that record (the unrepaired fresh replay reset the budget: refuted variant with witness); "
    "(5) ctx.send_event continues the lineage: the tick a running invocation (first attempt or retry) puts into the mailbox carries "
    "the counts of its in-progress entry, so the budget invariant holds for schedules with step-side sends with no assumption on "
    "them, and an item re-dispatched by a handler whose budget is spent fails the run (sending it without counts would re-enter "
    "the handler: refuted alternative with witness). Tie: table model vs real _collect_catch_error_handlers on random "
    "handler layouts (incl. invalid ones) and the classified messages of validate_catch_error_handlers on the same layouts, reducer/runner "
    "correspondence. Search: the handler LAYOUT is an input (scoped handler listing the wildcard handler / a scoped handler / itself, mutual, chains, "
    "two wildcards, overlapping scopes, unknown names; handlers that raise): from the layout alone, either rejected or no handler step has an owner, "
    "every other step has the owner the layout gives it, and no handler is ever entered with the failure of a handler step; every exhausted failure on real runs "
    "is checked against the routing rule recomputed from the static spec; handler entries per lineage path counted from the trace "
    "(edges: returned events AND events sent with ctx.send_event), the counts on every sent tick and at every exhausted failure "
    "against that count; counts in every state. The "
    "'same with validation disabled' clause is refuted on the tree (known finding, witness replayed)."
)
ASSUMPTIONS = suite.ENGINE_ASSUMPTIONS + [
    "ctx.send_event of a running invocation is modelled as `sendTick` (counts of the sender's in-progress entry; run_worker's RetryAttempt "
    "is a copy of them) and tied to the implementation by the `ssend` lines of the runner correspondence; ticks from outside the run "
    "(external ctx.send_event, cancel, ...) are assumed to carry admissible counts (Act.rcOk: they carry none)",
]


_MSG_RX = [
    (re.compile(r"^Only one wildcard @catch_error handler is allowed per workflow, found (\d+): "), lambda m: f"W{m.group(1)}"),
    (re.compile(r"^@catch_error handler 's(\d+)' lists unknown step 's(\d+)' in for_steps\.$"), lambda m: f"U{int(m.group(1))}:{int(m.group(2))}"),
    (re.compile(r"^@catch_error handler 's(\d+)' cannot cover another handler step 's(\d+)'\.$"), lambda m: f"C{int(m.group(1))}:{int(m.group(2))}"),
    (re.compile(r"^Step 's(\d+)' is claimed by two @catch_error handlers: 's(\d+)' and 's(\d+)'\.$"),
     lambda m: f"D{int(m.group(1))}:{int(m.group(2))}:{int(m.group(3))}"),
]


def _classify_msg(msg: str) -> str:
    for rx, f in _MSG_RX:
        m = rx.match(msg)
        if m:
            return f(m)
    return "?" + msg.replace(" ", "_")[:80]


def _table_corr(env: Env, out: Outcome, n: int) -> None:
    from workflows.decorators import StepConfig
    from workflows.errors import WorkflowValidationError
    from workflows.events import StepFailedEvent
    from workflows.decorators import CatchErrorHandler
    from workflows.representation.validate import _collect_catch_error_handlers, validate_catch_error_handlers

    from ..engine import evtypes as ET

    rng = random.Random(env.rng.randrange(1 << 30))
    ops, exp = [], []
    flagged = False
    for _ in range(n):
        k = rng.randint(1, 6)
        ids = rng.sample(range(0, 20), k)
        nh = rng.randint(0, min(3, k))
        hids = ids[:nh]
        steps: dict[str, Any] = {}
        decls = []
        order = ids[:]
        rng.shuffle(order)
        for i in order:
            name = f"s{i:02d}"
            if i in hids:
                r = rng.random()
                if r < 0.35:
                    fs = None
                else:
                    pool = ids + ([rng.randint(20, 25)] if rng.random() < 0.1 else [])
                    fs = rng.sample(pool, rng.randint(0, min(3, len(pool))))
                    if rng.random() < 0.05 and fs:
                        fs = fs + [fs[0]]
                mr = rng.choice([1, 1, 2, 3, 0]) if rng.random() < 0.9 else rng.choice([0, 1])
                sc = StepConfig(accepted_events=[StepFailedEvent], event_name="ev", return_types=[], context_parameter=None,
                                num_workers=1, retry_policy=None, resources=[], role="catch_error",
                                catch_error_for_steps=None if fs is None else [f"s{t:02d}" for t in fs],
                                catch_error_max_recoveries=mr)
                decls.append((i, fs, mr))
            else:
                sc = StepConfig(accepted_events=[ET.T5], event_name="ev", return_types=[], context_parameter=None,
                                num_workers=1, retry_policy=None, resources=[])
            steps[name] = sc
        err = ""
        try:
            _handlers, hfs = _collect_catch_error_handlers(steps)
            res = " ".join(f"{i}:{int(hfs[f's{i:02d}'][1:]) if f's{i:02d}' in hfs else '_'}" for i in order)
        except WorkflowValidationError as ex:
            res = "invalid"
            hfs = None
            err = str(ex)
        # (S) the table judged from the layout alone (documented rules; no model, no implementation state besides the table)
        lay_h = [{"name": f"s{i:02d}", "for_steps": None if fs is None else [f"s{t:02d}" for t in fs], "max_rec": mr} for i, fs, mr in decls]
        lay_names = [f"s{i:02d}" for i in order]
        rules = monitors.c08_layout_rules(lay_names, lay_h)
        out.count("layout:" + ("accepted" if hfs is not None else "rejected") + ":" + ("+".join(sorted({r.split(":")[0] for r in rules["reject"]})) or ("unspecified" if rules["unspecified"] else "no_rule_broken")))
        if not flagged:
            for sig, what in monitors.c08_table_check(lay_names, lay_h, hfs is not None, hfs, error=err):
                out.violations.append(Violation(sig, "_collect_catch_error_handlers on a generated layout: " + what,
                                                {"spec": layout_to_spec(lay_names, lay_h, hfs), "actions": None, "layout_op": f"{order} {decls}"}))
                flagged = True
                break
        dtoks = " ".join(f"{i} {'_' if fs is None else str(len(fs)) + (' ' if fs else '') + ' '.join(map(str, fs))} {mr}" for i, fs, mr in decls)
        ops.append(f"H {len(order)} {' '.join(map(str, order))} {len(decls)} {dtoks}".replace("  ", " ").strip())
        exp.append(res)
        # which layouts are rejected and why: the messages of validate_catch_error_handlers itself, classified, in order
        msgs = validate_catch_error_handlers(
            [CatchErrorHandler(step_name=f"s{i:02d}", for_steps=None if fs is None else [f"s{t:02d}" for t in fs], max_recoveries=max(1, mr))
             for i, fs, mr in decls], set(lay_names))
        ops.append("E" + ops[-1][1:])
        exp.append(" ".join(_classify_msg(m) for m in msgs) or "none")
        if msgs:
            out.count("table:messages:" + "+".join(sorted({_classify_msg(m)[0] for m in msgs})))
        out.evaluations += 1
        out.count("table:" + ("invalid" if res == "invalid" else "valid"))
        if res != "invalid" and decls:
            out.nontrivial(ops[-1])
    try:
        mo = Driver("handlers").run(ops)
    except Exception as ex:
        out.divergences.append(Divergence("handlers", 0, "<driver>", repr(ex), ""))
        return
    out.traces_validated += len(ops)
    out.disagreements_checked += len(ops)
    d = diff_streams("handlers", ops, mo, exp)
    if d is not None:
        out.divergences.append(d)


def layout_to_spec(names: list[str], handlers: list[dict], table: dict | None) -> dict:
    """a runnable scripted workflow with exactly this @catch_error layout: every ordinary step fails at once, every handler
    raises; the start step is an ordinary step whose owner (per the observed table) is a handler step that has an owner
    itself, when there is one -- so that the replay shows the failure of a handler step at run time too"""
    hn = {h["name"] for h in handlers}
    ords = [n for n in names if n not in hn]
    table = table or {}
    extra = []
    if not ords:
        extra = ["s30"]  # a workflow needs a start step; the name is outside every generated for_steps
        ords = extra
    start = next((o for o in ords if table.get(o) in hn and table.get(table.get(o)) is not None), ords[0])
    steps: list[dict[str, Any]] = []
    for n in names + extra:
        if n in hn:
            h = next(x for x in handlers if x["name"] == n)
            steps.append({"name": n, "accepts": [4], "role": "handler", "for_steps": h["for_steps"], "max_rec": max(1, int(h.get("max_rec", 1))),
                          "script": [["fail_always", 3]]})
        elif n == start:
            steps.append({"name": n, "accepts": [0], "nw": 1, "retry": None,
                          "script": ([["send", 5, None, None]] if len(ords) > 1 else []) + [["fail_always", 7], ["ret", "none"]]})
        else:
            steps.append({"name": n, "accepts": [5], "nw": 1, "retry": None, "script": [["gate"], ["fail_always", 8], ["ret", "none"]]})
    return {"steps": steps, "externals": [], "layout_shape": "table"}


LAYOUT_MONITORS = [monitors.mon_c08_layout_strict, monitors.mon_c08]
GEN_MONITORS = [monitors.mon_c08_layout, monitors.mon_c08]  # families whose graphs may be rejected for other reasons: not strict


def _layout_cases(env: Env, out: Outcome) -> None:
    """hand-picked @catch_error layouts (corpus entries of family "handler_layout") and the replayed case, before anything
    generated: table and run judged from the layout alone; accepted ones also go through the runner correspondence"""
    from ..engine import live

    jobs: list[tuple[dict, int, Any]] = []
    case = (env.replay or {}).get("payload", {}).get("case") if env.replay is not None else None
    if isinstance(case, dict) and "spec" in case and "layout_shape" in case["spec"]:
        jobs.append((case["spec"], 0, case.get("actions")))
    for item in suite.load_corpus("C08"):
        if item.get("family") == "handler_layout":
            jobs.append((item["spec"], item.get("seed", 0), item.get("actions")))
    traces = []
    for spec, seed, actions in jobs:
        tr = live.run_spec(spec, seed=seed, replay_actions=actions)
        traces.append(tr)
        out.evaluations += 1
        out.count("layout_case:" + str(spec.get("layout_shape")) + ":" + ("rejected" if tr.outcome[0] == "invalid" else "accepted:" + tr.outcome[0]))
        for m in LAYOUT_MONITORS:
            out.violations += m(tr)
    suite.runner_corr(out, traces, label="engine-runner-layout-cases")


def run(env: Env) -> Outcome:
    out = Outcome()
    out.rule = ("random handler layouts (valid and invalid) for the table model; direct reducer pairs; live retry/handler-heavy scripted workflows; "
                "non-trivial = valid layout with handlers / more than 2 ticks; distinct by op line / (spec, schedule)")
    _layout_cases(env, out)
    _table_corr(env, out, env.budget(2000, 40000))
    suite.direct_corr(env, out, env.budget(2500, 50000))
    suite.live_runs(env, out, env.budget(150, 3000), GEN_MONITORS, extra_specs=[c for c in suite.load_corpus("C08") if c.get("family") != "handler_layout"])
    suite.live_runs(env, out, env.budget(350, 7000), GEN_MONITORS, gen_kwargs={"family": "retry"})
    # lineages that pass through a step suspended in wait_for_event between two entries of their handler
    suite.live_runs(env, out, env.budget(120, 2400), GEN_MONITORS, gen_kwargs={"family": "wait_retry"})
    # lineages that continue through ctx.send_event (from the handler itself, from a relay step downstream of it, from the
    # failing step before it fails) and fail again into the same handler
    suite.live_runs(env, out, env.budget(120, 1600), GEN_MONITORS, gen_kwargs={"family": "handler_send"})
    # the handler LAYOUT as the input: what a user can write (scoped handler listing the wildcard handler / another scoped
    # handler / itself, two wildcards, overlapping scopes, unknown names, chains), handlers that raise themselves
    suite.live_runs(env, out, env.budget(250, 5000), LAYOUT_MONITORS, gen_kwargs={"family": "handler_layout"})
    return out
