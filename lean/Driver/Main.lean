import Driver.Util
import Driver.DeployId
import Driver.Engine
import Driver.Policy
import Driver.Handlers
import Driver.Version
import Driver.EventSerial

def main (args : List String) : IO UInt32 := do
  let stdin ← IO.getStdin
  match args with
  | ["deployid"] => Drv.loop stdin Drv.DeployId.step (); return 0
  | ["engine"] => Drv.loop stdin Drv.Engine.step {}; return 0
  | ["policy"] => Drv.loop stdin Drv.Policy.step (); return 0
  | ["handlers"] => Drv.loop stdin Drv.Handlers.step (); return 0
  | ["version"] => Drv.loop stdin Drv.Version.step (); return 0
  | ["eventserial"] => Drv.loop stdin Drv.EventSerial.step {}; return 0
  | _ => IO.eprintln "usage: wfdriver <model>"; return 2
