import WfProofs.Version
/-!
`semver_to_pep440` is idempotent on every string: what it returns is never again of
the shape `release-label.number` (the release scan of the result is followed by a
letter, not by `-`).  Needs the scanner invariant "every component is a non-empty
run of digits" for arbitrary inputs.
-/
namespace Version

def IsRun (isD : Char → Bool) (x : List Char) : Prop := x ≠ [] ∧ ∀ c ∈ x, isD c = true

theorem IsRun.snoc {isD : Char → Bool} {x : List Char} {c : Char} (hc : isD c = true)
    (hx : x = [] ∨ IsRun isD x) : IsRun isD (x ++ [c]) := by
  refine ⟨by simp, ?_⟩
  intro d hd
  simp only [List.mem_append, List.mem_cons, List.not_mem_nil, or_false] at hd
  rcases hd with hd | hd
  · rcases hx with hx | hx
    · subst hx; cases hd
    · exact hx.2 d hd
  · subst hd; exact hc

theorem scanGo_runs (isD : Char → Bool) (s : List Char) (dot : Bool) (acc : List (List Char)) (cur : List Char)
    (hacc : ∀ y ∈ acc, IsRun isD y) (hcur : IsRun isD cur) :
    ∀ y ∈ (scanGo isD s dot acc cur).1, IsRun isD y := by
  have hfin : ∀ y ∈ acc ++ [cur], IsRun isD y := by
    intro y hy
    simp only [List.mem_append, List.mem_cons, List.not_mem_nil, or_false] at hy
    rcases hy with hy | hy
    · exact hacc y hy
    · subst hy; exact hcur
  induction s generalizing dot acc cur with
  | nil => simpa [scanGo] using hfin
  | cons c cs ih =>
    cases dot
    · simp only [scanGo]
      split
      · rename_i hc
        have hcur' : IsRun isD (cur ++ [c]) := IsRun.snoc hc (Or.inr hcur)
        apply ih false acc (cur ++ [c]) hacc hcur'
        intro y hy
        simp only [List.mem_append, List.mem_cons, List.not_mem_nil, or_false] at hy
        rcases hy with hy | hy
        · exact hacc y hy
        · subst hy; exact hcur'
      · split
        · exact ih true acc cur hacc hcur hfin
        · exact hfin
    · simp only [scanGo]
      split
      · rename_i hc
        have hcur' : IsRun isD [c] := ⟨by simp, by intro d hd; simp at hd; subst hd; exact hc⟩
        apply ih false (acc ++ [cur]) [c] hfin hcur'
        intro y hy
        simp only [List.mem_append, List.mem_cons, List.not_mem_nil, or_false] at hy
        rcases hy with (hy | hy) | hy
        · exact hacc y hy
        · subst hy; exact hcur
        · subst hy; exact hcur'
      · exact hfin

theorem scanRel_runs {isD : Char → Bool} {s : List Char} {comps : List (List Char)} {rest : List Char}
    (h : scanRel isD s = some (comps, rest)) : comps ≠ [] ∧ ∀ y ∈ comps, IsRun isD y := by
  cases s with
  | nil => simp [scanRel] at h
  | cons c cs =>
    simp only [scanRel] at h
    split at h
    · rename_i hc
      simp only [Option.some.injEq] at h
      have h1 := scanGo_fst_ne_nil isD cs false [] [c]
      have h2 := scanGo_runs isD cs false [] [c] (by simp) ⟨by simp, by intro d hd; simp at hd; subst hd; exact hc⟩
      rw [h] at h1 h2
      exact ⟨h1, h2⟩
    · simp at h

theorem not_decimal_of_letter {c : Char} (h : isLetter c = true) : isDecimal c = false := by
  have hl : (65 ≤ c.toNat ∧ c.toNat ≤ 90) ∨ (97 ≤ c.toNat ∧ c.toNat ≤ 122) := by
    simpa [isLetter] using h
  cases hd : isDecimal c with
  | false => rfl
  | true =>
    exfalso
    simp only [isDecimal, Gen.Version.decimalRanges, List.any_cons, List.any_nil, Bool.or_false, Bool.or_eq_true,
      Bool.and_eq_true, decide_eq_true_eq] at hd
    omega

theorem letter_ne_dot {c : Char} (h : isLetter c = true) : c ≠ '.' := by
  intro e; subst e; revert h; decide

theorem letter_ne_dash {c : Char} (h : isLetter c = true) : c ≠ '-' := by
  intro e; subst e; revert h; decide

theorem takeWhile_head {p : Char → Bool} {s : List Char} {c : Char} {t : List Char}
    (h : s.takeWhile p = c :: t) : p c = true := by
  cases s with
  | nil => simp at h
  | cons a as =>
    rw [List.takeWhile_cons] at h
    split at h
    · rename_i ha
      simp only [List.cons.injEq] at h
      rw [← h.1]; exact ha
    · cases h

/-- the result of a successful match: a joined list of decimal runs, a label starting
with a letter -/
theorem semverMatch_shape {s base label num : List Char} (h : semverMatch s = some (base, label, num)) :
    ∃ x xs c l', base = joinDot (x :: xs) ∧ (∀ y ∈ x :: xs, IsRun isDecimal y) ∧ label = c :: l' ∧ isLetter c = true := by
  unfold semverMatch at h
  split at h
  · rename_i comps r1 hscan
    obtain ⟨hne, hruns⟩ := scanRel_runs hscan
    simp only at h
    split at h
    · rename_i c l' r3 hlab hdrop
      split at h
      · simp only [Option.some.injEq, Prod.mk.injEq] at h
        obtain ⟨hb, hl, _⟩ := h
        cases comps with
        | nil => exact absurd rfl hne
        | cons x xs =>
          exact ⟨x, xs, c, l', hb.symm, hruns, by rw [← hl, hlab], takeWhile_head hlab⟩
      · cases h
    · cases h
  · cases h

theorem semverMatch_of_converted (x : List Char) (xs : List (List Char)) (c : Char) (l' num : List Char)
    (hruns : ∀ y ∈ x :: xs, IsRun isDecimal y) (hc : isLetter c = true) :
    semverMatch (joinDot (x :: xs) ++ (c :: l') ++ num) = none := by
  have hs : Stops isDecimal ((c :: l') ++ num) := stops_cons (not_decimal_of_letter hc) (letter_ne_dot hc)
  have := scanRel_join isDecimal isDecimal_dot x xs hruns ((c :: l') ++ num) hs
  unfold semverMatch
  rw [List.append_assoc, this]
  split
  · rename_i heq
    simp only [Option.some.injEq, Prod.mk.injEq, List.cons_append, List.cons.injEq] at heq
    exact absurd heq.2.1 (letter_ne_dash hc)
  · rfl

theorem semverToPep_idem (s t : List Char) (h : semverToPep s = .ok t) : semverToPep t = .ok t := by
  unfold semverToPep at h
  cases hm : semverMatch s with
  | none =>
    rw [hm] at h
    simp only [Res.ok.injEq] at h
    subst h
    simp [semverToPep, hm]
  | some m =>
    obtain ⟨base, label, num⟩ := m
    rw [hm] at h
    simp only at h
    split at h
    · simp only [Res.ok.injEq] at h
      obtain ⟨x, xs, c, l', hb, hruns, hl, hc⟩ := semverMatch_shape hm
      subst h
      rw [hb, hl]
      have hno := semverMatch_of_converted x xs c l' num hruns hc
      have e : joinDot (x :: xs) ++ (c :: l') ++ num = joinDot (x :: xs) ++ c :: (l' ++ num) := by simp
      rw [e] at hno
      simp [semverToPep, hno]
    · cases h

end Version
