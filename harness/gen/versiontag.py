"""Generator for lean/WfModel/GenVersionTag.lean (property C34, tag side).

Re-extracted from /repo's *current* sources on every run:

* ``src/dev_cli/versioning.py``: the ``refs/tags/`` constant of ``strip_refs_prefix``
  (the ``startswith`` argument, the ``replace`` pattern and its replacement must
  agree) and a *path summary* of ``strip_refs_prefix``, ``infer_tag_metadata``,
  ``remove_tag_prefix``, ``extract_semver``, ``compute_suffix_and_version``;
* ``src/dev_cli/git_utils.py``: path summary of ``previous_tag``;
* ``src/dev_cli/changesets.py``: path summary of ``current_version`` and
  ``docker_image_tags``, and the two places where a package.json version is turned
  into the pyproject version (``semver_to_pep440(pkg.version)``);
* ``src/dev_cli/cli.py``: the data flow of the ``compute-tag-metadata`` command (the
  assignments that lead from the tag to ``change_type``).

A path summary is the ordered list of ``(path condition, action)`` pairs obtained by
symbolic execution of the function body (``if`` without ``else``, nested, with
assignments inside; every single-assignment local substituted by its definition).
Renaming a local leaves it unchanged; changing a test, a slice, a constant or a
format string changes it and breaks ``C34_tag_source_shape``.
"""
from __future__ import annotations

import ast
import copy
from typing import Any

from .version import _Subst, _fn, _parse, _rules_lean, _src, lean_chars, lean_str

LEAN_MODULE = "GenVersionTag"

VERSIONING = "src/dev_cli/versioning.py"
GIT_UTILS = "src/dev_cli/git_utils.py"
CHANGESETS = "src/dev_cli/changesets.py"
CLI = "src/dev_cli/cli.py"


def path_summary(fn: ast.FunctionDef, notes: list[str]) -> list[tuple[str, str]]:
    rules: list[tuple[str, str]] = []

    def sub(env: dict[str, ast.expr], e: ast.expr) -> ast.expr:
        return _Subst(env).visit(copy.deepcopy(e))

    def cond(cs: list[str]) -> str:
        return " and ".join(cs) if cs else "otherwise"

    def run(stmts: list[ast.stmt], states: list[tuple[dict[str, ast.expr], list[str]]]) -> list[tuple[dict[str, ast.expr], list[str]]]:
        for st in stmts:
            if not states:
                break
            if isinstance(st, ast.Expr) and isinstance(st.value, ast.Constant) and isinstance(st.value.value, str):
                continue
            nxt: list[tuple[dict[str, ast.expr], list[str]]] = []
            for env, cs in states:
                if isinstance(st, ast.Assign) and len(st.targets) == 1:
                    tgt = st.targets[0]
                    val = sub(env, st.value)
                    env2 = dict(env)
                    if isinstance(tgt, ast.Name):
                        env2[tgt.id] = val
                        nxt.append((env2, cs))
                        continue
                    if isinstance(tgt, ast.Tuple) and all(isinstance(e, ast.Name) for e in tgt.elts):
                        for i, e in enumerate(tgt.elts):
                            env2[e.id] = ast.Subscript(value=copy.deepcopy(val), slice=ast.Constant(i), ctx=ast.Load())  # type: ignore[attr-defined]
                        nxt.append((env2, cs))
                        continue
                if isinstance(st, ast.Expr) and isinstance(st.value, ast.Call) and isinstance(st.value.func, ast.Attribute) \
                        and st.value.func.attr == "append" and isinstance(st.value.func.value, ast.Name) \
                        and isinstance(env.get(st.value.func.value.id), ast.List) and len(st.value.args) == 1:
                    env2 = dict(env)
                    lst = copy.deepcopy(env[st.value.func.value.id])
                    lst.elts.append(sub(env, st.value.args[0]))  # type: ignore[attr-defined]
                    env2[st.value.func.value.id] = lst
                    nxt.append((env2, cs))
                    continue
                if isinstance(st, ast.If) and not st.orelse:
                    t = _src(sub(env, st.test))
                    inner = run(st.body, [(dict(env), cs + [t])])
                    # fall-through of the body keeps its own condition; the skipped branch negates the test
                    nxt.extend(inner)
                    nxt.append((env, cs + [f"not ({t})"]))
                    continue
                if isinstance(st, ast.Return):
                    rules.append((cond(cs), "return " + (_src(sub(env, st.value)) if st.value is not None else "None")))
                    continue
                if isinstance(st, ast.Raise) and st.exc is not None:
                    exc = st.exc.func if isinstance(st.exc, ast.Call) else st.exc
                    rules.append((cond(cs), "raise " + _src(exc)))
                    continue
                rules.append(("<unsupported>", _src(st)[:120]))
                notes.append(f"translate: gen/versiontag: unsupported statement in {fn.name}: {_src(st)[:80]}")
            states = nxt
        return states

    left = run(fn.body, [({}, [])])
    for _, cs in left:
        rules.append((cond(cs), "return None"))
    return rules


def _refs_constants(fn: ast.FunctionDef | None) -> tuple[str, str, str]:
    """(startswith argument, replace pattern, replacement) of strip_refs_prefix."""
    sw = old = new = "<missing>"
    if fn is not None:
        for n in ast.walk(fn):
            if isinstance(n, ast.Call) and isinstance(n.func, ast.Attribute):
                if n.func.attr == "startswith" and len(n.args) == 1 and isinstance(n.args[0], ast.Constant):
                    sw = str(n.args[0].value)
                if n.func.attr == "replace" and len(n.args) == 2 and all(isinstance(a, ast.Constant) for a in n.args):
                    old, new = str(n.args[0].value), str(n.args[1].value)  # type: ignore[attr-defined]
    return sw, old, new


def _command_flow(tree: ast.Module | None, name: str, targets: list[str]) -> list[str]:
    fn = _fn(tree, name)
    out: list[str] = []
    if fn is None:
        return ["<missing>"]
    for st in ast.walk(fn):
        if isinstance(st, ast.Assign) and len(st.targets) == 1:
            t = _src(st.targets[0])
            if t in targets:
                out.append(f"{t} = {_src(st.value)}")
    return out


def _pyproject_version_sites(tree: ast.Module | None) -> list[str]:
    """Every call `semver_to_pep440(<arg>)` outside the function itself, as source."""
    out: list[str] = []
    if tree is None:
        return ["<missing>"]
    for fn in tree.body:
        if isinstance(fn, ast.FunctionDef) and fn.name != "semver_to_pep440":
            for n in ast.walk(fn):
                if isinstance(n, ast.Call) and _src(n.func) == "semver_to_pep440":
                    out.append(f"{fn.name}: {_src(n)}")
    return out


def generate(notes: list[str]) -> list[str]:
    L = ["namespace Gen.VersionTag", ""]
    vs = _parse(VERSIONING)
    gu = _parse(GIT_UTILS)
    cs = _parse(CHANGESETS)
    cli = _parse(CLI)
    sw, old, new = _refs_constants(_fn(vs, "strip_refs_prefix"))
    if not (sw == old and new == "" and sw not in ("", "<missing>")):
        notes.append("translate: gen/versiontag: strip_refs_prefix no longer tests and removes one non-empty constant")
    L.append("/-! from /repo: src/dev_cli/versioning.py, git_utils.py, changesets.py, cli.py -/")
    L.append(f"def refsPrefix : List Char := {lean_chars(sw if sw == old and new == '' else '<mismatch>')}")
    L.append(f"def refsReplacement : String := {lean_str(new)}")
    for lean_name, tree, fname in (
        ("stripRefsRules", vs, "strip_refs_prefix"),
        ("inferTagRules", vs, "infer_tag_metadata"),
        ("removePrefixRules", vs, "remove_tag_prefix"),
        ("extractSemverRules", vs, "extract_semver"),
        ("suffixAndVersionRules", vs, "compute_suffix_and_version"),
        ("previousTagRules", gu, "previous_tag"),
        ("currentVersionRules", cs, "current_version"),
        ("dockerTagsRules", cs, "docker_image_tags"),
    ):
        fn = _fn(tree, fname)
        if fn is None:
            notes.append(f"translate: gen/versiontag: {fname} not found")
            rules = [("<missing>", "<missing>")]
        else:
            rules = path_summary(fn, notes)
        L += _rules_lean(lean_name, rules)
    flow = _command_flow(cli, "compute_tag_metadata",
                         ["metadata", "(suffix, semver)", "tags", "previous", "previous_version", "change_type"])
    L.append("def tagCommandFlow : List String := [" + ", ".join(lean_str(x) for x in flow) + "]")
    sites = _pyproject_version_sites(cs)
    L.append("def pyprojectVersionSites : List String := [" + ", ".join(lean_str(x) for x in sites) + "]")
    L.append("")
    L.append("end Gen.VersionTag")
    return L
