"""Workflow / step context of the stand-in (contextvar-carried, shared by all asyncio tasks a
workflow spawns, exactly one `function_id` counter per workflow execution)."""
from __future__ import annotations

from contextvars import ContextVar
from dataclasses import dataclass


@dataclass
class DBOSContext:
    workflow_id: str
    function_id: int = 0  # last function id handed out in this workflow execution
    step_fid: int = -1  # >= 0 in the child context a step body runs in

    def is_step(self) -> bool:
        return self.step_fid >= 0


_ctx: ContextVar[DBOSContext | None] = ContextVar("dbos_standin_ctx", default=None)
_next_wfid: ContextVar[str | None] = ContextVar("dbos_standin_next_wfid", default=None)


def get_local_dbos_context() -> DBOSContext | None:
    return _ctx.get()
