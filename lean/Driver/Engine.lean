import WfModel.Replay
import WfModel.Runner
import WfModel.RunnerGone
import WfModel.Context
import WfModel.CollectConc
import WfModel.Serial
import Driver.Util
/-! Line protocol for the engine reducer model (token streams, see harness/enc.py). -/
open Engine

namespace Drv.Engine

abbrev P (α : Type) := List String → Option (α × List String)

@[inline] def pure' (a : α) : P α := fun ts => some (a, ts)
@[inline] def bind' (p : P α) (f : α → P β) : P β := fun ts =>
  match p ts with
  | some (a, ts') => f a ts'
  | none => none
instance : Monad P where
  pure := pure'
  bind := bind'

def tok : P String := fun ts => match ts with | t :: r => some (t, r) | [] => none
def nat : P Nat := fun ts => match ts with | t :: r => (t.toNat?).map (·, r) | [] => none
def int : P Int := fun ts => match ts with | t :: r => (t.toInt?).map (·, r) | [] => none
def optNat : P (Option Nat) := fun ts =>
  match ts with
  | "_" :: r => some (none, r)
  | t :: r => (t.toNat?).map (fun n => (some n, r))
  | [] => none
def optInt : P (Option Int) := fun ts =>
  match ts with
  | "_" :: r => some (none, r)
  | t :: r => (t.toInt?).map (fun n => (some n, r))
  | [] => none
def bool : P Bool := fun ts =>
  match ts with
  | "1" :: r => some (true, r)
  | "0" :: r => some (false, r)
  | _ => none

def many (p : P α) : Nat → P (List α)
  | 0 => pure []
  | n + 1 => do let a ← p; let r ← many p n; pure (a :: r)

def counted (p : P α) : P (List α) := do let n ← nat; many p n

def opt (p : P α) : P (Option α) := fun ts =>
  match ts with
  | "_" :: r => some (none, r)
  | _ => (p ts).map (fun (a, r) => (some a, r))

def kind : P Kind := do
  match ← tok with
  | "s" => pure .start
  | "t" => pure .stop
  | "i" => pure .inputRequired
  | "p" => pure .plain
  | _ => fun _ => none

def failInfo : P FailInfo := do
  match ← tok with
  | "F" =>
    let step ← nat; let inputUid ← nat; let exc ← nat; let attempts ← nat; let elapsed ← int
    let failedAt ← int
    pure { step, inputUid, exc, attempts, elapsed, failedAt }
  | _ => fun _ => none

def ev : P Ev := do
  match ← tok with
  | "E" =>
    let ty ← nat; let k ← kind; let uid ← nat; let key ← optNat; let fail ← opt failInfo
    pure { ty, kind := k, uid, key, fail }
  | _ => fun _ => none

def pair : P (Nat × Nat) := do let a ← nat; let b ← nat; pure (a, b)
def rc : P RC := counted pair

def attempt : P Attempt := do
  match ← tok with
  | "A" =>
    let e ← ev; let attempts ← optNat; let firstAt ← optInt; let lastExc ← optNat
    let lastFailedAt ← optInt; let r ← rc
    pure { ev := e, attempts, firstAt, lastExc, lastFailedAt, rc := r }
  | _ => fun _ => none

def waiter : P Waiter := do
  match ← tok with
  | "W" =>
    let wid ← nat; let e ← ev; let waitTy ← nat; let req ← optNat; let hasReq ← bool
    let resolved ← opt ev; let timedOut ← bool
    let attempts ← nat; let firstAt ← optInt; let lastExc ← optNat; let lastFailedAt ← optInt; let r ← rc
    pure { wid, ev := e, waitTy, req, hasReq, resolved, timedOut, attempts, firstAt, lastExc, lastFailedAt,
           rc := r }
  | _ => fun _ => none

def collected : P Collected := counted (do let b ← nat; let es ← counted ev; pure (b, es))

def inProg : P InProg := do
  match ← tok with
  | "I" =>
    let e ← ev; let wid ← nat; let se ← collected; let sw ← counted waiter
    let attempts ← nat; let firstAt ← int; let lastExc ← optNat; let lastFailedAt ← optInt
    let r ← rc
    pure { ev := e, wid, snapEvents := se, snapWaiters := sw, attempts, firstAt, lastExc,
           lastFailedAt, rc := r }
  | _ => fun _ => none

def stepState : P StepState := do
  match ← tok with
  | "S" =>
    let q ← counted attempt; let ip ← counted inProg; let c ← collected; let w ← counted waiter
    pure { queue := q, inProg := ip, collected := c, waiters := w }
  | _ => fun _ => none

def stepCfg : P StepCfg := do
  let name ← nat; let accepted ← counted nat; let numWorkers ← nat; let hasRetry ← bool
  pure { name, accepted, numWorkers, hasRetry }

def cfgP : P Cfg := do
  match ← tok with
  | "C" =>
    let steps ← counted stepCfg; let hf ← counted pair; let hs ← counted pair
    pure { steps, handlerFor := hf, handlers := hs }
  | _ => fun _ => none

def stateP (cfg : Cfg) : P State := do
  let r ← bool
  let sss ← many stepState cfg.steps.length
  let tbl := cfg.names.zip sss
  pure { isRunning := r,
         workers := fun s => match tbl.find? (fun p => p.1 == s) with | some p => p.2 | none => {} }

def res : P Res := do
  match ← tok with
  | "RR" => do let e ← opt ev; pure (.result e)
  | "RF" => do let x ← nat; let t ← int; pure (.failed x t)
  | "RA" => do let b ← nat; let e ← ev; pure (.addCollected b e)
  | "RD" => do let b ← nat; pure (.deleteCollected b)
  | "RW" => do
    let wid ← nat; let we ← opt ev; let req ← optNat; let tmo ← optNat; let ty ← nat
    pure (.addWaiter wid we req tmo ty)
  | "RX" => do let w ← nat; pure (.deleteWaiter w)
  | _ => fun _ => none

def tick : P Tick := do
  match ← tok with
  | "TS" => do
    let step ← nat; let worker ← nat; let e ← ev; let rs ← counted res
    pure (.stepResult step worker e rs)
  | "TA" => do let a ← attempt; let tgt ← optNat; pure (.addEvent a tgt)
  | "TC" => pure .cancelRun
  | "TR" => pure .idleRelease
  | "TP" => do let e ← ev; pure (.publish e)
  | "TT" => do let t ← nat; pure (.timeout t)
  | "TW" => do let s ← nat; let w ← nat; pure (.waiterTimeout s w)
  | "TI" => pure .idleCheck
  | _ => fun _ => none

/-- policy oracle table: entries `(step, elapsed, failures, exc, decision)`;
decision = a delay, `_` (give up) or `X` (the policy raised) -/
def polDecision : P PolDecision := fun ts =>
  match ts with
  | "_" :: r => some (.stop, r)
  | "X" :: r => some (.raise, r)
  | t :: r => (t.toNat?).map (fun n => (.retry n, r))
  | [] => none

def policy : P Policy := do
  match ← tok with
  | "P" =>
    let es ← counted (do
      let s ← nat; let el ← int; let f ← nat; let x ← nat; let d ← polDecision; pure (s, el, f, x, d))
    pure (fun s el f x =>
      match es.find? (fun e => e.1 == s && e.2.1 == el && e.2.2.1 == f && e.2.2.2.1 == x) with
      | some e => e.2.2.2.2
      | none => .stop)
  | _ => fun _ => none

/-! ### printing (canonical: dict-like things sorted by key) -/

def insertBy (lt : α → α → Bool) (a : α) : List α → List α
  | [] => [a]
  | b :: bs => if lt b a then b :: insertBy lt a bs else a :: b :: bs
def sortBy (lt : α → α → Bool) (l : List α) : List α := l.foldr (insertBy lt) []

def sOptNat : Option Nat → String | none => "_" | some n => toString n
def sOptInt : Option Int → String | none => "_" | some n => toString n
def sBool (b : Bool) : String := if b then "1" else "0"
def sKind : Kind → String | .start => "s" | .stop => "t" | .inputRequired => "i" | .plain => "p"
def sFail : Option FailInfo → String
  | none => "_"
  | some f => s!"F {f.step} {f.inputUid} {f.exc} {f.attempts} {f.elapsed} {f.failedAt}"
def sEv (e : Ev) : String := s!"E {e.ty} {sKind e.kind} {e.uid} {sOptNat e.key} {sFail e.fail}"
def sOptEv : Option Ev → String | none => "_" | some e => sEv e
def sList (f : α → String) (l : List α) : String :=
  " ".intercalate (toString l.length :: l.map f)
def sRC (r : RC) : String := sList (fun p => s!"{p.1} {p.2}") (sortBy (fun a b => a.1 < b.1) r)
def sAttempt (a : Attempt) : String :=
  s!"A {sEv a.ev} {sOptNat a.attempts} {sOptInt a.firstAt} {sOptNat a.lastExc} {sOptInt a.lastFailedAt} {sRC a.rc}"
def sWaiter (w : Waiter) : String :=
  s!"W {w.wid} {sEv w.ev} {w.waitTy} {sOptNat w.req} {sBool w.hasReq} {sOptEv w.resolved} {sBool w.timedOut} " ++
  s!"{w.attempts} {sOptInt w.firstAt} {sOptNat w.lastExc} {sOptInt w.lastFailedAt} {sRC w.rc}"
def sCollected (c : Collected) : String :=
  sList (fun p => s!"{p.1} {sList sEv p.2}") (sortBy (fun a b => a.1 < b.1) c)
def sInProg (i : InProg) : String :=
  s!"I {sEv i.ev} {i.wid} {sCollected i.snapEvents} {sList sWaiter i.snapWaiters} {i.attempts} {i.firstAt} {sOptNat i.lastExc} {sOptInt i.lastFailedAt} {sRC i.rc}"
def sStepState (s : StepState) : String :=
  s!"S {sList sAttempt s.queue} {sList sInProg s.inProg} {sCollected s.collected} {sList sWaiter s.waiters}"
def sState (cfg : Cfg) (st : State) : String :=
  " ".intercalate (sBool st.isRunning :: cfg.names.map (fun s => sStepState (st.workers s)))

def sSS : SS → String | .preparing => "prep" | .running => "run" | .notRunning => "nrun"
def sOut : OutName → String | .unset => "_" | .noneType => "None" | .ty n => toString n
def sPub : Pub → String
  | .event e => s!"ev {sEv e}"
  | .stepState s step inTy out w => s!"ss {sSS s} {step} {inTy} {sOut out} {sOptNat w}"
  | .idle => "idle"
  | .unhandled ty step idle => s!"unhandled {ty} {sOptNat step} {sBool idle}"
  | .cancelled => "cancelled"
  | .failed step exc att el => s!"failed {step} {exc} {att} {el}"
  | .timedOut t act => s!"timedout {t} {sList toString act}"
  | .idleReleased => "idlereleased"
def sCmd : Cmd → String
  | .runWorker step e wid => s!"[run {step} {sEv e} {wid}]"
  | .queueEvent a step delay => s!"[queue {sAttempt a} {sOptNat step} {sOptNat delay}]"
  | .halt .cancelledByUser => "[halt cancelled]"
  | .halt .timeout => "[halt timeout]"
  | .completeRun p => s!"[complete {sPub p}]"
  | .failWorkflow step exc => s!"[fail {step} {exc}]"
  | .publish p => s!"[pub {sPub p}]"
  | .scheduleIdleCheck => "[idlecheck]"
  | .scheduleWaiterTimeout step w t => s!"[wtimeout {step} {w} {t}]"
  | .crash => "[crash]"

def sResult (cfg : Cfg) (r : State × List Cmd) : String :=
  if r.2.contains .crash then "crash"
  else " ".intercalate (r.2.map sCmd) ++ " ;; " ++ sState cfg r.1

def sTick : Tick → String
  | .stepResult step w e rs => s!"TS {step} {w} {sEv e} {sList sRes rs}"
  | .addEvent a tgt => s!"TA {sAttempt a} {sOptNat tgt}"
  | .cancelRun => "TC"
  | .idleRelease => "TR"
  | .publish e => s!"TP {sEv e}"
  | .timeout t => s!"TT {t}"
  | .waiterTimeout st w => s!"TW {st} {w}"
  | .idleCheck => "TI"
where
  sRes : Res → String
    | .result e => s!"RR {sOptEv e}"
    | .failed x t => s!"RF {x} {t}"
    | .addCollected b e => s!"RA {b} {sEv e}"
    | .deleteCollected b => s!"RD {b}"
    | .addWaiter w we req tmo ty => s!"RW {w} {sOptEv we} {sOptNat req} {sOptNat tmo} {ty}"
    | .deleteWaiter w => s!"RX {w}"

def sOutcome : Option Outcome → String
  | none => "running"
  | some (.completed p) => s!"completed {sPub p}"
  | some (.failed s x) => s!"failed {s} {x}"
  | some (.halted .cancelledByUser) => "halted cancelled"
  | some (.halted .timeout) => "halted timeout"
  | some .crashed => "crashed"

def sRunner (r : Runner) : String :=
  let ws := sortBy (fun (a b : Nat × Nat) => a.1 < b.1 || (a.1 == b.1 && a.2 < b.2))
    (r.running.map (fun w => (w.step, w.wid)))
  s!"B {sList sTick r.buf} H {sList (fun t => s!"{t.at_} {t.seq} {sTick t.tick}") (sortTimers r.heap)} " ++
  s!"R {sList (fun p => s!"{p.1} {p.2}") ws} S {r.stream.length} P {sBool r.idlePending} O {sOutcome r.outcome}"

structure DState where
  cfg : Cfg := { steps := [] }
  st : State := initState
  run : Runner := { st := initState }
  autoIds : AutoIds := []
  /-- the tick list of a pending `rebuild` (C11) -/
  ticks : List Tick := []

def autoIdEntry : P ((Nat × Option Nat) × Nat) := do
  let ty ← nat; let rq ← optNat; let w ← nat; pure ((ty, rq), w)

def tokens (s : String) : List String := (s.splitOn " ").filter (· ≠ "")

def step (d : DState) (line : String) : DState × String :=
  match tokens line with
  | "cfg" :: ts =>
    match cfgP ts with
    | some (c, []) => ({ d with cfg := c, st := initState }, "ok")
    | _ => (d, "bad-op")
  | "state" :: ts =>
    match stateP d.cfg ts with
    | some (s, []) => ({ d with st := s }, sState d.cfg s)
    | _ => (d, "bad-op")
  | "reduce" :: ts =>
    -- reduce <now> <policy> <tick>  (on the current state; the state advances)
    match (do let now ← int; let p ← policy; let t ← tick; pure (now, p, t)) ts with
    | some ((now, p, t), []) =>
      let r := reduce d.cfg p t d.st now
      ({ d with st := r.1 }, sResult d.cfg r)
    | _ => (d, "bad-op")
  | "rewind" :: ts =>
    match int ts with
    | some (now, []) =>
      let r := rewind d.cfg d.st now
      ({ d with st := r.1 }, sResult d.cfg r)
    | _ => (d, "bad-op")
  | ["rewindspec"] =>
    -- the closed form of `C03_rewind_exact` on the current state (which does not advance): per step in
    -- registration order, k = min(num_workers, #pending), the events started, the events left queued
    let line := sList (fun (c : StepCfg) =>
      let ss := d.st.workers c.name
      let pending := (ss.inProg.map inProgToAttempt).reverse ++ ss.queue
      let k := min c.numWorkers pending.length
      s!"{c.name} {k} {sList (fun a => sEv a.ev) (pending.take k)} {sList (fun a => sAttempt a) (pending.drop k)}")
      d.cfg.steps
    (d, line)
  | ["show"] => (d, sState d.cfg d.st)
  | ["serde"] =>
    -- to_serialized -> JSON -> from_serialized on the current state (the state advances)
    let s := roundtrip d.cfg d.st
    ({ d with st := s }, sState d.cfg s)
  -- runner LTS
  | "rinit" :: ts =>
    match (do let now ← int; let e ← opt ev; let t ← optNat; pure (now, e, t)) ts with
    | some ((now, e, t), []) =>
      let r := Runner.init d.cfg d.st now e t
      ({ d with run := r }, "ok")
    | _ => (d, "bad-op")
  | "ext" :: ts =>
    match tick ts with
    | some (t, []) => let r := d.run.step d.cfg (fun _ _ _ _ => .stop) (.external t); ({ d with run := r }, "ok")
    | _ => (d, "bad-op")
  | "ssend" :: ts =>
    -- ssend <step> <wid> <target|_> <ev>: the running invocation (step, wid) calls ctx.send_event;
    -- output: the tick that enters the mailbox (with the recovery counts the model gives it)
    match (do let s ← nat; let w ← nat; let tgt ← optNat; let e ← ev; pure (s, w, tgt, e)) ts with
    | some ((s, w, tgt, e), []) =>
      match sendTick d.run.st s w e tgt with
      | some t =>
        let r := d.run.stepS d.cfg (fun _ _ _ _ => .stop) (.stepSend s w e tgt)
        ({ d with run := r }, sTick t)
      | none => (d, "no-invocation")
    | _ => (d, "bad-op")
  | ["pull"] => let r := d.run.step d.cfg (fun _ _ _ _ => .stop) .pull; ({ d with run := r }, sRunner r)
  | ["timer"] => let r := d.run.step d.cfg (fun _ _ _ _ => .stop) .timer; ({ d with run := r }, sRunner r)
  | "setnow" :: ts =>
    match int ts with
    | some (t, []) =>
      if t < d.run.now then (d, "bad-op")
      else ({ d with run := { d.run with now := t } }, "ok")
    | _ => (d, "bad-op")
  | "wdone" :: ts =>
    match (do let s ← nat; let w ← nat; let rs ← counted res; pure (s, w, rs)) ts with
    | some ((s, w, rs), []) =>
      let r := d.run.step d.cfg (fun _ _ _ _ => .stop) (.workerDone s w rs)
      ({ d with run := r }, sRunner r)
    | _ => (d, "bad-op")
  | "drain" :: ts =>
    match policy ts with
    | some (p, []) =>
      let r := d.run.step d.cfg p .drain
      ({ d with run := r }, sRunner r ++ " ;; " ++ sState d.cfg r.st)
    | _ => (d, "bad-op")
  | "wgone" :: ts =>
    -- wgone <step> <wid>: the worker task of that invocation ended cancelled (no result): it leaves the task set, nothing else
    match (do let s ← nat; let w ← nat; pure (s, w)) ts with
    | some ((s, w), []) =>
      if d.run.running.any (fun x => x.step == s && x.wid == w) then ({ d with run := d.run.workerGone s w }, "ok")
      else (d, "no-worker")
    | _ => (d, "bad-op")
  | "swrite" :: ts =>
    match ev ts with
    | some (e, []) =>
      let r := d.run.step d.cfg (fun _ _ _ _ => .stop) (.stepWrite (.event e)); ({ d with run := r }, "ok")
    | _ => (d, "bad-op")
  | "rstep" :: ts =>
    -- rstep <now> <policy> <hint>: set the clock; if the buffer is empty apply the
    -- hinted fill action (HW step wid results | HP | HT | H0); then drain one tick.
    -- Output: runner summary after the pop and before the reduce, then the reduce result.
    match (do
      let now ← int; let p ← policy
      let h ← tok
      let hint : Option Act ←
        match h with
        | "HW" => do let s ← nat; let w ← nat; let rs ← counted res; pure (some (Act.workerDone s w rs))
        | "HP" => pure (some Act.pull)
        | "HT" => pure (some Act.timer)
        | "H0" => pure none
        | _ => fun _ => none
      pure (now, p, hint)) ts with
    | some ((now, p, hint), []) =>
      if now < d.run.now then (d, "bad-op") else
      let r0 := { d.run with now := now }
      let r1 := match hint with
        | some a => if r0.buf.isEmpty then r0.step d.cfg p a else r0
        | none => r0
      match r1.buf with
      | [] => ({ d with run := r1 }, "empty-buffer " ++ sRunner r1)
      | t :: rest =>
        let pre := { r1 with buf := rest, idlePending := if t = Tick.idleCheck then false else r1.idlePending }
        let r2 := r1.step d.cfg p .drain
        let red := reduce d.cfg p t r1.st r1.now
        ({ d with run := r2 }, sTick t ++ " @@ " ++ sRunner pre ++ " => " ++ sResult d.cfg red)
    | _ => (d, "bad-op")
  -- step side (InternalContext): collect_events / wait_for_event against a snapshot
  | "CE" :: ts =>
    match (do let ex ← counted nat; let b ← nat; let c ← counted ev; let e ← ev; pure (ex, b, c, e)) ts with
    | some ((ex, b, c, e), []) =>
      match collectEvents ex b c e with
      | .empty => (d, "empty")
      | .pending none => (d, "pending _")
      | .pending (some r) => (d, "pending " ++ sTick.sRes r)
      | .complete evs => (d, "complete " ++ sList sEv evs)
    | _ => (d, "bad-op")
  | "CR" :: ts =>
    match (do let ex ← counted nat; let es ← counted ev; pure (ex, es)) ts with
    | some ((ex, es), []) =>
      let h := es.foldl (collectRound ex) {}
      (d, s!"B {sList sEv h.buffer} R {sList (sList sEv) h.returned} D {sList sEv h.dropped}")
    | _ => (d, "bad-op")
  -- C09: a whole schedule of a collecting step with any number of invocations in flight (`WfModel/CollectConc.lean`):
  -- C09CH <expected> <n> (S <ev> | F <ev>)*n
  | "C09CH" :: ts =>
    let act : P C09Act := do
      match ← tok with
      | "S" => let e ← ev; pure (.start e)
      | "F" => let e ← ev; pure (.finish e)
      | _ => fun _ => none
    match (do let ex ← counted nat; let as ← counted act; pure (ex, as)) ts with
    | some ((ex, as), []) =>
      let c := c09ConcRun ex as
      (d, s!"B {sList sEv c.buffer} F {sList (fun f => sEv f.ev ++ " " ++ sList sEv f.snap) c.flights} R {sList (fun p => sEv p.1 ++ " " ++ sList sEv p.2) c.returned} D {sList sEv c.dropped}")
    | _ => (d, "bad-op")
  -- the naming of default waiter ids: autoids <n> (<ty> <req|_> <id>)*
  | "autoids" :: ts =>
    match counted autoIdEntry ts with
    | some (t, []) => if AutoIds.wellFormed t then ({ d with autoIds := t }, s!"ok {t.length}") else (d, "not-injective")
    | _ => (d, "bad-op")
  | "WE" :: ts =>
    match (do let ws ← counted waiter; let wid ← optNat; let ty ← nat; let we ← opt ev; let rq ← optNat
              let tmo ← optNat; pure (ws, wid, ty, we, rq, tmo)) ts with
    | some ((ws, wid?, ty, we, rq, tmo), []) =>
      match waitForEventAuto d.autoIds ws wid? ty we rq tmo with
      | none => (d, "no-default-id")
      | some (wid, .timeout) => (d, "timeout " ++ sList sTick.sRes (WaitOut.results wid .timeout))
      | some (_, .waiting a) => (d, "waiting " ++ sTick.sRes a)
      | some (wid, .got e) => (d, "got " ++ sEv e ++ " " ++ sList sTick.sRes (WaitOut.results wid (.got e)))
    | _ => (d, "bad-op")
  | "rebuild" :: ts =>
    -- rebuild <now> <n> <policy>*n: `rebuild_state_from_ticks(<the state the run was started from>, <the tick log>)`
    -- at clock <now>; the i-th policy table holds the decisions made while the i-th logged tick is replayed
    match (do let now ← int; let ps ← counted policy; pure (now, ps)) ts with
    | some ((now, ps), []) =>
      if ps.length ≠ d.run.log.length then (d, "bad-op") else
      match rebuildAt d.cfg d.st ((d.run.log.map (·.1)).zip ps) now with
      | some s => (d, sState d.cfg s)
      | none => (d, "crash")
    | _ => (d, "bad-op")
  -- C11: `rebuild_state_from_ticks(init_state, ticks)` as the theorems model it (`replayTicks`): the current state is the
  -- init state; `rbtick` appends one tick to the list; `rbuild <now0> <clk> <policy>` (named apart from C31's `rebuild`) rewinds at `now0`, reduces every
  -- tick at `clk`, and prints the rebuilt state, `running_steps()` of it and the context loaded from its serialisation
  | ["rbclear"] => ({ d with ticks := [] }, "ok")
  | "rbtick" :: ts =>
    match tick ts with
    | some (t, []) => ({ d with ticks := d.ticks ++ [t] }, "ok")
    | _ => (d, "bad-op")
  | "rbuild" :: ts =>
    match (do let now0 ← int; let clk ← int; let p ← policy; pure (now0, clk, p)) ts with
    | some ((now0, clk, p), []) =>
      match replayTicks d.cfg p d.st now0 (fun _ => clk) d.ticks with
      | none => (d, "crash")
      | some rep =>
        (d, sState d.cfg rep.st ++ " ;; A " ++ sList toString (activeSteps d.cfg rep.st) ++ " ;; D " ++
          sState d.cfg (roundtrip d.cfg rep.st))
    | _ => (d, "bad-op")
  | ["rend"] => (d, sOutcome d.run.outcome ++ " ;; " ++ sList sPub d.run.stream)
  | ["rstream"] => (d, sList sPub d.run.stream)
  -- the lifecycle telemetry (StepStateChanged) of the published stream, in order (C35)
  | ["rlife"] => (d, sList sPub (d.run.stream.filter (fun p => match p with | .stepState _ _ _ _ _ => true | _ => false)))
  | ["rticks"] => (d, sList (fun p => sTick p.1) d.run.log)
  | ["rlog"] => (d, sList (fun p => s!"{p.2} {sTick p.1}") d.run.log)
  | _ => (d, "bad-op")

end Drv.Engine
