"""C18 — events and ticks survive serialization unchanged."""
from __future__ import annotations

import importlib
import copy
import json
import math
import sys
import types
import warnings
from typing import Any, Optional

from ..runner import Divergence, Driver, Env, Outcome, Violation, diff_streams

THEOREMS = [
    "C18_source_shape",
    "C18_tick_tables",
    "C18_dump_validate_roundtrip",
    "C18_json_roundtrip",
    "C18_json_container_roundtrip",
    "C18_json_container_guard_needed",
    "C18_envelope_roundtrip",
    "C18_envelope_send_roundtrip",
    "C18_envelope_refuted",
    "C18_envelope_partial",
    "C18_bare_start_roundtrip",
    "C18_bare_guard_needed",
    "C18_exception_roundtrip_any",
    "C18_exception_fallback",
    "C18_exception_refuted",
    "C18_exception_partial",
    "C18_exception_type_kept",
    "C18_exception_field_conforms",
    "C18_tick_roundtrip",
    "C18_tick_norm_spec",
    "C18_tick_roundtrip_exact",
    "C18_public_result_roundtrip",
    "C18_public_result_tick",
    "C18_dump_accessor_raw",
    "C18_dump_accessor_value_refuted",
]
LEAN_TARGETS = ["WfProps.C18"]
EXPLANATION = (
    "Lean model M8 (WfModel/EventSerial.lean): JSON values (floats as opaque tokens), class shapes (module, name, "
    "plain/Event/StopEvent kind, typed fields of a small type language incl. nested models, Optional, lists, dicts, "
    "SerializableException), instances (typed values, _data, _result) and the three paths as coded: the wrap "
    "serializers + __init__ partition behind model_validate, JsonSerializer.serialize_value/deserialize_value with its "
    "recursion and marker keys, EventEnvelope(WithMetadata).from_event/load_event/parse incl. registry-by-name, "
    "qualified-name fallback and the bare start-event form, the exception envelope, and the WorkflowTick / "
    "StepFunctionResult unions interpreted from field tables regenerated from ticks.py/results.py. Theorems for all "
    "payloads and all class shapes: decode(encode e) = e on each path; every tick kind; exception envelope in both "
    "branches; for every `_get_result` override (Accessor: wrap, combine with typed/dynamic fields, aggregate, project, "
    "default, compositions via super()) `.result` after each path = `.result` before, and a serializer writing the "
    "accessor's value instead of the raw payload is refuted. Tie: C18_source_shape / C18_tick_tables pin the regenerated rule summaries and tables; op-by-op "
    "correspondence of the real code against the compiled model on dynamically created classes, generated payloads, "
    "ticks, exceptions and malformed wire data. Search: monitors compare class, typed fields, dynamic fields and "
    "result directly on real objects after each real round trip; for StopEvent classes (45% with a generated "
    "`_get_result` override) the restored raw payload and the restored `.result` are judged against an oracle computed "
    "from the constructor inputs."
)
LEVEL_TEXT = "proof (all JSON payloads, all class shapes, all tick kinds) + correspondence + implementation-side monitors"
ASSUMPTIONS = [
    "json.dumps/json.loads and pydantic's dump/validate of Any-typed JSON data are the identity on JSON values "
    "(string keys, finite floats, no lone surrogates); the model starts from parsed JSON. Tied by correspondence only",
    "pydantic's per-field dump(mode='json')/validate for the type language (int, str, bool, float, Optional, list, "
    "dict[str,T], nested BaseModel, Any, SerializableException) is modelled by `validate` (exact JSON shape -> same "
    "value); lax coercions and constraint errors answer 'lax-or-invalid' and are not generated",
    "floats are opaque tokens (repr of finite floats): NaN/inf are outside the quantifier (typed float fields dump them as null)",
    "dynamic fields and StopEvent results hold JSON values; a pydantic model or Event stored *inside* _data or as a "
    "result is dumped to a plain dict by pydantic and comes back as a dict (outside 'JSON-representable payloads')",
    "`_get_result` overrides are pure, total functions of the instance (raw payload, JSON-typed typed fields, dynamic "
    "fields) with JSON values: the generated shapes are wrap / combine / size / total / first / default and their "
    "compositions through super(); overrides with side effects or reading state outside the event are outside the model",
    "class shapes are those pydantic accepts and that can be instantiated: no field called self/_x, a StopEvent "
    "subclass does not redeclare `result`; typed fields of type SerializableEvent / datetime (StepFailedEvent) are "
    "not in the model's type language: StepFailedEvent is covered by the monitors only",
    "import_module_from_qualified_name is an environment (qualified name -> class); names in persisted data that "
    "resolve to non-class callables are outside the model",
    "llama-index components (`class_name` on the type, `to_dict`/`from_dict`) are outside the model ('component')",
    "EventEnvelope.parse on *stringified* JSON input is not modelled (the driver has no JSON text parser)",
    "AddWaiter.requirements are not serialisable by design: a tick comes back with requirements {} and "
    "has_requirements False (normTick); the property speaks of events and exceptions only",
    "with several simultaneous defects in one wire object pydantic reports collected ValidationErrors after "
    "propagating errors; the model stops at the first; the malformed stream applies one mutation at a time",
]
TRUSTED_EXTRA = [
    "harness/gen/eventserial.py (rule summaries and field tables extracted by ast)",
    "harness/c18_exc.py (exception classes) and the dynamic class factory in harness/props/c18.py",
    "pydantic 2.x as the semantics of model_validate / TypeAdapter / discriminated unions",
]

warnings.filterwarnings("ignore", category=UserWarning)

# --------------------------------------------------------------------------
# token codec (see lean/Driver/EventSerial.lean)


def cps(s: str) -> str:
    return ",".join(str(ord(c)) for c in s)


def tok(j: Any) -> str:
    if j is None:
        return "n"
    if j is True:
        return "t"
    if j is False:
        return "f"
    if isinstance(j, int):
        return f"i{j}"
    if isinstance(j, float):
        return "d" + cps(repr(j))
    if isinstance(j, str):
        return "s" + cps(j)
    if isinstance(j, (list, tuple)):
        return " ".join([f"a{len(j)}"] + [tok(x) for x in j])
    if isinstance(j, dict):
        parts = [f"o{len(j)}"]
        for k, v in j.items():
            parts.append("k" + cps(k))
            parts.append(tok(v))
        return " ".join(parts)
    raise TypeError(f"not JSON: {type(j)}")


class Flt:
    """float token read back from the model (kept as its repr)"""

    def __init__(self, r: str):
        self.r = r


def untok(s: str) -> Any:
    ts = [t for t in s.split(" ") if t]
    pos = [0]

    def chars(body: str) -> str:
        return "".join(chr(int(x)) for x in body.split(",")) if body else ""

    def rec() -> Any:
        t = ts[pos[0]]
        pos[0] += 1
        if t == "n":
            return None
        if t == "t":
            return True
        if t == "f":
            return False
        c, body = t[0], t[1:]
        if c == "i":
            return int(body)
        if c == "d":
            return Flt(chars(body))
        if c == "s":
            return chars(body)
        if c == "a":
            return [rec() for _ in range(int(body))]
        if c == "o":
            d = {}
            for _ in range(int(body)):
                kt = ts[pos[0]]
                pos[0] += 1
                d[chars(kt[1:])] = rec()
            return d
        raise ValueError(t)

    v = rec()
    if pos[0] != len(ts):
        raise ValueError("trailing tokens")
    return v


def canon(j: Any) -> Any:
    """type-exact, key-order-free normal form (floats by repr)"""
    if isinstance(j, Flt):
        return {"$f": j.r}
    if isinstance(j, float):
        return {"$f": repr(j)}
    if isinstance(j, bool) or j is None or isinstance(j, (int, str)):
        return j
    if isinstance(j, (list, tuple)):
        return [canon(x) for x in j]
    if isinstance(j, dict):
        return {k: canon(v) for k, v in j.items()}
    return {"$repr": repr(j)}


def cstr(j: Any) -> str:
    return json.dumps(canon(j), sort_keys=True, ensure_ascii=True)


def model_line(line: str) -> str:
    """canonical form of one driver answer"""
    if line.startswith("ok "):
        try:
            return "ok " + cstr(untok(line[3:]))
        except Exception:
            return "unparsable " + line
    if line == "err validation-lax":
        return "err validation"
    if line in ("err missing", "err lax-or-invalid"):
        return "err invalid"  # both are collected pydantic validation errors; which one is reported first depends on nesting
    if line.startswith("err ") or line in ("ok", "true", "false", "bad-op"):
        return line
    try:
        return cstr(untok(line))
    except Exception:
        return "unparsable " + line


def jeq(a: Any, b: Any) -> bool:
    return cstr(a) == cstr(b)


# --------------------------------------------------------------------------
# real code


def load_impl() -> dict[str, Any]:
    from pydantic import BaseModel, ValidationError
    from workflows import events as E
    from workflows.context.serializers import JsonSerializer
    from workflows.runtime.types import results as R
    from workflows.runtime.types import ticks as T

    from llama_agents.client.protocol import serializable_events as SE

    return {"E": E, "JS": JsonSerializer(), "T": T, "R": R, "SE": SE, "BaseModel": BaseModel,
            "ValidationError": ValidationError}


# --------------------------------------------------------------------------
# type language: trees are lists: ["int"], ["opt", t], ["list", t], ["dict", t], ["model", [[name, t], ...]]


def ty_tokens(t: list) -> str:
    k = t[0]
    if k in ("any", "int", "str", "bool", "flt", "exc"):
        return k
    if k in ("opt", "list", "dict"):
        return f"{k} {ty_tokens(t[1])}"
    if k == "model":
        return " ".join([f"model {len(t[1])}"] + [f"{cps(n)} {ty_tokens(ft)}" for n, ft in t[1]])
    raise ValueError(k)


# --------------------------------------------------------------------------
# result accessors: bodies of `StopEvent._get_result` overrides ("This can be overridden by subclasses to return the
# desired result").  A class spec may carry "getres": {"k": kind, ..., "super": bool}; "super" = the override works on
# `super()._get_result()` instead of `self._result`.  `acc_apply` is the body; the real method feeds it from the real
# object, the oracle (`expected_public`) feeds it from the constructor inputs of the scenario.


def acc_apply(g: dict, raw: Any, typed_get: Any, dyn_get: Any) -> Any:
    k = g["k"]
    if k == "list":
        return [raw]
    if k == "obj":
        return {g["key"]: raw, g["tagkey"]: g["tag"]}
    if k == "field":
        return {g["key"]: raw, g["field"]: typed_get(g["field"])}
    if k == "dyn":
        return {g["key"]: raw, g["dyn"]: dyn_get(g["dyn"])}
    if k == "size":
        return len(raw) if isinstance(raw, (list, dict, str)) else -1
    if k == "total":
        return sum(x for x in raw if type(x) is int) if isinstance(raw, list) else 0
    if k == "first":
        return raw[0] if isinstance(raw, list) and raw else None
    if k == "default":
        return raw if raw is not None else g["d"]
    raise ValueError(k)


def acc_tokens(chain: list[dict]) -> str:
    items = []
    for g in chain:
        k = g["k"]
        if k == "obj":
            items.append(f"obj:{cps(g['key'])}:{cps(g['tagkey'])}:{tok(g['tag'])}")
        elif k == "field":
            items.append(f"field:{cps(g['key'])}:{cps(g['field'])}")
        elif k == "dyn":
            items.append(f"dyn:{cps(g['key'])}:{cps(g['dyn'])}")
        elif k == "default":
            items.append(f"default:{tok(g['d'])}")
        else:
            items.append(k)
    return ";".join(items)


def chain_of(parent_chain: list[dict], g: dict | None) -> list[dict]:
    if not g:
        return list(parent_chain)
    return (list(parent_chain) if g.get("super") else []) + [g]


def expected_public(chain: list[dict], inst: dict) -> Any:
    """what `.result` must report, from the constructor inputs alone"""
    raw = inst.get("result")
    for g in chain:
        raw = acc_apply(g, raw, lambda n: inst["typed"][n], lambda k: inst.get("data", {}).get(k))
    return raw


def json_ty(t: list) -> bool:
    """typed values of this type are JSON values as they stand (python value = dump form)"""
    k = t[0]
    if k in ("model", "exc"):
        return False
    if k in ("opt", "list", "dict"):
        return json_ty(t[1])
    return True


class Diff(str):
    """what differs (used in signatures) + the concrete values"""

    detail = ""


def diff(word: str, detail: str = "") -> Diff:
    d = Diff(word)
    d.detail = detail
    return d


def dtext(d: Any) -> str:
    t = getattr(d, "detail", "")
    return f" ({t})" if t else ""


class Universe:
    """The classes of one scenario, built as real pydantic classes in fresh modules."""

    counter = 0

    def __init__(self, I: dict, specs: list[dict]):
        self.I = I
        self.specs = {s["id"]: s for s in specs}
        self.order = [s["id"] for s in specs]
        self.cls: dict[str, type] = {}
        self.fields: dict[str, list[dict]] = {}  # all fields incl. inherited, declaration order
        self.mods: list[str] = []
        self.nested: dict[str, type] = {}
        self.chain: dict[str, list[dict]] = {}  # effective `_get_result` override chain per class id ([] = base class)
        self.inst_of: dict[int, dict] = {}  # id(real object built by `make`) -> the scenario instance it was built from
        self.keep: list[Any] = []  # keeps those objects alive (ids stay unique)
        Universe.counter += 1
        self.tag = f"c18gen{Universe.counter}"
        for s in specs:
            self._build(s)
        # the library's own classes that the tick builder uses
        E = I["E"]
        for lid, c, fs in (("LEvent", E.Event, []), ("LStart", E.StartEvent, []), ("LStop", E.StopEvent, []),
                           ("LFailed", E.WorkflowFailedEvent, [{"name": "step_name", "ty": ["str"]}, {"name": "exception", "ty": ["exc"]},
                                                               {"name": "attempts", "ty": ["int"]}, {"name": "elapsed_seconds", "ty": ["flt"]}])):
            self.specs[lid] = {"id": lid, "name": c.__name__, "fields": fs}
            self.order.append(lid)
            self.cls[lid] = c
            self.fields[lid] = fs
            self.chain[lid] = []

    # python annotation for a type tree
    def ann(self, t: list) -> Any:
        k = t[0]
        if k == "any":
            return Any
        if k == "int":
            return int
        if k == "str":
            return str
        if k == "bool":
            return bool
        if k == "flt":
            return float
        if k == "exc":
            return self.I["E"].SerializableException
        if k == "opt":
            return Optional[self.ann(t[1])]
        if k == "list":
            return list[self.ann(t[1])]  # type: ignore[misc]
        if k == "dict":
            return dict[str, self.ann(t[1])]  # type: ignore[misc]
        if k == "model":
            key = json.dumps(t)
            if key not in self.nested:
                from pydantic import create_model

                fields = {n: (self.ann(ft), ...) for n, ft in t[1]}
                self.nested[key] = create_model(f"Nested{len(self.nested)}", **fields)  # type: ignore[call-overload]
            return self.nested[key]
        raise ValueError(k)

    def module(self, name: str) -> types.ModuleType:
        full = f"{self.tag}.{name}" if name else self.tag
        if full not in sys.modules:
            m = types.ModuleType(full)
            sys.modules[full] = m
            self.mods.append(full)
        return sys.modules[full]

    def _build(self, s: dict) -> None:
        E = self.I["E"]
        builtin = {"BaseModel": self.I["BaseModel"], "Event": E.Event, "StartEvent": E.StartEvent,
                   "StopEvent": E.StopEvent, "InputRequiredEvent": E.InputRequiredEvent,
                   "HumanResponseEvent": E.HumanResponseEvent}
        base_name = s["base"]
        if base_name in builtin:
            base = builtin[base_name]
            inherited: list[dict] = []
        else:
            base = self.cls[base_name]
            inherited = self.fields[base_name]
        mod = self.module(s["module"])
        ann = {f["name"]: self.ann(f["ty"]) for f in s["fields"]}
        ns: dict[str, Any] = {"__annotations__": ann, "__module__": mod.__name__}
        for f in s["fields"]:
            if "default" in f:
                ns[f["name"]] = self.pyval(f["ty"], f["default"])
        g = s.get("getres")
        if g and issubclass(base, E.StopEvent):
            inner = base._get_result if g.get("super") else None

            def _get_result(self: Any, _g: dict = g, _inner: Any = inner) -> Any:
                raw = _inner(self) if _inner is not None else self._result
                return acc_apply(_g, raw, lambda n: getattr(self, n), self.get)

            ns["_get_result"] = _get_result
        else:
            g = None
        self.chain[s["id"]] = chain_of(self.chain.get(base_name, []), g)
        cls = type(s["name"], (base,), ns)
        if s.get("local"):
            cls.__qualname__ = f"factory.<locals>.{s['name']}"
        else:
            setattr(mod, s["name"], cls)  # a later class of the same name shadows an earlier one
        self.cls[s["id"]] = cls
        self.fields[s["id"]] = inherited + s["fields"]

    def close(self) -> None:
        for m in self.mods:
            sys.modules.pop(m, None)

    # facts computed independently of the code under test
    def kind(self, cid: str) -> str:
        E = self.I["E"]
        c = self.cls[cid]
        return "s" if issubclass(c, E.StopEvent) else "e" if issubclass(c, E.Event) else "p"

    def importable(self, cid: str) -> bool:
        c = self.cls[cid]
        m = sys.modules.get(c.__module__)
        return m is not None and getattr(m, c.__name__, None) is c

    def ancestors(self, cid: str) -> list[str]:
        E = self.I["E"]
        names = []
        for b in self.cls[cid].__mro__[1:]:
            if b is E.Event:
                break
            if isinstance(b, type) and issubclass(b, E.Event):
                names.append(b.__name__)
        return names

    def cid_of(self, c: type) -> str:
        """id of a class; classes of identical shape (module, names, kind, fields) share the first id,
        as the model identifies a class with its shape"""
        for cid in self.order:
            if self.cls[cid] is c:
                sig = self._sig(cid)
                for other in self.order:
                    if self._sig(other) == sig:
                        return other
        return "?" + c.__module__ + "." + c.__name__

    def _sig(self, cid: str) -> str:
        parts = self.cls_line(cid).split("|")
        return "|".join(parts[2:6] + parts[7:])

    def cls_line(self, cid: str) -> str:
        s = self.specs[cid]
        c = self.cls[cid]
        fs = []
        for f in self.fields[cid]:
            d = tok(f["default"]) if "default" in f else "-"
            fs.append(f"{cps(f['name'])}:{ty_tokens(f['ty'])}:{d}")
        return "|".join(["cls", cid, cps(c.__module__), cps(s["name"]), cps(c.__qualname__), self.kind(cid),
                         "1" if self.importable(cid) else "0",
                         ";".join(cps(a) for a in self.ancestors(cid)), ";".join(fs)])

    # typed values: scenario form (JSON dump form; exceptions as {"$exc": spec}) -> python value
    def pyval(self, t: list, v: Any) -> Any:
        k = t[0]
        if k == "exc":
            return make_exc(v["$exc"])
        if k == "opt":
            return None if v is None else self.pyval(t[1], v)
        if k == "list":
            return [self.pyval(t[1], x) for x in v]
        if k == "dict":
            return {kk: self.pyval(t[1], x) for kk, x in v.items()}
        if k == "model":
            return self.ann(t)(**{n: self.pyval(ft, v[n]) for n, ft in t[1]})
        return v

    # python value -> dump form, computed here (not by the code under test)
    def dumpval(self, t: list, v: Any) -> Any:
        k = t[0]
        if k == "exc":
            return exc_envelope(v)
        if k == "opt":
            return None if v is None else self.dumpval(t[1], v)
        if k == "list":
            return [self.dumpval(t[1], x) for x in v]
        if k == "dict":
            return {kk: self.dumpval(t[1], x) for kk, x in v.items()}
        if k == "model":
            return {n: self.dumpval(ft, getattr(v, n)) for n, ft in t[1]}
        return v

    def make(self, inst: dict) -> Any:
        cid = inst["cls"]
        unset = inst.get("unset", {})
        kw = {f["name"]: self.pyval(f["ty"], inst["typed"][f["name"]]) for f in self.fields[cid]
              if f["name"] in inst["typed"] and f["name"] not in unset}
        c = self.cls[cid]
        if self.kind(cid) == "s":
            ev = c(result=inst.get("result"), **kw)
        else:
            ev = c(**kw)
        for f in self.fields[cid]:
            if unset.get(f["name"]) == "inplace":
                box = getattr(ev, f["name"])  # this instance's own copy of the default container
                val = self.pyval(f["ty"], inst["typed"][f["name"]])
                box.clear()
                if isinstance(box, list):
                    box.extend(val)
                else:
                    box.update(val)
        for k, v in inst.get("data", {}).items():
            ev[k] = v
        self.inst_of[id(ev)] = inst
        self.keep.append(ev)
        return ev

    def chain_for(self, c: type) -> list[dict]:
        for cid in self.order:
            if self.cls[cid] is c:
                return self.chain.get(cid, [])
        return []

    def typed_of(self, ev: Any, skip_exc: bool = False) -> dict:
        cid = self.cid_of(type(ev))
        if cid not in self.fields:
            return {"$unknown-class": True}
        return {f["name"]: self.dumpval(f["ty"], getattr(ev, f["name"])) for f in self.fields[cid]
                if not (skip_exc and f["ty"][0] == "exc")}

    def exc_issues(self, a: Any, b: Any) -> list[str]:
        """exception-typed fields of two instances of one class, judged by `check_exc`"""
        cid = self.cid_of(type(a))
        res = []
        for f in self.fields.get(cid, []):
            if f["ty"][0] == "exc":
                c = check_exc(getattr(a, f["name"]), getattr(b, f["name"], None))
                if c:
                    res.append(c)
        return res

    def desc(self, ev: Any) -> dict:
        E = self.I["E"]
        data = ev._data if isinstance(ev, E.Event) else {}
        res = ev._result if isinstance(ev, E.StopEvent) else None
        return {"cls": self.cid_of(type(ev)), "typed": self.typed_of(ev), "data": data, "result": res}

    def inst_fields(self, inst: dict) -> str:
        """`clsid|typed|data|result` for the driver, from the *scenario* (not from the real object)"""
        cid = inst["cls"]
        typed = {}
        for f in self.fields[cid]:
            v = inst["typed"][f["name"]]
            typed[f["name"]] = self.dumpval(f["ty"], self.pyval(f["ty"], v))
        return "|".join([cid, tok(typed), tok(inst.get("data", {})), tok(inst.get("result"))])


# --------------------------------------------------------------------------
# exceptions

EXC_BUILTIN = ["ValueError", "RuntimeError", "KeyError", "TypeError", "OSError", "ZeroDivisionError", "Exception",
               "TimeoutError", "LookupError", "AssertionError", "StopIteration"]


def make_exc(spec: dict) -> Exception:
    """spec: {"k": kind, "args": [...]} -> a real exception instance"""
    from .. import c18_exc as X

    k, a = spec["k"], spec.get("args", [])
    if k.startswith("builtins."):
        import builtins

        return getattr(builtins, k.split(".", 1)[1])(*a)
    if k == "oserror2":
        return OSError(a[0], a[1])
    if k == "unicode":
        return UnicodeDecodeError("utf-8", b"\xff", 0, 1, a[0])
    if k == "jsondecode":
        return json.JSONDecodeError(a[0], "doc", 0)
    if k == "keywordonly":
        return X.KeywordOnly(a[0], status=a[1])
    if k == "noargs":
        return X.NoArgs()
    if k == "inner":
        return X.Outer.Inner(*a)
    if k == "local":
        return X.make_local(a[0])(*a[1:])
    return getattr(X, k)(*a)


def exc_qual(c: type) -> str:
    return f"{c.__module__}.{c.__qualname__}"


def exc_envelope(exc: BaseException) -> dict:
    return {"exception_type": exc_qual(type(exc)), "exception_message": str(exc)}


def exc_facts(exc: BaseException) -> dict:
    """guards of the property, evaluated on the class itself (never through the code under test)"""
    c = type(exc)
    q = exc_qual(c)
    msg = str(exc)
    importable = False
    if "." in q:
        mn, an = q.rsplit(".", 1)
        try:
            importable = getattr(importlib.import_module(mn), an, None) is c
        except Exception:
            importable = False
    ctor_ok, s1 = False, None
    try:
        s1 = str(c(msg))
        ctor_ok = True
    except Exception:
        pass
    return {"qual": q, "msg": msg, "importable": importable, "ctor_ok": ctor_ok, "str1": s1,
            "faithful": ctor_ok and s1 == msg}


def exc_xcls_line(xid: str, exc: BaseException) -> tuple[str, bool]:
    """`xcls` line for the model; second component False when str(cls(msg)) is not pre+msg+post"""
    f = exc_facts(exc)
    pre = post = ""
    ok = True
    if f["ctor_ok"] and not f["faithful"]:
        i = f["str1"].find(f["msg"]) if f["msg"] else -1
        if i < 0:
            ok = False
        else:
            pre, post = f["str1"][:i], f["str1"][i + len(f["msg"]):]
    line = "|".join(["xcls", xid, cps(f["qual"]), "1" if f["importable"] else "0", "1" if f["ctor_ok"] else "0",
                     cps(pre), cps(post)])
    return line, ok


# --------------------------------------------------------------------------
# generators (all randomness from the rng handed in)

STRS = ["", "a", "x y", "naïve", "日本語", "🚀", "line sep", "q\"uote", "back\\slash", "tab\there", "nul\x00", "0", "true",
        "null", "_data", "result", "{}", "é" * 3, "\u0085", "'k'", "a.b", "퟿", "\U0010ffff"]
KEYS = ["a", "b", "k", "n", "x", "value", "type", "qualified_name", "data", "_data", "result", "_result", "self",
        "class_name", "__is_pydantic", "__is_component", "types", "", "ключ", "with space", "model_fields", "to_dict",
        "exception_type", "step_name", "0", "Z"]
FIELD_NAMES = ["x", "y", "n", "msg", "value", "type", "qualified_name", "data", "class_name", "types", "step_name",
               "score", "tags", "inner", "cfg", "flag", "ratio", "note", "payload", "k"]
FLOATS = [0.0, -0.0, 1.0, 1.5, -2.25, 1e-9, 1e300, 3.141592653589793, 0.1, 123456789.125, 5e-324]


def gen_int(rng) -> int:
    r = rng.random()
    if r < 0.5:
        return rng.choice([0, 1, -1, 2, 7, 42, 255, -128])
    if r < 0.85:
        return rng.randint(-10**6, 10**6)
    return rng.choice([2**31, -2**31 - 1, 2**63, 2**64 + 1, -2**70, 10**30])


def gen_str(rng) -> str:
    r = rng.random()
    if r < 0.6:
        return rng.choice(STRS)
    n = rng.randint(0, 8)
    return "".join(chr(rng.choice([rng.randint(32, 126), rng.randint(0xA0, 0x2FF), rng.randint(0x4E00, 0x4E80),
                                   rng.randint(0x1F600, 0x1F640), rng.choice([0, 9, 10, 13, 0x2028, 0x7F])])) for _ in range(n))


def gen_json(rng, depth: int = 3) -> Any:
    r = rng.random()
    if depth <= 0 or r < 0.55:
        k = rng.randrange(6)
        if k == 0:
            return None
        if k == 1:
            return rng.random() < 0.5
        if k == 2:
            return gen_int(rng)
        if k == 3:
            return rng.choice(FLOATS) if rng.random() < 0.7 else rng.uniform(-1e6, 1e6)
        return gen_str(rng)
    if r < 0.75:
        return [gen_json(rng, depth - 1) for _ in range(rng.randint(0, 4))]
    d = {}
    for _ in range(rng.randint(0, 4)):
        d[rng.choice(KEYS) if rng.random() < 0.8 else gen_str(rng)] = gen_json(rng, depth - 1)
    if rng.random() < 0.08:  # a payload that looks like a wrapper
        d["__is_pydantic"] = rng.choice([True, 1, "yes"])
        d["qualified_name"] = rng.choice(["nope.path", "a.b", "workflows.events.Event"])
        d["value"] = gen_json(rng, 1)
    return d


def gen_ty(rng, depth: int = 2) -> list:
    r = rng.random()
    if depth <= 0 or r < 0.6:
        return [rng.choice(["int", "str", "bool", "flt", "any", "int", "str"])]
    if r < 0.72:
        return ["opt", gen_ty(rng, depth - 1)]
    if r < 0.82:
        return ["list", gen_ty(rng, depth - 1)]
    if r < 0.9:
        return ["dict", gen_ty(rng, depth - 1)]
    names = rng.sample(["a", "b", "c", "value", "type", "_x"[1:], "data"], rng.randint(1, 3))
    return ["model", [[n, gen_ty(rng, depth - 1)] for n in names]]


def gen_val(rng, t: list, exc_pool: list[dict] | None = None) -> Any:
    """a valid value of the type, in dump form"""
    k = t[0]
    if k == "any":
        return gen_json(rng, 2)
    if k == "int":
        return gen_int(rng)
    if k == "str":
        return gen_str(rng)
    if k == "bool":
        return rng.random() < 0.5
    if k == "flt":
        return rng.choice(FLOATS)
    if k == "exc":
        return {"$exc": rng.choice(exc_pool or STABLE_EXC)}
    if k == "opt":
        return None if rng.random() < 0.35 else gen_val(rng, t[1], exc_pool)
    if k == "list":
        return [gen_val(rng, t[1], exc_pool) for _ in range(rng.randint(0, 3))]
    if k == "dict":
        return {rng.choice(KEYS): gen_val(rng, t[1], exc_pool) for _ in range(rng.randint(0, 3))}
    if k == "model":
        return {n: gen_val(rng, ft, exc_pool) for n, ft in t[1]}
    raise ValueError(k)


def simple_default(rng, t: list) -> Any:
    k = t[0]
    if k == "opt":
        return None
    if k == "list":
        return []
    if k == "dict":
        return {}
    if k == "model" or k == "exc":
        raise ValueError
    return gen_val(rng, t)


STABLE_EXC = [{"k": "builtins.ValueError", "args": ["bad value"]}, {"k": "builtins.RuntimeError", "args": ["boom"]},
              {"k": "Plain", "args": ["plain message"]}, {"k": "Derived", "args": [""]},
              {"k": "FromValueError", "args": ["naïve 🚀"]}, {"k": "builtins.Exception", "args": ["x"]}]


def gen_exc(rng) -> dict:
    r = rng.random()
    m = gen_str(rng)
    if r < 0.25:
        return {"k": "builtins." + rng.choice(EXC_BUILTIN), "args": [m]}
    if r < 0.40:
        return {"k": rng.choice(["Plain", "Derived", "FromValueError"]), "args": [m]}
    if r < 0.48:
        return {"k": "Bracketed", "args": [m]}
    if r < 0.56:
        return {"k": "TwoArgs", "args": [rng.randint(0, 999), m]}
    if r < 0.62:
        return {"k": "KeywordOnly", "args": [m, rng.randint(400, 599)]} if False else {"k": "keywordonly", "args": [m, rng.randint(400, 599)]}
    if r < 0.67:
        return {"k": "CtorLooksUp", "args": ["known"]}
    if r < 0.72:
        return {"k": "CtorRejects", "args": ["ok:" + m]}
    if r < 0.76:
        return {"k": "noargs", "args": []}
    if r < 0.81:
        return {"k": "inner", "args": [m]}
    if r < 0.88:
        return {"k": "local", "args": [rng.choice(["LocalBoom", "Plain", "ValueError"]), m]}
    if r < 0.92:
        return {"k": "oserror2", "args": [rng.choice([2, 13, 110]), m]}
    if r < 0.95:
        return {"k": "unicode", "args": ["reason " + m.replace("\x00", "")]}
    if r < 0.98:
        return {"k": "jsondecode", "args": ["Expecting value " + m]}
    return {"k": "builtins.ValueError", "args": [m, rng.randint(0, 9)]}  # two args: str() is the tuple repr


BASES = ["Event", "Event", "StartEvent", "StopEvent", "StopEvent", "InputRequiredEvent", "HumanResponseEvent"]


def class_meta(specs: list[dict]) -> dict[str, dict]:
    """per class id: all fields (inherited first), whether it is a StopEvent / a plain model / a start event, and the
    effective chain of `_get_result` overrides"""
    meta: dict[str, dict] = {}
    for sp in specs:
        b = sp["base"]
        if b in meta:
            m = meta[b]
            meta[sp["id"]] = {"fields": m["fields"] + sp["fields"], "stop": m["stop"], "plain": m["plain"], "start": m["start"],
                              "chain": chain_of(m["chain"], sp.get("getres") if m["stop"] else None)}
        else:
            meta[sp["id"]] = {"fields": list(sp["fields"]), "stop": b == "StopEvent", "plain": b == "BaseModel",
                              "start": b == "StartEvent", "chain": chain_of([], sp.get("getres") if b == "StopEvent" else None)}
    return meta


RESULT_KEYS = ["payload", "value", "raw", "result", "data", "source", "n", "_data", ""]


def gen_getres(rng, fields: list[dict]) -> dict:
    """an override of `_get_result` that is not the identity on the raw payload: wrapping, combining with a typed or a
    dynamic field, aggregating, projecting, defaulting; on top of `self._result` or of `super()._get_result()`"""
    jf = [f["name"] for f in fields if json_ty(f["ty"])]
    k = rng.choice(["list", "obj", "obj", "field", "field", "dyn", "size", "total", "first", "default"])
    if k == "field" and not jf:
        k = "obj"
    g: dict[str, Any] = {"k": k}
    if k == "obj":
        g.update(key=rng.choice(RESULT_KEYS), tagkey=rng.choice(["source", "kind", "v", "payload"]), tag=gen_json(rng, 1))
    elif k == "field":
        g.update(key=rng.choice(RESULT_KEYS), field=rng.choice(jf))
    elif k == "dyn":
        g.update(key=rng.choice(RESULT_KEYS), dyn=rng.choice(KEYS))
    elif k == "default":
        g["d"] = rng.choice(["n/a", 0, [], {"empty": True}])
    if rng.random() < 0.3:
        g["super"] = True
    return g


def gen_classes(rng) -> list[dict]:
    """1..4 class specs; later ones may subclass earlier ones, share a name, be local or plain"""
    n = rng.choice([1, 1, 2, 2, 3, 4])
    specs: list[dict] = []
    for i in range(n):
        cid = f"C{i}"
        meta = class_meta(specs)
        base = rng.choice(BASES)
        if specs and rng.random() < 0.3:
            base = rng.choice([sp["id"] for sp in specs])
        elif rng.random() < 0.06:
            base = "BaseModel"
        inherited = meta[base] if base in meta else {"fields": [], "stop": base == "StopEvent", "plain": base == "BaseModel",
                                                      "chain": []}
        taken = {f["name"] for f in inherited["fields"]}
        names = [x for x in FIELD_NAMES if x not in taken]
        if not inherited["stop"] and "result" not in taken and rng.random() < 0.15:
            names.append("result")
        fields = []
        for fname in rng.sample(names, rng.choice([0, 0, 1, 1, 2, 3, 4])):
            t = gen_ty(rng) if rng.random() < 0.92 or inherited["plain"] else ["exc"]
            f: dict[str, Any] = {"name": fname, "ty": t}
            if rng.random() < 0.3:
                try:
                    f["default"] = simple_default(rng, t)
                except ValueError:
                    pass
            fields.append(f)
        name = rng.choice(["Ev", "MyEvent", "Done", "Ask", "Reply", "Start", "Item"]) if rng.random() < 0.7 else f"Cls{i}"
        spec = {"id": cid, "base": base, "name": name, "module": rng.choice(["a", "a", "b", "pkg.sub"]), "fields": fields}
        if rng.random() < 0.08:
            spec["local"] = True
        if inherited["stop"] and rng.random() < (0.3 if inherited["chain"] else 0.45):
            spec["getres"] = gen_getres(rng, inherited["fields"] + fields)
        specs.append(spec)
    return specs


def gen_inst(rng, cid: str, m: dict) -> dict:
    typed = {f["name"]: gen_val(rng, f["ty"]) for f in m["fields"]}
    # fields with a default may be left UNSET at construction: they then hold the default, or -- containers -- are
    # filled IN PLACE afterwards (ev.tags.append(..)): still a typed field of the event that must survive a round trip
    unset: dict[str, str] = {}
    for f in m["fields"]:
        if "default" in f and rng.random() < 0.4:
            if f["ty"][0] in ("list", "dict") and rng.random() < 0.75:
                unset[f["name"]] = "inplace"
            else:
                unset[f["name"]] = "default"
                typed[f["name"]] = copy.deepcopy(f["default"])
    data: dict[str, Any] = {}
    if not m["plain"] and rng.random() < 0.75:
        for _ in range(rng.randint(1, 4)):
            r = rng.random()
            if r < 0.7:
                k = rng.choice(KEYS)
            elif r < 0.85 and m["fields"]:
                k = rng.choice(m["fields"])["name"]
            else:
                k = gen_str(rng)
            data[k] = gen_json(rng, 2)
    inst: dict[str, Any] = {"cls": cid, "typed": typed, "data": data}
    if unset:
        inst["unset"] = unset
    if m["stop"]:
        inst["result"] = None if rng.random() < 0.3 else gen_json(rng, 3)
        if m.get("chain") and rng.random() < 0.6:  # payloads the aggregating / projecting accessors do something with
            inst["result"] = [gen_int(rng) if rng.random() < 0.7 else gen_json(rng, 1) for _ in range(rng.randint(1, 4))]
    return inst


def gen_scenario(rng) -> dict:
    specs = gen_classes(rng)
    meta = class_meta(specs)
    insts = []
    for sp in specs:
        for _ in range(rng.choice([1, 1, 2])):
            insts.append(gen_inst(rng, sp["id"], meta[sp["id"]]))
    ids = [sp["id"] for sp in specs]
    return {
        "kind": "scenario",
        "classes": specs,
        "instances": insts,
        "exceptions": [gen_exc(rng) for _ in range(rng.randint(1, 3))],
        # registry handed to load_event / parse: a subset in some order (collisions by __name__ possible)
        "registry": rng.sample(ids, rng.randint(0, len(ids))),
        "include_qn": rng.random() < 0.8,
        "scalars": {"step": gen_str(rng), "worker": rng.randint(0, 9), "attempts": rng.choice([None, 0, 1, 3]),
                    "t": rng.choice(FLOATS), "req": {} if rng.random() < 0.6 else {"k": gen_json(rng, 1)},
                    "recovery": {rng.choice(KEYS): rng.randint(0, 5) for _ in range(rng.randint(0, 2))}},
        "mut": rng.randrange(1 << 30),
    }


# --------------------------------------------------------------------------
# running the real code; classification of its failures in the model's vocabulary


def classify(I: dict, e: BaseException) -> str:
    VE = I["ValidationError"]
    SE = I["SE"]
    if isinstance(e, SE.EventValidationError):
        return "not-object" if "Must be a json object" in str(e) else "validation"
    if isinstance(e, VE):
        errs = e.errors()
        if not errs:
            return "validation-errors:0"
        er = errs[0]  # the model validates fields in declaration order and stops at the first problem
        t = er["type"]
        inner = (er.get("ctx") or {}).get("error")
        if t == "value_error" and isinstance(inner, BaseException):
            return classify(I, inner)
        if t in ("union_tag_not_found", "union_tag_invalid"):
            return "bad-tag"
        if t == "missing":
            return "missing"
        if t in ("model_type", "dict_type", "model_attributes_type"):
            return "not-dict" if not er["loc"] else "lax-or-invalid"
        return "lax-or-invalid"
    s = str(e)
    if isinstance(e, TypeError):
        if "multiple values for keyword argument" in s or "multiple values for argument" in s:
            return "dup-kwarg"
        if "is not iterable" in s:
            return "bad-qual-name"
        if "not subscriptable" in s or "indices must be integers" in s:
            return "exc-not-subscriptable"
        return "type-error"
    if isinstance(e, ImportError):
        return "import-error"
    if isinstance(e, AttributeError):
        if "from_dict" in s:
            return "component"
        if "'update'" in s:
            return "data-not-dict"
        if "not found in module" in s:
            return "import-error"
        return "attribute-error"
    if isinstance(e, ValueError) and "Qualified name must be" in s:
        return "import-error"
    if isinstance(e, KeyError):
        k = e.args[0] if e.args else None
        if k == "value":
            return "key-error"
        if k == "exception_message":
            return "exc-key-error"
        return "key-error:other"
    return "raised-" + type(e).__name__


TAGS = {"step_result", "add_event", "cancel_run", "publish_event", "timeout", "waiter_timeout", "idle_check", "idle_release",
        "result", "failed", "add_collected", "delete_collected", "add_waiter", "delete_waiter"}


def desc_py(U: Universe, v: Any) -> Any:
    BM = U.I["BaseModel"]
    if isinstance(v, BM):
        return {"$model": U.desc(v)}
    if isinstance(v, dict):
        return {"$dict": {k: desc_py(U, x) for k, x in v.items()}}
    if isinstance(v, list):
        return [desc_py(U, x) for x in v]
    return v


def ok_inst(U: Universe, ev: Any) -> str:
    E = U.I["E"]
    if isinstance(ev, E.Event) and not isinstance(ev._data, dict):
        return "err data-not-dict"
    return "ok " + cstr(U.desc(ev))


def pub_answer(f: Any) -> str:
    """`.result` of a real object in the driver's answer form"""
    try:
        return "ok " + cstr(f())
    except Exception as e:  # noqa: BLE001
        return "err raised-" + type(e).__name__


def real(I: dict, f: Any) -> Any:
    """('ok', value) or ('err', kind)"""
    try:
        return ("ok", f())
    except Exception as e:  # noqa: BLE001 - every failure of the code under test is classified
        k = classify(I, e)
        return ("err", "invalid" if k in ("missing", "lax-or-invalid") else k)


# slot kinds of the tick / result classes, written down here independently of the generator
SLOTS = {
    "TickStepResult": [("step_name", "j"), ("worker_id", "j"), ("event", "ev"), ("result", "rs")],
    "TickAddEvent": [("event", "ev"), ("step_name", "j"), ("attempts", "j"), ("first_attempt_at", "j"),
                     ("last_exception", "optexc"), ("last_failed_at", "j"), ("recovery_counts", "j")],
    "TickCancelRun": [], "TickIdleRelease": [], "TickIdleCheck": [],
    "TickPublishEvent": [("event", "ev")],
    "TickTimeout": [("timeout", "j")],
    "TickWaiterTimeout": [("step_name", "j"), ("waiter_id", "j")],
    "StepWorkerResult": [("result", "optev")],
    "StepWorkerFailed": [("exception", "exc"), ("failed_at", "j")],
    "AddCollectedEvent": [("event_id", "j"), ("event", "ev")],
    "DeleteCollectedEvent": [("event_id", "j")],
    "AddWaiter": [("waiter_id", "j"), ("waiter_event", "optev"), ("requirements", "j"), ("timeout", "j"),
                  ("event_type", "ty"), ("has_requirements", "j")],
    "DeleteWaiter": [("waiter_id", "j")],
}


class NotModel(Exception):
    pass


def desc_tick(U: Universe, t: Any, xids: dict[int, str] | None) -> dict:
    """description of a real tick / result object; exceptions by registered id (encode input) when
    `xids` is given, else by qualified name (decode output)"""
    BM = U.I["BaseModel"]
    cname = type(t).__name__.split("[")[0]
    vals = []
    for name, kind in SLOTS[cname]:
        v = getattr(t, name)
        if kind == "j":
            vals.append({"j": v})
        elif kind in ("ev", "optev"):
            if v is None and kind == "optev":
                vals.append({"none": None})
            elif isinstance(v, BM):
                vals.append({"ev": U.desc(v)})
            else:
                raise NotModel()
        elif kind in ("exc", "optexc"):
            if v is None and kind == "optexc":
                vals.append({"none": None})
            elif xids is not None:
                vals.append({"exc": {"cls": xids[id(v)], "msg": str(v)}})
            else:
                vals.append({"exc": {"cls": exc_qual(type(v)), "msg": str(v)}})
        elif kind == "ty":
            vals.append({"ty": U.cid_of(v)})
        elif kind == "rs":
            vals.append({"rs": [desc_tick(U, r, xids) for r in v]})
    return {"tag": t.type, "vals": vals}


# --------------------------------------------------------------------------
# one scenario: correspondence ops with the real code's answers, and the monitors


class Trace:
    def __init__(self) -> None:
        self.lines: list[str] = []
        self.impl: list[str] = []
        self.violations: list[Violation] = []
        self.counts: dict[str, int] = {}

    def op(self, line: str, answer: str) -> None:
        self.lines.append(line)
        self.impl.append(answer)
        self.count("op:" + line.split("|", 1)[0])

    def count(self, k: str, n: int = 1) -> None:
        self.counts[k] = self.counts.get(k, 0) + n


def jrt(x: Any) -> Any:
    return json.loads(json.dumps(x))


def registry_arg(U: Universe, ids: list[str]) -> tuple[dict, str]:
    d: dict[str, type] = {}
    by: dict[str, str] = {}
    for cid in ids:
        c = U.cls[cid]
        d[c.__name__] = c
        by[c.__name__] = cid
    return d, ";".join(f"{cps(n)}={cid}" for n, cid in by.items())


def same_event(U: Universe, a: Any, b: Any) -> str | None:
    """the property on two real objects: None, or what differs"""
    E = U.I["E"]
    if type(a) is not type(b):
        return "class"
    if not jeq(U.typed_of(a, skip_exc=True), U.typed_of(b, skip_exc=True)):
        return "typed_fields"
    if isinstance(a, E.Event):
        if not isinstance(b._data, dict) or not jeq(a._data, b._data):
            return "dynamic_fields"
    if isinstance(a, E.StopEvent):
        return result_issue(U, a, b)
    return None


def short(v: Any, n: int = 160) -> str:
    r = repr(v)
    return r if len(r) <= n else r[: n - 3] + "..."


def result_issue(U: Universe, a: Any, b: Any) -> Diff | None:
    """"an equal result": the raw payload the restored event holds and what its `.result` reports, both against an oracle
    computed from the constructor inputs of the scenario (never from state the code under test wrote)"""
    inst = U.inst_of.get(id(a))
    chain = U.chain_for(type(a))
    if inst is not None:
        raw_exp, pub_exp = inst.get("result"), expected_public(chain, inst)
    else:  # an event the harness built directly from a library class (base accessor)
        raw_exp = pub_exp = a._result
    parts = []
    raw_back = getattr(b, "_result", None)
    if not jeq(raw_back, raw_exp):
        parts.append("payload")
    try:
        pub_back = b.result
        if not jeq(pub_back, pub_exp):
            parts.append("accessor_value")
        seen = short(pub_back)
    except Exception as e:  # noqa: BLE001 - an override applied to something it was not written for
        parts.append("accessor_raised:" + type(e).__name__)
        seen = f"raised {type(e).__name__}: {str(e)[:80]}"
    if not parts:
        return None
    detail = (f"constructed with result={short(raw_exp)}; restored event holds _result={short(raw_back)} and .result "
              f"reports {seen}, expected {short(pub_exp)}")
    if not chain:
        return diff("result" if parts == ["payload", "accessor_value"] or parts == ["payload"] else
                    "result:base_get_result[" + "+".join(parts) + "]", detail)
    kinds = "+".join(g["k"] + (":super" if g.get("super") else "") for g in chain)
    return diff("result:overridden_get_result[" + "+".join(parts) + "]", detail + f"; _get_result override: {kinds}")


def kind_word(U: Universe, ev: Any) -> str:
    E = U.I["E"]
    return "stop" if isinstance(ev, E.StopEvent) else "event" if isinstance(ev, E.Event) else "plain"


def check_exc(orig: BaseException, back: Any) -> str | None:
    """None, or a signature suffix.  Guards are evaluated on the exception class itself."""
    f = exc_facts(orig)
    if not isinstance(back, BaseException):
        return "not_an_exception"
    if f["importable"] and f["ctor_ok"]:
        if type(back) is not type(orig):
            return "type_lost"
        if str(back) != f["msg"]:
            return "message_changed:faithful_class" if f["faithful"] else "message_changed:str_is_not_the_argument"
        return None
    # fallback branch: plain Exception carrying the message
    if type(back) is not Exception:
        return "fallback_type"
    if str(back) != f["msg"]:
        return "fallback_message"
    return None


def run_scenario(I: dict, sc: dict, tr: Trace) -> None:
    import random

    E, JS, T, R, SE = I["E"], I["JS"], I["T"], I["R"], I["SE"]
    U = Universe(I, sc["classes"])
    try:
        _run_scenario(I, sc, tr, U, random.Random(sc.get("mut", 0)))
    finally:
        U.close()


def _run_scenario(I: dict, sc: dict, tr: Trace, U: Universe, mrng: Any) -> None:
    E, JS, T, R, SE = I["E"], I["JS"], I["T"], I["R"], I["SE"]
    tr.op("reset", "ok")
    for cid in U.order:
        tr.op(U.cls_line(cid), "ok")
        tr.count("class-kind:" + {"p": "plain", "e": "event", "s": "stop"}[U.kind(cid)])
        tr.count("class-importable:" + str(U.importable(cid)))
        tr.count("class-fields:" + str(min(len(U.fields[cid]), 5)))
    for i, xs in enumerate(STABLE_EXC):  # the classes exception-typed fields draw from
        tr.op(exc_xcls_line(f"XS{i}", make_exc(xs))[0], "ok")
    tr.op("xcls|XB|" + cps("builtins.Exception") + "|1|1||", "ok")
    reg_ids = sc.get("registry", [])
    reg_list = [U.cls[c] for c in reg_ids]
    reg_dict, reg_arg = registry_arg(U, reg_ids)
    qn = bool(sc.get("include_qn", True))
    events: list[Any] = []
    viol = tr.violations

    def V(rule: str, what: str, **extra: Any) -> None:
        viol.append(Violation(f"C18/{rule}", what, {"kind": "scenario", **{k: v for k, v in sc.items() if k != "kind"}, "focus": extra}))

    for idx, inst in enumerate(sc["instances"]):
        try:
            ev = U.make(inst)
        except Exception as e:  # the generator made something pydantic refuses: not a case
            tr.count("instance-rejected:" + type(e).__name__)
            continue
        kw = kind_word(U, ev)
        cid = inst["cls"]
        imp = U.importable(cid)
        tr.count("instance:" + kw)
        tr.count("dynamic-fields:" + ("yes" if inst.get("data") else "no"))
        if kw == "stop":
            tr.count("result:" + ("none" if inst.get("result") is None else type(inst["result"]).__name__))
        fields = U.inst_fields(inst)
        tr.op("wf|" + fields, "true")
        tr.op("dump|" + fields, cstr(ev.model_dump(mode="json")))
        # ---- path 1
        wire1 = JS.serialize(ev)
        tr.op("ser1|" + fields, cstr(json.loads(wire1)))
        r1 = real(I, lambda: JS.deserialize(wire1))
        tr.op("rt1|" + fields, "ok " + cstr(desc_py(U, r1[1])) if r1[0] == "ok" else "err " + r1[1])
        if imp:
            if r1[0] == "err":
                V(f"json_roundtrip/raised:{r1[1]}/{kw}", f"JsonSerializer round trip of a {kw} instance raised {r1[1]}", instance=idx)
            else:
                d = same_event(U, ev, r1[1]) if isinstance(r1[1], I["BaseModel"]) else "class"
                if d:
                    V(f"json_roundtrip/{d}/{kw}", f"JsonSerializer round trip changed {d} of a {kw} instance{dtext(d)}", instance=idx)
                else:
                    for c in U.exc_issues(ev, r1[1]):
                        V(f"exception/{c}", f"exception in a typed field after the JSON round trip: {c}", instance=idx)
        if kw == "plain":
            continue
        events.append(ev)
        chain = U.chain[cid]
        if kw == "stop":
            # ---- `.result` as callers read it (class may override `_get_result`): straight from the constructor and
            # after each path, against the model's accessor on the model's own round trip
            tr.count("get_result:" + ("base" if not chain else "+".join(g["k"] for g in chain)))
            acc = acc_tokens(chain)
            pub0 = pub_answer(lambda: ev.result)
            tr.op(f"pub|{acc}|{fields}", pub0[3:] if pub0.startswith("ok ") else pub0)
            exp = expected_public(chain, inst)
            if pub0 != "ok " + cstr(exp):
                V("stop_result_accessor/constructed_instance",
                  f"a stop event straight from its constructor reports .result {pub0}, expected {short(exp)}", instance=idx)
            if imp:
                tr.op(f"pubrt1|{acc}|{fields}", pub_answer(lambda: r1[1].result) if r1[0] == "ok" else "err " + r1[1])
                r5 = real(I, lambda: T.WorkflowTickAdapter.validate_python(jrt(T.WorkflowTickAdapter.dump_python(
                    T.TickPublishEvent(event=ev), mode="json"))))
                tr.op(f"pubrt3|{acc}|{fields}", pub_answer(lambda: [r5[1].event.result]) if r5[0] == "ok" else "err " + r5[1])
        # ---- path 2: server -> client
        meta = SE.EventEnvelopeWithMetadata.from_event(ev, include_qualified_name=qn)
        wire2 = meta.model_dump_json()
        tr.op(f"meta2|{fields}|{1 if qn else 0}", cstr(json.loads(wire2)))
        r2 = real(I, lambda: SE.EventEnvelopeWithMetadata.model_validate_json(wire2).load_event(list(reg_list)))
        tr.op(f"load2|{tok(json.loads(wire2))}|{','.join(reg_ids)}", ok_inst(U, r2[1]) if r2[0] == "ok" else "err " + r2[1])
        name = type(ev).__name__
        resolves = reg_dict.get(name) is type(ev) or (name not in reg_dict and qn and imp)
        tr.count("envelope-resolves:" + ("registry" if reg_dict.get(name) is type(ev) else "qualified-name" if resolves else
                                         "other-class-of-same-name" if name in reg_dict else "nothing"))
        if resolves and kw == "stop":
            tr.op(f"pubrt2|{acc}|{fields}|{1 if qn else 0}|{','.join(reg_ids)}",
                  pub_answer(lambda: r2[1].result) if r2[0] == "ok" else "err " + r2[1])
        if resolves:
            if r2[0] == "err":
                V(f"envelope_roundtrip/raised:{r2[1]}/{kw}", f"load_event raised {r2[1]} although the class resolves", instance=idx)
            else:
                d = same_event(U, ev, r2[1])
                if d:
                    V(f"envelope_roundtrip/{d}/{kw}", f"EventEnvelopeWithMetadata round trip changed {d} of a {kw} instance{dtext(d)}", instance=idx)
        # ---- path 2: client -> server
        env = jrt(SE.EventEnvelope.from_event(ev).model_dump())
        tr.op("env2|" + fields, cstr(env))
        r3 = real(I, lambda: SE.EventEnvelope.parse(jrt(env), dict(reg_dict)))
        tr.op(f"parse2|{tok(env)}|{reg_arg}|-", ok_inst(U, r3[1]) if r3[0] == "ok" else "err " + r3[1])
        if reg_dict.get(name) is type(ev):
            if r3[0] == "err":
                V(f"envelope_send/raised:{r3[1]}/{kw}", f"EventEnvelope.parse raised {r3[1]} for a registered class", instance=idx)
            else:
                d = same_event(U, ev, r3[1])
                if d:
                    V(f"envelope_send/{d}/{kw}", f"EventEnvelope round trip changed {d} of a {kw} instance{dtext(d)}", instance=idx)
        # ---- bare form
        bare = jrt(ev.model_dump(mode="json"))
        r4 = real(I, lambda: SE.EventEnvelope.parse(jrt(bare), dict(reg_dict), explicit_event=type(ev)))
        tr.op(f"parse2|{tok(bare)}|{reg_arg}|{cid}", ok_inst(U, r4[1]) if r4[0] == "ok" else "err " + r4[1])
        fnames = {f["name"] for f in U.fields[cid]}
        bare_ok = "value" not in fnames and not ({"qualified_name", "type"} <= fnames) and reg_dict.get(name, type(ev)) is type(ev)
        tr.count("bare-recognisable:" + str(bare_ok))
        if bare_ok:
            if r4[0] == "err":
                V(f"bare_start/raised:{r4[1]}/{kw}", f"parse(explicit_event=cls) raised {r4[1]} on a bare dump", instance=idx)
            else:
                d = same_event(U, ev, r4[1])
                if d:
                    V(f"bare_start/{d}/{kw}", f"bare dump round trip changed {d} of a {kw} instance{dtext(d)}", instance=idx)
        # ---- malformed wire data derived from this instance (one mutation each)
        if r1[0] == "ok":  # exactly one defect per malformed object
            malformed_event(I, U, tr, mrng, ev, cid, json.loads(wire1), json.loads(wire2), env, reg_ids, reg_dict, reg_arg)

    # ---- exceptions
    excs: list[BaseException] = []
    xids: dict[int, str] = {}
    in_k: dict[int, bool] = {}
    for i, xs in enumerate(sc.get("exceptions", [])):
        exc = make_exc(xs)
        excs.append(exc)
        xid = f"X{i}"
        xids[id(exc)] = xid
        line, ok = exc_xcls_line(xid, exc)
        in_k[id(exc)] = ok
        f = exc_facts(exc)
        tr.count("exception:" + ("stable" if f["importable"] and f["faithful"] else "str-differs" if f["importable"] and f["ctor_ok"]
                                 else "not-constructible" if f["importable"] else "not-importable"))
        if ok:
            tr.op(line, "ok")
            wire = jrt(E._serialize_exception(exc))
            tr.op(f"xenc|{xid}|{cps(str(exc))}", cstr(wire))
            rx = real(I, lambda: E._deserialize_exception(jrt(wire)))
            tr.op("xdec|" + tok(wire), ("ok " + cstr({"cls": exc_qual(type(rx[1])), "msg": str(rx[1])})) if rx[0] == "ok" else "err " + rx[1])
            malformed_exc(I, tr, mrng, wire)
    # ---- path 3: ticks
    s = sc.get("scalars", {})
    ticks = build_ticks(I, U, events, excs, s)
    for t in ticks:
        tr.count("tick:" + t.type)
        wire_r = real(I, lambda: jrt(T.WorkflowTickAdapter.dump_python(t, mode="json")))
        k_ok = all(in_k.get(id(x), True) for x in tick_excs(t))
        if wire_r[0] == "err":
            V(f"tick_dump/raised:{wire_r[1]}/{t.type}", f"dump_python of a {t.type} tick raised {wire_r[1]}", tick=t.type)
            continue
        wire = wire_r[1]
        if k_ok:
            tr.op("tenc|" + tok(desc_tick(U, t, xids)), "ok " + cstr(wire))
        back = real(I, lambda: T.WorkflowTickAdapter.validate_python(jrt(wire)))
        if k_ok:
            if back[0] == "ok":
                try:
                    ans = "ok " + cstr(desc_tick(U, back[1], None))
                except NotModel:
                    ans = "err not-model"
            else:
                ans = "err " + back[1]
            tr.op("tdec|" + tok(wire), ans)
            if back[0] == "ok":  # exactly one defect per malformed object
                malformed_tick(I, U, tr, mrng, wire)
        monitor_tick(U, t, back, V)


def tick_excs(t: Any) -> list[BaseException]:
    res = []
    if getattr(t, "last_exception", None) is not None:
        res.append(t.last_exception)
    for r in getattr(t, "result", []) or []:
        if hasattr(r, "exception"):
            res.append(r.exception)
    ev = getattr(t, "event", None)
    if ev is not None and isinstance(getattr(ev, "exception", None), BaseException):
        res.append(ev.exception)
    return res


def build_ticks(I: dict, U: Universe, events: list[Any], excs: list[BaseException], s: dict) -> list[Any]:
    E, T, R = I["E"], I["T"], I["R"]
    ticks: list[Any] = [T.TickCancelRun(), T.TickIdleRelease(), T.TickIdleCheck(), T.TickTimeout(timeout=float(s.get("t", 1.0))),
                        T.TickWaiterTimeout(step_name=s.get("step", "s"), waiter_id="w-" + s.get("step", ""))]
    if not events:
        events = [E.StopEvent(result=s.get("req") or None)]
    e0, e1 = events[0], events[-1]
    t = float(s.get("t", 1.0))
    ticks.append(T.TickAddEvent(event=e0))
    ticks.append(T.TickAddEvent(event=e1, step_name=s.get("step"), attempts=s.get("attempts"), first_attempt_at=t,
                                last_exception=excs[0] if excs else None, last_failed_at=t if excs else None,
                                recovery_counts=s.get("recovery", {})))
    ticks.append(T.TickPublishEvent(event=e1))
    results: list[Any] = [R.StepWorkerResult(result=e1), R.StepWorkerResult(result=None)]
    for x in excs:
        results.append(R.StepWorkerFailed(exception=x, failed_at=t))
    results += [R.AddCollectedEvent(event_id="id", event=e0), R.DeleteCollectedEvent(event_id="id"),
                R.AddWaiter(waiter_id="w", waiter_event=e0 if len(events) % 2 else None, requirements=s.get("req", {}),
                            timeout=t if len(events) % 3 else None, event_type=type(e1)),
                R.DeleteWaiter(waiter_id="w")]
    ticks.append(T.TickStepResult(step_name=s.get("step", "s"), worker_id=s.get("worker", 0), event=e0, result=results))
    # stop events whose class overrides `_get_result`: published and as a step's return value
    over = [e for e in events if isinstance(e, E.StopEvent) and U.chain_for(type(e))][:2]
    for e in over:
        if e is not e1:
            ticks.append(T.TickPublishEvent(event=e))
        ticks.append(T.TickStepResult(step_name=s.get("step", "s"), worker_id=s.get("worker", 0), event=e0,
                                      result=[R.StepWorkerResult(result=e)]))
    # the library's own failure events
    for x in excs[:1]:
        ticks.append(T.TickPublishEvent(event=E.WorkflowFailedEvent(step_name="s", exception=x, attempts=2, elapsed_seconds=t)))
    return ticks


def monitor_tick(U: Universe, t: Any, back: Any, V: Any) -> None:
    """the property on a real tick and its real round trip"""
    E, BM = U.I["E"], U.I["BaseModel"]
    tag = t.type

    def importable_ev(ev: Any) -> bool:
        c = type(ev)
        m = sys.modules.get(c.__module__)
        return m is not None and getattr(m, c.__name__, None) is c

    evs = [getattr(t, "event", None)] + [getattr(r, n, None) for r in getattr(t, "result", []) or [] for n in ("result", "event", "waiter_event")]
    evs = [e for e in evs if isinstance(e, BM)]
    all_importable = all(importable_ev(e) for e in evs) and all(
        importable_ev_type(r.event_type) for r in getattr(t, "result", []) or [] if hasattr(r, "event_type"))
    if back[0] == "err":
        if all_importable:
            V(f"tick_roundtrip/raised:{back[1]}/{tag}", f"validate_python of a dumped {tag} tick raised {back[1]}", tick=tag)
        return
    b = back[1]
    if type(b) is not type(t):
        V(f"tick_roundtrip/tick_class/{tag}", f"a {tag} tick came back as {type(b).__name__}", tick=tag)
        return

    def cmp_obj(x: Any, y: Any, where: str) -> None:
        for name, kind in SLOTS[type(x).__name__.split("[")[0]]:
            vx, vy = getattr(x, name), getattr(y, name)
            if kind == "j":
                if name in ("requirements", "has_requirements"):
                    continue  # not serialisable by design
                if not jeq(vx, vy):
                    V(f"tick_roundtrip/scalar:{name}/{tag}", f"{where}.{name} changed", tick=tag)
            elif kind in ("ev", "optev"):
                if vx is None or vy is None:
                    if vx is not vy:
                        V(f"tick_roundtrip/event_presence/{tag}", f"{where}.{name} presence changed", tick=tag)
                elif not importable_ev(vx):
                    pass  # outside the guard: the class cannot be re-imported under its qualified name
                elif not isinstance(vy, BM):
                    V(f"tick_roundtrip/class/{tag}", f"{where}.{name} is not a model after the round trip", tick=tag)
                else:
                    d = same_event(U, vx, vy)
                    if d:
                        V(f"tick_roundtrip/{d}/{kind_word(U, vx)}", f"{where}.{name}: {d} changed in a {tag} tick{dtext(d)}", tick=tag)
                    if not d:
                        for c in U.exc_issues(vx, vy):
                            V(f"exception/{c}", f"{where}.{name}: exception in a typed field of {type(vx).__name__}: {c}", tick=tag)
            elif kind in ("exc", "optexc"):
                if vx is None or vy is None:
                    if vx is not vy:
                        V(f"tick_roundtrip/exception_presence/{tag}", f"{where}.{name} presence changed", tick=tag)
                else:
                    c = check_exc(vx, vy)
                    if c:
                        V(f"exception/{c}", f"{where}.{name} {exc_qual(type(vx))}: {c} ({str(vx)!r} -> {type(vy).__name__} {str(vy)!r})", tick=tag)
            elif kind == "ty":
                if vx is not vy and importable_ev_type(vx):
                    V(f"tick_roundtrip/event_type/{tag}", f"{where}.{name} changed class", tick=tag)
            elif kind == "rs":
                if len(vx) != len(vy):
                    V(f"tick_roundtrip/result_count/{tag}", "number of step results changed", tick=tag)
                else:
                    for i, (rx, ry) in enumerate(zip(vx, vy)):
                        if type(rx) is not type(ry):
                            V(f"tick_roundtrip/result_class/{tag}", f"result[{i}] came back as {type(ry).__name__}", tick=tag)
                        else:
                            cmp_obj(rx, ry, f"result[{i}]")

    cmp_obj(t, b, tag)


def importable_ev_type(c: type) -> bool:
    m = sys.modules.get(c.__module__)
    return m is not None and getattr(m, c.__qualname__.split(".")[0], None) is c


# --------------------------------------------------------------------------
# malformed wire data (one mutation at a time; never a lax-coercible type mismatch)


def wrong_for(t: list) -> Any:
    """a JSON value pydantic certainly rejects for the type (None = no such value)"""
    k = t[0]
    if k == "any":
        return None
    if k in ("int", "bool", "flt"):
        return []
    if k == "str":
        return []
    if k == "opt":
        return wrong_for(t[1])
    if k in ("list",):
        return 7
    if k in ("dict", "model"):
        return 7
    return None  # exc: the validator raises other things


def malformed_event(I: dict, U: Universe, tr: Trace, rng: Any, ev: Any, cid: str, wrapper: dict, meta: dict, env: dict,
                    reg_ids: list[str], reg_dict: dict, reg_arg: str) -> None:
    JS, SE = I["JS"], I["SE"]
    fields = U.fields[cid]

    def de1(w: Any) -> None:
        r = real(I, lambda: JS.deserialize_value(jrt(w)))
        tr.op("de1|" + tok(w), "ok " + cstr(desc_py(U, r[1])) if r[0] == "ok" else "err " + r[1])

    def mv(v: Any) -> None:
        r = real(I, lambda: U.cls[cid].model_validate(jrt(v)))
        tr.op(f"mv|{cid}|{tok(v)}", ok_inst(U, r[1]) if r[0] == "ok" else "err " + r[1])

    m = rng.randrange(14)
    w = json.loads(json.dumps(wrapper))
    tr.count("malformed:event:" + str(m))
    if m == 0:
        del w["value"]
        de1(w)
    elif m == 1:
        del w["qualified_name"]
        de1(w)
    elif m == 2:
        w["__is_pydantic"] = rng.choice([False, 0, "", None, [], {}])
        de1(w)
    elif m == 3:
        w["qualified_name"] = rng.choice(["nope.Missing", "nodot", U.cls[cid].__module__ + ".Absent", ""])
        de1(w)
    elif m == 4:
        w["qualified_name"] = rng.choice([5, True, [1], {"a": 1}])
        de1(w)
    elif m == 5:
        w["value"] = rng.choice([None, 3, "x", []])
        de1(w)
    elif m == 6:
        req = [f for f in fields if "default" not in f and f["name"] in w["value"]]
        if req:
            del w["value"][rng.choice(req)["name"]]
        de1(w)
    elif m == 7:
        v = dict(w["value"])
        v[rng.choice(["_result", "self", "extra", "_data"])] = rng.choice([1, {"k": 1}, None, "s"])
        mv(v)
    elif m == 8:
        cands = [f for f in fields if wrong_for(f["ty"]) is not None and f["name"] in w["value"]]
        v = dict(w["value"])
        if cands:
            f = rng.choice(cands)
            v[f["name"]] = wrong_for(f["ty"])
        mv(v)
    elif m == 9:
        w["__is_component"] = True
        w["__is_pydantic"] = False
        de1(w)
    elif m == 10:
        de1([w, {"plain": w, "n": [1, {"__is_pydantic": 0, "qualified_name": "x.y"}]}])
    elif m == 11:
        e2 = dict(meta)
        k = rng.choice(["types", "type", "value", "qualified_name", "retype", "noqn", "badvalue"])
        if k == "retype":
            e2["type"] = "NoSuchEvent"
        elif k == "noqn":
            e2["qualified_name"] = None
            e2["type"] = "NoSuchEvent"
        elif k == "badvalue":
            e2["value"] = [1]
        else:
            del e2[k]
        r = real(I, lambda: SE.EventEnvelopeWithMetadata.model_validate(jrt(e2)).load_event([U.cls[c] for c in reg_ids]))
        if r[0] == "err" and r[1] in ("invalid", "not-dict"):
            r = ("err", "envelope-invalid")
        tr.op(f"load2|{tok(e2)}|{','.join(reg_ids)}", ok_inst(U, r[1]) if r[0] == "ok" else "err " + r[1])
    else:
        e3: Any = dict(env)
        k = rng.choice(["legacy-data", "no-value", "type-int", "type-empty", "qn-unknown", "qn-plain", "extra", "not-object",
                        "qn-real"])
        if k == "legacy-data":
            e3["data"] = e3.pop("value")
        elif k == "no-value":
            del e3["value"]
        elif k == "type-int":
            e3["type"] = 5
        elif k == "type-empty":
            e3["type"] = ""
        elif k == "qn-unknown":
            e3["type"] = None
            e3["qualified_name"] = "nope.Missing"
        elif k == "qn-plain":
            plain = [c for c in U.order if U.kind(c) == "p" and U.importable(c)]
            e3["type"] = None
            e3["qualified_name"] = (U.cls[plain[0]].__module__ + "." + U.cls[plain[0]].__name__) if plain else ""
        elif k == "qn-real":
            e3["type"] = "NoSuchEvent"
            e3["qualified_name"] = U.cls[cid].__module__ + "." + U.cls[cid].__name__
        elif k == "extra":
            e3["zzz"] = 1
        else:
            e3 = rng.choice([5, [1], None])
        r = real(I, lambda: SE.EventEnvelope.parse(jrt(e3), dict(reg_dict)))
        tr.op(f"parse2|{tok(e3)}|{reg_arg}|-", ok_inst(U, r[1]) if r[0] == "ok" else "err " + r[1])


def malformed_exc(I: dict, tr: Trace, rng: Any, wire: dict) -> None:
    E = I["E"]
    w: Any = dict(wire)
    k = rng.choice(["no-msg", "no-type", "unknown-type", "msg-int", "not-dict", "type-int", "type-empty"])
    tr.count("malformed:exc:" + k)
    if k == "no-msg":
        del w["exception_message"]
    elif k == "no-type":
        del w["exception_type"]
    elif k == "unknown-type":
        w["exception_type"] = rng.choice(["nope.Missing", "builtins.NoSuchError", "nodot"])
    elif k == "msg-int":
        w["exception_message"] = 5
    elif k == "type-int":
        w["exception_type"] = 5
    elif k == "type-empty":
        w["exception_type"] = None
    else:
        w = rng.choice([5, None, [1]])
    r = real(I, lambda: E._deserialize_exception(jrt(w)))
    if r[0] == "ok":
        x = r[1]
        if isinstance(x, BaseException) and x.args and not isinstance(x.args[0], str):
            ans = "err exc-msg-not-str"
        else:
            ans = "ok " + cstr({"cls": exc_qual(type(x)), "msg": str(x)})
    else:
        ans = "err " + r[1]
    tr.op("xdec|" + tok(w), ans)


def malformed_tick(I: dict, U: Universe, tr: Trace, rng: Any, wire: dict) -> None:
    T = I["T"]
    w: Any = json.loads(json.dumps(wire))
    k = rng.choice(["no-tag", "bad-tag", "drop", "event-int", "event-unknown", "not-dict", "extra", "tag-int", "sub-bad-tag"])
    tr.count("malformed:tick:" + k)
    if k == "no-tag":
        del w["type"]
    elif k == "bad-tag":
        w["type"] = "nope"
    elif k == "tag-int":
        w["type"] = 5
    elif k == "drop":
        req = {"step_result": ["step_name", "worker_id", "event", "result"], "add_event": ["event"], "publish_event": ["event"],
               "timeout": ["timeout"], "waiter_timeout": ["step_name", "waiter_id"]}.get(w["type"], [])
        if req:
            del w[rng.choice(req)]
    elif k == "event-int":
        if "event" in w:
            w["event"] = 5
    elif k == "event-unknown":
        if "event" in w:
            w["event"]["qualified_name"] = "nope.Missing"
    elif k == "extra":
        w["zzz"] = [1]
    elif k == "sub-bad-tag":
        if w.get("result"):
            w["result"][0]["type"] = "nope"
    else:
        w = rng.choice([5, [1], None, "s"])
    back = real(I, lambda: T.WorkflowTickAdapter.validate_python(jrt(w)))
    if back[0] == "ok":
        try:
            ans = "ok " + cstr(desc_tick(U, back[1], None))
        except NotModel:
            ans = "err not-model"
    else:
        ans = "err " + back[1]
    tr.op("tdec|" + tok(w), ans)


# --------------------------------------------------------------------------
# corpus (runs first on every run) and library events


def _corpus_file(name: str) -> dict:
    import os

    with open(os.path.join(os.path.dirname(os.path.dirname(os.path.abspath(__file__))), "corpus", name)) as f:
        return json.load(f)["payload"]["case"]


OVERRIDDEN_GET_RESULT = _corpus_file("c18_overridden_get_result.json")


def corpus() -> list[dict]:
    def sc(classes: list[dict], instances: list[dict], exceptions: list[dict] | None = None, registry: list[str] | None = None,
           include_qn: bool = True, req: dict | None = None) -> dict:
        return {"kind": "scenario", "classes": classes, "instances": instances, "exceptions": exceptions or [],
                "registry": registry if registry is not None else [c["id"] for c in classes], "include_qn": include_qn,
                "scalars": {"step": "step", "worker": 1, "attempts": 2, "t": 1.5, "req": req or {}, "recovery": {"h": 1}}, "mut": 7}

    ev = {"id": "C0", "base": "Event", "name": "Ev", "module": "a", "fields": []}
    stop = {"id": "C0", "base": "StopEvent", "name": "Done", "module": "a", "fields": []}
    return [
        # F15: dynamic fields of a StopEvent / a StopEvent subclass
        sc([stop], [{"cls": "C0", "typed": {}, "data": {"foo": 2}, "result": 5}]),
        sc([{"id": "C0", "base": "StopEvent", "name": "Scored", "module": "a", "fields": [{"name": "score", "ty": ["int"]}]}],
           [{"cls": "C0", "typed": {"score": 1}, "data": {"result": "dyn", "_data": 1, "score": None}, "result": {"a": [1]}},
            {"cls": "C0", "typed": {"score": 0}, "data": {}, "result": None}]),
        # dynamic / typed field called class_name
        sc([ev, {"id": "C1", "base": "Event", "name": "Named", "module": "a", "fields": [{"name": "class_name", "ty": ["str"]}]}],
           [{"cls": "C0", "typed": {}, "data": {"class_name": "foo"}}, {"cls": "C1", "typed": {"class_name": "x"}, "data": {}}]),
        # payload that looks like a wrapper; keys that collide with everything
        sc([ev], [{"cls": "C0", "typed": {}, "data": {"p": {"__is_pydantic": True, "qualified_name": "nope.path", "value": 1},
                                                       "_data": {"_data": 1}, "self": 1, "_result": 2, "result": 3, "": None}}]),
        # nested models, Optional, defaults, start / input events
        sc([{"id": "C0", "base": "StartEvent", "name": "Go", "module": "pkg.sub",
             "fields": [{"name": "inner", "ty": ["model", [["a", ["int"]], ["b", ["list", ["str"]]]]]},
                        {"name": "opt", "ty": ["opt", ["model", [["a", ["flt"]]]]], "default": None},
                        {"name": "value", "ty": ["int"], "default": 0}]},
            {"id": "C1", "base": "InputRequiredEvent", "name": "Ask", "module": "a", "fields": [{"name": "type", "ty": ["str"]},
                                                                                                  {"name": "qualified_name", "ty": ["any"]}]}],
           [{"cls": "C0", "typed": {"inner": {"a": 1, "b": ["x"]}, "opt": {"a": 0.5}, "value": 3}, "data": {"dyn": [1, {"z": None}]}},
            {"cls": "C1", "typed": {"type": "t", "qualified_name": {"k": 1}}, "data": {"prefix": "name? "}}]),
        # same __name__ in two modules, a local class, a plain model, subclass chain
        sc([{"id": "C0", "base": "Event", "name": "Ev", "module": "a", "fields": [{"name": "x", "ty": ["int"]}]},
            {"id": "C1", "base": "Event", "name": "Ev", "module": "b", "fields": [{"name": "x", "ty": ["int"]}, {"name": "y", "ty": ["str"], "default": ""}]},
            {"id": "C2", "base": "C0", "name": "Sub", "module": "a", "fields": [{"name": "z", "ty": ["bool"]}]},
            {"id": "C3", "base": "StopEvent", "name": "Loc", "module": "a", "fields": [], "local": True},
            {"id": "C4", "base": "BaseModel", "name": "Plain", "module": "a", "fields": [{"name": "n", "ty": ["int"]}]}],
           [{"cls": "C0", "typed": {"x": 1}, "data": {"d": 1}}, {"cls": "C1", "typed": {"x": 2, "y": "s"}, "data": {}},
            {"cls": "C2", "typed": {"x": 3, "z": True}, "data": {"k": [1.5]}}, {"cls": "C3", "typed": {}, "data": {"k": 1}, "result": 1},
            {"cls": "C4", "typed": {"n": 1}, "data": {}}], registry=["C0", "C1", "C2"]),
        # exceptions of every kind, requirements on the waiter
        sc([ev], [{"cls": "C0", "typed": {}, "data": {"a": 1}}],
           exceptions=[{"k": "builtins.ValueError", "args": ["bad"]}, {"k": "Plain", "args": ["oops"]}, {"k": "local", "args": ["LocalBoom", "boom"]},
                       {"k": "TwoArgs", "args": [7, "detail"]}, {"k": "jsondecode", "args": ["Expecting value"]}, {"k": "unicode", "args": ["r"]},
                       {"k": "keywordonly", "args": ["m", 500]}, {"k": "CtorLooksUp", "args": ["known"]}, {"k": "CtorRejects", "args": ["ok:1"]},
                       {"k": "inner", "args": ["nested"]}, {"k": "oserror2", "args": [2, "nope"]}, {"k": "Bracketed", "args": ["m"]},
                       {"k": "noargs", "args": []}], req={"k": 1}),
        # an exception in a typed field
        sc([{"id": "C0", "base": "Event", "name": "Failed", "module": "a", "fields": [{"name": "exception", "ty": ["exc"]}, {"name": "n", "ty": ["int"]}]}],
           [{"cls": "C0", "typed": {"exception": {"$exc": {"k": "Plain", "args": ["typed"]}}, "n": 1}, "data": {"why": "x"}}]),
        # StopEvent subclasses overriding `_get_result` (wrap with a typed field, sum, list around super(), default)
        OVERRIDDEN_GET_RESULT,
    ]


KEYERROR_WITNESS = {"kind": "exception_witness", "exc": {"k": "builtins.KeyError", "args": ["k"]}}
SIG_KEYERROR = "C18/exception/message_changed:str_is_not_the_argument"


def run_exception_witness(I: dict, case: dict, tr: Trace) -> None:
    """known finding: an importable, constructible class whose str() is not its argument"""
    T, R, E = I["T"], I["R"], I["E"]
    exc = make_exc(case["exc"])
    t = T.TickStepResult(step_name="s", worker_id=0, event=E.StartEvent(),
                         result=[R.StepWorkerFailed(exception=exc, failed_at=1.0)])
    back = real(I, lambda: T.WorkflowTickAdapter.validate_python(jrt(T.WorkflowTickAdapter.dump_python(t, mode="json"))))
    if back[0] == "err":
        tr.violations.append(Violation(f"C18/tick_roundtrip/raised:{back[1]}/step_result", "witness tick unreadable", case))
        return
    c = check_exc(exc, back[1].result[0].exception)
    if c:
        tr.violations.append(Violation(f"C18/exception/{c}",
                                       f"{exc_qual(type(exc))}: message {str(exc)!r} came back as {str(back[1].result[0].exception)!r}", case))


def run_step_failed(I: dict, tr: Trace, rng: Any) -> None:
    """StepFailedEvent (typed SerializableEvent + datetime: outside the model) through paths 1 and 3, monitors only"""
    from datetime import datetime, timezone

    E, JS, T = I["E"], I["JS"], I["T"]
    inner = E.Event(a=gen_json(rng, 2), b=gen_str(rng))
    exc = make_exc(rng.choice(STABLE_EXC))
    ev = E.StepFailedEvent(step_name=gen_str(rng), input_event=inner, exception=exc, attempts=rng.randint(1, 5),
                           elapsed_seconds=rng.choice(FLOATS), failed_at=datetime(2026, 1, 2, 3, 4, 5, rng.randrange(10**6), tzinfo=timezone.utc))
    ev["extra"] = gen_json(rng, 2)
    case = {"kind": "step_failed"}
    for path, f in (("json", lambda: JS.deserialize(JS.serialize(ev))),
                    ("tick", lambda: T.WorkflowTickAdapter.validate_python(jrt(T.WorkflowTickAdapter.dump_python(
                        T.TickAddEvent(event=ev), mode="json"))).event)):
        r = real(I, f)
        tr.count("step-failed-event:" + path)
        if r[0] == "err":
            tr.violations.append(Violation(f"C18/step_failed/{path}/raised:{r[1]}", "StepFailedEvent round trip raised", case))
            continue
        b = r[1]
        bad = None
        if type(b) is not E.StepFailedEvent:
            bad = "class"
        elif (b.step_name, b.attempts, repr(b.elapsed_seconds), b.failed_at) != (ev.step_name, ev.attempts, repr(ev.elapsed_seconds), ev.failed_at):
            bad = "typed_fields"
        elif type(b.input_event) is not E.Event or not jeq(b.input_event._data, inner._data):
            bad = "input_event"
        elif not jeq(b._data, ev._data):
            bad = "dynamic_fields"
        elif check_exc(exc, b.exception):
            bad = "exception:" + str(check_exc(exc, b.exception))
        if bad:
            tr.violations.append(Violation(f"C18/step_failed/{path}/{bad}", f"StepFailedEvent: {bad} changed", case))


MALFORMED_LINES = ["", "dump", "dump|C0", "cls|C9|x|y|y|e|1||", "de1|zz", "de1|a2 n", "tdec|o1 kx", "xdec|", "parse2|n|bad|-",
                   "load2|n|C99", "bogus|1", "mv|C99|n", "xenc|X99|1", "tenc|n", "wf|C0|n|n|n", "de1|o1 k1 n n"]


def run(env: Env) -> Outcome:
    import random

    out = Outcome()
    out.rule = ("scenarios = 1..4 dynamically created classes (Event/StartEvent/StopEvent/InputRequiredEvent/"
                "HumanResponseEvent subclasses, chains, plain models, same __name__ in several modules, function-local) "
                "with typed fields of the type language, 1-2 instances each with generated JSON payloads as typed values, "
                "dynamic fields (keys incl. _data/result/_result/self/class_name/marker keys) and results; 1-3 exceptions "
                "(builtin, importable custom, local, nested, multi-arg, keyword-only, raising constructors, custom __str__); "
                "StopEvent classes with a generated _get_result override (wrap / typed or dynamic field / size / total / "
                "first / default, on self._result or on super()._get_result()); "
                "a registry subset; every instance goes through the three real paths and all eight tick kinds; one mutation "
                "of each wire form. non-trivial = an instance that reached the real serializers; distinct by scenario content")
    try:
        I = load_impl()
    except Exception as e:  # the anchored modules do not even import: nothing can be serialised
        out.violations.append(Violation(f"C18/anchor_import_failed:{type(e).__name__}",
                                        f"importing the event / tick / envelope modules raised {type(e).__name__}: {str(e)[:300]}",
                                        {"kind": "import"}))
        return out
    tr = Trace()
    cases: list[dict] = []
    if env.replay is not None:
        rc = env.replay["payload"].get("case")
        if isinstance(rc, dict) and rc.get("kind") in ("scenario", "exception_witness", "step_failed"):
            cases.append(rc)
    cases += corpus()
    cases.append(KEYERROR_WITNESS)
    rng = env.rng
    n = env.budget(120, 10000)
    for _ in range(n):
        cases.append(gen_scenario(rng))
    owner: list[int] = []
    for ci, case in enumerate(cases):
        before = len(tr.lines)
        if case["kind"] == "scenario":
            sc = {k: v for k, v in case.items() if k != "focus"}
            run_scenario(I, sc, tr)
            out.nontrivial(json.dumps(sc, sort_keys=True, default=repr))
            out.evaluations += max(1, len(sc["instances"]))
            if len(out.samples) < 4 and sc["instances"]:
                out.sample({"classes": [{k: c[k] for k in ("base", "name", "module")} for c in sc["classes"]],
                            "first_instance": sc["instances"][0], "exceptions": sc["exceptions"]})
        elif case["kind"] == "exception_witness":
            run_exception_witness(I, case, tr)
            out.evaluations += 1
        elif case["kind"] == "step_failed":
            run_step_failed(I, tr, random.Random(0))
            out.evaluations += 1
        owner += [ci] * (len(tr.lines) - before)
    sub = random.Random(rng.randrange(1 << 30))
    for _ in range(env.budget(10, 200)):
        run_step_failed(I, tr, sub)
        out.evaluations += 1
    for line in MALFORMED_LINES:
        tr.op(line, "bad-op")
        owner.append(-1)
    for k, v in tr.counts.items():
        out.count(k, v)
    out.violations += tr.violations
    try:
        raw = Driver("eventserial").run(tr.lines)
    except Exception as e:
        out.divergences.append(Divergence("eventserial", 0, "<driver>", repr(e), ""))
        return out
    model_out = [model_line(x) for x in raw]
    # `lax-or-invalid` is the model saying "pydantic's lax mode decides, not modelled": the real code may
    # reject the value or coerce it (an int read into a float field of a same-named class, ...)
    for i, r in enumerate(raw[: len(tr.impl)]):
        if r in ("err lax-or-invalid", "err validation-lax") and tr.impl[i].startswith("ok "):
            out.count("lax-coercion-accepted")
            model_out[i] = tr.impl[i]
    out.traces_validated = len(tr.lines)
    out.disagreements_checked = len(tr.lines)
    d = diff_streams("eventserial", tr.lines, model_out, tr.impl)
    if d is not None:
        d.context = cases[owner[d.index]] if d.index < len(owner) and owner[d.index] >= 0 else None
        out.divergences.append(d)
    return out
