import WfProofs.StateStoreSeq
/-! Lemmas for C19: snapshot isolation, and characteristic facts of the nested-dict
specification (set-then-get, merge, clear). -/
namespace StateStore

/-- operations that address the store (everything but the caller's own snapshot handling) -/
def storeOp : Op → Bool
  | .mutSnap .. => false
  | .writeBack => false
  | _ => true

def snapOps (muts : List (String × Json)) : List Op := muts.map fun kv => Op.mutSnap kv.1 kv.2

/-! ### memory -/

theorem mem_mutSnap_store (m : Mem) (k : String) (v : Json) :
    (Mem.step m (.mutSnap k v)).1.root = m.root ∧ (Mem.step m (.mutSnap k v)).1.sc = m.sc := ⟨rfl, rfl⟩

theorem mem_snapOps_store (muts : List (String × Json)) : ∀ m : Mem,
    (runState Mem.step m (snapOps muts)).root = m.root ∧ (runState Mem.step m (snapOps muts)).sc = m.sc := by
  induction muts with
  | nil => intro m; exact ⟨rfl, rfl⟩
  | cons kv r ih =>
    intro m
    simp only [snapOps, List.map_cons, runState]
    have := ih (Mem.step m (.mutSnap kv.1 kv.2)).1
    simp only [snapOps] at this
    rw [this.1, this.2]
    exact ⟨rfl, rfl⟩

theorem mem_storeOp_indep {m m' : Mem} (hsc : m.sc = m'.sc) (hr : m.root = m'.root) (op : Op)
    (hop : storeOp op = true) :
    (Mem.step m op).2 = (Mem.step m' op).2 ∧ (Mem.step m op).1.sc = (Mem.step m' op).1.sc ∧
    (Mem.step m op).1.root = (Mem.step m' op).1.root := by
  cases op with
  | get p d => simp [Mem.step, hr, hsc]
  | set p v =>
    simp only [Mem.step, hr]
    cases setByPath m'.root p v <;> simp [hsc, hr]
  | getState => simp [Mem.step, hr, hsc]
  | setState i d =>
    simp only [Mem.step, Mem.setState, hr]
    cases mergeState m'.root ⟨incTy m'.root.ty i, d⟩ <;> simp [hsc, hr]
  | clear =>
    simp only [Mem.step, Mem.setState, hr, hsc]
    cases mergeState m'.root (defaultRoot m'.sc m'.root.ty) <;> simp [hsc, hr]
  | edit muts =>
    simp only [Mem.step, hr]
    cases h : runMuts m'.root muts with
    | mk r e => cases e <;> simp [hsc]
  | mutSnap k v => cases hop
  | writeBack => cases hop

theorem mem_storeOps_indep (ops : List Op) : ∀ {m m' : Mem}, m.sc = m'.sc → m.root = m'.root →
    (∀ op ∈ ops, storeOp op = true) →
    runOuts Mem.step m ops = runOuts Mem.step m' ops ∧
    (runState Mem.step m ops).root = (runState Mem.step m' ops).root := by
  induction ops with
  | nil => intro m m' _ hr _; exact ⟨rfl, hr⟩
  | cons op ops ih =>
    intro m m' hsc hr hall
    have ⟨ho, hsc', hr'⟩ := mem_storeOp_indep hsc hr op (hall op (List.mem_cons_self))
    have ⟨i1, i2⟩ := ih hsc' hr' (fun o ho' => hall o (List.mem_cons_of_mem _ ho'))
    exact ⟨by simp only [runOuts]; rw [ho, i1], by simpa only [runState] using i2⟩

/-! ### SQLite -/

theorem sql_snapOps_store (muts : List (String × Json)) : ∀ q : Sql,
    (runState Sql.step q (snapOps muts)).row = q.row ∧ (runState Sql.step q (snapOps muts)).sc = q.sc ∧
    (runState Sql.step q (snapOps muts)).ty = q.ty := by
  induction muts with
  | nil => intro q; exact ⟨rfl, rfl, rfl⟩
  | cons kv r ih =>
    intro q
    simp only [snapOps, List.map_cons, runState]
    have := ih (Sql.step q (.mutSnap kv.1 kv.2)).1
    simp only [snapOps] at this
    rw [this.1, this.2.1, this.2.2]
    exact ⟨rfl, rfl, rfl⟩

theorem sql_load_indep {q q' : Sql} (hsc : q.sc = q'.sc) (hty : q.ty = q'.ty) (hr : q.row = q'.row) :
    q.load.2 = q'.load.2 ∧ q.load.1.sc = q'.load.1.sc ∧ q.load.1.ty = q'.load.1.ty ∧ q.load.1.row = q'.load.1.row := by
  cases q with
  | mk sc ty row held =>
    cases q' with
    | mk sc' ty' row' held' =>
      simp only [] at hsc hty hr
      subst hsc hty hr
      cases row <;> simp [Sql.load]

theorem sql_setState_indep {q q' : Sql} (hsc : q.sc = q'.sc) (hty : q.ty = q'.ty) (hr : q.row = q'.row) (inc : Root) :
    (q.setState inc).2 = (q'.setState inc).2 ∧ (q.setState inc).1.sc = (q'.setState inc).1.sc ∧
    (q.setState inc).1.ty = (q'.setState inc).1.ty ∧ (q.setState inc).1.row = (q'.setState inc).1.row := by
  have habs : q.abs = q'.abs := by simp [Sql.abs, hsc, hty, hr]
  simp only [Sql.setState, habs]
  cases mergeState q'.abs inc <;> simp [Sql.save, hsc, hty, hr]

theorem sql_edit_indep {q q' : Sql} (hsc : q.sc = q'.sc) (hty : q.ty = q'.ty) (hr : q.row = q'.row)
    (body : Root → Root × Option Err) :
    (q.edit body).2 = (q'.edit body).2 ∧ (q.edit body).1.sc = (q'.edit body).1.sc ∧
    (q.edit body).1.ty = (q'.edit body).1.ty ∧ (q.edit body).1.row = (q'.edit body).1.row := by
  obtain ⟨h2, h1sc, h1ty, h1row⟩ := sql_load_indep hsc hty hr
  simp only [Sql.edit, h2]
  cases hb : body q'.load.2 with
  | mk r e => cases e <;> simp [Sql.save, h1sc, h1ty, h1row]

theorem sql_storeOp_indep {q q' : Sql} (hsc : q.sc = q'.sc) (hty : q.ty = q'.ty) (hr : q.row = q'.row) (op : Op)
    (hop : storeOp op = true) :
    (Sql.step q op).2 = (Sql.step q' op).2 ∧ (Sql.step q op).1.sc = (Sql.step q' op).1.sc ∧
    (Sql.step q op).1.ty = (Sql.step q' op).1.ty ∧ (Sql.step q op).1.row = (Sql.step q' op).1.row := by
  obtain ⟨h2, h1sc, h1ty, h1row⟩ := sql_load_indep hsc hty hr
  cases op with
  | get p d => simp [Sql.step, h2, h1sc, h1ty, h1row]
  | set p v => exact sql_edit_indep hsc hty hr _
  | getState => simp [Sql.step, h2, h1sc, h1ty, h1row]
  | setState i d => simp only [Sql.step, hty]; exact sql_setState_indep hsc hty hr _
  | clear => simp only [Sql.step, hty, hsc]; exact sql_setState_indep hsc hty hr _
  | edit muts => exact sql_edit_indep hsc hty hr _
  | mutSnap k v => cases hop
  | writeBack => cases hop

theorem sql_storeOps_indep (ops : List Op) : ∀ {q q' : Sql}, q.sc = q'.sc → q.ty = q'.ty → q.row = q'.row →
    (∀ op ∈ ops, storeOp op = true) →
    runOuts Sql.step q ops = runOuts Sql.step q' ops ∧
    (runState Sql.step q ops).row = (runState Sql.step q' ops).row := by
  induction ops with
  | nil => intro q q' _ _ hr _; exact ⟨rfl, hr⟩
  | cons op ops ih =>
    intro q q' hsc hty hr hall
    have ⟨ho, hsc', hty', hr'⟩ := sql_storeOp_indep hsc hty hr op (hall op (List.mem_cons_self))
    have ⟨i1, i2⟩ := ih hsc' hty' hr' (fun o ho' => hall o (List.mem_cons_of_mem _ ho'))
    exact ⟨by simp only [runOuts]; rw [ho, i1], by simpa only [runState] using i2⟩

/-! ### characteristic facts of the specification -/

theorem walk_nest (segs : List String) (v : Json) : walk (nest segs v) segs = some v := by
  induction segs with
  | nil => rfl
  | cons s r ih => simp [nest, walk, child, lookup, ih]

theorem walk_specSet (v : Json) : ∀ (segs : List String) (j j' : Json),
    specSet j segs v = .ok j' → walk j' segs = some v
  | [], j, j', h => by simp [specSet] at h
  | [s], j, j', h => by
    simp only [specSet] at h
    simp [walk, child_assign h]
  | s :: t :: r, j, j', h => by
    simp only [specSet] at h
    cases hc : child j s with
    | some c =>
      rw [hc] at h
      simp only [] at h
      cases hs : specSet c (t :: r) v with
      | error e => rw [hs] at h; cases h
      | ok c' =>
        rw [hs] at h
        simp only [] at h
        have := walk_specSet v (t :: r) c c' hs
        simp only [walk, child_assign h]
        exact this
    | none =>
      rw [hc] at h
      simp only [] at h
      simp only [walk, child_assign h]
      exact walk_nest (t :: r) v

theorem specRootPut_lookup {r r' : Root} {s : String} {x : Json} (h : specRootPut r s x = .ok r') :
    lookup s r'.data = some x := by
  unfold specRootPut at h
  split at h
  · cases h; exact lookup_upsert_same _ _ _
  · cases h

theorem walk_specRootSet {r r' : Root} {segs : List String} {v : Json} (h : specRootSet r segs v = .ok r') :
    specGetVal r' segs = some v := by
  unfold specGetVal
  match segs, h with
  | [], h => simp [specRootSet] at h
  | [s], h =>
    simp only [specRootSet] at h
    simp [walk, child, specRootPut_lookup h]
  | s :: t :: rest, h =>
    simp only [specRootSet] at h
    cases hc : lookup s r.data with
    | some c =>
      rw [hc] at h
      simp only [] at h
      cases hs : specSet c (t :: rest) v with
      | error e => rw [hs] at h; cases h
      | ok c' =>
        rw [hs] at h
        simp only [] at h
        simp only [walk, child, specRootPut_lookup h]
        exact walk_specSet v (t :: rest) c c' hs
    | none =>
      rw [hc] at h
      simp only [] at h
      simp only [walk, child, specRootPut_lookup h]
      exact walk_nest (t :: rest) v

/-- a successful `set(path, v)` makes `get(path)` return `v` -/
theorem specGet_after_set {r r' : Root} {p : String} {v : Json} (d : Option Json)
    (h : specSetPath r p v = .ok r') : specGet r' p d = .val v := by
  unfold specSetPath at h
  unfold specGet
  by_cases h1 : p.isEmpty
  · simp [h1] at h
  · simp only [h1, if_false, Bool.false_eq_true] at h ⊢
    by_cases h2 : (splitPath p).length > maxDepth
    · simp [h2] at h
    · simp only [h2, if_false] at h ⊢
      rw [walk_specRootSet h]

theorem lookup_overlay (k : String) (cur inc : Obj) :
    lookup k (overlay cur inc) = (lookup k cur).map fun v => (lookup k inc).getD v := by
  induction cur with
  | nil => rfl
  | cons kv r ih =>
    obtain ⟨k', v'⟩ := kv
    by_cases h : k' = k
    · subst h; simp [overlay, lookup]
    · have : lookup k (overlay r inc) = (lookup k r).map fun v => (lookup k inc).getD v := ih
      simp only [overlay, List.map_cons, lookup, h, if_false]
      simpa [overlay] using this

theorem overlay_keys (cur inc : Obj) : (overlay cur inc).map (·.1) = cur.map (·.1) := by
  simp [overlay, List.map_map, Function.comp_def]

end StateStore
