import WfProofs.RunLimitUniq
/-!
FIFO progress of the run-limit model: the measure `mu r` of a pending waiter never
grows, and strictly decreases with every helpful action (a holder leaving, a task
with a done future being stepped).
-/
namespace RunLimit

theorem aget_adel_ne {α} (j k : Nat) (l : List (Nat × α)) (h : j ≠ k) :
    aget j (adel k l) = aget j l := by
  induction l with
  | nil => simp [adel]
  | cons p l ih =>
    obtain ⟨q, u⟩ := p
    by_cases hq : q = k
    · subst hq
      have : ¬ q = j := fun e => h e.symm
      simp [adel, aget, this]
    · by_cases hqj : q = j
      · subst hqj
        simp [adel, aget, hq]
      · simp [adel, aget, hq, hqj, ih]

theorem pendAhead_append (r : Nat) (ws m : Waiters) (f : Fut) (h : aget r ws = some f) :
    pendAhead r (ws ++ m) = pendAhead r ws := by
  induction ws with
  | nil => simp [aget] at h
  | cons p ws ih =>
    obtain ⟨q, e⟩ := p
    by_cases hq : q = r
    · simp [pendAhead, hq]
    · simp only [aget, hq, if_false] at h
      simp [pendAhead, hq, ih h]

theorem pendAhead_aset_ne (r q : Nat) (g : Fut) (ws : Waiters) (hq : q ≠ r) (hg : g ≠ .pending) :
    pendAhead r (aset q g ws) ≤ pendAhead r ws := by
  induction ws with
  | nil => simp [aset]
  | cons p ws ih =>
    obtain ⟨k, f⟩ := p
    by_cases hk : k = q
    · have hkr : ¬ k = r := fun e => hq (hk.symm.trans e)
      simp only [aset, hk, if_true, pendAhead, hg, if_false]
      subst hk
      simp only [hkr, if_false]
      omega
    · simp only [aset, hk, if_false, pendAhead]
      by_cases hkr : k = r
      · simp [hkr]
      · simp only [hkr, if_false]
        omega

theorem pendAhead_adel_ne (r q : Nat) (ws : Waiters) (hq : q ≠ r) :
    pendAhead r (adel q ws) ≤ pendAhead r ws := by
  induction ws with
  | nil => simp [adel]
  | cons p ws ih =>
    obtain ⟨k, f⟩ := p
    by_cases hk : k = q
    · have hkr : ¬ k = r := fun e => hq (hk.symm.trans e)
      simp only [adel, hk, if_true, pendAhead]
      subst hk
      simp only [hkr, if_false]
      omega
    · simp only [adel, hk, if_false, pendAhead]
      by_cases hkr : k = r
      · simp [hkr]
      · simp only [hkr, if_false]
        omega

/-- `_wake_up_next` serves the queue in FIFO order: it wakes `r` itself, or somebody
ahead of `r`, in which case `r` moves up by exactly one. -/
theorem wake_pendAhead (r : Nat) (ws ws' : Waiters) (p : Nat) (hw : wake ws = some (ws', p))
    (hr : aget r ws = some .pending) :
    (p = r ∧ aget r ws' = some .woken) ∨
    (p ≠ r ∧ aget r ws' = some .pending ∧ pendAhead r ws' + 1 = pendAhead r ws) := by
  induction ws generalizing ws' with
  | nil => simp [wake] at hw
  | cons e ws ih =>
    obtain ⟨q, f⟩ := e
    by_cases hf : f = .pending
    · simp only [wake, hf, if_true, Option.some.injEq, Prod.mk.injEq] at hw
      obtain ⟨rfl, rfl⟩ := hw
      by_cases hq : q = r
      · left; simp [aget, hq]
      · right
        simp only [aget, hq, if_false] at hr
        refine ⟨hq, by simp [aget, hq, hr], ?_⟩
        subst hf
        simp [pendAhead, hq]
        omega
    · simp only [wake, hf, if_false] at hw
      by_cases hq : q = r
      · simp only [aget, hq, if_true, Option.some.injEq] at hr
        exact absurd hr hf
      · simp only [aget, hq, if_false] at hr
        cases hw1 : wake ws with
        | none => rw [hw1] at hw; cases hw
        | some e =>
          obtain ⟨ws1, p1⟩ := e
          rw [hw1] at hw
          simp only [Option.some.injEq, Prod.mk.injEq] at hw
          obtain ⟨rfl, rfl⟩ := hw
          rcases ih ws1 hw1 hr with ⟨h1, h2⟩ | ⟨h1, h2, h3⟩
          · left; exact ⟨h1, by simp [aget, hq, h2]⟩
          · right
            refine ⟨h1, by simp [aget, hq, h2], ?_⟩
            simp only [pendAhead, hf, if_false, hq]
            omega

theorem waiters_some (x : Inst) (r : Nat) (f : Fut) (h : aget r x.waiters = some f) :
    ∃ s, x.sem = some s ∧ aget r s.waiters = some f := by
  unfold Inst.waiters at h
  cases hs : x.sem with
  | none => rw [hs] at h; simp [aget] at h
  | some s => rw [hs] at h; exact ⟨s, rfl, h⟩

/-- effect of `wakeNext` on a pending waiter `r` that stays pending -/
theorem wakeNext_mu (r : Nat) (s : Sem) (hr : aget r s.waiters = some .pending)
    (hr' : aget r (s.wakeNext).1.waiters = some .pending) :
    mu r (s.wakeNext).1.waiters + 1 = mu r s.waiters := by
  unfold Sem.wakeNext at hr' ⊢
  obtain ⟨ws', p, hw⟩ := wake_some_of_pending s.waiters (hasPending_of_aget r _ hr)
  rw [hw] at hr' ⊢
  simp only at hr' ⊢
  rcases wake_pendAhead r _ _ _ hw hr with ⟨_, h2⟩ | ⟨_, _, h3⟩
  · rw [h2] at hr'; cases hr'
  · have := (wake_inflight _ _ _ hw).1
    simp only [mu, this]
    omega

theorem release_mu (r : Nat) (s : Sem) (hr : aget r s.waiters = some .pending)
    (hr' : aget r (s.release).1.waiters = some .pending) :
    mu r (s.release).1.waiters + 1 = mu r s.waiters := by
  unfold Sem.release at hr' ⊢
  exact wakeNext_mu r { s with value := s.value + 1 } hr hr'

/-- The measure of a pending waiter never grows, and every helpful action makes it
strictly smaller, as long as the waiter stays pending. -/
theorem Inst.step_mu (x x' : Inst) (a : IAct) (woke : List Nat) (r : Nat) (hx : x.Inv)
    (h : x.step a = some (x', woke))
    (hr : aget r x.waiters = some .pending) (hr' : aget r x'.waiters = some .pending) :
    mu r x'.waiters + (if a.helpful x then 1 else 0) ≤ mu r x.waiters := by
  obtain ⟨s, hs, hrs⟩ := waiters_some x r _ hr
  have hxw : x.waiters = s.waiters := by simp [Inst.waiters, hs]
  rw [hxw]
  cases a with
  | start q =>
    simp only [Inst.step, Inst.start] at h
    split at h <;> simp at h
    rw [← h.1]
    simp [Inst.waiters, IAct.helpful, hs]
  | «begin» q =>
    simp only [Inst.step, Inst.begin] at h
    split at h
    · cases h
    · simp at h; rw [← h.1]; simp [Inst.waiters, IAct.helpful, hs]
    · split at h
      · simp at h; rw [← h.1]; simp [Inst.waiters, IAct.helpful, hs]
      · rename_i n hl
        simp at h
        rw [← h.1]
        unfold Inst.enter
        simp only [hs, Option.getD_some, IAct.helpful]
        split
        · simp only [Inst.waiters, mu, nInflight_append, nInflight, inflight_pending,
            pendAhead_append r s.waiters _ _ hrs]
          simp
        · simp [Inst.waiters]
  | cancel q =>
    simp only [Inst.step, Inst.cancel] at h
    split at h
    · simp at h; rw [← h.1]; simp [Inst.waiters, IAct.helpful, hs]
    · rw [hs] at h
      simp only at h
      split at h
      · rename_i hf
        simp at h
        rw [← h.1] at hr' ⊢
        simp only [Inst.waiters, aget_aset] at hr' ⊢
        by_cases hq : r = q
        · subst hq
          simp [hf] at hr'
        · have hq' : q ≠ r := fun e => hq e.symm
          have h1 := pendAhead_aset_ne r q .cancelled s.waiters hq' (by decide)
          have h2 := nInflight_aset q .pending .cancelled s.waiters hf rfl
          simp only [mu, h2, IAct.helpful]
          simp
          omega
      · rename_i hf
        simp at h
        rw [← h.1] at hr' ⊢
        have hq' : q ≠ r := fun e => by subst e; rw [hrs] at hf; cases hf
        have h1 := pendAhead_aset_ne r q .wokenCancel s.waiters hq' (by decide)
        have h2 := nInflight_aset q .woken .wokenCancel s.waiters hf rfl
        simp only [Inst.waiters, mu, h2, IAct.helpful]
        simp
        omega
      · simp at h; rw [← h.1]; simp [IAct.helpful, hxw]
      · split at h <;> simp at h
        rw [← h.1]; simp [IAct.helpful, hxw]
  | deliver q =>
    simp only [Inst.step, Inst.deliver] at h
    rw [hs] at h
    simp only at h
    have hq' : q ≠ r → r ≠ q := fun h e => h e.symm
    split at h
    · cases h
    · cases h
    · -- woken
      rename_i hf
      have hqr : q ≠ r := fun e => by subst e; rw [hrs] at hf; cases hf
      have hdel := nInflight_adel q .woken s.waiters hf
      simp only [inflight_woken, if_true] at hdel
      have hpa := pendAhead_adel_ne r q s.waiters hqr
      have hr1 : aget r (adel q s.waiters) = some .pending := by
        rw [aget_adel_ne r q _ (hq' hqr)]; exact hrs
      have hh : (IAct.deliver q).helpful x = true := by
        simp only [IAct.helpful, hxw, hf, inflight_woken]
      simp at h
      rw [← h.1] at hr' ⊢
      rw [hh]
      simp only [if_true]
      by_cases hv : 0 < s.value
      · simp only [hv, if_true, Inst.waiters] at hr' ⊢
        have := wakeNext_mu r { value := s.value, waiters := adel q s.waiters } hr1 hr'
        simp only [mu] at this ⊢
        omega
      · simp only [hv, if_false, Inst.waiters, mu] at hr' ⊢
        omega
    · -- cancelled
      rename_i hf
      have hqr : q ≠ r := fun e => by subst e; rw [hrs] at hf; cases hf
      have hdel := nInflight_adel q .cancelled s.waiters hf
      simp only [inflight_cancelled, Bool.false_eq_true, if_false, Nat.add_zero] at hdel
      have hpa := pendAhead_adel_ne r q s.waiters hqr
      have hh : (IAct.deliver q).helpful x = false := by
        simp only [IAct.helpful, hxw, hf, inflight_cancelled]
      simp at h
      rw [← h.1, hh]
      simp only [Bool.false_eq_true, if_false, Inst.waiters, mu, hdel]
      omega
    · -- woken, then cancelled
      rename_i hf
      have hqr : q ≠ r := fun e => by subst e; rw [hrs] at hf; cases hf
      have hdel := nInflight_adel q .wokenCancel s.waiters hf
      simp only [inflight_wokenCancel, if_true] at hdel
      have hpa := pendAhead_adel_ne r q s.waiters hqr
      have hr1 : aget r (adel q s.waiters) = some .pending := by
        rw [aget_adel_ne r q _ (hq' hqr)]; exact hrs
      have hh : (IAct.deliver q).helpful x = true := by
        simp only [IAct.helpful, hxw, hf, inflight_wokenCancel]
      simp at h
      rw [← h.1] at hr' ⊢
      rw [hh]
      simp only [if_true, Inst.waiters] at hr' ⊢
      have := release_mu r { value := s.value, waiters := adel q s.waiters } hr1 hr'
      simp only [mu] at this ⊢
      omega
  | finish q o =>
    simp only [Inst.step, Inst.finish] at h
    split at h
    · rename_i hmem
      split at h
      · rename_i hl
        have := hx.unlimited hl
        rw [hs] at this
        cases this
      · rw [hs] at h
        simp at h
        rw [← h.1] at hr' ⊢
        simp only [Inst.waiters, IAct.helpful, hmem, decide_true, if_true] at hr' ⊢
        have := release_mu r s hrs hr'
        omega
    · cases h
  | gc =>
    simp only [Inst.step, Inst.gc] at h
    rw [hs] at h
    simp only at h
    split at h <;> simp at h
    rename_i hidle
    rw [hidle.2] at hrs
    simp [aget] at hrs

end RunLimit
