"""Control shape of ExternalAsyncioAdapter.stream_published_events -> lean/WfModel/GenStreamGate.lean.

Re-read from /repo's current `workflows/plugins/basic.py` on every run.  The model (`WfModel/StreamGate.lean`)
is parameterised by where the "already consumed" guard is evaluated; the C04 theorems about several consumers of
one stream are stated for the extracted configuration, so moving / dropping / weakening the guard breaks a proof.
"""
from __future__ import annotations

import ast

from ..boot import repo_path

LEAN_MODULE = "GenStreamGate"
SRC = "packages/llama-index-workflows/src/workflows/plugins/basic.py"
FLAG = "stream_finished"


def _attr_chain(n: ast.AST) -> list[str]:
    out: list[str] = []
    while isinstance(n, ast.Attribute):
        out.append(n.attr)
        n = n.value
    if isinstance(n, ast.Name):
        out.append(n.id)
    return list(reversed(out))


def _is_call_on(n: ast.AST, tail: list[str]) -> bool:
    return isinstance(n, ast.Call) and not n.args and not n.keywords and _attr_chain(n.func)[-len(tail):] == tail


def _is_guard(stmt: ast.AST) -> tuple[bool, int]:
    """(is an `if ...: raise WorkflowRuntimeError(..)`, kind of its test:
    1 = `complete.done() and publish_queue.empty()`,
    2 = `(stream_finished or complete.done()) and publish_queue.empty()`, 0 = anything else)"""
    if not (isinstance(stmt, ast.If) and not stmt.orelse and len(stmt.body) == 1 and isinstance(stmt.body[0], ast.Raise)):
        return False, 0
    exc = stmt.body[0].exc
    name = exc.func if isinstance(exc, ast.Call) else exc
    if not (isinstance(name, ast.Name) and name.id == "WorkflowRuntimeError"):
        return False, 0
    t = stmt.test
    kind = 0
    if isinstance(t, ast.BoolOp) and isinstance(t.op, ast.And) and len(t.values) == 2 \
            and _is_call_on(t.values[1], ["_queues", "publish_queue", "empty"]):
        a = t.values[0]
        if _is_call_on(a, ["_queues", "complete", "done"]):
            kind = 1
        elif (isinstance(a, ast.BoolOp) and isinstance(a.op, ast.Or) and len(a.values) == 2
              and _attr_chain(a.values[0])[-2:] == ["_queues", FLAG] and _is_call_on(a.values[1], ["_queues", "complete", "done"])):
            kind = 2
    return True, kind


def _is_stop_test(t: ast.AST, var: str) -> bool:
    return (isinstance(t, ast.Call) and isinstance(t.func, ast.Name) and t.func.id == "isinstance"
            and len(t.args) == 2 and isinstance(t.args[0], ast.Name) and t.args[0].id == var
            and isinstance(t.args[1], ast.Name) and t.args[1].id == "StopEvent")


def _is_flag_assign(n: ast.AST, value: bool, owner: str) -> bool:
    return (isinstance(n, ast.Assign) and len(n.targets) == 1 and _attr_chain(n.targets[0])[-2:] == [owner, FLAG]
            and isinstance(n.value, ast.Constant) and n.value.value is value)


def _loop_shape(stmt: ast.AST) -> int:
    """1 = while True: item = await <..publish_queue.get()>; yield item; if isinstance(item, StopEvent): break
    2 = the same with `if isinstance(item, StopEvent): self._queues.stream_finished = True` in front of the yield
    0 = anything else"""
    if not (isinstance(stmt, ast.While) and isinstance(stmt.test, ast.Constant) and stmt.test.value is True and not stmt.orelse):
        return 0
    b = list(stmt.body)
    if len(b) not in (3, 4):
        return 0
    a0 = b[0]
    ok0 = (isinstance(a0, ast.Assign) and len(a0.targets) == 1 and isinstance(a0.targets[0], ast.Name)
           and isinstance(a0.value, ast.Await) and _is_call_on(a0.value.value, ["_queues", "publish_queue", "get"]))
    if not ok0:
        return 0
    var = a0.targets[0].id
    kind = 1
    if len(b) == 4:
        f = b[1]
        if not (isinstance(f, ast.If) and not f.orelse and _is_stop_test(f.test, var) and len(f.body) == 1
                and _is_flag_assign(f.body[0], True, "_queues")):
            return 0
        kind = 2
    a1, a2 = b[-2], b[-1]
    ok1 = (isinstance(a1, ast.Expr) and isinstance(a1.value, ast.Yield) and isinstance(a1.value.value, ast.Name) and a1.value.value.id == var)
    ok2 = (isinstance(a2, ast.If) and not a2.orelse and len(a2.body) == 1 and isinstance(a2.body[0], ast.Break) and _is_stop_test(a2.test, var))
    return kind if (ok1 and ok2) else 0


def extract(notes: list[str]) -> dict:
    res = {"found": False, "lockIsStreamLock": False, "guardCount": 99, "guardUnderLock": False, "guardFirstUnderLock": False,
           "guardTest": 0, "loopShape": 0, "stmtsOutsideLock": 99, "flagInit": False, "flagWrites": 99}
    try:
        tree = ast.parse(open(repo_path(SRC)).read())
    except (OSError, SyntaxError) as e:
        notes.append(f"gen/stream_gate: cannot parse {SRC}: {e!r}")
        return res
    fn = None
    for c in ast.walk(tree):
        if isinstance(c, ast.ClassDef) and c.name == "ExternalAsyncioAdapter":
            for f in c.body:
                if isinstance(f, ast.AsyncFunctionDef) and f.name == "stream_published_events":
                    fn = f
    if fn is None:
        notes.append("gen/stream_gate: ExternalAsyncioAdapter.stream_published_events not found")
        return res
    res["found"] = True
    body = [s for s in fn.body if not (isinstance(s, ast.Expr) and isinstance(s.value, ast.Constant))]  # docstring
    withs = [s for s in body if isinstance(s, ast.AsyncWith)]
    if len(withs) != 1:
        notes.append(f"gen/stream_gate: expected exactly one top-level `async with`, found {len(withs)}")
        return res
    w = withs[0]
    res["lockIsStreamLock"] = len(w.items) == 1 and _attr_chain(w.items[0].context_expr)[-2:] == ["_queues", "stream_lock"]
    outside = [s for s in body if s is not w]
    guards_out = [s for s in outside if _is_guard(s)[0]]
    res["stmtsOutsideLock"] = len(outside) - len(guards_out)
    guards_in = [s for s in w.body if _is_guard(s)[0]]
    res["guardCount"] = len(guards_out) + len(guards_in) + sum(
        1 for n in ast.walk(fn) if _is_guard(n)[0] and n not in guards_out and n not in guards_in)
    res["guardUnderLock"] = len(guards_in) == 1 and not guards_out
    res["guardFirstUnderLock"] = bool(w.body) and _is_guard(w.body[0])[0]
    allg = guards_out + guards_in
    res["guardTest"] = _is_guard(allg[0])[1] if len(allg) == 1 else 0
    rest = [s for s in w.body if s not in guards_in]
    res["loopShape"] = _loop_shape(rest[0]) if len(rest) == 1 else 0
    if not res["loopShape"]:
        notes.append("gen/stream_gate: the locked section is not `[guard;] while True: item = await get(); [if isinstance(item, StopEvent): "
                     "self._queues.stream_finished = True;] yield item; if isinstance(item, StopEvent): break`")
    # the flag: `self.stream_finished = False` in AsyncioAdapterQueues.__init__, and no write anywhere else but the one in the loop
    writes = [n for n in ast.walk(tree) if isinstance(n, (ast.Assign, ast.AugAssign, ast.AnnAssign))
              and any(_attr_chain(t)[-1:] == [FLAG] for t in (n.targets if isinstance(n, ast.Assign) else [n.target]))]
    res["flagWrites"] = len(writes)
    for c in ast.walk(tree):
        if isinstance(c, ast.ClassDef) and c.name == "AsyncioAdapterQueues":
            for f in c.body:
                if isinstance(f, ast.FunctionDef) and f.name == "__init__":
                    res["flagInit"] = any(_is_flag_assign(x, False, "self") for x in f.body)
    if res["guardCount"] != 1:
        notes.append(f"gen/stream_gate: expected exactly one 'already consumed' guard, found {res['guardCount']}")
    return res


def generate(notes: list[str]) -> list[str]:
    r = extract(notes)
    b = lambda v: "true" if v else "false"
    return [
        "namespace GenStreamGate",
        "/-- `ExternalAsyncioAdapter.stream_published_events` was found -/",
        f"def found : Bool := {b(r['found'])}",
        "/-- its one `async with` is on `self._queues.stream_lock` -/",
        f"def lockIsStreamLock : Bool := {b(r['lockIsStreamLock'])}",
        "/-- number of `if ..: raise WorkflowRuntimeError(..)` statements in the function -/",
        f"def guardCount : Nat := {r['guardCount']}",
        "/-- the guard is a statement of the `async with stream_lock` body (not in front of it) -/",
        f"def guardUnderLock : Bool := {b(r['guardUnderLock'])}",
        "/-- ... and it is the first statement there -/",
        f"def guardFirstUnderLock : Bool := {b(r['guardFirstUnderLock'])}",
        "/-- its test: 1 = `complete.done() and publish_queue.empty()`; 2 = `(stream_finished or complete.done()) and publish_queue.empty()`; 0 = other -/",
        f"def guardTest : Nat := {r['guardTest']}",
        "/-- the rest of the locked section: 1 = `while True: item = await publish_queue.get(); yield item; if isinstance(item, StopEvent): break`;",
        "    2 = the same with `if isinstance(item, StopEvent): self._queues.stream_finished = True` in front of the yield; 0 = other -/",
        f"def loopShape : Nat := {r['loopShape']}",
        "/-- `self.stream_finished = False` in `AsyncioAdapterQueues.__init__` -/",
        f"def flagInit : Bool := {b(r['flagInit'])}",
        "/-- number of assignments to `.stream_finished` in the module (2 = the initialisation and the one in the loop) -/",
        f"def flagWrites : Nat := {r['flagWrites']}",
        "/-- the guard knows that the terminal item has been taken: test 2, flag set before the yield, initialised False, written nowhere else -/",
        f"def finishedFlag : Bool := {b(r['guardTest'] == 2 and r['loopShape'] == 2 and r['flagInit'] and r['flagWrites'] == 2)}",
        "/-- statements of the function outside the `async with` other than the guard -/",
        f"def stmtsOutsideLock : Nat := {r['stmtsOutsideLock']}",
        "end GenStreamGate",
    ]
