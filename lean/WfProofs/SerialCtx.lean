import WfModel.SerialCtx
import WfProofs.SerialLemmas
/-!
Lemmas about payloads (`WfModel/SerialCtx.lean`): whatever `from_dict_auto` accepts — current format with
defaults and legacy `requirements`, legacy V0 format — is loaded into a state that one further
`to_serialized → from_serialized` does not change; `to_dict` output is read back as the current format; what a
V0 payload is resumed as, per step.
-/
set_option linter.unusedVariables false
set_option linter.unusedSimpArgs false

namespace Engine

/-- every queue entry of the serialised state carries its attempt number in normal form -/
def SerState.Normal (x : SerState) : Prop := ∀ p ∈ x.workers, ∀ a ∈ p.2.queue, serAttempt a = a

theorem orNat_some_zero (n : Nat) : orNat (some n) 0 = n := by
  by_cases h : n = 0 <;> simp [orNat, h]

theorem serAttempt_validate (a : PAttempt) : serAttempt a.validate = a.validate := by
  simp [serAttempt, PAttempt.validate, orNat_some_zero]

theorem serAttempt_v0Attempt (e : Ev) : serAttempt (v0Attempt e) = v0Attempt e := by
  simp [serAttempt, v0Attempt, orNat]

theorem deserStep_serStep_empty : deserStep (serStep {}) = {} := rfl

/-- loading is idempotent on every serialised state in normal form -/
theorem deser_stable (cfg : Cfg) (x : SerState) (h : x.Normal) :
    roundtrip cfg (deser cfg x) = deser cfg x := by
  have hw : (roundtrip cfg (deser cfg x)).workers = (deser cfg x).workers := by
    funext n
    rw [roundtrip_workers]
    by_cases hs : cfg.hasStep n = true
    · simp only [hs, if_true, deser]
      cases hf : x.workers.find? (fun p => p.1 == n) with
      | none => exact deserStep_serStep_empty
      | some p =>
        simp only
        exact deser_ser_deserStep p.2 (h p (List.mem_of_find?_eq_some hf))
    · simp [deser, hs]
  have hr : (roundtrip cfg (deser cfg x)).isRunning = (deser cfg x).isRunning := rfl
  cases h1 : roundtrip cfg (deser cfg x) with
  | mk r1 w1 =>
    cases h2 : deser cfg x with
    | mk r2 w2 =>
      rw [h1, h2] at hw hr
      simp only at hw hr
      rw [hw, hr]

theorem fromV0_normal (v : SerV0) : (fromV0 v).Normal := by
  intro p hp a ha
  simp only [fromV0, List.mem_map] at hp
  obtain ⟨n, _, rfl⟩ := hp
  simp only [v0Step, List.mem_map] at ha
  obtain ⟨e, _, rfl⟩ := ha
  exact serAttempt_v0Attempt e

theorem fromDictAuto_normal (p : Payload) : (fromDictAuto p).Normal := by
  cases p with
  | current ver run ws =>
    simp only [fromDictAuto]
    split
    · intro q hq a ha
      simp only [List.mem_map] at hq
      obtain ⟨r, _, rfl⟩ := hq
      simp only [PStep.validate, List.mem_map] at ha
      obtain ⟨b, _, rfl⟩ := ha
      exact serAttempt_validate b
    · exact fromV0_normal _
  | legacy ver body =>
    simp only [fromDictAuto]
    split
    · intro q hq; simp at hq
    · exact fromV0_normal _

theorem resume_stable (cfg : Cfg) (p : Payload) : roundtrip cfg (resumeState cfg p) = resumeState cfg p :=
  deser_stable cfg _ (fromDictAuto_normal p)

theorem validate_ofAttempt_serAttempt (a : Attempt) :
    (PAttempt.ofAttempt (serAttempt a)).validate = serAttempt a := by
  simp [PAttempt.ofAttempt, PAttempt.validate, serAttempt, orNat_orNat]

theorem validate_ofSer_serStep (ss : StepState) : (PStep.ofSer (serStep ss)).validate = serStep ss := by
  simp only [PStep.ofSer, PStep.validate, serStep, List.map_map]
  congr 1
  apply List.map_congr_left
  intro a _
  exact validate_ofAttempt_serAttempt a

/-- the payload `to_dict` writes is read back as exactly what `to_serialized` wrote -/
theorem fromDictAuto_toDict (cfg : Cfg) (st : State) : fromDictAuto (toDict cfg st) = ser cfg st := by
  simp only [toDict, fromDictAuto, isCurrentVersion, beq_self_eq_true, if_true, ser, List.map_map]
  congr 1
  apply List.map_congr_left
  intro n _
  simp [Function.comp, validate_ofSer_serStep]

theorem resume_toDict (cfg : Cfg) (st : State) : resumeState cfg (toDict cfg st) = roundtrip cfg st := by
  simp [resumeState, fromDictAuto_toDict, roundtrip]

theorem find_map_self {β : Type} (l : List Nat) (f : Nat → β) (n : Nat) :
    (l.map (fun s => (s, f s))).find? (fun p => p.1 == n) = if n ∈ l then some (n, f n) else none := by
  by_cases h : n ∈ l
  · rw [if_pos h]; exact find_names_map l f n h
  · rw [if_neg h, List.find?_eq_none]
    intro p hp
    simp only [List.mem_map] at hp
    obtain ⟨s, hs, rfl⟩ := hp
    simp only [beq_iff_eq]
    intro e
    exact h (e ▸ hs)

/-- a legacy payload, per step the workflow knows -/
theorem resume_v0 (cfg : Cfg) (ver : Option Int) (hver : isCurrentVersion ver = false) (v : SerV0) (n : Nat)
    (hs : cfg.hasStep n = true) :
    (resumeState cfg (.legacy ver v)).workers n =
      if n ∈ v0Names v ∧ n ∉ v.waitingIds then deserStep (v0Step v n) else {} := by
  simp only [resumeState, fromDictAuto, hver, Bool.false_eq_true, if_false, deser, hs, if_true, fromV0]
  rw [find_map_self]
  by_cases h : n ∈ v0Names v ∧ n ∉ v.waitingIds
  · have : n ∈ (v0Names v).filter (fun n => !v.waitingIds.contains n) := by
      simp [List.mem_filter, h.1, h.2]
    simp [this, h]
  · have : n ∉ (v0Names v).filter (fun n => !v.waitingIds.contains n) := by
      intro hm
      simp only [List.mem_filter, Bool.not_eq_true', List.contains_eq_mem, decide_eq_false_iff_not] at hm
      exact h hm
    simp [this, h]

end Engine
