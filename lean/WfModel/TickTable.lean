/-!
M1c (writing a persisted tick log) — the `ticks` table of the two stores the server ships with, as far
as a restart reads it (`llama_agents/server/_store/sqlite/sqlite_workflow_store.py`,
`llama_agents/server/_store/memory_workflow_store.py`):

* `SqliteWorkflowStore.append_tick(run_id, tick_data)`:
  `INSERT INTO ticks (run_id, sequence, …) VALUES (?, COALESCE((SELECT MAX(sequence) FROM ticks WHERE
  run_id = ?), <coalesce>) + <inc>, …)` — one statement, one transaction;
* `SqliteWorkflowStore.get_ticks(run_id)`: `SELECT … WHERE run_id = ? ORDER BY sequence`;
* `MemoryWorkflowStore.append_tick`: `next_seq = existing[-1].sequence + <inc> if existing else <first>`
  on the run's own list, appended at its end; `get_ticks` = a copy of that list.

A table is the list of its rows in insertion (rowid) order; `data` stands for the tick's JSON.  The
constants are parameters here; `WfProps/C13.lean` instantiates them with what the generator
re-extracts from the sources on every run (`GenReplay.sqlAppend…`, `GenReplay.memAppend…`).
Import-free.
-/
namespace Engine.TickTable

structure Row where
  run : Nat
  seq : Nat
  data : Nat
deriving DecidableEq, Repr

abbrev Table := List Row

/-- the rows of one run, in insertion order -/
def ofRun (t : Table) (run : Nat) : List Row := t.filter (fun r => r.run == run)

/-- `MAX(x)` over a column: `NULL` on no rows -/
def maxOpt : List Nat → Option Nat
  | [] => none
  | x :: xs => some (match maxOpt xs with | none => x | some m => if x ≤ m then m else x)

/-- `COALESCE((SELECT MAX(sequence) … WHERE run_id = ?), coalesce) + inc` -/
def sqlNextSeq (coalesce inc : Int) (t : Table) (run : Nat) : Nat :=
  ((match maxOpt ((ofRun t run).map (·.seq)) with | none => coalesce | some m => (m : Int)) + inc).toNat

def sqlAppend (coalesce inc : Int) (t : Table) (run data : Nat) : Table :=
  t ++ [{ run := run, seq := sqlNextSeq coalesce inc t run, data := data }]

/-- `existing[-1].sequence + inc if existing else first` -/
def memNextSeq (first inc : Nat) (t : Table) (run : Nat) : Nat :=
  match (ofRun t run).getLast? with
  | none => first
  | some r => r.seq + inc

def memAppend (first inc : Nat) (t : Table) (run data : Nat) : Table :=
  t ++ [{ run := run, seq := memNextSeq first inc t run, data := data }]

/-- `ORDER BY sequence` (stable insertion sort; ties keep insertion order) -/
def insertRow (x : Row) : List Row → List Row
  | [] => [x]
  | y :: ys => if x.seq ≤ y.seq then x :: y :: ys else y :: insertRow x ys

def orderBySeq (l : List Row) : List Row := l.foldr insertRow []

/-- sqlite `get_ticks` -/
def sqlGetTicks (t : Table) (run : Nat) : List Row := orderBySeq (ofRun t run)

/-- memory `get_ticks` -/
def memGetTicks (t : Table) (run : Nat) : List Row := ofRun t run

/-- a history of `append_tick(run, data)` calls on an empty store -/
def sqlRun (coalesce inc : Int) (t : Table) (h : List (Nat × Nat)) : Table :=
  h.foldl (fun t p => sqlAppend coalesce inc t p.1 p.2) t

def memRun (first inc : Nat) (t : Table) (h : List (Nat × Nat)) : Table :=
  h.foldl (fun t p => memAppend first inc t p.1 p.2) t

/-- what was appended for one run, in call order: the reference log -/
def appended (h : List (Nat × Nat)) (run : Nat) : List Nat := (h.filter (fun p => p.1 == run)).map (·.2)

end Engine.TickTable
