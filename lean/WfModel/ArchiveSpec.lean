import WfModel.Archive
/-!
M14, second part — a *specification* of `read_backup_archive` that does not run the reader:
what an archive (any list of members, in tar order, not necessarily one the writer produced)
restores to, said member by member.

* the entries are the deployment names of the resource members, in order of first appearance;
* the resource of a name is the **last** resource member of that name;
* its secret is the **last** secret member of that name, clear or encrypted, whichever comes last
  (an encrypted one opened with the reader's password);
* its generation is the `generation` key of the **last** meta member of that name;
* the manifest is the last manifest member.

`WfProofs/ArchiveReader.lean` proves that the reader (`Archive.read`, a left-to-right fold with three
insertion-ordered dicts) computes exactly this whenever it succeeds.
-/
namespace Archive
open GenArchive

/-- the last member (tar order) satisfying `p` -/
def lastMatch (p : Member → Bool) (ms : List Member) : Option Member := ms.reverse.find? p

/-- the reader's chain takes member `m` for a `c` of deployment `dn` -/
def isCat (c : Cat) (dn : Name) (m : Member) : Bool := decide (classify m.1 = some (c, dn))

def isSecretOf (dn : Name) (m : Member) : Bool := isCat .secClear dn m || isCat .secEnc dn m

def isManifest (m : Member) : Bool :=
  match classify m.1 with
  | some (.manifest, _) => true
  | _ => false

def addKey (acc : List Name) (k : Name) : List Name := if k ∈ acc then acc else acc ++ [k]

/-- the distinct elements of `ks` in order of first appearance -/
def firstSeen (ks : List Name) : List Name := ks.foldl addKey []

def crNameOf (m : Member) : Option Name :=
  match classify m.1 with
  | some (.cr, dn) => some dn
  | _ => none

def crNames (ms : List Member) : List Name := ms.filterMap crNameOf

/-- what a secret member yields for a reader holding `pw` -/
def secretVal (A : Aead) (C : Codec Y) (pw : Option Bytes) (m : Member) : Option Y :=
  match classify m.1 with
  | some (.secEnc, _) => (decPw readNoPwTest pw).bind fun p => (okOf (decrypt A p m.2)).bind C.decY
  | _ => C.decY m.2

def specCr (C : Codec Y) (dn : Name) (ms : List Member) : Option Y :=
  (lastMatch (isCat .cr dn) ms).bind fun m => C.decY m.2

def specSecret (A : Aead) (C : Codec Y) (pw : Option Bytes) (dn : Name) (ms : List Member) : Option Y :=
  (lastMatch (isSecretOf dn) ms).bind (secretVal A C pw)

def specMeta (C : Codec Y) (dn : Name) (ms : List Member) : Option (Option Int) :=
  (lastMatch (isCat .gmeta dn) ms).bind fun m => C.decMeta m.2

def specGen (C : Codec Y) (dn : Name) (ms : List Member) : Option Int := (specMeta C dn ms).bind id

def specManifest (C : Codec Y) (ms : List Member) : Option RawManifest :=
  (lastMatch isManifest ms).bind fun m => C.decManifest m.2

/-- the restored entries, as the specification has them -/
def specEntries (A : Aead) (C : Codec Y) (pw : Option Bytes) (ms : List Member) :
    List (Name × Option Y × Option Y × Option Int) :=
  (firstSeen (crNames ms)).map fun n => (n, specCr C n ms, specSecret A C pw n ms, specGen C n ms)

/-- no member of the archive carries an encrypted-secret name -/
def noEnc (ms : List Member) : Bool :=
  ms.all fun m => match classify m.1 with | some (.secEnc, _) => false | _ => true

def Entry.view (e : Entry Y) : Name × Option Y × Option Y × Option Int := (e.name, some e.cr, e.secret, e.generation)

end Archive
