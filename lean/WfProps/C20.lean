import WfProofs.StateStoreConc
/-!
# C20 — concurrent state updates are never lost

Model: the transition system `Sys` of `WfModel/StateStore.lean` (M5).  A program is a list of
tasks, each performing one `set` / `set_state` / `clear` / `edit_state` on the same store; a
schedule is any list of task ids, each entry running that task's next await-free section (an
`edit_state` body is cut into chunks at its awaits).  Which operations take the store lock is
read from the source (`GenStateStore.*Locked`).  Theorems quantify over every program (any
number of tasks), every initial store, every schedule.
-/
open StateStore

/-- the lock discipline the proofs rest on, as found in the source: every writer of both stores
runs under `self._lock`, and `edit_state` is `lock { load; yield; save }` -/
theorem C20_source_shape :
    GenStateStore.memSetLocked = true ∧ GenStateStore.memSetStateLocked = true ∧
    GenStateStore.memClearLocked = true ∧ GenStateStore.memEditLocked = true ∧
    GenStateStore.sqlSetLocked = true ∧ GenStateStore.sqlSetStateLocked = true ∧
    GenStateStore.sqlClearLocked = true ∧ GenStateStore.sqlEditLocked = true := by decide

theorem memBackend_locks (op : COp) : memBackend.locks op = true := by
  cases op <;> rfl

theorem sqlBackend_locks (op : COp) : sqlBackend.locks op = true := by
  cases op <;> rfl

/-- in-memory store: for every interleaving that runs all tasks to completion, the final store is
the result of running the same operations one after the other in some order (each task exactly
once; an `edit_state` block is one operation) -/
theorem C20_serialisable_memory (prog : List COp) (m0 : Mem) (sched : List Nat) (s : Sys Mem)
    (hrun : Sys.runAll memBackend prog (Sys.init m0 prog.length) sched = some s)
    (hdone : s.allDone = true) :
    ∃ order : List Nat, order.Nodup ∧ (∀ t, t ∈ order ↔ t < prog.length) ∧
      s.store = serial memBackend prog m0 order :=
  serialisable_of_inv memBackend prog m0 s
    (inv_runAll memBackend memBackend_locks mem_editLaw prog m0 sched _ s (inv_init _ _ _) hrun) hdone

/-- SQLite store: the same -/
theorem C20_serialisable_sqlite (prog : List COp) (q0 : Sql) (sched : List Nat) (s : Sys Sql)
    (hrun : Sys.runAll sqlBackend prog (Sys.init q0 prog.length) sched = some s)
    (hdone : s.allDone = true) :
    ∃ order : List Nat, order.Nodup ∧ (∀ t, t ∈ order ↔ t < prog.length) ∧
      s.store = serial sqlBackend prog q0 order :=
  serialisable_of_inv sqlBackend prog q0 s
    (inv_runAll sqlBackend sqlBackend_locks sql_editLaw prog q0 sched _ s (inv_init _ _ _) hrun) hdone

/-- both stores; the order is a permutation of the task ids -/
theorem C20_serialisable (prog : List COp) (sched : List Nat) :
    (∀ (m0 : Mem) (s : Sys Mem), Sys.runAll memBackend prog (Sys.init m0 prog.length) sched = some s →
      s.allDone = true →
      ∃ order : List Nat, order.Perm (List.range prog.length) ∧ s.store = serial memBackend prog m0 order) ∧
    (∀ (q0 : Sql) (s : Sys Sql), Sys.runAll sqlBackend prog (Sys.init q0 prog.length) sched = some s →
      s.allDone = true →
      ∃ order : List Nat, order.Perm (List.range prog.length) ∧ s.store = serial sqlBackend prog q0 order) := by
  have perm : ∀ order : List Nat, order.Nodup → (∀ t, t ∈ order ↔ t < prog.length) →
      order.Perm (List.range prog.length) := by
    intro order hnd hmem
    rw [List.perm_ext_iff_of_nodup hnd List.nodup_range]
    intro a
    rw [hmem a, List.mem_range]
  constructor
  · intro m0 s hrun hdone
    obtain ⟨order, hnd, hmem, hst⟩ := C20_serialisable_memory prog m0 sched s hrun hdone
    exact ⟨order, perm order hnd hmem, hst⟩
  · intro q0 s hrun hdone
    obtain ⟨order, hnd, hmem, hst⟩ := C20_serialisable_sqlite prog q0 sched s hrun hdone
    exact ⟨order, perm order hnd hmem, hst⟩

/-- three tasks — an `edit_state` whose body awaits twice, a `set_state` and a `set` — interleaved so
that the writers arrive while the block is open, queue up, and run after it -/
def C20_demoProg : List COp :=
  [.edit [[.incr "x" 1], [.incr "x" 10], [.setKey "y" (.int 1)]], .setState .same [("x", .int 5)], .set "z.k" (.int 7)]

example : ∃ s, Sys.runAll sqlBackend C20_demoProg (Sys.init (Sql.init [] .dict) 3) [0, 1, 0, 2, 0, 1, 2] = some s ∧
    s.allDone = true ∧ s.log = [0, 1, 2] ∧
    s.store.row = some [("x", .int 5), ("z", .obj [("k", .int 7)])] := ⟨_, rfl, by rfl, by rfl, by rfl⟩

example : ∃ s, Sys.runAll memBackend C20_demoProg (Sys.init (Mem.init [] .dict) 3) [2, 0, 1, 0, 0, 1] = some s ∧
    s.allDone = true ∧ s.log = [2, 0, 1] ∧ s.store.root.data = [("x", .int 5)] := ⟨_, rfl, by rfl, by rfl, by rfl⟩

/-- the serial execution is the sequential machine of C19 run on the operations in that order -/
theorem C20_serial_is_sequential_run {σ : Type} (B : Backend σ) (prog : List COp) (order : List Nat) :
    ∀ st : σ, serial B prog st order =
      runState B.step st (order.filterMap fun t => (prog[t]?).map COp.toOp) := by
  induction order with
  | nil => intro st; rfl
  | cons t ts ih =>
    intro st
    simp only [serial, List.foldl_cons, List.filterMap_cons]
    cases hp : prog[t]? with
    | none => simp only [Option.map_none]; exact ih st
    | some op => simp only [Option.map_some, runState]; exact ih _

/-- hence (C19) the final SQLite store of any complete interleaving holds exactly what the plain
nested-dict specification holds after the same operations in some serial order -/
theorem C20_final_state_is_spec_of_serial_order (sc : Schema) (ty : Ty) (prog : List COp) (sched : List Nat)
    (s : Sys Sql) (hrun : Sys.runAll sqlBackend prog (Sys.init (Sql.init sc ty) prog.length) sched = some s)
    (hdone : s.allDone = true) :
    ∃ order : List Nat, order.Perm (List.range prog.length) ∧
      s.store.abs = (runState Spec.step (Spec.init sc ty)
        (order.filterMap fun t => (prog[t]?).map COp.toOp)).root := by
  obtain ⟨order, hp, hst⟩ := (C20_serialisable prog sched).2 (Sql.init sc ty) s hrun hdone
  refine ⟨order, hp, ?_⟩
  rw [hst, C20_serial_is_sequential_run]
  exact (sqlSim_run _ _ _ (sqlSim_init sc ty)).2.root

/-- the mechanism: while an `edit_state` block is open, no step of any other task changes the
store or completes an operation — a write cannot complete between the block's load and its save,
so the block cannot overwrite a completed write with a stale copy -/
theorem C20_no_write_inside_open_edit (prog : List COp) (e t : Nat) (hne : t ≠ e) :
    (∀ (s s' : Sys Mem), s.holder = some e → Sys.run memBackend prog s t = some s' →
      s'.store = s.store ∧ s'.log = s.log ∧ s'.holder = some e) ∧
    (∀ (s s' : Sys Sql), s.holder = some e → Sys.run sqlBackend prog s t = some s' →
      s'.store = s.store ∧ s'.log = s.log ∧ s'.holder = some e) :=
  ⟨fun s s' hh h => no_write_inside_open_edit memBackend memBackend_locks prog s s' e t hh hne h,
   fun s s' hh h => no_write_inside_open_edit sqlBackend sqlBackend_locks prog s s' e t hh hne h⟩

/-! ### F18: what happens when `set_state` / `clear` do not take the lock -/

/-- the SQLite backend as it was before the repair: `set_state` and `clear` bypass the lock -/
def sqlBackendUnlocked : Backend Sql :=
  { sqlBackend with locks := fun
      | .setState .. => false
      | .clear => false
      | _ => true }

def hasX5 (q : Sql) : Bool :=
  match q.row with
  | some d => (match lookup "x" d with | some (.int 5) => true | _ => false)
  | none => false

def C20_f18Prog : List COp := [.edit [[], [.setKey "y" (.int 1)]], .setState .same [("x", .int 5)]]
def C20_f18Init : Sql := (Sql.step (Sql.init [] .dict) (.set "x" (.int 0))).1

/-- without the lock in `set_state` the three-action schedule `edit: load · set_state · edit: body,
save` ends in `{x: 0, y: 1}`: the completed `set_state(x=5)` is gone, although both serial orders
keep it — the theorem above is false for that store -/
theorem C20_unlocked_set_state_loses_update :
    ∃ s, Sys.runAll sqlBackendUnlocked C20_f18Prog (Sys.init C20_f18Init 2) [0, 1, 0] = some s ∧
      s.allDone = true ∧
      s.store.row = some [("x", .int 0), ("y", .int 1)] ∧ hasX5 s.store = false ∧
      hasX5 (serial sqlBackendUnlocked C20_f18Prog C20_f18Init [0, 1]) = true ∧
      hasX5 (serial sqlBackendUnlocked C20_f18Prog C20_f18Init [1, 0]) = true :=
  ⟨_, rfl, by rfl, by rfl, by rfl, by rfl, by rfl⟩

/-- the same schedule on the repaired store: `set_state` queues behind the block -/
example : ∃ s, Sys.runAll sqlBackend C20_f18Prog (Sys.init C20_f18Init 2) [0, 1, 0, 1] = some s ∧
    s.allDone = true ∧ s.store.row = some [("x", .int 5)] := ⟨_, rfl, by rfl, by rfl⟩
