"""C24 — handler stores answer queries consistently and retain the newest completions."""
from __future__ import annotations

import asyncio
import os
import shutil
import tempfile
import typing
from datetime import datetime, timedelta, timezone
from typing import Any

from ..runner import Divergence, Driver, Env, Outcome, Violation, diff_streams

THEOREMS = [
    "C24_source_shape",
    "C24_query_spec",
    "C24_query_empty_list",
    "C24_delete_spec",
    "C24_filterless_delete_differs",
    "C24_backends_agree",
    "C24_backends_agree_runs",
    "C24_upsert_lookup",
    "C24_retention_step",
    "C24_ghost_erasure",
    "C24_retention_bound",
    "C24_no_eviction_elsewhere",
    "C24_completed_stamp",
    "C24_rows_are_last_writes",
    "C24_write_persists",
    "C24_table_from_history",
    "C24_terminal_queue_exact",
    "C24_evicted_stay_older",
    "C24_bounded_within_unbounded",
    "C24_memory_store_shape",
    "C24_constructor",
]
LEAN_TARGETS = ["WfProps.C24"]
EXPLANATION = (
    "Lean model M4b (WfModel/HandlerStore.lean): handler table in insertion order, HandlerQuery with every filter, the "
    "in-memory _matches_query and the SQLite _build_filters -> WHERE clauses evaluated in SQL three-valued logic, upsert, "
    "update_handler_status, delete, and the memory store's terminal-id queue with eviction. Which attribute/column each "
    "filter tests, the empty-list rule, the IS [NOT] NULL polarity and the terminal set are read from tables regenerated "
    "from /repo on every run (harness/gen/handlerstore.py) and interpreted by the model. Theorems, for all operation "
    "sequences and filter combinations: query = rows of the current table passing every given filter (an empty list "
    "passes nothing); delete with >= 1 filter removes exactly those and returns their number; memory and SQLite matching "
    "are equal as functions and whole runs give equal outputs; retention: after every write all non-terminal handlers "
    "of the upserted table are kept, min(max_completed, #terminal) terminal ones are kept, and every kept one became "
    "terminal later than every evicted one ('most recently completed' = order of the write at which the handler last turned "
    "terminal or was re-inserted terminal; later terminal writes of the same handler do not move it -- C24_completed_stamp "
    "ties that ghost stamp to the history); nothing else ever evicts; the number of terminal handlers never exceeds "
    "max_completed. Over whole histories (induction over the operations): every row of any store is the latest write of "
    "its id and has been in the table ever since; a write stays until the next write of its id or a delete it matches "
    "(any handler in SQLite / unbounded memory, a non-terminal one in a bounded store), so the table -- hence every query "
    "answer -- is a function of the history; `_terminal_queue` of every reachable store is exactly the terminal ids, once "
    "each, in completion order (the two `continue` branches of the eviction loop are dead); whatever was evicted is older "
    "than everything retained at any later time; without status updates a bounded store holds the unbounded store's table "
    "minus some terminal rows; the constructor refuses exactly the negative bounds and the default store's bound is the "
    "source's (1000). The statement shapes of MemoryWorkflowStore.__init__/query/update/delete/_evict_oldest_completed are "
    "regenerated and pinned (C24_memory_store_shape). Tie: one random op stream per case (incl. `_terminal_queue` dumps, "
    "store-order listings, store re-opens, bulk upserts on the default-bound store, a refused negative bound) is "
    "run against the model driver, the real MemoryWorkflowStore (bounded and unbounded) and the real SqliteWorkflowStore "
    "(both single_connection modes, temp files) and compared after every op. Search: query/delete results against a "
    "brute-force filter over a shadow dict, memory-vs-SQLite agreement, retention against completion stamps."
)
LEVEL_TEXT = "proof (all op sequences, all filter combinations) + regenerated filter tables + correspondence + monitors"
ASSUMPTIONS = [
    "strings are abstract tokens: only equality matters (SQLite TEXT columns with BINARY collation, Python ==); the harness "
    "uses one injective token->string table with case variants, trailing blanks, '', digits, quotes, '%', newline, non-ASCII",
    "table order = insertion order (Python dict order; SQLite rowid order for an unfiltered SELECT and for `run_id IN (?)`), "
    "relevant only for which of several handlers sharing a run_id update_handler_status picks; tied by correspondence (store-order "
    "listings `L` after upserts, deletes, evictions and re-inserts, on all four stores), not by the property",
    "`_terminal_queue` is read off the real MemoryWorkflowStore object (op `T`) and compared with the model's queue; it is not "
    "part of the monitors (not observable through the store API)",
    "a filter-less delete is outside the property: memory removes everything, SQLite removes nothing (modelled, compared "
    "against both stores, documented in C24_filterless_delete_differs)",
    "the in-memory store keeps the caller's PersistentHandler object (no copy); the harness never mutates a handler after "
    "passing it or receiving it",
    "IN lists stay below SQLite's bound-parameter limit (32766); status values in handlers are the four Status literals",
    "eviction's cleanup of events/ticks/state stores, and all event/tick methods, are outside C24",
    "PostgreSQL store is not run (asyncpg absent); C24 claims memory and SQLite only",
    "datetime.now inside abstract_workflow_store is replaced in-process by a scripted clock (timestamps are inputs of the model)",
]
TRUSTED_EXTRA = [
    "harness/gen/handlerstore.py (ast/regex extraction of _matches_query, _build_filters, status sets and SQL statements)",
    "CPython sqlite3 / SQLite as the semantics of IN, IS NULL, AND and ON CONFLICT DO UPDATE (modelled in Lean, tied by correspondence)",
]

BASE = datetime(2024, 1, 1, tzinfo=timezone.utc)
FIELDS = ["handler_id_in", "run_id_in", "workflow_name_in", "status_in"]
ROWKEYS = ["id", "wf", "st", "run", "err", "res", "t0", "t1", "t2", "idle"]
MALFORMED = ["T 1", "L x", "R 0", "B 1 2 3", "B a 1 1 1", "init mem -", "init mem d d", "", "X 1 2", "U 1 2", "U a 1 1 _ _ _ _ _ _ _", "U 1 1 1 _ _ _ _ _ _", "Q _ _ _ _", "Q _ _ _ _ 2", "Q 1,,2 _ _ _ _",
             "D _ _ _ _ x", "S 1 _ _ _ q 3", "S 1 _ _ _ u", "init", "init mem x", "init pg", "U 1 1 1 _ _ _ _ _ _ _ _", " Q _ _ _ _ _"]


# --------------------------------------------------------------------------
# real code


def load_impl() -> dict[str, Any]:
    from ..boot import boot

    boot()
    from llama_agents.server._store import abstract_workflow_store as A
    from llama_agents.server._store.memory_workflow_store import MemoryWorkflowStore
    from llama_agents.server._store.sqlite.sqlite_workflow_store import SqliteWorkflowStore
    from workflows.events import StopEvent

    import inspect

    default_max = inspect.signature(MemoryWorkflowStore.__init__).parameters["max_completed"].default
    statuses = list(typing.get_args(A.Status))
    names = statuses + ["paused", "Completed", "a", "A", "a ", "", "1", "01", "ü", "it's", "%", "a\nb", "NULL", "None",
                        "h\"q", "_", "a,b", " a"]
    assert len(set(names)) == len(names)
    return {"A": A, "Mem": MemoryWorkflowStore, "Sql": SqliteWorkflowStore, "StopEvent": StopEvent, "statuses": statuses,
            "names": names, "terminal": [s in A.TERMINAL_STATUSES for s in statuses], "default_max": default_max}


class Names:
    def __init__(self, I: dict):
        self.names = I["names"]
        self.rev = {s: i for i, s in enumerate(self.names)}
        self.statuses = I["statuses"]

    def s(self, tok: int | None) -> str | None:
        if tok is None:
            return None
        return self.names[tok] if tok < len(self.names) else f"t{tok}"

    def tok(self, s: str | None) -> str:
        if s is None:
            return "_"
        if s in self.rev:
            return str(self.rev[s])
        if s.startswith("t") and s[1:].isdigit() and int(s[1:]) >= len(self.names):
            return s[1:]
        return "?" + repr(s)


def ts(n: int | None) -> datetime | None:
    return None if n is None else BASE + timedelta(seconds=n)


def unts(d: datetime | None) -> str:
    if d is None:
        return "_"
    sec = (d - BASE).total_seconds()
    return str(int(sec)) if sec == int(sec) and sec >= 0 else "?" + d.isoformat()


class Clock:
    """stands in for `datetime` inside abstract_workflow_store: now() is scripted"""

    value = 0

    @classmethod
    def now(cls, tz: Any = None) -> datetime:
        return BASE + timedelta(seconds=cls.value)


def o(v: Any) -> str:
    return "_" if v is None else str(v)


def lst(v: list[int] | None) -> str:
    return "_" if v is None else ("e" if not v else ",".join(map(str, v)))


def op_line(op: dict) -> str:
    k = op["k"]
    if k == "U":
        return "U " + " ".join(o(op["h"][x]) for x in ROWKEYS)
    if k == "S":
        idle = "u" if op["idle"] == "u" else o(op["idle"])
        return f"S {op['run']} {o(op['st'])} {o(op['res'])} {o(op['err'])} {idle} {op['now']}"
    if k in ("Q", "D"):
        q = op["q"]
        return f"{k} {lst(q['hid'])} {lst(q['run'])} {lst(q['wf'])} {lst(q['st'])} {'_' if q['idle'] is None else int(q['idle'])}"
    if k == "M":
        return op["line"]
    if k in ("T", "L", "R"):
        return k
    if k == "B":
        return f"B {op['start']} {op['count']} {op['wf']} {op['st']}"
    raise ValueError(k)


def show_rows(N: Names, I: dict, rows: list, sort: bool = True) -> str:
    out = []
    for h in rows:
        res = h.result
        r = "_" if res is None else (str(res.result) if isinstance(res.result, int) and not isinstance(res.result, bool) else "?" + repr(res.result))
        st = str(I["statuses"].index(h.status)) if h.status in I["statuses"] else "?" + repr(h.status)
        out.append((N.tok(h.handler_id), ",".join([N.tok(h.handler_id), N.tok(h.workflow_name), st, N.tok(h.run_id), N.tok(h.error), r,
                                                   unts(h.started_at), unts(h.updated_at), unts(h.completed_at), unts(h.idle_since)])))
    if sort:
        out.sort(key=lambda p: (0, int(p[0])) if p[0].isdigit() else (1, p[0]))
    return ";".join(p[1] for p in out)


def mk_query(I: dict, N: Names, q: dict) -> Any:
    def strs(v: list[int] | None) -> list[str] | None:
        return None if v is None else [N.s(t) for t in v]

    return I["A"].HandlerQuery(handler_id_in=strs(q["hid"]), run_id_in=strs(q["run"]), workflow_name_in=strs(q["wf"]),
                               status_in=strs(q["st"]), is_idle=q["idle"])


def mk_handler(I: dict, N: Names, h: dict) -> Any:
    return I["A"].PersistentHandler(
        handler_id=N.s(h["id"]), workflow_name=N.s(h["wf"]), status=I["statuses"][h["st"]], run_id=N.s(h["run"]), error=N.s(h["err"]),
        result=None if h["res"] is None else I["StopEvent"](result=h["res"]), started_at=ts(h["t0"]), updated_at=ts(h["t1"]),
        completed_at=ts(h["t2"]), idle_since=ts(h["idle"]))


async def apply_op(I: dict, N: Names, store: Any, op: dict) -> str:
    A = I["A"]
    k = op["k"]
    try:
        if k == "M":
            return "bad-op"
        if k == "U":
            await store.update(mk_handler(I, N, op["h"]))
            return "ok|" + show_rows(N, I, await store.query(A.HandlerQuery()))
        if k == "S":
            Clock.value = op["now"]
            idle = A._UNSET if op["idle"] == "u" else ts(op["idle"])
            await store.update_handler_status(
                N.s(op["run"]), status=None if op["st"] is None else I["statuses"][op["st"]],
                result=None if op["res"] is None else I["StopEvent"](result=op["res"]), error=N.s(op["err"]), idle_since=idle)
            return "ok|" + show_rows(N, I, await store.query(A.HandlerQuery()))
        if k == "Q":
            return "rows " + show_rows(N, I, await store.query(mk_query(I, N, op["q"])))
        if k == "D":
            n = await store.delete(mk_query(I, N, op["q"]))
            return f"{n}|" + show_rows(N, I, await store.query(A.HandlerQuery()))
        if k == "T":
            # the state the property is anchored in: MemoryWorkflowStore._terminal_queue, oldest first (SQLite has none)
            tq = getattr(store, "_terminal_queue", None)
            if tq is None:
                return "queue " if not isinstance(store, I["Mem"]) else "queue ?no-_terminal_queue"
            return "queue " + ",".join(N.tok(i) for i in tq)
        if k == "L":
            return "list " + show_rows(N, I, await store.query(A.HandlerQuery()), sort=False)
        if k == "R":
            return "ok|" + show_rows(N, I, await store.query(A.HandlerQuery()))
        if k == "B":
            for i in range(op["start"], op["start"] + op["count"]):
                await store.update(mk_handler(I, N, {"id": i, "wf": op["wf"], "st": op["st"], "run": None, "err": None, "res": None,
                                                     "t0": None, "t1": None, "t2": None, "idle": None}))
            rows = await store.query(A.HandlerQuery())
            return f"n {len(rows)} {sum(1 for h in rows if h.status in A.TERMINAL_STATUSES)}"
    except Exception as e:  # the stores never raise on in-domain input
        return f"raise:{type(e).__name__}:{str(e)[:80]}"
    raise ValueError(k)


STORE_KINDS = ["mem", "memN", "sql0", "sql1"]   # "memD" (the constructor's default bound) only where a case asks for it


class Runner:
    """runs op streams against fresh real stores"""

    def __init__(self, I: dict):
        self.I = I
        self.N = Names(I)
        shm = "/dev/shm"  # tmpfs: the stores fsync on every commit
        self.tmp = tempfile.mkdtemp(prefix="c24_", dir=shm if os.path.isdir(shm) and os.access(shm, os.W_OK) else None)
        self.n = 0
        self.path = ""
        self.init_out: dict[str, str] = {}
        self.loop = asyncio.new_event_loop()
        self.saved = I["A"].datetime
        I["A"].datetime = Clock

    def close(self) -> None:
        self.I["A"].datetime = self.saved
        self.loop.close()
        shutil.rmtree(self.tmp, ignore_errors=True)

    def make(self, kind: str, max_completed: int | None) -> Any:
        self.n += 1
        if kind == "mem":
            return self.I["Mem"](max_completed=max_completed)
        if kind == "memN":
            return self.I["Mem"](max_completed=None)
        if kind == "memD":
            return self.I["Mem"]()
        self.path = os.path.join(self.tmp, f"s{self.n}.db")
        return self.I["Sql"](self.path, single_connection=(kind == "sql1"))

    def reopen(self, kind: str, store: Any) -> Any:
        """a new store object on the same data: the SQLite file is opened (and migrated) again; a memory store is its own data"""
        if not kind.startswith("sql"):
            return store
        conn = getattr(store, "_persistent_conn", None)
        if conn is not None:
            conn.close()
        return self.I["Sql"](self.path, single_connection=(kind == "sql1"))

    def run(self, case: dict, kinds: list[str]) -> dict[str, list[str]]:
        async def go() -> dict[str, list[str]]:
            res: dict[str, list[str]] = {}
            for kind in kinds:
                try:
                    store = self.make(kind, case["max"])
                    self.init_out[kind] = "ok"
                except ValueError:
                    self.init_out[kind] = "raise:ValueError"
                    res[kind] = []
                    continue
                outs = []
                for op in case["ops"]:
                    if op["k"] == "R":
                        store = self.reopen(kind, store)
                    outs.append(await apply_op(self.I, self.N, store, op))
                res[kind] = outs
                conn = getattr(store, "_persistent_conn", None)
                if conn is not None:
                    conn.close()
            return res

        return self.loop.run_until_complete(go())


# --------------------------------------------------------------------------
# monitors: the property stated on the recorded behaviour of one real store


def parse_rows(s: str) -> dict[str, tuple] | None:
    rows: dict[str, tuple] = {}
    if s == "":
        return rows
    for r in s.split(";"):
        f = r.split(",")
        if len(f) != 10 or f[0] in rows:
            return None
        rows[f[0]] = tuple(f)
    return rows


def row_of(h: dict) -> tuple:
    return tuple(o(h[x]) for x in ROWKEYS)


def passes(row: tuple, q: dict) -> bool:
    """the property's reading of a query: every given filter must pass; an empty list passes nothing"""
    for key, col in (("hid", 0), ("run", 3), ("wf", 1), ("st", 2)):
        v = q[key]
        if v is not None:
            if len(v) == 0:
                return False
            if row[col] == "_" or int(row[col]) not in v:
                return False
    if q["idle"] is not None and (row[9] != "_") != q["idle"]:
        return False
    return True


def qfacts(q: dict) -> str:
    used = [k for k in ("hid", "run", "wf", "st") if q[k] is not None] + (["idle"] if q["idle"] is not None else [])
    empty = any(q[k] is not None and len(q[k]) == 0 for k in ("hid", "run", "wf", "st"))
    return "filters=" + ("+".join(used) or "none") + (",empty-list" if empty else "")


class Shadow:
    """current map + the time each terminal handler (last) became terminal"""

    def __init__(self, terminal: list[bool], max_completed: int | None):
        self.rows: dict[str, tuple] = {}
        self.stamp: dict[str, int] = {}
        self.t = 0
        self.terminal = terminal
        self.max = max_completed

    def is_term(self, row: tuple) -> bool:
        return self.terminal[int(row[2])]

    def after_upsert(self, row: tuple) -> tuple[dict[str, tuple], dict[str, int]]:
        rows, stamp = dict(self.rows), dict(self.stamp)
        was = row[0] in rows and self.is_term(rows[row[0]])
        rows[row[0]] = row
        if self.is_term(row):
            if not was:
                stamp[row[0]] = self.t
            if self.max is not None:
                term = sorted((i for i in rows if self.is_term(rows[i])), key=lambda i: stamp[i])
                for i in term[: max(0, len(term) - self.max)]:
                    del rows[i]
                    del stamp[i]
        else:
            stamp.pop(row[0], None)
        return rows, stamp


def shadow_bulk(sh: Shadow, op: dict) -> None:
    """`count` upserts of bare handlers, in place (same rule as Shadow.after_upsert)"""
    for i in range(op["start"], op["start"] + op["count"]):
        row = (str(i), str(op["wf"]), str(op["st"]), "_", "_", "_", "_", "_", "_", "_")
        was = row[0] in sh.rows and sh.is_term(sh.rows[row[0]])
        sh.rows[row[0]] = row
        sh.t += 1
        if sh.is_term(row):
            if not was:
                sh.stamp[row[0]] = sh.t
            if sh.max is not None:
                term = [x for x in sh.rows if sh.is_term(sh.rows[x])]
                while len(term) > sh.max:
                    old = min(term, key=lambda x: sh.stamp[x])
                    term.remove(old)
                    del sh.rows[old]
                    del sh.stamp[old]
        else:
            sh.stamp.pop(row[0], None)


def apply_status(op: dict, row: tuple, completed_flags: list[bool]) -> tuple:
    r = list(row)
    if op["st"] is not None:
        r[2] = str(op["st"])
        if completed_flags[op["st"]]:
            r[8] = str(op["now"])
    r[7] = str(op["now"])
    if op["res"] is not None:
        r[5] = str(op["res"])
    if op["err"] is not None:
        r[4] = str(op["err"])
    if op["idle"] != "u":
        r[9] = o(op["idle"])
    return tuple(r)


def diff_text(want: dict[str, tuple], got: dict[str, tuple]) -> str:
    parts = []
    for i in sorted(set(want) | set(got)):
        if want.get(i) != got.get(i):
            parts.append(f"handler {i}: stored {','.join(got[i]) if i in got else '<absent>'} / expected {','.join(want[i]) if i in want else '<absent>'}")
    return "; ".join(parts[:4])


def classify(sh: Shadow, want: dict[str, tuple], got: dict[str, tuple], bounded: bool) -> str:
    missing = [i for i in want if i not in got]
    extra = [i for i in got if i not in want]
    changed = [i for i in want if i in got and want[i] != got[i]]
    if changed:
        cols = sorted({ROWKEYS[c] for i in changed for c in range(10) if want[i][c] != got[i][c]})
        return "content[" + "+".join(cols) + "]"
    if not bounded:
        return "table[" + ("missing" if missing else "") + ("extra" if extra else "") + "]"
    if any(not sh.is_term(want[i]) for i in missing):
        return "retention[nonterminal_evicted]"
    if any(not sh.is_term(got[i]) for i in extra):
        return "table[extra-nonterminal]"
    if missing and extra:
        return "retention[wrong_victim]"
    if missing:
        return "retention[kept_fewer]"
    return "retention[kept_more]"


def monitor_store(I: dict, kind: str, case: dict, outs: list[str]) -> Violation | None:
    """query/delete exactness, upsert, status update and retention of ONE real store, from its recorded answers"""
    bound = case["max"] if kind == "mem" else (I["default_max"] if kind == "memD" else None)
    bounded = bound is not None
    sh = Shadow(I["terminal"], bound)
    completed_flags = I["terminal"]  # update_handler_status stamps completed_at for the terminal statuses
    backend = "mem" if kind.startswith("mem") else "sqlite"

    def V(rule: str, what: str, i: int) -> Violation:
        return Violation(f"C24/{rule}[{backend}]", f"{kind} store (max_completed={bound}), op #{i} `{op_line(case['ops'][i])}`: {what}",
                         {"max": case["max"], "ops": case["ops"][: i + 1], "kind": kind})

    for i, (op, out) in enumerate(zip(case["ops"], outs)):
        k = op["k"]
        if k in ("M", "T"):
            continue
        if out.startswith("raise:"):
            return V(f"raises[op={k}]", out, i)
        sh.t += 1
        if k == "L":
            got = parse_rows(out[5:]) if out.startswith("list ") else None
            if got is None:
                return V("listing_malformed", out[:120], i)
            if got != sh.rows:
                return V("listing[" + ("extra" if any(x not in sh.rows for x in got) else "") + ("missing" if any(x not in got for x in sh.rows) else "") + "]",
                         f"the store lists {sorted(got)}, it holds {sorted(sh.rows)}; " + diff_text(sh.rows, got), i)
            continue
        if k == "B":
            shadow_bulk(sh, op)
            want_n = f"n {len(sh.rows)} {sum(1 for r in sh.rows.values() if sh.is_term(r))}"
            if out != want_n:
                return V("bulk:retention[count]", f"after {op['count']} upserts the store answers `{out}` (rows, terminal rows), expected `{want_n}`", i)
            continue
        if k == "Q":
            got = parse_rows(out[5:]) if out.startswith("rows ") else None
            want = {i_: r for i_, r in sh.rows.items() if passes(r, op["q"])}
            if got is None:
                return V("query_malformed", out[:120], i)
            if got != want:
                kinds = ("extra" if any(x not in want for x in got) else "") + ("missing" if any(x not in got for x in want) else "") or "content"
                return V(f"query[{qfacts(op['q'])},{kinds}]", f"returned {sorted(got)} but the handlers passing every filter are {sorted(want)}", i)
            continue
        head, _, dump = out.partition("|")
        got = parse_rows(dump)
        if got is None:
            return V("dump_malformed", out[:120], i)
        if k == "R":
            if got != sh.rows:
                return V("reopen_changed", f"a new store object on the same data holds {sorted(got)}, expected {sorted(sh.rows)}; " + diff_text(sh.rows, got), i)
            continue
        if k == "D":
            q = op["q"]
            if not Query_has_filter(q):
                sh.rows, sh.stamp = dict(got), {i_: sh.stamp.get(i_, 0) for i_ in got}  # outside the property: adopt
                continue
            gone = [i_ for i_, r in sh.rows.items() if passes(r, q)]
            want = {i_: r for i_, r in sh.rows.items() if i_ not in gone}
            if head != str(len(gone)):
                return V(f"delete_count[{qfacts(q)}]", f"returned {head}, {len(gone)} handlers match", i)
            if got != want:
                return V(f"delete_removed[{qfacts(q)}]", f"left {sorted(got)}, expected {sorted(want)}", i)
            sh.rows = want
            for g in gone:
                sh.stamp.pop(g, None)
            continue
        if k == "U":
            want, stamp = sh.after_upsert(row_of(op["h"]))
            if got != want:
                return V("update:" + classify(sh, want, got, bounded), f"table is {sorted(got)}, expected {sorted(want)} "
                         f"(all non-terminal + the {bound if bounded else 'unbounded'} most recently completed; completion stamps {sh.stamp}); "
                         + diff_text(want, got), i)
            sh.rows, sh.stamp = want, stamp
            continue
        if k == "S":
            cands = [i_ for i_, r in sh.rows.items() if r[3] == str(op["run"])]
            if not cands:
                if got != sh.rows:
                    return V("status_update[no-target-but-changed]", f"table is {sorted(got)}, expected unchanged", i)
                continue
            ok = False
            first: tuple[dict, dict] | None = None
            for c in cands:
                want, stamp = sh.after_upsert(apply_status(op, sh.rows[c], completed_flags))
                first = first or (want, stamp)
                if got == want:
                    sh.rows, sh.stamp = want, stamp
                    ok = True
                    break
            if not ok:
                assert first is not None
                return V("status_update:" + classify(sh, first[0], got, bounded),
                         f"table is {sorted(got)}, expected {sorted(first[0])}; " + diff_text(first[0], got), i)
    return None


def Query_has_filter(q: dict) -> bool:
    return any(q[k] is not None for k in ("hid", "run", "wf", "st", "idle"))


def monitor_agreement(case: dict, outs: dict[str, list[str]]) -> Violation | None:
    """unbounded memory store vs SQLite (both connection modes): identical answers to every op"""
    if case.get("outside"):
        return None
    ref = outs.get("memN")
    if ref is None:
        return None
    for other in ("sql0", "sql1"):
        if other not in outs:
            continue
        for i, (a, b) in enumerate(zip(ref, outs[other])):
            if case["ops"][i]["k"] == "T":
                continue  # `_terminal_queue` is the in-memory store's private state; SQLite has none
            if case["ops"][i]["k"] == "L" and sorted(a[5:].split(";")) == sorted(b[5:].split(";")):
                continue  # the property speaks of which handlers, not of their order (the order is tied to the model, K)
            if a != b:
                op = case["ops"][i]
                facts = qfacts(op["q"]) if op["k"] in ("Q", "D") else ""
                return Violation(f"C24/backends_disagree[op={op['k']}{',' + facts if facts else ''}]",
                                 f"op #{i} `{op_line(op)}`: memory answers `{a[:200]}`, SQLite ({'single' if other == 'sql1' else 'per-call'} connection) `{b[:200]}`",
                                 {"max": case["max"], "ops": case["ops"][: i + 1], "kind": "agree"})
    return None


def monitor_within(I: dict, case: dict, outs: dict[str, list[str]]) -> Violation | None:
    """histories without status updates: what a bounded store answers is part of what the unbounded store answers to the same
    history, and whatever it lacks is terminal (C24_bounded_within_unbounded, stated on the two real stores)"""
    if "mem" not in outs or "memN" not in outs or case["max"] is None or any(op["k"] in ("S", "B", "M") for op in case["ops"]):
        return None
    for i, (op, a, b) in enumerate(zip(case["ops"], outs["mem"], outs["memN"])):
        if op["k"] not in ("Q", "L"):
            continue
        ra, rb = parse_rows(a[5:]), parse_rows(b[5:])
        if ra is None or rb is None:
            continue
        extra = [x for x in ra if rb.get(x) != ra[x]]
        lost = [x for x in rb if x not in ra and not I["terminal"][int(rb[x][2])]]
        if extra or lost:
            facts = ("extra" if extra else "") + ("nonterminal-missing" if lost else "")
            return Violation(f"C24/bounded_vs_unbounded[op={op['k']},{facts}]",
                             f"op #{i} `{op_line(op)}` after a history without status updates: the store with max_completed={case['max']} answers "
                             f"{sorted(ra)}, the unbounded store {sorted(rb)}; not in the unbounded answer: {extra}; non-terminal and missing: {lost}",
                             {"max": case["max"], "ops": case["ops"][: i + 1], "kind": "within"})
    return None


# --------------------------------------------------------------------------
# generation


def gen_query(rng, pools: dict, must_filter: bool) -> dict:
    while True:
        q: dict[str, Any] = {}
        density = rng.choice([0.25, 0.45, 0.7])
        for key, pool in (("hid", pools["id"]), ("run", pools["run"]), ("wf", pools["wf"]), ("st", pools["st"])):
            r = rng.random()
            if r > density:
                q[key] = None
            elif rng.random() < 0.12:
                q[key] = []
            else:
                k = rng.randint(1, max(1, min(4, len(pool))))
                vals = [rng.choice(pool) for _ in range(k)]
                if rng.random() < 0.15:
                    vals.append(rng.choice(pools["any"]))
                q[key] = vals
        q["idle"] = rng.choice([None, None, True, False]) if rng.random() < density + 0.2 else None
        if not must_filter or Query_has_filter(q):
            return q


def gen_case(rng, nops: int) -> dict:
    tokens = list(range(0, 22))
    ids = rng.sample(tokens, rng.randint(2, 7))
    runs = rng.sample(tokens, rng.randint(2, 6))
    wfs = rng.sample(tokens, rng.randint(1, 3))
    pools = {"id": ids, "run": runs, "wf": wfs, "st": [0, 1, 2, 3, 4, 5], "any": tokens + [40, 41]}
    maxc = rng.choice([0, 1, 1, 2, 2, 3, 4, None])
    run_of = {i: (rng.choice(runs) if rng.random() < 0.85 else None) for i in ids}
    p_term = rng.choice([0.3, 0.5, 0.7])
    nostatus = rng.random() < 0.25   # histories of upserts / queries / deletes only (bounded vs unbounded comparison)
    ops: list[dict] = []
    clock = 100

    def handler(i: int) -> dict:
        st = rng.choice([1, 2, 3]) if rng.random() < p_term else 0
        run = run_of[i] if rng.random() < 0.85 else rng.choice(runs + [None])
        return {"id": i, "wf": rng.choice(wfs), "st": st, "run": run,
                "err": rng.choice(pools["any"]) if rng.random() < 0.15 else None,
                "res": rng.randint(0, 99) if rng.random() < 0.2 else None,
                "t0": rng.randint(0, 50) if rng.random() < 0.5 else None,
                "t1": rng.randint(0, 90) if rng.random() < 0.3 else None,
                "t2": rng.randint(0, 90) if st != 0 and rng.random() < 0.5 else None,
                "idle": rng.randint(0, 90) if rng.random() < 0.3 else None}

    while len(ops) < nops:
        r = rng.random()
        if r < 0.34:
            ops.append({"k": "U", "h": handler(rng.choice(ids))})
        elif r < 0.40:
            # the same handler written again, terminal, a few times (re-persisted completion)
            h = handler(rng.choice(ids))
            h["st"] = rng.choice([1, 2, 3])
            for _ in range(rng.randint(2, 4)):
                ops.append({"k": "U", "h": dict(h)})
        elif r < 0.44 and len(ids) >= 3:
            # created in one order, completed in another, something deleted in between, then more completions
            some = rng.sample(ids, rng.randint(3, min(5, len(ids))))
            for i in some:
                h = handler(i)
                h["st"] = 0
                ops.append({"k": "U", "h": h})
            order = some[:]
            rng.shuffle(order)
            cut = rng.randint(1, len(order) - 1)
            for i in order[:cut]:
                h = handler(i)
                h["st"] = rng.choice([1, 2, 3])
                ops.append({"k": "U", "h": h})
            ops.append({"k": "D", "q": {"hid": [rng.choice(ids)], "run": None, "wf": None, "st": None, "idle": None}})
            for i in order[cut:]:
                h = handler(i)
                h["st"] = rng.choice([1, 2, 3])
                ops.append({"k": "U", "h": h})
        elif r < 0.58 and nostatus:
            ops.append({"k": "U", "h": handler(rng.choice(ids))})
        elif r < 0.58:
            clock += rng.randint(0, 3)
            ops.append({"k": "S", "run": rng.choice(runs) if rng.random() < 0.9 else rng.choice(pools["any"]),
                        "st": rng.choice([None, 0, 1, 2, 3, 1]), "res": rng.randint(0, 99) if rng.random() < 0.3 else None,
                        "err": rng.choice(pools["any"]) if rng.random() < 0.2 else None,
                        "idle": rng.choice(["u", "u", None, clock]), "now": clock})
        elif r < 0.80:
            ops.append({"k": "Q", "q": gen_query(rng, pools, False)})
        elif r < 0.83:
            ops.append({"k": "T"})
        elif r < 0.855:
            ops.append({"k": "L"})
        elif r < 0.865:
            ops.append({"k": "R"})
        else:
            ops.append({"k": "D", "q": gen_query(rng, pools, True)})
    return {"max": maxc, "ops": ops[:nops]}


def corpus() -> list[dict]:
    def H(i: int, st: int, run: int | None = None, wf: int = 6, idle: int | None = None, **kw: Any) -> dict:
        h = {"id": i, "wf": wf, "st": st, "run": (i + 10 if run is None else (None if run < 0 else run)), "err": None, "res": None,
             "t0": None, "t1": None, "t2": None, "idle": idle}
        h.update(kw)
        return {"k": "U", "h": h}

    def Q(k: str = "Q", hid: Any = None, run: Any = None, wf: Any = None, st: Any = None, idle: Any = None) -> dict:
        return {"k": k, "q": {"hid": hid, "run": run, "wf": wf, "st": st, "idle": idle}}

    def S(run: int, st: int | None = None, now: int = 100, idle: Any = "u", res: int | None = None, err: int | None = None) -> dict:
        return {"k": "S", "run": run, "st": st, "res": res, "err": err, "idle": idle, "now": now}

    ALL = Q()
    extra = []
    cdir = os.path.join(os.path.dirname(os.path.dirname(os.path.abspath(__file__))), "corpus")
    for fn in sorted(os.listdir(cdir)):
        if fn.startswith("c24_") and fn.endswith(".json"):
            import json

            c = json.load(open(os.path.join(cdir, fn)))["payload"]["case"]
            extra.append({"name": fn, "max": c["max"], "ops": c["ops"] + [ALL]})
    return extra + [
        # F22: three terminal updates of one handler must not evict it
        {"name": "f22", "max": 2, "ops": [H(7, 1), H(7, 1), H(7, 1), ALL, H(8, 1), H(9, 2), ALL]},
        {"name": "f22-status", "max": 2, "ops": [H(7, 0), S(17, 1, 100), S(17, None, 101, idle=None), S(17, 1, 102), ALL]},
        # seeded C24-a: completion order differs from creation order, a delete in between
        {"name": "order-after-delete", "max": 2,
         "ops": [H(6, 0), H(7, 0), H(8, 0), H(9, 0), H(8, 1), H(7, 1), Q("D", hid=[9]), H(6, 1), ALL]},
        {"name": "again-terminal", "max": 1, "ops": [H(7, 1), H(7, 0), H(7, 1), ALL, H(8, 1), ALL]},
        {"name": "delete-reinsert", "max": 1, "ops": [H(7, 1), Q("D", hid=[7]), H(7, 2), ALL, H(8, 3), ALL, S(17, 0, 100), ALL]},
        {"name": "max0", "max": 0, "ops": [H(7, 0), H(8, 1), ALL, H(7, 3), ALL, S(17, 1, 100)]},
        {"name": "evicted-then-touched", "max": 1, "ops": [H(7, 1), H(8, 1), S(17, 0, 100), ALL, H(7, 1), ALL, Q(hid=[7, 8])]},
        {"name": "filters", "max": None,
         "ops": [H(6, 0, idle=5), H(7, 1, run=-1), H(8, 2, wf=7), H(9, 3, idle=9, wf=7), H(10, 0, run=16),
                 Q(hid=[]), Q(run=[]), Q(wf=[]), Q(st=[]), Q(hid=[6], st=[]), Q(idle=True), Q(idle=False), Q(run=[16]), Q(run=[16, 40]),
                 Q(st=[4, 5]), Q(st=[1, 2, 3], idle=False), Q(hid=[6, 7, 8], wf=[7]), Q(wf=[7], idle=True), Q(hid=[7], run=[17]),
                 Q(hid=[16]), Q(run=[6]), S(16, 1, 50), ALL, Q("D", run=[]), Q("D", st=[0], idle=True), ALL, Q("D", wf=[7], idle=False), ALL,
                 Q("D", hid=[6, 7, 8, 9, 10], run=[16]), ALL]},
        {"name": "strings", "max": None,
         "ops": [H(6, 0, run=7), H(7, 0, run=8), H(8, 0, run=6), H(9, 0, run=9), H(10, 0, run=11), H(11, 1, run=10), H(1, 1, run=1),
                 H(13, 2, run=14), H(15, 3, run=16), H(19, 0, run=20), H(21, 0, run=18),
                 Q(hid=[6]), Q(hid=[7]), Q(hid=[8]), Q(hid=[9]), Q(hid=[10]), Q(hid=[11]), Q(run=[10, 11]), Q(hid=[1]), Q(run=[1]), Q(wf=[6]),
                 Q(hid=[13, 15, 16]), Q(run=[14, 16]), Q(hid=[19, 21]), Q(run=[18, 20]), Q("D", hid=[9]), Q("D", hid=[21, 6])]},
        {"name": "shared-run", "max": None, "ops": [H(7, 0, run=30), H(6, 0, run=30), S(30, 1, 10), ALL, Q("D", hid=[7]), H(7, 0, run=30), S(30, 2, 11), ALL]},
        # table order: an upsert keeps its place, a re-insert after a delete / an eviction goes to the end; the queue after each
        {"name": "order-and-queue", "max": 2,
         "ops": [H(9, 0), H(7, 1), H(8, 0), {"k": "L"}, H(9, 2), {"k": "T"}, {"k": "L"}, H(7, 3), {"k": "T"}, H(8, 1), {"k": "T"}, {"k": "L"},
                 H(7, 0), {"k": "L"}, Q("D", hid=[9]), H(9, 1), {"k": "L"}, {"k": "T"}, H(8, 0), {"k": "T"}, S(19, 0, 100), {"k": "T"}, {"k": "R"},
                 {"k": "L"}, {"k": "T"}]},
        {"name": "reopen", "max": None, "ops": [H(6, 0, idle=5), H(7, 1, res=4, err=8, t0=1, t1=2, t2=3), {"k": "R"}, Q(idle=True), S(17, 2, 60),
                                                {"k": "R"}, {"k": "L"}, Q("D", st=[2]), {"k": "R"}, ALL]},
        # the constructor: a negative bound is refused; the default bound is what the source says (model: Gen memMaxCompletedDefault)
        {"name": "negative-max", "max": -1, "kinds": ["mem"], "ops": []},
        {"name": "default-bound", "max": None, "kinds": ["memD"],
         "ops": [{"k": "B", "start": 100, "count": 1001, "wf": 6, "st": 1}, Q(hid=[100]), Q(hid=[101, 1100]), H(5, 0),
                 {"k": "B", "start": 2000, "count": 30, "wf": 6, "st": 2}, Q(hid=[5, 101, 130, 131, 2029]), Q(st=[0])]},
        # outside the property (no filter): memory deletes everything, SQLite nothing
        {"name": "filterless-delete", "max": 3, "outside": True, "ops": [H(7, 0), H(8, 1), Q("D"), ALL]},
    ]


# --------------------------------------------------------------------------


def run_case(R: Runner, I: dict, case: dict, kinds: list[str]) -> tuple[dict[str, list[str]], list[Violation]]:
    outs = R.run(case, kinds)
    vs: list[Violation] = []
    for kind in kinds:
        v = monitor_store(I, kind, case, outs[kind])
        if v is not None:
            vs.append(v)
    v = monitor_agreement(case, outs)
    if v is not None:
        vs.append(v)
    v = monitor_within(I, case, outs)
    if v is not None:
        vs.append(v)
    return outs, vs


def shrink(R: Runner, I: dict, v: Violation, budget: int = 150) -> Violation:
    """greedy one-op-at-a-time removal keeping the same signature"""
    case = dict(v.replay)
    kinds = ["memN", "sql0", "sql1"] if case.get("kind") == "agree" else (["mem", "memN"] if case.get("kind") == "within" else [case["kind"]])
    ops = list(case["ops"])
    best = v
    i = len(ops) - 2
    while i >= 0 and budget > 0:
        trial = ops[:i] + ops[i + 1:]
        budget -= 1
        _o, vs = run_case(R, I, {"max": case["max"], "ops": trial}, kinds)
        hit = next((x for x in vs if x.signature == v.signature), None)
        if hit is not None:
            ops = list(hit.replay["ops"])
            best = hit
            i = min(i, len(ops) - 1)
        i -= 1
    best.replay = {"max": case["max"], "ops": ops, "kind": case.get("kind")}
    return best


def model_lines(case: dict, backend: str) -> list[str]:
    if backend == "mem":
        init = f"init mem {o(case['max'])}"
    elif backend == "memD":
        init = "init mem d"
    elif backend == "memN":
        init = "init mem _"
    else:
        init = "init sql"
    return [init] + [op_line(op) for op in case["ops"]]


def run(env: Env) -> Outcome:
    out = Outcome()
    out.rule = ("op streams over a small pool of handler/run/workflow tokens (overlapping pools, odd strings), max_completed in "
                "{0,1,2,3,4,None}: upserts (running/terminal, repeated terminal upserts), update_handler_status (unknown and shared run "
                "ids, status/result/error/idle), queries and deletes with every filter combination incl. empty lists, unknown values and "
                "is_idle, `_terminal_queue` dumps (T), store-order listings (L), re-opens of the store on the same data (R); a quarter of the "
                "streams has no status updates (bounded vs unbounded comparison); corpus: bulk upserts (B) on the default-bound store, a "
                "negative bound; non-trivial = a stream with an eviction, a delete or a non-empty query result; distinct by the op lines")
    I = load_impl()
    R = Runner(I)
    try:
        cases: list[dict] = []
        if env.replay is not None:
            rc = env.replay["payload"].get("case")
            if isinstance(rc, dict) and "ops" in rc:
                cases.append({"name": "replay", "max": rc.get("max"), "ops": rc["ops"], **({"kinds": ["memD"]} if rc.get("kind") == "memD" else {})})
        cases += corpus()
        n = env.budget(45, 1200)
        for _ in range(n):
            cases.append(gen_case(env.rng, env.rng.choice([25, 40, 60])))
        cases.append({"name": "malformed", "max": 1, "ops": [{"k": "M", "line": l} for l in MALFORMED]})

        lines: list[str] = []
        impl: list[str] = []
        owner: list[tuple[int, str]] = []
        found: list[Violation] = []
        for ci, case in enumerate(cases):
            # the per-call-connection SQLite store is slow (two connections per op): in the quick tier it runs the
            # corpus and every third generated stream; the single-connection store runs everything
            kinds_here = STORE_KINDS if (env.tier != "quick" or "name" in case or ci % 3 == 0) else [k for k in STORE_KINDS if k != "sql0"]
            if "kinds" in case:
                kinds_here = case["kinds"]
            outs, vs = run_case(R, I, case, kinds_here)
            for v in vs:
                if not any(f.signature == v.signature for f in found) and len(found) < 12:
                    found.append(shrink(R, I, v) if len(found) < 2 else v)
            for backend, kinds in (("mem", ["mem"]), ("memN", ["memN"]), ("memD", ["memD"]), ("sql", ["sql0", "sql1"])):
                for kind in kinds:
                    if kind not in outs:
                        continue
                    ml = model_lines(case, backend)
                    lines += ml
                    impl += [R.init_out[kind]] + outs[kind]
                    owner += [(ci, kind)] * len(ml)
            # bookkeeping
            out.evaluations += len(case["ops"]) * len(kinds_here)
            out.count("max_completed:" + ("default" if kinds_here == ["memD"] else o(case["max"])))
            evicted = False
            first = outs[kinds_here[0]]
            if any(op["k"] == "S" for op in case["ops"]):
                out.count("stream:with-status-updates")
            else:
                out.count("stream:status-free")
            for op, res in zip(case["ops"], first):
                out.count("op:" + op["k"])
                if op["k"] in ("Q", "D"):
                    out.count(f"{op['k']}:nfilters={sum(1 for k in ('hid', 'run', 'wf', 'st', 'idle') if op['q'][k] is not None)}")
                    if "empty-list" in qfacts(op["q"]):
                        out.count(f"{op['k']}:empty-list")
                if op["k"] == "Q" and res != "rows ":
                    out.count("Q:non-empty-result")
                if op["k"] == "D" and not res.startswith("0|"):
                    out.count("D:removed-some")
                if op["k"] == "T" and res != "queue ":
                    out.count(f"T:queue-length={min(len(res[6:].split(',')), 5)}{'+' if len(res[6:].split(',')) > 5 else ''}")
                if op["k"] == "B":
                    out.count("B:upserts", op["count"])
            for a, b in zip(outs.get("mem", []), outs.get("memN", [])):
                if a != b:
                    evicted = True
                    break
            if evicted:
                out.count("stream:eviction-visible")
            if evicted or any(op["k"] == "D" for op in case["ops"]):
                out.nontrivial(tuple(op_line(op) for op in case["ops"]) + (case["max"],))
            if ci < 3:
                out.sample({"max_completed": case["max"], "ops": [op_line(op) for op in case["ops"]][:12], "memory": first[:12]})
        out.violations += found

        try:
            model_out = Driver("handlerstore").run(lines)
        except Exception as e:
            out.divergences.append(Divergence("handlerstore", 0, "<driver>", repr(e), ""))
            return out
        out.traces_validated = sum(1 for i, x in enumerate(owner) if i == 0 or owner[i - 1] != x)
        out.disagreements_checked = len(lines)
        d = diff_streams("handlerstore", lines, model_out, impl)
        if d is not None:
            ci, kind = owner[d.index] if d.index < len(owner) else (-1, "?")
            if ci >= 0:
                d.context = {"store": kind, "max": cases[ci]["max"], "ops": [op_line(op) for op in cases[ci]["ops"]]}
            out.divergences.append(d)
    finally:
        R.close()
    return out
