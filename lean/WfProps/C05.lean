import WfProofs.PolicyLemmas
import WfProofs.EngineReduce
import WfProofs.EngineWaitUnrepaired
/-!
# C05 — retry budgets count attempts and elapsed time correctly

Two layers, both for all inputs:

* **policy** (`Policy.Composed.next`, bodies regenerated from the source): with
  `stop_after_attempt(n)` an always-failing invocation is executed exactly `max(n,1)`
  times; a non-retryable error ends after one execution; `stop_after_delay(d)` gives up
  exactly when the elapsed time it is handed is `≥ d`;
* **engine bookkeeping** (reducer model): the policy is asked with
  `failures = attempts + 1` and `elapsed = failed_at − first_attempt_at`; a granted retry
  is re-queued with `attempts + 1`, the same `first_attempt_at` and the exception; the
  re-started invocation therefore sees `retry_number = 0,1,2,…` and the previous
  exception; the failure events report `attempts + 1` and that same elapsed time.

`first_attempt_at` is the adapter's `get_now()` and `failed_at` the step wrapper's
`time.time()`; they are the same clock on BasicRuntime since fix 1b4aba5 (F01) and on the
DBOS adapter (epoch seconds).  The model treats both as the one clock `now`.
-/
set_option linter.unusedVariables false
open Policy Gen.RP Engine

/-- how the control loop calls the policy (regenerated from `_process_step_result_tick`) -/
theorem C05_source_shape :
    loopFailures = "this_execution.attempts + 1" ∧ loopNextArgs = "elapsed_time, failures, result.exception" ∧
    -- every time limit (a number of seconds or a timedelta) reaches the policy as its total number of seconds
    toSecondsBody = "return float(value.total_seconds() if isinstance(value, timedelta) else value)" :=
  ⟨rfl, rfl, rfl⟩

/-- executions of an always-failing invocation: the `k`-th failure (`k = 1,2,…`) is followed
by another execution iff the policy grants a retry -/
def C05.executions (p : Composed) (el : Nat → Rat) (e : Nat) (u : Nat → Rat) : Nat → Nat → Nat
  | 0, k => k
  | fuel + 1, k =>
    match p.next (el k) k e (u k) with
    | none => k
    | some _ => C05.executions p el e u fuel (k + 1)

theorem C05.next_afterAttempt (retry : Option Cond) (w : Wait) (n : Nat) (el : Rat) (k e : Nat) (u : Rat)
    (hr : ∀ r, retry = some r → r e = true) :
    ({ retry := retry, wait := w, stop := stopAfterAttempt (n : Rat) } : Composed).next el k e u =
      if n ≤ k then none else some (w k u) := by
  have hcast : decide ((k : Rat) ≥ (n : Rat)) = decide (n ≤ k) := by
    simp [Rat.natCast_le_natCast]
  cases retry with
  | none =>
    simp only [Composed.next, stopAfterAttempt, hcast]
    by_cases h : n ≤ k <;> simp [h]
  | some r =>
    have hre := hr r rfl
    simp only [Composed.next, stopAfterAttempt, hcast, hre]
    by_cases h : n ≤ k <;> simp [h]

/-- **attempt budget**: `stop_after_attempt(n)`, any retryable error, any wait strategy, any
clock: exactly `max(n,1)` executions -/
theorem C05_attempt_budget (retry : Option Cond) (w : Wait) (n : Nat) (el : Nat → Rat) (e : Nat)
    (u : Nat → Rat) (hr : ∀ r, retry = some r → r e = true) (fuel : Nat) (hf : n ≤ fuel) :
    C05.executions { retry := retry, wait := w, stop := stopAfterAttempt (n : Rat) } el e u fuel 1 = max n 1 := by
  suffices h : ∀ fuel k, 1 ≤ k → k ≤ max n 1 → max n 1 ≤ k + fuel →
      C05.executions { retry := retry, wait := w, stop := stopAfterAttempt (n : Rat) } el e u fuel k = max n 1 by
    exact h fuel 1 (Nat.le_refl 1) (by omega) (by omega)
  intro fuel
  induction fuel with
  | zero => intro k _ h2 h3; simp only [C05.executions]; omega
  | succ f ih =>
    intro k h1 h2 h3
    simp only [C05.executions, C05.next_afterAttempt retry w n (el k) k e (u k) hr]
    by_cases hnk : n ≤ k
    · simp only [hnk, ↓reduceIte]; omega
    · simp only [hnk, ↓reduceIte]
      exact ih (k + 1) (by omega) (by omega) (by omega)

/-- a non-retryable error is executed once -/
theorem C05_non_retryable_once (r : Cond) (w : Wait) (s : Stop) (el : Nat → Rat) (e : Nat) (u : Nat → Rat)
    (hr : r e = false) (fuel : Nat) :
    C05.executions { retry := some r, wait := w, stop := s } el e u (fuel + 1) 1 = 1 := by
  simp [C05.executions, Composed.next, hr]

/-- `stop_after_delay(d)`: a retryable failure is retried iff the elapsed time handed to the
policy is `< d` -/
theorem C05_delay_budget (retry : Option Cond) (w : Wait) (d : Rat) (el : Rat) (k e : Nat) (u : Rat)
    (hr : ∀ r, retry = some r → r e = true) :
    ({ retry := retry, wait := w, stop := stopAfterDelay d } : Composed).next el k e u =
      if d ≤ el then none else some (w k u) := by
  cases retry with
  | none =>
    simp only [Composed.next, stopAfterDelay]
    by_cases h : d ≤ el <;> simp [h]
  | some r =>
    have hre := hr r rfl
    simp only [Composed.next, stopAfterDelay, hre]
    by_cases h : d ≤ el <;> simp [h]

/-! ## engine bookkeeping -/

/-- the reducer asks the policy with `failures = attempts + 1` and
`elapsed = failed_at − first_attempt_at`, and a granted retry is re-queued — addressed to the
failing step — with `attempts + 1`, the unchanged `first_attempt_at`, the exception, its time
and the lineage's recovery counts -/
theorem C05_retry_requeue (cfg : Cfg) (pol : Policy) (step : Nat) (tickEv : Ev) (dc : Bool) (acc : ResAcc)
    (exc : Nat) (failedAt : Int) (c : StepCfg) (hc : cfg.find step = some c) (hretry : c.hasRetry = true) (d : Nat)
    (hp : pol step (failedAt - acc.exec.firstAt) (acc.exec.attempts + 1) exc = .retry d) :
    (applyRes cfg pol step tickEv dc acc (.failed exc failedAt)).cmds = acc.cmds ++
      [.queueEvent { ev := tickEv, attempts := some (acc.exec.attempts + 1), firstAt := some acc.exec.firstAt,
                     lastExc := some exc, lastFailedAt := some failedAt, rc := acc.exec.rc } (some step) (some d)] := by
  simp [applyRes, retryDecision, hc, hretry, hp]

/-- a step without a retry policy, or whose policy gives up, is not retried: with no
handler the run fails and the failure event reports `attempts + 1` and the elapsed time -/
theorem C05_failure_report (cfg : Cfg) (pol : Policy) (step : Nat) (tickEv : Ev) (dc : Bool) (acc : ResAcc)
    (exc : Nat) (failedAt : Int) (hnoh : handlerOwner cfg step = none)
    (hp : retryDecision cfg pol step (failedAt - acc.exec.firstAt) (acc.exec.attempts + 1) exc = .stop) :
    (applyRes cfg pol step tickEv dc acc (.failed exc failedAt)).cmds = acc.cmds ++
      [.publish (.failed step exc (acc.exec.attempts + 1) (failedAt - acc.exec.firstAt)), .failWorkflow step exc] := by
  simp [applyRes, hp, hnoh]

/-- a re-queued retry, once started, runs with `retry_number = attempts`, the original
`first_attempt_at` and the previous exception -/
theorem C05_retry_number (ev : Ev) (k : Nat) (t0 : Int) (exc : Nat) (tf : Int) (rc : RC) (step : Nat)
    (ss : StepState) (nw : Nat) (now : Int) (h : IdsOk ss nw) (hlt : ss.inProg.length < nw)
    (hk : k ≠ 0) (ht : t0 ≠ 0) :
    ∃ wid, (addOrEnqueue { ev := ev, attempts := some k, firstAt := some t0, lastExc := some exc,
                           lastFailedAt := some tf, rc := rc } step ss nw now).1.inProg =
      ss.inProg ++ [{ ev := ev, wid := wid, snapEvents := ss.collected, snapWaiters := ss.waiters,
                      attempts := k, firstAt := t0, lastExc := some exc, lastFailedAt := some tf, rc := rc }] := by
  unfold addOrEnqueue
  simp only [hlt, ↓reduceIte]
  cases hfree : freeIds ss nw with
  | nil => exact absurd hfree (freeIds_ne_nil h hlt)
  | cons i rest => exact ⟨i, by simp [orNat, orInt, hk, ht]⟩

/-- a first attempt starts with `retry_number = 0` and `first_attempt_at = now` -/
theorem C05_first_attempt (ev : Ev) (step : Nat) (ss : StepState) (nw : Nat) (now : Int) (h : IdsOk ss nw)
    (hlt : ss.inProg.length < nw) :
    ∃ wid, (addOrEnqueue { ev := ev } step ss nw now).1.inProg =
      ss.inProg ++ [{ ev := ev, wid := wid, snapEvents := ss.collected, snapWaiters := ss.waiters,
                      attempts := 0, firstAt := now }] := by
  unfold addOrEnqueue
  simp only [hlt, ↓reduceIte]
  cases hfree : freeIds ss nw with
  | nil => exact absurd hfree (freeIds_ne_nil h hlt)
  | cons i rest => exact ⟨i, by simp [orNat, orInt]⟩

/-! ## a wait does not restart the count

A retried invocation that suspends in `ctx.wait_for_event` is replayed — when the awaited event
arrives, when the wait times out, when the run is resumed from a serialised context — with the
attempt record it had when it suspended (`newWaiter` stores it, `Waiter.replay` rebuilds it): the
replayed invocation continues with the same `retry_number`, `first_attempt_at`, last exception and
last failure time.  (Repair of C08/handler_entered_beyond_budget:lineage_suspended_in_wait; before
it the replay was a fresh attempt, `Waiter.replayUnrepaired`.) -/

/-- what the waiter replays is the suspended invocation's own attempt (the one
`rewind_in_progress` would re-queue) -/
theorem C05_wait_replay_is_the_suspended_attempt (x : InProg) (wid ty : Nat) (req : Option Nat) :
    (newWaiter x wid ty req).replay = inProgToAttempt x := rfl

/-- **the replay keeps `attempts`**: once started, the replay of an invocation that suspended on
its `k`-th retry runs with `retry_number = k`, the original `first_attempt_at` and the previous
exception and failure time (as `C05_retry_number` for a re-queued retry) -/
theorem C05_wait_replay_keeps_attempts (x : InProg) (wid ty : Nat) (req : Option Nat) (step : Nat)
    (ss : StepState) (nw : Nat) (now : Int) (h : IdsOk ss nw) (hlt : ss.inProg.length < nw) (ht : x.firstAt ≠ 0) :
    ∃ id, (addOrEnqueue (newWaiter x wid ty req).replay step ss nw now).1.inProg =
      ss.inProg ++ [{ ev := x.ev, wid := id, snapEvents := ss.collected, snapWaiters := ss.waiters,
                      attempts := x.attempts, firstAt := x.firstAt, lastExc := x.lastExc,
                      lastFailedAt := x.lastFailedAt, rc := x.rc }] := by
  unfold addOrEnqueue
  simp only [hlt, ↓reduceIte]
  cases hfree : freeIds ss nw with
  | nil => exact absurd hfree (freeIds_ne_nil h hlt)
  | cons i rest =>
    refine ⟨i, ?_⟩
    have h1 : orNat (some x.attempts) 0 = x.attempts := by
      by_cases h0 : x.attempts = 0 <;> simp [orNat, h0]
    simp [Waiter.replay, newWaiter, h1, orInt, ht]

/-- hence a failure after the wait is counted on: the policy is asked with `failures = k + 1` and
the elapsed time since the **first** attempt, not since the replay -/
theorem C05_failure_after_wait_counts_on (cfg : Cfg) (pol : Policy) (step : Nat) (tickEv : Ev) (dc : Bool)
    (st : State) (x : InProg) (wid ty : Nat) (req : Option Nat) (id : Nat) (snapE : Collected) (snapW : List Waiter)
    (exc : Nat) (failedAt : Int) (c : StepCfg) (hc : cfg.find step = some c) (hretry : c.hasRetry = true) (d : Nat)
    (hp : pol step (failedAt - x.firstAt) (x.attempts + 1) exc = .retry d) :
    (applyRes cfg pol step tickEv dc
        { st := st, exec := { ev := x.ev, wid := id, snapEvents := snapE, snapWaiters := snapW, attempts := x.attempts,
                              firstAt := x.firstAt, lastExc := x.lastExc, lastFailedAt := x.lastFailedAt, rc := x.rc } }
        (.failed exc failedAt)).cmds =
      [.queueEvent { ev := tickEv, attempts := some (x.attempts + 1), firstAt := some x.firstAt,
                     lastExc := some exc, lastFailedAt := some failedAt, rc := x.rc } (some step) (some d)] := by
  simp [applyRes, retryDecision, hc, hretry, hp]

/-- **unrepaired, refuted**: the fresh attempt the replay used to be starts again at
`retry_number = 0` whatever the suspended invocation's count was -/
theorem C05_unrepaired_wait_replay_restarts_count (x : InProg) (wid ty : Nat) (req : Option Nat) (hx : x.attempts ≠ 0) :
    (Waiter.replayUnrepaired (newWaiter x wid ty req)).attempts = none ∧
      orNat (Waiter.replayUnrepaired (newWaiter x wid ty req)).attempts 0 ≠ x.attempts ∧
      orNat (newWaiter x wid ty req).replay.attempts 0 = x.attempts := by
  refine ⟨rfl, ?_, ?_⟩
  · simp only [Waiter.replayUnrepaired, orNat]; exact fun e => hx e.symm
  · simp [Waiter.replay, newWaiter, orNat, hx]

/-! Non-vacuity -/
/-- an invocation on its second retry (`attempts = 2`) that suspends in a wait -/
def C05.susp : InProg :=
  { ev := { ty := 5, kind := .plain, uid := 1 }, wid := 0, snapEvents := [], snapWaiters := [],
    attempts := 2, firstAt := 10, lastExc := some 7, lastFailedAt := some 12 }
example : ∃ id, (addOrEnqueue (newWaiter C05.susp 1 6 none).replay 3 {} 1 20).1.inProg =
    [{ ev := { ty := 5, kind := .plain, uid := 1 }, wid := id, snapEvents := [], snapWaiters := [],
       attempts := 2, firstAt := 10, lastExc := some 7, lastFailedAt := some 12 }] :=
  C05_wait_replay_keeps_attempts C05.susp 1 6 none 3 {} 1 20 (idsOk_empty 1) (by decide) (by decide)
example : orNat (Waiter.replayUnrepaired (newWaiter C05.susp 1 6 none)).attempts 0 = 0 := by decide
example : C05.executions { retry := none, wait := waitFixed 0, stop := stopAfterAttempt 3 }
    (fun _ => 0) 7 (fun _ => 0) 10 1 = 3 := by
  have := C05_attempt_budget none (waitFixed 0) 3 (fun _ => 0) 7 (fun _ => 0) (by simp) 10 (by omega)
  simpa using this
