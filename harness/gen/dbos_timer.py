"""Control shapes of the timer bookkeeping of the two idle-release decorators -> lean/WfModel/GenDbosTimer.lean.

Re-read from /repo's current sources on every run (extraction helpers: harness/gen/lifecycle.py, same token
language as GenLifecycleShape):

* `llama-agents-dbos/.../idle_release.py`, `DBOSIdleReleaseDecorator`: `_schedule_deferred_release` (cancel, spawn,
  register — no await), `_cancel_deferred_release` (pop; cancel unless done — no await), `_spawn_task`; these are the
  bodies the atomic actions `idle` / `tick` / `resume` of M7 (C) (`WfModel/DbosTimer.lean`) are cut along; the third
  body, `_deferred_release` (sleep, pop, release), and the two call sites in the internal adapter are already in
  GenLifecycleShape (`shape_dbos_deferred`, `shape_dbos_write`, `shape_dbos_wait_receive`);
* which functions of the DBOS module call `_cancel_deferred_release` / `_schedule_deferred_release` at all
  (`cancelCallers`, `scheduleCallers`): the model has exactly these sources of its actions;
* `llama-agents-server/.../idle_release_runtime.py`, `IdleReleaseDecorator`: `_abort_inner_run` (what `release` of
  M7 (A) executes) and `_spawn_task` (one task per announcement, never cancelled, never registered per run).
"""
from __future__ import annotations

import ast

from . import lifecycle as _L

LEAN_MODULE = "GenDbosTimer"


def _callers(tree: ast.AST | None, callee: str) -> list[str]:
    """`Class.method` of every function whose body calls `<anything>.<callee>(...)`"""
    out: list[str] = []
    if tree is None:
        return [_L.MISSING_STR]
    for c in ast.walk(tree):
        if not isinstance(c, ast.ClassDef):
            continue
        for f in c.body:
            if not isinstance(f, (ast.FunctionDef, ast.AsyncFunctionDef)):
                continue
            for n in ast.walk(f):
                if isinstance(n, ast.Call) and isinstance(n.func, ast.Attribute) and n.func.attr == callee:
                    out.append(f"{c.name}.{f.name}")
                    break
    return sorted(out)


def _is_async(fn: ast.AST | None) -> str:
    if fn is None:
        return _L.MISSING_STR
    return "async" if isinstance(fn, ast.AsyncFunctionDef) else "sync"


def generate(notes: list[str]) -> list[str]:
    dbos = _L._parse(_L.DBOS_IR_SRC, notes)
    ir = _L._parse(_L.IR_SRC, notes)
    dec = _L._cls(dbos, "DBOSIdleReleaseDecorator")
    idec = _L._cls(ir, "IdleReleaseDecorator")
    L = ["namespace GenDbosTimer", ""]
    for name, cls, fn in (
        ("dbos_schedule", dec, "_schedule_deferred_release"),
        ("dbos_cancel", dec, "_cancel_deferred_release"),
        ("dbos_spawn", dec, "_spawn_task"),
        ("ir_abort", idec, "_abort_inner_run"),
        ("ir_spawn", idec, "_spawn_task"),
    ):
        f = _L._fn(cls, fn)
        L.append(f"def shape_{name} : List String := {_L._lean_list(_L.shape(f, notes, fn))}")
        L.append(f"def kind_{name} : String := {_L.lean_str(_is_async(f))}")
    L.append("")
    L.append("/-- functions of dbos/idle_release.py that call `_cancel_deferred_release` / `_schedule_deferred_release` -/")
    L.append(f"def cancelCallers : List String := {_L._lean_list(_callers(dbos, '_cancel_deferred_release'))}")
    L.append(f"def scheduleCallers : List String := {_L._lean_list(_callers(dbos, '_schedule_deferred_release'))}")
    L.append("/-- every place of dbos/idle_release.py that touches the per-run registry `_deferred_release_tasks` -/")
    touch: list[str] = []
    if dbos is not None:
        for c in ast.walk(dbos):
            if isinstance(c, ast.ClassDef):
                for f in c.body:
                    if isinstance(f, (ast.FunctionDef, ast.AsyncFunctionDef)) and any(
                            isinstance(n, ast.Attribute) and n.attr == "_deferred_release_tasks" for n in ast.walk(f)):
                        touch.append(f"{c.name}.{f.name}")
    else:
        touch = [_L.MISSING_STR]
    L.append(f"def registryUsers : List String := {_L._lean_list(sorted(touch))}")
    L.append("")
    L.append("end GenDbosTimer")
    return L
