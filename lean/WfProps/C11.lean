import WfModel.Runner
import WfModel.RunnerGone
import WfProofs.EngineReduce
import WfProofs.ReplayRebuild
import WfProofs.RunnerWorkers
import WfModel.GenTickLog
/-!
# C11 — replaying the recorded tick log reproduces the live run state

On the runner LTS the reducer state changes only inside `drain`, by
`reduce tick st now`, and the same action appends `(tick, now)` to the log (`on_tick`);
commands never touch either.  Hence, at every point of every run,
`st = replay (rewind st0) log`.  The rebuilt state also satisfies every reducer
invariant (C01), so `running_steps()`/`to_dict()` computed from it describe the run.

Replay in the real code (`rebuild_state_from_ticks`) uses the *current* clock instead of
each tick's recorded time.  The first part of this file keeps the recorded times (exact
equality); the second part ("timestamps aside") is about the real function: rewind at the
clock of the call, every tick at the clock of the call (`Engine.replayTicks`).  For retry
policies that do not look at the elapsed time the rebuilt state equals the live one after
blanking every `first_attempt_at` (`eraseSt`), for EVERY start state (fresh or resumed),
schedule and pair of clocks; `running_steps()` and `ctx.to_dict()` are functions of the
rebuilt state and describe the live run.  For elapsed-time policies (`stop_after_delay`)
the clause is false — `C11_refuted_elapsed_time_policy`, a concrete run.
-/
set_option linter.unusedVariables false
open Engine

def C11.replay (cfg : Cfg) (pol : Policy) (st : State) (log : List (Tick × Int)) : State :=
  log.foldl (fun s tn => (reduce cfg pol tn.1 s tn.2).1) st

theorem C11.replay_snoc (cfg : Cfg) (pol : Policy) (st : State) (log : List (Tick × Int)) (t : Tick) (n : Int) :
    C11.replay cfg pol st (log ++ [(t, n)]) = (reduce cfg pol t (C11.replay cfg pol st log) n).1 := by
  simp [C11.replay, List.foldl_append]

theorem C11.execCmd_st_log (r : Runner) (c : Cmd) :
    (execCmd r c).st = r.st ∧ (execCmd r c).log = r.log := by
  cases c with
  | queueEvent att step delay =>
    cases delay with
    | none => exact ⟨rfl, rfl⟩
    | some d =>
      simp only [execCmd]
      split <;> exact ⟨rfl, rfl⟩
  | scheduleIdleCheck => simp only [execCmd]; split <;> exact ⟨rfl, rfl⟩
  | _ => exact ⟨rfl, rfl⟩

theorem C11.execCmds_st_log : ∀ (cmds : List Cmd) (r : Runner),
    (execCmds r cmds).st = r.st ∧ (execCmds r cmds).log = r.log
  | [], r => by simp [execCmds]
  | c :: cs, r => by
    simp only [execCmds]
    split
    · exact C11.execCmd_st_log r c
    · have h1 := C11.execCmd_st_log r c
      have h2 := C11.execCmds_st_log cs (execCmd r c)
      exact ⟨h2.1.trans h1.1, h2.2.trans h1.2⟩

/-- the invariant: live state = replay of the log from the rewound initial state -/
def C11.Inv (cfg : Cfg) (pol : Policy) (base : State) (r : Runner) : Prop :=
  r.st = C11.replay cfg pol base r.log

theorem C11.step_inv (cfg : Cfg) (pol : Policy) (base : State) (r : Runner) (a : Act)
    (h : C11.Inv cfg pol base r) : C11.Inv cfg pol base (r.step cfg pol a) := by
  unfold Runner.step
  split
  · exact h
  · cases a with
    | drain =>
      simp only
      cases hb : r.buf with
      | nil => simpa using h
      | cons t rest =>
        simp only
        split
        · simpa [C11.Inv, Runner.finish] using h
        · have hsl := C11.execCmds_st_log (reduce cfg pol t r.st r.now).2
            { r with
              buf := rest
              idlePending := (if t = Tick.idleCheck then false else r.idlePending)
              st := (reduce cfg pol t r.st r.now).1
              log := r.log ++ [(t, r.now)] }
          unfold C11.Inv
          rw [hsl.1, hsl.2]
          simp only
          rw [C11.replay_snoc, ← h]
    | workerDone s w res =>
      simp only
      split
      · exact h
      · split <;> exact h
    | pull =>
      simp only
      split
      · exact h
      · split <;> exact h
    | timer => simp only; split <;> exact h
    | advance dt => exact h
    | external t => simp only; split <;> exact h
    | stepWrite p => exact h

/-- **C11**: at every point of every run the live reducer state equals the state rebuilt
from the rewound initial state and the ticks logged so far (each with its recorded time). -/
theorem C11_replay_invariant (cfg : Cfg) (pol : Policy) (st0 : State) (now : Int) (start : Option Ev)
    (timeout : Option Nat) (acts : List Act) :
    let r := Runner.run cfg pol (Runner.init cfg st0 now start timeout) acts
    r.st = C11.replay cfg pol (rewind cfg st0 now).1 r.log := by
  have hform : ∃ r1 : Runner, r1.st = (rewind cfg st0 now).1 ∧ r1.log = [] ∧
      Runner.init cfg st0 now start timeout = execCmds r1 (rewind cfg st0 now).2 := by
    unfold Runner.init
    cases timeout with
    | none => exact ⟨_, rfl, rfl, rfl⟩
    | some t => exact ⟨_, rfl, rfl, rfl⟩
  have h0 : C11.Inv cfg pol (rewind cfg st0 now).1 (Runner.init cfg st0 now start timeout) := by
    obtain ⟨r1, hst, hlog, heq⟩ := hform
    unfold C11.Inv
    rw [heq, (C11.execCmds_st_log _ r1).1, (C11.execCmds_st_log _ r1).2, hst, hlog]
    rfl
  simp only [Runner.run]
  generalize Runner.init cfg st0 now start timeout = r0 at h0
  induction acts generalizing r0 with
  | nil => exact h0
  | cons a as ih => simp only [List.foldl_cons]; exact ih _ (C11.step_inv cfg pol _ r0 a h0)

/-- the rebuilt state satisfies the worker-slot invariant, so `running_steps()` (steps with a
non-empty in-progress table) and `to_dict()` computed from it are those of the live run -/
theorem C11_rebuilt_wellformed (cfg : Cfg) (hwf : cfg.WF) (pol : Policy) (st0 : State) (now : Int)
    (h0 : IdsInv cfg st0) (log : List (Tick × Int)) :
    IdsInv cfg (C11.replay cfg pol (rewind cfg st0 now).1 log) := by
  have hr := rewind_idsInv cfg hwf st0 now h0
  unfold C11.replay
  generalize (rewind cfg st0 now).1 = st at hr
  induction log generalizing st with
  | nil => simpa using hr
  | cons tn rest ih => simp only [List.foldl_cons]; exact ih _ (reduce_idsInv cfg hwf pol tn.1 st tn.2 hr)

/-- every processed tick is logged exactly once, in processing order: the log grows by one
entry per `drain` of a tick the reducer accepted and by nothing else -/
theorem C11_log_grows_only_by_drain (cfg : Cfg) (pol : Policy) (r : Runner) (a : Act) :
    (r.step cfg pol a).log = r.log ∨ ∃ t, (r.step cfg pol a).log = r.log ++ [(t, r.now)] ∧ r.buf.head? = some t := by
  unfold Runner.step
  split
  · exact Or.inl rfl
  · cases a with
    | drain =>
      simp only
      cases hb : r.buf with
      | nil => exact Or.inl rfl
      | cons t rest =>
        simp only
        split
        · left; simp [Runner.finish]
        · right
          refine ⟨t, ?_, by simp⟩
          exact (C11.execCmds_st_log _ _).2
    | workerDone s w res => simp only; split; · exact Or.inl rfl
                            split <;> exact Or.inl rfl
    | pull => simp only; split; · exact Or.inl rfl
              split <;> exact Or.inl rfl
    | timer => simp only; split <;> exact Or.inl rfl
    | advance dt => exact Or.inl rfl
    | external t => simp only; split <;> exact Or.inl rfl
    | stepWrite p => exact Or.inl rfl

/-- open: replay with a different clock gives the same state up to timestamps when the
policy does not look at elapsed time (checked on the implementation by the monitor) -/
def C11_time_erasure_statement : Prop :=
  ∀ (cfg : Cfg) (pol : Policy), (∀ s e e' f x, pol s e f x = pol s e' f x) →
    ∀ (st : State) (log : List (Tick × Int)) (clock : Int),
      (C11.replay cfg pol st log).isRunning = (C11.replay cfg pol st (log.map (fun tn => (tn.1, clock)))).isRunning

/-! Non-vacuity -/
def C11.exCfg : Cfg := { steps := [{ name := 0, accepted := [0], numWorkers := 1, hasRetry := false }] }
def C11.startEv : Ev := { ty := 0, kind := .start, uid := 1 }
example :
    let r := Runner.run C11.exCfg (fun _ _ _ _ => .stop) (Runner.init C11.exCfg initState 0 (some C11.startEv) none)
      [.drain, .advance 3, .workerDone 0 0 [.result none], .drain, .drain]
    (r.log.length, r.log.map (·.2)) = (3, [0, 3, 3]) := by decide

/-! ## Timestamps aside: the real `rebuild_state_from_ticks` (replay at the clock of the call) -/

/-- two replays of the same ticks at two clock sequences, from states that agree up to
`first_attempt_at`, agree up to `first_attempt_at` -/
theorem C11.replay_sim (cfg : Cfg) {pol : Policy} (hpol : TimeFree pol) :
    ∀ (l l' : List (Tick × Int)) {s s' : State}, l.map (·.1) = l'.map (·.1) → SimSt s s' →
      SimSt (C11.replay cfg pol s l) (C11.replay cfg pol s' l')
  | [], [], s, s', _, h => h
  | [], _ :: _, _, _, hl, _ => by simp at hl
  | _ :: _, [], _, _, hl, _ => by simp at hl
  | (t, n) :: l, (t', n') :: l', s, s', hl, h => by
    simp only [List.map_cons, List.cons.injEq] at hl
    obtain ⟨ht, hl⟩ := hl
    subst ht
    simp only [C11.replay, List.foldl_cons]
    exact C11.replay_sim cfg hpol l l' hl (reduce_sim cfg hpol t n n' h).1

/-- **the statement left open above is a theorem**: replaying a log with every time replaced by
one clock value gives the same running flag — and (`C11.replay_sim`) the same state up to
`first_attempt_at` -/
theorem C11_time_erasure : C11_time_erasure_statement := by
  intro cfg pol hpol st log clock
  exact (C11.replay_sim cfg hpol log (log.map (fun tn => (tn.1, clock)))
    (by simp [List.map_map, Function.comp_def]) (SimSt.refl st)).running

example : (∀ s e e' f x, (fun _ _ _ _ => PolDecision.stop : Policy) s e f x = (fun _ _ _ _ => PolDecision.stop : Policy) s e' f x) :=
  fun _ _ _ _ _ => rfl

/-- start of a run from ANY broker state (fresh: `initState`; resumed: a deserialised snapshot),
then an arbitrary schedule -/
abbrev C11.runFrom (cfg : Cfg) (pol : Policy) (st0 : State) (now : Int) (start : Option Ev)
    (timeout : Option Nat) (acts : List Act) : Runner :=
  Runner.run cfg pol (Runner.init cfg st0 now start timeout) acts

/-- `rebuild_state_from_ticks(init_state, ticks)`: `rewind_in_progress(init_state, now0)`, then
`_reduce_tick(tick_i, state, clk i)`, commands dropped; `none` = the reducer raised -/
def C11.rebuild (cfg : Cfg) (pol : Policy) (st0 : State) (now0 : Int) (clk : Nat → Int) (ticks : List Tick) :
    Option State :=
  (replayTicks cfg pol st0 now0 clk ticks).map (·.st)

/-- **C11, timestamps aside, every history incl. resumed runs**: whatever state the run was
started from, whatever the schedule, whatever the clock of the rebuild: rebuilding from the run's
`init_state` and the ticks recorded so far does not raise and yields the live state after blanking
every `first_attempt_at` — provided retry decisions do not depend on elapsed time. -/
theorem C11_rebuild_agrees_with_live (cfg : Cfg) (pol : Policy) (hpol : TimeFree pol) (st0 : State) (now : Int)
    (start : Option Ev) (timeout : Option Nat) (acts : List Act) (now0 : Int) (clk : Nat → Int) :
    ∃ rebuilt, C11.rebuild cfg pol st0 now0 clk (ticksOf (C11.runFrom cfg pol st0 now start timeout acts).log) = some rebuilt ∧
      eraseSt rebuilt = eraseSt (C11.runFrom cfg pol st0 now start timeout acts).st := by
  obtain ⟨rep, h1, h2⟩ := rebuild_agrees cfg hpol st0 now start timeout acts now0 clk
  exact ⟨rep.st, by simp [C11.rebuild, h1], simSt_iff_erase.mp h2⟩

/-- non-vacuity: an attempt-based policy; a run with a worker in flight; the rebuild at clock 50
carries another `first_attempt_at` than the live state (0), and nothing else differs -/
def C11.pol0 : Policy := fun _ _ _ _ => .stop
theorem C11.pol0_free : TimeFree C11.pol0 := fun _ _ _ _ _ => rfl
example :
    (C11.rebuild C11.exCfg C11.pol0 initState 50 (fun _ => 50)
      (ticksOf (C11.runFrom C11.exCfg C11.pol0 initState 0 (some C11.startEv) none [.drain]).log)).map
        (fun s => (s.isRunning, (s.workers 0).inProg.map (fun i => (i.wid, i.ev.uid, i.firstAt)))) = some (true, [(0, 1, 50)]) ∧
    ((C11.runFrom C11.exCfg C11.pol0 initState 0 (some C11.startEv) none [.drain]).st.workers 0).inProg.map
      (fun i => (i.wid, i.ev.uid, i.firstAt)) = [(0, 1, 0)] := by decide

/-- **what "timestamps aside" means**: `eraseSt` blanks `first_attempt_at` of queued attempts,
in-progress invocations (and of the waiter records inside their snapshots) and waiters — and keeps
everything the property names: running flag, buffers, and of every queued / running / waiting
invocation its event, worker id, snapshot of collected events, retry counters, last failure and
recovery counts, requirements, resolution and time-out marks. -/
theorem C11_erasure_keeps (st : State) (n : Nat) :
    (eraseSt st).isRunning = st.isRunning ∧
    ((eraseSt st).workers n).collected = (st.workers n).collected ∧
    ((eraseSt st).workers n).queue.map (fun a => (a.ev, a.attempts, a.lastExc, a.lastFailedAt, a.rc)) =
      (st.workers n).queue.map (fun a => (a.ev, a.attempts, a.lastExc, a.lastFailedAt, a.rc)) ∧
    ((eraseSt st).workers n).inProg.map (fun i => (i.ev, i.wid, i.snapEvents, i.attempts, i.lastExc, i.lastFailedAt, i.rc)) =
      (st.workers n).inProg.map (fun i => (i.ev, i.wid, i.snapEvents, i.attempts, i.lastExc, i.lastFailedAt, i.rc)) ∧
    ((eraseSt st).workers n).waiters.map
        (fun w => (w.wid, w.ev, w.waitTy, w.req, w.hasReq, w.resolved, w.timedOut, w.attempts, w.lastExc, w.lastFailedAt, w.rc)) =
      (st.workers n).waiters.map
        (fun w => (w.wid, w.ev, w.waitTy, w.req, w.hasReq, w.resolved, w.timedOut, w.attempts, w.lastExc, w.lastFailedAt, w.rc)) := by
  simp [eraseSt, eraseSS, List.map_map, Function.comp_def, eraseA, eraseIP, eraseW]

example : ((eraseSt (C11.runFrom C11.exCfg C11.pol0 initState 7 (some C11.startEv) none [.drain]).st).workers 0).inProg.map
      (fun i => (i.wid, i.ev.uid, i.firstAt)) = [(0, 1, 0)] ∧
    ((C11.runFrom C11.exCfg C11.pol0 initState 7 (some C11.startEv) none [.drain]).st.workers 0).inProg.map
      (fun i => (i.wid, i.ev.uid, i.firstAt)) = [(0, 1, 7)] := by decide

/-- the erasure function is the agreement relation the simulation proofs use, and it is idempotent -/
theorem C11_erasure_is_agreement (a b : State) :
    (SimSt a b ↔ eraseSt a = eraseSt b) ∧ eraseSt (eraseSt a) = eraseSt a :=
  ⟨simSt_iff_erase, eraseSt_idem a⟩

/-- **the reducer commutes with the erasure**: reducing the erased state at any clock and erasing
gives the same as reducing the state itself and erasing; the commands agree up to time-derived
payloads (`cE`: retry info of re-queued events, elapsed seconds of failure telemetry). -/
theorem C11_reduce_commutes_with_erasure (cfg : Cfg) (pol : Policy) (hpol : TimeFree pol) (t : Tick) (s : State) (n n' : Int) :
    eraseSt (reduce cfg pol t s n).1 = eraseSt (reduce cfg pol t (eraseSt s) n').1 ∧
      (reduce cfg pol t s n).2.map cE = (reduce cfg pol t (eraseSt s) n').2.map cE :=
  ⟨simSt_iff_erase.mp (reduce_sim cfg hpol t n n' (sim_eraseSt s)).1, (reduce_sim cfg hpol t n n' (sim_eraseSt s)).2⟩

example : ((reduce C11.exCfg C11.pol0 (.addEvent { ev := C11.startEv } none) initState 9).1.workers 0).inProg.map (·.firstAt) = [9] ∧
    ((reduce C11.exCfg C11.pol0 (.addEvent { ev := C11.startEv } none) (eraseSt initState) 4).1.workers 0).inProg.map (·.firstAt) = [4] := by
  decide

/-- so do `rewind_in_progress` (same commands) and the serialisation round trip — no guard needed -/
theorem C11_rewind_serialise_commute_with_erasure (cfg : Cfg) (s : State) (n n' : Int) :
    eraseSt (rewind cfg s n).1 = eraseSt (rewind cfg (eraseSt s) n').1 ∧
      (rewind cfg s n).2 = (rewind cfg (eraseSt s) n').2 ∧
      eraseSt (roundtrip cfg s) = eraseSt (roundtrip cfg (eraseSt s)) :=
  ⟨simSt_iff_erase.mp (rewind_sim cfg n n' (sim_eraseSt s)).1, (rewind_sim cfg n n' (sim_eraseSt s)).2,
    simSt_iff_erase.mp (roundtrip_sim cfg (sim_eraseSt s))⟩

/-! ### `running_steps()` and `ctx.to_dict()` are functions of the rebuilt state -/

/-- `ExternalContext.running_steps()`: `[s for s in state.workers if state.workers[s].in_progress]` -/
def C11.runningSteps (cfg : Cfg) (st : State) : List Nat := activeSteps cfg st

/-- **`running_steps()` describes the run**: computed from the rebuilt state (any clock) it is the
list of steps whose live `in_progress` table is non-empty, in registration order; in particular it
lists the step of every worker task that is alive. -/
theorem C11_running_steps_describe_run (cfg : Cfg) (hwf : cfg.WF) (pol : Policy) (hpol : TimeFree pol) (st0 : State)
    (h0 : IdsInv cfg st0) (now : Int) (start : Option Ev) (timeout : Option Nat) (acts : List Act)
    (now0 : Int) (clk : Nat → Int) :
    ∃ rebuilt, C11.rebuild cfg pol st0 now0 clk (ticksOf (C11.runFrom cfg pol st0 now start timeout acts).log) = some rebuilt ∧
      C11.runningSteps cfg rebuilt = C11.runningSteps cfg (C11.runFrom cfg pol st0 now start timeout acts).st ∧
      (∀ s, s ∈ C11.runningSteps cfg rebuilt ↔
        s ∈ cfg.names ∧ ((C11.runFrom cfg pol st0 now start timeout acts).st.workers s).inProg ≠ []) ∧
      ∀ w ∈ (C11.runFrom cfg pol st0 now start timeout acts).running, w.step ∈ C11.runningSteps cfg rebuilt := by
  obtain ⟨rep, h1, h2⟩ := rebuild_agrees cfg hpol st0 now start timeout acts now0 clk
  have heq : C11.runningSteps cfg rep.st = C11.runningSteps cfg (C11.runFrom cfg pol st0 now start timeout acts).st :=
    activeSteps_sim cfg h2
  have hmem : ∀ s, s ∈ C11.runningSteps cfg (C11.runFrom cfg pol st0 now start timeout acts).st ↔
      s ∈ cfg.names ∧ ((C11.runFrom cfg pol st0 now start timeout acts).st.workers s).inProg ≠ [] := by
    intro s
    simp [C11.runningSteps, activeSteps, List.mem_filter]
  refine ⟨rep.st, by simp [C11.rebuild, h1], heq, fun s => by rw [heq]; exact hmem s, fun w hw => ?_⟩
  have hinv := run_runInv cfg hwf pol False acts _ (guarded_false cfg pol acts _)
    (init_runInv cfg hwf False st0 h0 now start timeout)
  obtain ⟨hn, ip, hip, _, _⟩ := hinv.sub w hw
  rw [heq]
  exact (hmem w.step).mpr ⟨hn, fun he => by rw [he] at hip; cases hip⟩

example : C11.exCfg.WF ∧ IdsInv C11.exCfg initState ∧
    C11.runningSteps C11.exCfg (C11.runFrom C11.exCfg C11.pol0 initState 0 (some C11.startEv) none [.drain]).st = [0] ∧
    (C11.runFrom C11.exCfg C11.pol0 initState 0 (some C11.startEv) none [.drain]).running.map (·.step) = [0] ∧
    C11.runningSteps C11.exCfg (C11.runFrom C11.exCfg C11.pol0 initState 0 (some C11.startEv) none
      [.drain, .workerDone 0 0 [.result none], .drain]).st = [] :=
  ⟨by unfold Cfg.WF; decide, idsInv_init _, by decide, by decide, by decide⟩

def C11.eraseSerStep (s : SerStep) : SerStep :=
  { s with queue := s.queue.map eraseA, waiters := s.waiters.map (fun w => { w with firstAt := none }) }

/-- the serialised context with every `first_attempt_at` blanked -/
def C11.eraseSer (s : SerState) : SerState :=
  { s with workers := s.workers.map (fun p => (p.1, C11.eraseSerStep p.2)) }

theorem C11.serStep_sim {a b : StepState} (h : SimSS a b) :
    C11.eraseSerStep (serStep a) = C11.eraseSerStep (serStep b) := by
  have hev : a.inProg.map (·.ev) = b.inProg.map (·.ev) := by
    have := congrArg (List.map (·.ev)) h.inProg
    simpa [List.map_map, Function.comp_def, eraseIP] using this
  have hq : (a.queue.map serAttempt).map eraseA = (b.queue.map serAttempt).map eraseA := by
    have e : ∀ l : List Attempt, (l.map serAttempt).map eraseA = (l.map eraseA).map serAttempt := by
      intro l; simp [List.map_map, Function.comp_def, serAttempt_erase]
    rw [e, e, h.queue]
  have hw : (a.waiters.map serWaiter).map (fun w => ({ w with firstAt := none } : SerWaiter)) =
      (b.waiters.map serWaiter).map (fun w => ({ w with firstAt := none } : SerWaiter)) := by
    have e : ∀ l : List Waiter, (l.map serWaiter).map (fun w => ({ w with firstAt := none } : SerWaiter)) =
        (l.map eraseW).map serWaiter := by
      intro l; simp [List.map_map, Function.comp_def, serWaiter, eraseW]
    rw [e, e, h.waiters]
  simp only [C11.eraseSerStep, serStep, hq, hw, hev, h.collected]

/-- `ctx.to_dict()` (its broker part): `to_serialized` of the rebuilt state -/
def C11.toDict (cfg : Cfg) (pol : Policy) (st0 : State) (now0 : Int) (clk : Nat → Int) (ticks : List Tick) :
    Option SerState :=
  (C11.rebuild cfg pol st0 now0 clk ticks).map (ser cfg)

/-- **`ctx.to_dict()` describes the run**: taken at any moment (any clock) from a live handler it
is the serialisation of the live broker state, timestamps aside: same running flag, and per step
the same queue, the same in-progress events, the same buffers and the same waiters; the context
loaded from it agrees with the context loaded from the live state. -/
theorem C11_to_dict_describes_run (cfg : Cfg) (pol : Policy) (hpol : TimeFree pol) (st0 : State) (now : Int)
    (start : Option Ev) (timeout : Option Nat) (acts : List Act) (now0 : Int) (clk : Nat → Int) :
    ∃ d, C11.toDict cfg pol st0 now0 clk (ticksOf (C11.runFrom cfg pol st0 now start timeout acts).log) = some d ∧
      C11.eraseSer d = C11.eraseSer (ser cfg (C11.runFrom cfg pol st0 now start timeout acts).st) ∧
      d.isRunning = (C11.runFrom cfg pol st0 now start timeout acts).st.isRunning ∧
      d.workers.map (fun p => (p.1, p.2.inProg, p.2.collected)) =
        (ser cfg (C11.runFrom cfg pol st0 now start timeout acts).st).workers.map (fun p => (p.1, p.2.inProg, p.2.collected)) ∧
      eraseSt (deser cfg d) = eraseSt (roundtrip cfg (C11.runFrom cfg pol st0 now start timeout acts).st) := by
  obtain ⟨rep, h1, h2⟩ := rebuild_agrees cfg hpol st0 now start timeout acts now0 clk
  refine ⟨ser cfg rep.st, by simp [C11.toDict, C11.rebuild, h1], ?_, h2.running, ?_, simSt_iff_erase.mp (roundtrip_sim cfg h2)⟩
  · simp only [C11.eraseSer, ser, h2.running, List.map_map, Function.comp_def]
    congr 1
    apply List.map_congr_left
    intro s _
    rw [C11.serStep_sim (h2.workers s)]
  · simp only [ser, List.map_map, Function.comp_def]
    apply List.map_congr_left
    intro s _
    have hev : ((rep.st.workers s).inProg.map (·.ev)) =
        (((C11.runFrom cfg pol st0 now start timeout acts).st.workers s).inProg.map (·.ev)) := by
      have := congrArg (List.map (·.ev)) (h2.workers s).inProg
      simpa [List.map_map, Function.comp_def, eraseIP] using this
    simp only [serStep, hev, (h2.workers s).collected]

example :
    (C11.toDict C11.exCfg C11.pol0 initState 50 (fun _ => 50)
      (ticksOf (C11.runFrom C11.exCfg C11.pol0 initState 0 (some C11.startEv) none [.drain]).log)).map
        (fun d => (d.isRunning, d.workers.map (fun p => (p.1, p.2.queue.length, p.2.inProg.map (·.uid))))) =
      some (true, [(0, 0, [1])]) := by decide

/-! ### the guard is needed: elapsed-time policies -/

/-- the clause without the guard on the retry policy -/
def C11_statement_any_policy : Prop :=
  ∀ (cfg : Cfg) (pol : Policy) (st0 : State) (now : Int) (start : Option Ev) (timeout : Option Nat)
    (acts : List Act) (now0 : Int) (clk : Nat → Int),
    ∃ rebuilt, C11.rebuild cfg pol st0 now0 clk (ticksOf (C11.runFrom cfg pol st0 now start timeout acts).log) = some rebuilt ∧
      eraseSt rebuilt = eraseSt (C11.runFrom cfg pol st0 now start timeout acts).st

def C11.cfgD : Cfg := { steps := [{ name := 0, accepted := [0], numWorkers := 1, hasRetry := true }] }
/-- `retry_policy(stop=stop_after_delay(10), wait=wait_fixed(1))` -/
def C11.polD : Policy := fun _ elapsed _ _ => if elapsed ≥ 10 then .stop else .retry 1
/-- the step starts at 100 and fails at 112: 12 s ≥ 10 s, no retry, the run fails -/
def C11.actsD : List Act := [.drain, .advance 12, .workerDone 0 0 [.failed 7 112], .drain]

/-- **refuted for elapsed-time policies**: the live run gave up (12 s elapsed ≥ 10 s) and is over;
the rebuild at clock 200 stamps the start event's `first_attempt_at` with 200, sees −88 s elapsed,
"retries", and reports a run that is still running with nothing queued or in progress. -/
theorem C11_refuted_elapsed_time_policy : ¬ C11_statement_any_policy := by
  intro h
  obtain ⟨rb, h1, h2⟩ := h C11.cfgD C11.polD initState 100 (some C11.startEv) none C11.actsD 200 (fun _ => 200)
  have hr : rb.isRunning = (C11.runFrom C11.cfgD C11.polD initState 100 (some C11.startEv) none C11.actsD).st.isRunning :=
    (congrArg State.isRunning h2 : (eraseSt rb).isRunning = _)
  have hlive : (C11.runFrom C11.cfgD C11.polD initState 100 (some C11.startEv) none C11.actsD).st.isRunning = false := by
    decide
  have hreb : (C11.rebuild C11.cfgD C11.polD initState 200 (fun _ => 200)
      (ticksOf (C11.runFrom C11.cfgD C11.polD initState 100 (some C11.startEv) none C11.actsD).log)).map (·.isRunning) = some true := by
    decide
  rw [h1] at hreb
  simp only [Option.map_some, Option.some.injEq] at hreb
  rw [hr, hlive] at hreb
  cases hreb

example : (C11.runFrom C11.cfgD C11.polD initState 100 (some C11.startEv) none C11.actsD).outcome = some (.failed 0 7) ∧
    ((C11.rebuild C11.cfgD C11.polD initState 200 (fun _ => 200)
      (ticksOf (C11.runFrom C11.cfgD C11.polD initState 100 (some C11.startEv) none C11.actsD).log)).map
        (fun s => (s.isRunning, (s.workers 0).queue.length, (s.workers 0).inProg.length))) = some (true, 0, 0) := by
  decide

/-! ### resumed runs, explicitly -/

/-- one leg of a session on one `Context`: a run (start clock, optional start event, workflow
timeout, schedule) and the clock of the `ctx.to_dict()` that ends it -/
structure C11.Leg where
  now : Int
  start : Option Ev
  timeout : Option Nat
  acts : List Act
  snapNow : Int
  snapClk : Nat → Int

def C11.legRun (cfg : Cfg) (pol : Policy) (init : State) (l : C11.Leg) : Runner :=
  C11.runFrom cfg pol init l.now l.start l.timeout l.acts

/-- `Context.from_dict(wf, ctx.to_dict())` at the end of the leg: the `init_state` of the next run
(also what `workflow.run(ctx=ctx)` on a finished context computes) -/
def C11.legNext (cfg : Cfg) (pol : Policy) (init : State) (l : C11.Leg) : State :=
  match C11.toDict cfg pol init l.snapNow l.snapClk (ticksOf (C11.legRun cfg pol init l).log) with
  | some d => deser cfg d
  | none => init

/-- the `init_state` and the leg of every run of a session -/
def C11.session (cfg : Cfg) (pol : Policy) : State → List C11.Leg → List (State × C11.Leg)
  | _, [] => []
  | init, l :: ls => (init, l) :: C11.session cfg pol (C11.legNext cfg pol init l) ls

theorem C11.deser_inProg (cfg : Cfg) (s : SerState) (n : Nat) : ((deser cfg s).workers n).inProg = [] := by
  simp only [deser]
  split
  · split <;> rfl
  · rfl

/-- **resumed runs**: start from any serialised context, run, snapshot, load, run again, … any
number of times.  For EVERY run of the session: (1) its live state is the replay of ITS recorded
log from ITS rewound `init_state` (recorded times); (2) the real rebuild (any clock) of that log
from that `init_state` is the live state, timestamps aside; (3) the context the next run is
started from agrees with the serialisation of the live state; (4) a loaded `init_state` has
nothing in progress, so its rewind only re-admits queued work. -/
theorem C11_resumed_runs (cfg : Cfg) (pol : Policy) (hpol : TimeFree pol) (s : SerState) (legs : List C11.Leg) :
    ∀ p ∈ C11.session cfg pol (deser cfg s) legs,
      (C11.legRun cfg pol p.1 p.2).st =
        C11.replay cfg pol (rewind cfg p.1 p.2.now).1 (C11.legRun cfg pol p.1 p.2).log ∧
      (∃ rebuilt, C11.rebuild cfg pol p.1 p.2.snapNow p.2.snapClk (ticksOf (C11.legRun cfg pol p.1 p.2).log) = some rebuilt ∧
        eraseSt rebuilt = eraseSt (C11.legRun cfg pol p.1 p.2).st) ∧
      eraseSt (C11.legNext cfg pol p.1 p.2) = eraseSt (roundtrip cfg (C11.legRun cfg pol p.1 p.2).st) ∧
      ∀ n, (p.1.workers n).inProg = [] := by
  have hmain : ∀ (legs : List C11.Leg) (init : State), (∀ n, (init.workers n).inProg = []) →
      ∀ p ∈ C11.session cfg pol init legs,
        (C11.legRun cfg pol p.1 p.2).st =
          C11.replay cfg pol (rewind cfg p.1 p.2.now).1 (C11.legRun cfg pol p.1 p.2).log ∧
        (∃ rebuilt, C11.rebuild cfg pol p.1 p.2.snapNow p.2.snapClk (ticksOf (C11.legRun cfg pol p.1 p.2).log) = some rebuilt ∧
          eraseSt rebuilt = eraseSt (C11.legRun cfg pol p.1 p.2).st) ∧
        eraseSt (C11.legNext cfg pol p.1 p.2) = eraseSt (roundtrip cfg (C11.legRun cfg pol p.1 p.2).st) ∧
        ∀ n, (p.1.workers n).inProg = [] := by
    intro legs
    induction legs with
    | nil => intro init _ p hp; cases hp
    | cons l ls ih =>
      intro init hinit p hp
      simp only [C11.session, List.mem_cons] at hp
      obtain ⟨d, hd, _, _, _, hdes⟩ := C11_to_dict_describes_run cfg pol hpol init l.now l.start l.timeout l.acts l.snapNow l.snapClk
      have hnext : C11.legNext cfg pol init l = deser cfg d := by
        simp only [C11.legNext, C11.legRun, hd]
      rcases hp with hp | hp
      · subst hp
        refine ⟨C11_replay_invariant cfg pol init l.now l.start l.timeout l.acts,
          C11_rebuild_agrees_with_live cfg pol hpol init l.now l.start l.timeout l.acts l.snapNow l.snapClk, ?_, hinit⟩
        rw [hnext]
        exact hdes
      · apply ih (C11.legNext cfg pol init l) _ p hp
        intro n
        rw [hnext]
        exact C11.deser_inProg cfg d n
  exact hmain legs _ (C11.deser_inProg cfg s)

/-- non-vacuity: a run is snapshotted with its only invocation in flight; the loaded context has it
queued (`init_state`), the resumed run's rewind starts it again, it finishes, and the second
snapshot is taken of a run that completed -/
def C11.stopEv : Ev := { ty := 1, kind := .stop, uid := 2 }
def C11.legs2 : List C11.Leg :=
  [{ now := 0, start := some C11.startEv, timeout := none, acts := [.drain], snapNow := 5, snapClk := fun _ => 5 },
   { now := 10, start := none, timeout := none, acts := [.workerDone 0 0 [.result (some C11.stopEv)], .drain],
     snapNow := 20, snapClk := fun _ => 20 }]
example :
    (C11.session C11.exCfg C11.pol0 (deser C11.exCfg (ser C11.exCfg initState)) C11.legs2).map
      (fun p => (p.1.isRunning, (p.1.workers 0).queue.map (·.ev.uid), (C11.legRun C11.exCfg C11.pol0 p.1 p.2).log.length,
        (C11.legRun C11.exCfg C11.pol0 p.1 p.2).outcome.isSome)) =
      [(false, [], 1, false), (true, [1], 1, true)] := by decide

/-! ### what `rewind_in_progress` keeps; it is not idempotent -/

def C11.cfg2w : Cfg := { steps := [{ name := 0, accepted := [0], numWorkers := 2, hasRetry := false }] }
def C11.evA : Ev := { ty := 0, kind := .plain, uid := 11 }
def C11.evB : Ev := { ty := 0, kind := .plain, uid := 12 }
def C11.st2w : State :=
  { isRunning := true, workers := fun _ => { queue := [{ ev := C11.evA }, { ev := C11.evB }] } }

/-- **rewind on start**, for every state: the running flag, and for every configured step the
buffers and the waiters, are kept; the invocations that were in progress come back first, in
REVERSE order, then the queue (`servedEvs` = in-progress then queued events); unconfigured steps
are untouched; it never raises. -/
theorem C11_rewind_keeps (cfg : Cfg) (hwf : cfg.WF) (st : State) (now : Int) :
    (rewind cfg st now).1.isRunning = st.isRunning ∧
    (∀ c ∈ cfg.steps,
      ((rewind cfg st now).1.workers c.name).collected = (st.workers c.name).collected ∧
      ((rewind cfg st now).1.workers c.name).waiters = (st.workers c.name).waiters ∧
      servedEvs ((rewind cfg st now).1.workers c.name) =
        ((st.workers c.name).inProg.map (·.ev)).reverse ++ (st.workers c.name).queue.map (·.ev)) ∧
    (∀ n, n ∉ cfg.names → (rewind cfg st now).1.workers n = st.workers n) ∧
    (rewind cfg st now).2.contains .crash = false := by
  have hnd : ((sortedSteps cfg).map (·.name)).Nodup := (sortedSteps_names_perm cfg).nodup_iff.mpr hwf
  refine ⟨rewindLoop_running now _ _ _, fun c hc => ?_, fun n hn => ?_, rewind_no_crash cfg st now⟩
  · have hat : (rewind cfg st now).1.workers c.name = (rewindStep c (st.workers c.name) now).1 :=
      rewindLoop_at now (sortedSteps cfg) st [] hnd c (mem_sortedSteps_iff.mpr hc)
    rw [hat]
    exact ⟨(rewindStep_collected c _ now).1, (rewindStep_collected c _ now).2, rewindStep_order c _ now⟩
  · apply rewindLoop_other
    intro hm
    exact hn ((sortedSteps_names_perm cfg).mem_iff.mp hm)

example : C11.cfg2w.WF ∧
    servedEvs ((rewind C11.cfg2w (rewind C11.cfg2w C11.st2w 0).1 0).1.workers 0) = [C11.evB, C11.evA] ∧
    servedEvs ((rewind C11.cfg2w C11.st2w 0).1.workers 0) = [C11.evA, C11.evB] :=
  ⟨by unfold Cfg.WF; decide, by decide, by decide⟩

/-- "rewinding a rewound state changes nothing (timestamps aside)" -/
def C11_statement_rewind_idempotent : Prop :=
  ∀ (cfg : Cfg), cfg.WF → ∀ (st : State) (now now' : Int),
    eraseSt (rewind cfg (rewind cfg st now).1 now').1 = eraseSt (rewind cfg st now).1

/-- **refuted**: two invocations in flight on a 2-worker step swap worker ids under a second
rewind (so a rebuild that rewinds a mid-run state — seeded change C11-a — no longer matches the
worker ids of the ticks recorded afterwards).  The rewind belongs to the start of a run only. -/
theorem C11_refuted_rewind_idempotent : ¬ C11_statement_rewind_idempotent := by
  intro h
  have h1 := h C11.cfg2w (by unfold Cfg.WF; decide) C11.st2w 0 0
  have h2 := congrArg (fun s => (s.workers 0).inProg.map (fun i => (i.wid, i.ev.uid))) h1
  revert h2
  decide

example : ((rewind C11.cfg2w C11.st2w 0).1.workers 0).inProg.map (fun i => (i.wid, i.ev.uid)) = [(0, 11), (1, 12)] ∧
    ((rewind C11.cfg2w (rewind C11.cfg2w C11.st2w 0).1 0).1.workers 0).inProg.map (fun i => (i.wid, i.ev.uid)) = [(0, 12), (1, 11)] := by
  decide

/-- **the strongest true part**: when no step has more than one worker a second rewind changes
nothing but `first_attempt_at` (worker 0 is re-assigned to the same invocation) -/
theorem C11_rewind_idempotent_partial (cfg : Cfg) (hwf : cfg.WF) (h1 : cfg.steps.all (fun c => c.numWorkers ≤ 1) = true)
    (st : State) (now now' : Int) :
    eraseSt (rewind cfg (rewind cfg st now).1 now').1 = eraseSt (rewind cfg st now).1 :=
  simSt_iff_erase.mp (rewind_idem_single cfg hwf (fun c hc => by simpa using List.all_eq_true.mp h1 c hc) st now now')

example : C11.exCfg.WF ∧ C11.exCfg.steps.all (fun c => c.numWorkers ≤ 1) = true ∧
    ((rewind C11.exCfg { isRunning := true, workers := fun _ => { queue := [{ ev := C11.evA }, { ev := C11.evB }] } } 5).1.workers 0).inProg.map
      (fun i => (i.wid, i.ev.uid, i.firstAt)) = [(0, 11, 5)] := by
  refine ⟨by unfold Cfg.WF; decide, by decide, by decide⟩

/-! ### the recording discipline over whole histories -/

/-- the ticks the runner reduced along a schedule, with the clock of the reduction: a `drain` of
a non-empty buffer in a run that has not ended, whose reduction did not raise -/
def C11.drained (cfg : Cfg) (pol : Policy) : Runner → List Act → List (Tick × Int)
  | _, [] => []
  | r, a :: as =>
    (match a, r.outcome, r.buf with
      | .drain, none, t :: _ => if (reduce cfg pol t r.st r.now).2.contains .crash then [] else [(t, r.now)]
      | _, _, _ => []) ++ C11.drained cfg pol (r.step cfg pol a) as

/-- **every tick reduced is recorded exactly once, in order, with nothing else**: over any
schedule the log grows by exactly the sequence of ticks popped off the buffer and reduced. -/
theorem C11_log_is_reduced_ticks (cfg : Cfg) (pol : Policy) :
    ∀ (acts : List Act) (r : Runner), (Runner.run cfg pol r acts).log = r.log ++ C11.drained cfg pol r acts
  | [], r => by simp [Runner.run, C11.drained]
  | a :: as, r => by
    have ih := C11_log_is_reduced_ticks cfg pol as (r.step cfg pol a)
    simp only [Runner.run, List.foldl_cons] at ih ⊢
    rw [ih]
    simp only [C11.drained, ← List.append_assoc]
    congr 1
    unfold Runner.step
    cases ho : r.outcome with
    | some o => cases a <;> simp
    | none =>
      simp only [Option.isSome_none, Bool.false_eq_true, if_false]
      cases a with
      | drain =>
        cases hb : r.buf with
        | nil => simp
        | cons t rest =>
          simp only
          split
          · simp [Runner.finish]
          · exact (C11.execCmds_st_log _ _).2
      | workerDone s w res => simp only; split; · simp
                              split <;> simp
      | pull => simp only; split; · simp
                split <;> simp
      | timer => simp only; split <;> simp
      | advance dt => simp
      | external t => simp only; split <;> simp
      | stepWrite p => simp

example :
    (C11.drained C11.exCfg (fun _ _ _ _ => .stop) (Runner.init C11.exCfg initState 0 (some C11.startEv) none)
      [.drain, .advance 3, .workerDone 0 0 [.result none], .drain, .drain]).map (·.2) = [0, 3, 3] := by decide

/-! ### the recording discipline, tied to the source -/

/-- **one `drain` = one `_process_tick`**: the head of the buffer is reduced on the current state at
the current clock; if the reducer raises, nothing is recorded, the state is left as it was and the
run is over; otherwise the new state is the reduction, exactly `(tick, now)` is appended to the log
— before any command runs: commands touch neither — and the rest of the buffer stays in front. -/
theorem C11_drain_records_what_it_reduces (cfg : Cfg) (pol : Policy) (r : Runner) (t : Tick) (rest : List Tick)
    (hrun : r.outcome = none) (hb : r.buf = t :: rest) :
    ((reduce cfg pol t r.st r.now).2.contains .crash = true →
      (r.step cfg pol .drain).st = r.st ∧ (r.step cfg pol .drain).log = r.log ∧
        (r.step cfg pol .drain).outcome = some .crashed) ∧
    ((reduce cfg pol t r.st r.now).2.contains .crash = false →
      (r.step cfg pol .drain).st = (reduce cfg pol t r.st r.now).1 ∧
        (r.step cfg pol .drain).log = r.log ++ [(t, r.now)]) := by
  unfold Runner.step
  simp only [hrun, Option.isSome_none, Bool.false_eq_true, if_false, hb]
  constructor
  · intro hc
    simp only [hc, if_true, Runner.finish, and_self]
  · intro hc
    simp only [hc, Bool.false_eq_true, if_false]
    exact ⟨(C11.execCmds_st_log _ _).1, (C11.execCmds_st_log _ _).2⟩

example :
    let r := Runner.init C11.exCfg initState 0 (some C11.startEv) none
    r.outcome = none ∧ r.buf = [.addEvent { ev := C11.startEv } none] ∧
      (reduce C11.exCfg C11.pol0 (.addEvent { ev := C11.startEv } none) r.st r.now).2.contains .crash = false := by decide

/-- **source shape** (regenerated from `/repo` by `harness/gen/ticklog.py` on every run; a change
of any of these shapes stops this theorem from checking).
`_process_tick` = reduce-in-a-re-raising-try; `on_tick`; clean-up on exit commands; commands;
`after_tick` — the order `Runner.step … .drain` models (`C11_drain_records_what_it_reduces`).
`on_tick` is awaited once in the module, with the tick that was reduced on `self.state`;
`self.state` is written in three places only (`__init__`: the `init_state` argument, `run`: the
rewind, before the loop, `_process_tick`: the reduction) — `Runner.init`, `Runner.step`;
`_process_tick` has one call site and gets `tick_buffer.pop(0)`.
`rebuild_state_from_ticks` = `replayTicks`: rewind the given state first, one `_reduce_tick` per
given tick in order, no early exit, commands dropped, clock `time.time()` for both, state returned.
`plugins/basic.py`: `on_tick` appends to `queues.ticks`, which is otherwise only initialised to
`[]`; `replay()` returns that list and `init_state` the state handed to the run function.
`external_context.py`: `_state` = rebuild of (`init_state`, `replay()`); `running_steps()` and
`to_dict()` are computed from `_state` (`C11.runningSteps`, `C11.toDict`). -/
theorem C11_source_shape :
    GenTickLog.processTick =
      ["try[now,state:=_reduce_tick]reraise", "on_tick", "cleanup_if[CommandFailWorkflow,CommandHalt]", "for_commands",
        "after_tick", "return"] ∧
    GenTickLog.onTickArgIsReducedTick = true ∧ GenTickLog.onTickCallSites = 1 ∧ GenTickLog.processTickCallSites = 1 ∧
    GenTickLog.stateWriters =
      [("__init__", "init_state"), ("run", "rewind_in_progress"), ("_process_tick", "_reduce_tick")] ∧
    GenTickLog.tickFromBufferFront = true ∧ GenTickLog.rewindBeforeLoop = true ∧
    GenTickLog.rebuildRewindsFirst = true ∧ GenTickLog.rebuildReducesPerTick = 1 ∧
    GenTickLog.rebuildLoopHasEarlyExit = false ∧ GenTickLog.rebuildIteratesGivenTicks = true ∧
    GenTickLog.rebuildDropsCommands = true ∧ GenTickLog.rebuildClockIsWallClock = true ∧
    GenTickLog.rebuildReturnsState = true ∧
    GenTickLog.onTickAppends = true ∧ GenTickLog.ticksWrites = ["__init__:assign[]", "on_tick:append"] ∧
    GenTickLog.replayReturnsTicks = true ∧ GenTickLog.initStateReturnsQueues = true ∧
    GenTickLog.initStateWrites = ["__init__:=init_state"] ∧ GenTickLog.sameInitStateToQueuesAndRun = true ∧
    GenTickLog.stateIsRebuildOfInitAndLog = true ∧ GenTickLog.tickLogIsAdapterReplay = true ∧
    GenTickLog.runningStepsShape = "[step for step in state.workers.keys() if state.workers[step].in_progress]" ∧
    GenTickLog.toDictSerialisesState = true := by
  decide


/-- **C11**, a worker task that ends cancelled while the run goes on (no step result, `except
asyncio.CancelledError: pass`): it leaves the runner's task set and nothing else moves -- neither the
live state nor the tick log -- so the replay invariant is kept across it, and the in-progress entry of
that worker is still in the (live = rebuilt) state. -/
theorem C11_worker_gone_moves_nothing (cfg : Cfg) (pol : Policy) (base : State) (r : Runner) (s w : Nat)
    (h : C11.Inv cfg pol base r) :
    C11.Inv cfg pol base (r.workerGone s w) ∧ (r.workerGone s w).st = r.st ∧ (r.workerGone s w).log = r.log ∧
    (r.workerGone s w).buf = r.buf ∧ ∀ x ∈ (r.workerGone s w).running, x ∈ r.running ∧ ¬ (x.step = s ∧ x.wid = w) := by
  refine ⟨h, rfl, rfl, rfl, ?_⟩
  intro x hx
  simp only [Runner.workerGone, List.mem_filter, Bool.not_eq_true', Bool.and_eq_false_iff, beq_eq_false_iff_ne] at hx
  refine ⟨hx.1, ?_⟩
  rintro ⟨h1, h2⟩
  cases hx.2 with
  | inl a => exact a h1
  | inr b => exact b h2

/-- non-vacuity: after the start event's worker was started (one drain) it is in the task set and in progress in the state;
when it goes away the task set is empty, the state still holds it in progress, the log still has its one tick -/
example :
    let r := C11.runFrom C11.exCfg C11.pol0 initState 0 (some C11.startEv) none [.drain]
    (r.running.map (fun x => (x.step, x.wid)), ((r.workerGone 0 0).running.length),
      ((r.workerGone 0 0).st.workers 0).inProg.map (fun i => i.wid), (r.workerGone 0 0).log.length) = ([(0, 0)], 0, [0], 1) := by
  decide
