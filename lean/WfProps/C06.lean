import WfProofs.PolicyLemmas
import WfProofs.RunnerTerminal
import WfProofs.EngineRerun
import WfModel.GenEngineShape
/-!
# C06 — retry delays follow the wait strategy in documented order

* **Not before the delay** (proved, runner LTS): a retry granted with delay `d > 0` at time
  `t` is parked in the timer heap for time `t + d` and the `timer` action releases it into
  the tick buffer only when the clock has reached that time.
* **Documented order** (the property's second sentence: the first retry uses the first
  strategy of `wait_chain` / the initial delay of the exponential strategies, i.e. tenacity's
  indexing): **refuted**.  The control loop hands `failures = attempts + 1` to `next()`
  (`Gen.RP.loopFailures`), which hands it unchanged to the 0-based strategies
  (`Gen.RP.composedNext`, `Gen.RP.waitChainIndex`), so the k-th retry uses index `k`, not
  `k − 1`: the first strategy of a chain is never used, the first exponential delay is
  `multiplier·base`, the first incrementing delay `start + increment`.  Known finding
  C06/retry_delay_index_off_by_one; the package's own unit tests pin `next()`'s current
  behaviour, so this is recorded rather than repaired.
* **Retries are numbered by failures** (proved, reducer): a collect re-run (stale `collect_events`
  snapshot) is not a retry and does not restart the numbering — no step result touches the retry
  record of its invocation, the re-run keeps it, and the failure after it is failure `attempts + 1`.
-/
set_option linter.unusedVariables false
open Policy Gen.RP Engine

/-- a delayed retry goes to the timer heap, due at `now + d`, and not into the buffer -/
theorem C06_delayed_retry_parked (r : Runner) (att : Attempt) (step : Option Nat) (d : Nat) (hd : 0 < d) :
    (execCmd r (.queueEvent att step (some d))).heap =
        r.heap ++ [{ at_ := r.now + d, seq := r.seq, tick := .addEvent att step }] ∧
      (execCmd r (.queueEvent att step (some d))).buf = r.buf := by
  simp [execCmd, Runner.push, hd]

/-- **not before the delay**: whatever the `timer` action moves into the buffer was due -/
theorem C06_not_before_delay (cfg : Cfg) (pol : Engine.Policy) (r : Runner) (hlive : r.outcome = none)
    (hempty : r.buf = []) :
    (∀ t ∈ (r.step cfg pol .timer).buf, ∃ tm ∈ r.heap, tm.tick = t ∧ tm.at_ ≤ r.now) ∧
    (∀ tm ∈ r.heap, r.now < tm.at_ → tm ∈ (r.step cfg pol .timer).heap) := by
  unfold Runner.step
  simp only [hlive, Option.isSome_none, Bool.false_eq_true, ↓reduceIte, hempty, List.isEmpty_nil,
    Bool.not_true]
  constructor
  · intro t ht
    simp only [List.mem_map] at ht
    obtain ⟨tm, htm, rfl⟩ := ht
    have := List.mem_filter.mp (mem_sortTimers htm)
    exact ⟨tm, this.1, rfl, by simpa using this.2⟩
  · intro tm htm hlt
    simp only [List.mem_filter, htm, true_and, Bool.not_eq_true', decide_eq_false_iff_not, Int.not_le]
    exact hlt

/-- no other action moves heap entries into the buffer -/
theorem C06_only_timer_releases (cfg : Cfg) (pol : Engine.Policy) (r : Runner) (a : Act)
    (ha : a ≠ .drain ∧ a ≠ .timer) : (r.step cfg pol a).heap = r.heap := by
  unfold Runner.step
  split
  · rfl
  · cases a with
    | drain => exact absurd rfl ha.1
    | timer => exact absurd rfl ha.2
    | workerDone s w res => simp only; split; · rfl
                            split <;> rfl
    | pull => simp only; split; · rfl
              split <;> rfl
    | advance dt => rfl
    | external t => simp only; split <;> rfl
    | stepWrite p => rfl

/-! ## documented order: statement and refutation -/

/-- delay the engine uses before the `k`-th retry (`k ≥ 1`): it calls `next(elapsed, k, exc)` -/
def C06.engineDelay (p : Composed) (k : Nat) (el : Rat) (e : Nat) (u : Rat) : Option Rat := p.next el k e u

/-- tenacity's convention, which the module mirrors and the property demands: the `k`-th
retry waits what the strategy documents for index `k − 1` -/
def C06_delay_index_statement : Prop :=
  ∀ (ws : List Wait) (n : Nat) (k : Nat) (el : Rat) (e : Nat) (u : Rat), ws ≠ [] → 1 ≤ k → k < n →
    C06.engineDelay { retry := none, wait := waitChain ws, stop := stopAfterAttempt n } k el e u =
      some (waitChain ws (k - 1) u)

/-- F02 witness: `wait_chain(wait_fixed(3), wait_fixed(1), wait_fixed(2))`: the first retry
waits 1, not 3 -/
theorem C06_refuted_witness :
    C06.engineDelay { retry := none, wait := waitChain [waitFixed 3, waitFixed 1, waitFixed 2],
                      stop := stopAfterAttempt 5 } 1 0 0 0 = some 1 := by
  simp [C06.engineDelay, Composed.next, waitChain, waitFixed, stopAfterAttempt]
  grind

theorem C06_refuted : ¬ C06_delay_index_statement := by
  intro h
  have h1 := h [waitFixed 3, waitFixed 1, waitFixed 2] 5 1 0 0 0 (by simp) (by omega) (by omega)
  have h2 := C06_refuted_witness
  have h3 : waitChain [waitFixed 3, waitFixed 1, waitFixed 2] (1 - 1) 0 = 3 := by
    simp [waitChain, waitFixed]
  have hcast : ((5 : Nat) : Rat) = 5 := by rfl
  rw [hcast, h2, h3] at h1
  have : (1 : Rat) = 3 := Option.some.inj h1
  grind

/-- what *is* true of the code: the `k`-th retry waits the strategy's value at index `k` -/
theorem C06_delay_index_actual (w : Wait) (n k : Nat) (el : Rat) (e : Nat) (u : Rat) (hk : k < n) :
    C06.engineDelay { retry := none, wait := w, stop := stopAfterAttempt (n : Rat) } k el e u = some (w k u) := by
  have hcast : decide ((k : Rat) ≥ (n : Rat)) = false := by
    simp [Rat.natCast_le_natCast]; omega
  simp [C06.engineDelay, Composed.next, stopAfterAttempt, hcast]

/-! ## collect re-runs are not retries

A step that calls `ctx.collect_events` on a snapshot that went stale while it ran (another worker of the
step buffered an event meanwhile) is run again by the reducer: nothing failed, no policy is consulted, no
delay applies.  Retries stay numbered by the FAILURES of the invocation: the re-run carries the retry
record on, so the failure that follows it is failure `attempts + 1` and is parked for the delay the policy
grants for that number (`C06_delayed_retry_parked`). -/

/-- the source agrees in shape (re-read on every run, `harness/gen/engine_shape.py`): the reducer handles the six
result kinds the model's `applyRes` has arms for, and none of those branches re-admits the running
invocation (`_add_or_enqueue_event`, a fresh `EventAttempt`) or takes it out of `in_progress` itself —
the only ways its retry record could be rebuilt while it runs -/
theorem C06_source_shape :
    GenEngineShape.resultDispatch =
        ["StepWorkerResult", "StepWorkerFailed", "AddCollectedEvent", "DeleteCollectedEvent", "AddWaiter", "DeleteWaiter"] ∧
      GenEngineShape.resultBranchesReadmitting = [] := by decide

/-- no kind of step result (plain result, failure, collect add/delete, waiter add/delete), in any
combination, changes the retry record of the invocation that produced it -/
theorem C06_results_keep_retry_record (cfg : Cfg) (pol : Engine.Policy) (step : Nat) (tickEv : Ev) (dc : Bool)
    (res : List Res) (acc : ResAcc) :
    (res.foldl (applyRes cfg pol step tickEv dc) acc).exec.retryRec = acc.exec.retryRec :=
  foldl_applyRes_retryRec cfg pol step tickEv dc res acc

/-- **a collect re-run neither counts as a retry nor restarts the numbering**: whenever a result tick
leaves the invocation in progress, its slot holds the same event with the same attempts, first-attempt
time, last failure and recovery counts as before the tick — for every result list, state and clock -/
theorem C06_collect_rerun_keeps_retry_number (cfg : Cfg) (pol : Engine.Policy) (step worker : Nat)
    (tickEv : Ev) (res : List Res) (st : State) (now : Int) (exec : InProg)
    (hs : cfg.hasStep step = true)
    (hf : (st.workers step).inProg.find? (fun w => w.wid == worker) = some exec)
    (hrr : (res.foldl (applyRes cfg pol step tickEv (res.any isResult))
              { st := st, exec := exec }).stillInProgress = true) :
    ∃ x, ((processStepResult cfg pol step worker tickEv res st now).1.workers step).inProg.find?
            (fun w => w.wid == worker) = some x ∧ x.retryRec = exec.retryRec :=
  processStepResult_rerun_keeps_retryRec cfg pol step worker tickEv res st now exec hs hf hrr

/-- a stale `AddCollectedEvent` is what leaves it in progress, and it asks for no retry: one
`runWorker` on the same slot, no `queueEvent`, no policy call -/
theorem C06_stale_collect_reruns_in_place (cfg : Cfg) (pol : Engine.Policy) (step : Nat) (tickEv : Ev) (dc : Bool)
    (acc : ResAcc) (buf : Nat) (ev : Ev) (h0 : acc.stillInProgress = false)
    (hstale : (acc.exec.snapEvents.get buf).length <
      ((((acc.st.workers step).collected).touch buf).get buf).length) :
    (applyRes cfg pol step tickEv dc acc (.addCollected buf ev)).stillInProgress = true ∧
      (applyRes cfg pol step tickEv dc acc (.addCollected buf ev)).cmds =
        acc.cmds ++ [.runWorker step ev acc.exec.wid] := by
  simp [applyRes, h0, hstale]

/-- the failure after the re-run is failure `attempts + 1` of the record carried on: the policy is asked
with that number and the elapsed time since the FIRST attempt, and the retry it grants is queued with
that delay -/
theorem C06_failure_after_rerun_counts_on (cfg : Cfg) (pol : Engine.Policy) (step : Nat) (tickEv : Ev) (dc : Bool)
    (acc : ResAcc) (r : RetryRec) (hr : acc.exec.retryRec = r) (exc : Nat) (failedAt : Int)
    (c : StepCfg) (hc : cfg.find step = some c) (hretry : c.hasRetry = true) (d : Nat)
    (hp : pol step (failedAt - r.firstAt) (r.attempts + 1) exc = .retry d)
    -- (the failure of an execution that an earlier result of the same list already scheduled to run again is skipped)
    (hsip : acc.stillInProgress = false) :
    (applyRes cfg pol step tickEv dc acc (.failed exc failedAt)).cmds = acc.cmds ++
      [.queueEvent { ev := tickEv, attempts := some (r.attempts + 1), firstAt := some r.firstAt,
                     lastExc := some exc, lastFailedAt := some failedAt, rc := r.rc } (some step) (some d)] := by
  subst hr
  simp only [InProg.retryRec] at hp
  simp [applyRes, retryDecision, hc, hretry, hp, InProg.retryRec, hsip]

/-! Non-vacuity: step 3 (two workers, retry policy); worker 0 runs event uid 1 on its second retry
(`attempts = 2`) with an empty snapshot of buffer 0 while the live buffer already holds event uid 2. -/
def C06.cfg : Cfg := { steps := [{ name := 3, accepted := [5, 6], numWorkers := 2, hasRetry := true }] }
def C06.exec : InProg :=
  { ev := { ty := 5, kind := .plain, uid := 1 }, wid := 0, snapEvents := [], snapWaiters := [],
    attempts := 2, firstAt := 10, lastExc := some 7, lastFailedAt := some 11 }
def C06.st : State :=
  { isRunning := true,
    workers := fun s => if s = 3 then { inProg := [C06.exec], collected := [(0, [{ ty := 6, kind := .plain, uid := 2 }])] } else {} }
def C06.res : List Res := [.addCollected 0 { ty := 5, kind := .plain, uid := 1 }, .result none]

example : ∃ x, ((processStepResult C06.cfg (fun _ _ k _ => .retry k) 3 0 C06.exec.ev C06.res C06.st 13).1.workers 3).inProg.find?
    (fun w => w.wid == 0) = some x ∧ x.retryRec = C06.exec.retryRec :=
  C06_collect_rerun_keeps_retry_number C06.cfg _ 3 0 C06.exec.ev C06.res C06.st 13 C06.exec (by decide) (by decide) (by decide)
example : (processStepResult C06.cfg (fun _ _ k _ => .retry k) 3 0 C06.exec.ev C06.res C06.st 13).2 =
    [.runWorker 3 { ty := 5, kind := .plain, uid := 1 } 0] := by decide
/-- ... and the re-run's failure at t = 13 is failure 3: asked with (elapsed 3, attempts 3), parked for `3` -/
example : (applyRes C06.cfg (fun _ _ k _ => .retry k) 3 C06.exec.ev false { st := C06.st, exec := C06.exec } (.failed 7 13)).cmds =
    [.queueEvent { ev := C06.exec.ev, attempts := some 3, firstAt := some 10, lastExc := some 7, lastFailedAt := some 13 } (some 3) (some 3)] :=
  C06_failure_after_rerun_counts_on C06.cfg _ 3 C06.exec.ev false { st := C06.st, exec := C06.exec } C06.exec.retryRec rfl 7 13
    { name := 3, accepted := [5, 6], numWorkers := 2, hasRetry := true } (by decide) rfl 3 rfl rfl
