import WfProofs.ResourceRun
/-!
Progress of the await-free sections of M9 under the solo invariant: from every
reachable state, ticking the running task reaches -- after finitely many micro-steps
-- a point where it suspends, waits for the lock or has finished.  In particular
resolution terminates on cyclic graphs (the cycle check cuts every dependency path
that returns to itself).

Measure (lexicographic): not yet inside its scope; resources of the graph not yet in
the scoped cache; resources of the graph not on the `_get` stack; dependencies left
in the innermost activation (or requests left in the invocation).
-/
namespace Resource

/-- resources of a graph of size `n` that do not occur in `l` -/
def missing (n : Nat) (l : List Nat) : Nat := ((List.range n).filter fun x => !l.contains x).length

theorem missing_cons_lt {n x : Nat} {l : List Nat} (hx : x < n) (hnot : x ∉ l) :
    missing n (x :: l) < missing n l := by
  unfold missing
  have hx_in : x ∈ (List.range n).filter (fun y => !l.contains y) := by
    simp [hx, hnot]
  -- a sublist obtained by filtering further, missing at least `x`
  have hfilter : (List.range n).filter (fun y => !(x :: l).contains y) =
      ((List.range n).filter (fun y => !l.contains y)).filter (fun y => y != x) := by
    rw [List.filter_filter]
    congr 1
    funext y
    simp only [List.contains_cons, Bool.not_or]
    cases hyx : (y == x) <;> simp [hyx, bne]
  rw [hfilter]
  have hle := List.length_filter_le (fun y => y != x) ((List.range n).filter (fun y => !l.contains y))
  apply Decidable.byContradiction
  intro hge
  have heq : (((List.range n).filter (fun y => !l.contains y)).filter (fun y => y != x)).length =
      ((List.range n).filter (fun y => !l.contains y)).length := by omega
  have := List.length_filter_eq_length_iff.mp heq x hx_in
  simp at this

/-- the progress measure of the running task -/
def meas (g : Graph) (s : St) : Nat × Nat × Nat × Nat :=
  match s.cur with
  | none => (0, 0, 0, 0)
  | some t =>
    match s.tasks[t]? with
    | none => (0, 0, 0, 0)
    | some k =>
      match k.phase with
      | .fresh => (2, 0, 0, 0)
      | .lockWait => (2, 0, 0, 0)
      | .done _ => (0, 0, 0, 0)
      | .active =>
        (1, missing g.length (keys s.scache), missing g.length (k.stack.map Frame.rid),
          match k.stack with
          | [] => k.todo.length + 1
          | f :: _ => f.rem.length + 1)

end Resource

namespace Resource

abbrev Lex4 : (Nat × Nat × Nat × Nat) → (Nat × Nat × Nat × Nat) → Prop :=
  Prod.Lex (· < ·) (Prod.Lex (· < ·) (Prod.Lex (· < ·) (· < ·)))

theorem lex4_of_fst_lt {a b : Nat × Nat × Nat × Nat} (h : a.1 < b.1) : Lex4 a b := by
  obtain ⟨a1, a2⟩ := a; obtain ⟨b1, b2⟩ := b
  exact Prod.Lex.left _ _ h

def cursorLen (k : Task) : Nat :=
  match k.stack with
  | [] => k.todo.length + 1
  | f :: _ => f.rem.length + 1

theorem meas_active {g : Graph} {s : St} {t : Nat} {k : Task} (hc : s.cur = some t) (hk : s.tasks[t]? = some k)
    (ha : k.phase = .active) :
    meas g s = (1, missing g.length (keys s.scache), missing g.length (k.stack.map Frame.rid), cursorLen k) := by
  simp only [meas, hc, hk, ha, cursorLen]

theorem finish_cur (c : Cfg) (s : St) (t : Nat) (k : Task) (o : Outcome) : (finish c s t k o).cur = none := by
  unfold finish
  simp only
  split
  · split <;> rfl
  · rfl

theorem raise_cur (c : Cfg) (s : St) (t : Nat) (k : Task) (o : Outcome) : (raise c s t k o).cur = none :=
  finish_cur _ _ _ _ _

theorem lt_of_get {g : Graph} {x : Nat} {r : Res} (h : g[x]? = some r) : x < g.length :=
  (List.getElem?_eq_some_iff.mp h).1

/-- `_get` returned a cached value: one dependency (or request) less to go -/
theorem deliver_progress {g : Graph} {s : St} {t : Nat} {k : Task} {x v : Nat} (hc : s.cur = some t)
    (hk : s.tasks[t]? = some k) (ha : k.phase = .active) (hcaller : CallerOk k.todo k.stack x) :
    Lex4 (meas g (deliver s t k x v)) (meas g s) := by
  rw [meas_active hc hk ha]
  unfold deliver
  cases hst : k.stack with
  | nil =>
    rw [hst] at hcaller
    have htodo := head?_eq_some_cons hcaller
    rw [meas_active (k := { k with got := k.got ++ [v], todo := k.todo.tail }) (by simpa [setTask] using hc)
      (by simp only [setTask]; rw [getElem?_set_tasks hk]; simp [hst]) ha]
    simp only [setTask, cursorLen, hst, List.map_nil]
    refine Prod.Lex.right _ (Prod.Lex.right _ (Prod.Lex.right _ ?_))
    rw [htodo]; simp
  | cons f fs =>
    rw [hst] at hcaller
    have hrem := head?_eq_some_cons hcaller.1
    rw [meas_active (k := { k with stack := { f with args := f.args ++ [v], rem := f.rem.tail } :: fs })
      (by simpa [setTask] using hc) (by simp only [setTask]; rw [getElem?_set_tasks hk]; simp) ha]
    simp only [setTask, cursorLen, hst, List.map_cons]
    refine Prod.Lex.right _ (Prod.Lex.right _ (Prod.Lex.right _ ?_))
    rw [hrem]; simp

theorem enterGet_progress {c : Cfg} {g : Graph} {s : St} {t : Nat} {k : Task} {x : Nat} (h : Inv c g s)
    (hc : s.cur = some t) (hk : s.tasks[t]? = some k) (ha : k.phase = .active)
    (hcaller : CallerOk k.todo k.stack x) :
    (enterGet c g s t k x).cur = none ∨ Lex4 (meas g (enterGet c g s t k x)) (meas g s) := by
  have A := h.act t k hk ha
  unfold enterGet
  split
  · exact Or.inl (raise_cur _ _ _ _ _)
  · rename_i r hr
    split
    · exact Or.inl (raise_cur _ _ _ _ _)
    · rename_i hx
      split
      · exact Or.inr (deliver_progress hc hk ha hcaller)
      · split
        · exact Or.inr (deliver_progress hc hk ha hcaller)
        · right
          rw [meas_active hc hk ha]
          rw [meas_active (k := { k with stack := { rid := x, rem := r.deps, args := [], waiting := none } :: k.stack })
            (by simpa [setTask] using hc) (by simp only [setTask]; rw [getElem?_set_tasks hk]; simp) ha]
          simp only [setTask, List.map_cons]
          refine Prod.Lex.right _ (Prod.Lex.right _ (Prod.Lex.left _ _ ?_))
          apply missing_cons_lt (lt_of_get hr)
          rw [A.resolving] at hx; simpa using hx

theorem complete_progress {c : Cfg} {g : Graph} {s : St} {t : Nat} {k : Task} {f : Frame} {fs : List Frame} {obj : Nat}
    (hc : s.cur = some t) (hk : s.tasks[t]? = some k) (ha : k.phase = .active)
    (hnk : f.rid ∉ keys s.scache) (m0 : Nat × Nat × Nat × Nat)
    (hm0 : m0 = (1, missing g.length (keys s.scache), missing g.length (k.stack.map Frame.rid), cursorLen k)) :
    (complete c g s t k f fs obj).cur = none ∨ Lex4 (meas g (complete c g s t k f fs obj)) m0 := by
  unfold complete
  split
  · exact Or.inl (raise_cur _ _ _ _ _)
  · rename_i r hr
    split
    · exact Or.inl (raise_cur _ _ _ _ _)
    · right
      subst hm0
      unfold deliver
      simp only
      cases hfs : fs with
      | nil =>
        rw [meas_active (k := { k with stack := [], got := k.got ++ [obj], todo := k.todo.tail })
          (by simpa [setTask] using hc) (by simp only [setTask]; rw [getElem?_set_tasks hk]; simp) ha]
        simp only [setTask]
        refine Prod.Lex.right _ (Prod.Lex.left _ _ ?_)
        exact missing_cons_lt (lt_of_get hr) hnk
      | cons p ps =>
        rw [meas_active (k := { k with stack := { p with args := p.args ++ [obj], rem := p.rem.tail } :: ps })
          (by simpa [setTask] using hc) (by simp only [setTask]; rw [getElem?_set_tasks hk]; simp) ha]
        simp only [setTask]
        refine Prod.Lex.right _ (Prod.Lex.left _ _ ?_)
        exact missing_cons_lt (lt_of_get hr) hnk

theorem callFactory_progress {c : Cfg} {g : Graph} {s : St} {t : Nat} {k : Task} {f : Frame} {fs : List Frame}
    (h : Inv c g s) (hc : s.cur = some t) (hk : s.tasks[t]? = some k) (ha : k.phase = .active)
    (hst : k.stack = f :: fs) :
    (callFactory c g s t k f fs).cur = none ∨ Lex4 (meas g (callFactory c g s t k f fs)) (meas g s) := by
  have A := h.act t k hk ha
  have hfr := A.frames
  rw [hst] at hfr
  obtain ⟨⟨r, pre, hr, hd, hp, h1, h2, h3⟩, _, _⟩ := hfr
  unfold callFactory
  simp only
  split
  · exact Or.inl (raise_cur _ _ _ _ _)
  · split
    · exact Or.inl rfl
    · exact complete_progress (s := { s with nextObj := s.nextObj + 1, log := .call t f.rid s.nextObj f.args :: s.log })
        hc hk ha h1 _ (meas_active hc hk ha)

theorem start_meas {c : Cfg} {g : Graph} {s : St} {t : Nat} {k : Task} (hc : s.cur = some t)
    (hk : s.tasks[t]? = some k) : (meas g (start c s t k)).1 = 1 := by
  unfold start
  split
  · simp only [meas, setTask, hc]; rw [getElem?_set_tasks hk]; simp
  · simp only [meas, setTask, hc]; rw [getElem?_set_tasks hk]; simp

theorem tickTask_progress {c : Cfg} {g : Graph} {s : St} {t : Nat} {k : Task} (h : Inv c g s)
    (hc : s.cur = some t) (hk : s.tasks[t]? = some k) :
    (tickTask c g s t k).cur = none ∨ Lex4 (meas g (tickTask c g s t k)) (meas g s) := by
  unfold tickTask
  split
  · rename_i hph
    have hm : (meas g s).1 = 2 := by simp [meas, hc, hk, hph]
    split
    · exact Or.inl rfl
    · split
      · split
        · right
          have := start_meas (c := c) (g := g) (s := { s with lock := some t }) (t := t) (k := k) hc hk
          exact lex4_of_fst_lt (by rw [this, hm]; decide)
        · exact Or.inl rfl
      · right
        have := start_meas (c := c) (g := g) hc hk
        exact lex4_of_fst_lt (by rw [this, hm]; decide)
  · rename_i hph
    have hm : (meas g s).1 = 2 := by simp [meas, hc, hk, hph]
    split
    · right
      have := start_meas (c := c) (g := g) hc hk
      exact lex4_of_fst_lt (by rw [this, hm]; decide)
    · exact Or.inl rfl
  · exact Or.inl rfl
  · rename_i hph
    split
    · rename_i hst
      split
      · exact Or.inl (finish_cur _ _ _ _ _)
      · rename_i x rest htodo
        exact enterGet_progress h hc hk hph (by rw [hst, htodo]; simp [CallerOk])
    · rename_i f fs hst
      split
      · exact Or.inl rfl
      · rename_i hw
        split
        · rename_i d rest hrem
          exact enterGet_progress h hc hk hph (by rw [hst]; simp [CallerOk, hrem, hw])
        · exact callFactory_progress h hc hk hph hst

theorem tick_progress {c : Cfg} {g : Graph} {s : St} (h : Inv c g s) :
    (stepD c g s .tick).cur = none ∨ Lex4 (meas g (stepD c g s .tick)) (meas g s) := by
  unfold stepD step
  simp only
  split
  · rename_i hc; exact Or.inl (by simpa using hc)
  · rename_i t hc
    split
    · exact Or.inl rfl
    · rename_i k hk
      simpa using tickTask_progress h hc hk

/-- Every await-free section ends: from a state satisfying the solo invariant,
finitely many `tick`s bring the running task to a suspension point (an async
factory's await, the lock) or to its end -- on every graph, cyclic or not. -/
theorem settle_terminates {c : Cfg} {g : Graph} (s : St) (h : Inv c g s) :
    ∃ n, (settle c g n s).cur = none := by
  cases hc : s.cur with
  | none => exact ⟨0, hc⟩
  | some t =>
    have hstep : Inv c g (stepD c g s .tick) := inv_step .tick h (fun _ => rfl)
    rcases tick_progress h with h1 | hlt
    · exact ⟨2, by simp [settle, hc, h1]⟩
    · obtain ⟨n, hn⟩ := settle_terminates (stepD c g s .tick) hstep
      exact ⟨n + 1, by simp [settle, hc, hn]⟩
termination_by meas g s
decreasing_by exact hlt

end Resource
