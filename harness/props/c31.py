"""C31 — timeout and cancellation stop the run cleanly and keep it resumable."""
from __future__ import annotations

import copy
import random

from ..engine import live, monitors, specgen, suite
from ..runner import Env, Outcome, Violation

THEOREMS = ["C31_active_steps", "C31_timeout_tick", "C31_cancel_tick", "C31_drain_timeout", "C31_drain_cancel",
            "C31_nothing_after_end", "C31_finished_never_timed_out", "C31_timeout_only_after_deadline",
            "C31_halt_timeout_only_by_timeout_tick", "C31_cancel_keeps_serialised_context"]
EXPLANATION = (
    "Lean: the timeout tick publishes WorkflowTimedOutEvent naming exactly the steps with an in-progress invocation and halts with "
    "`timeout`, keeping queues/in-progress/buffers/waiters; the cancel tick publishes WorkflowCancelledEvent and halts with "
    "`cancelledByUser` leaving the broker state — hence the serialised context — unchanged; on the runner LTS, for every "
    "schedule, either tick ends the run with its event last, no worker left and nothing at all happening afterwards (a run that "
    "ended is never timed out); invariant over all action lists: the run's TickTimeout is processed, and `halt timeout` issued, "
    "only at clock >= start + timeout, and only that tick produces `halt timeout`. Tie: reducer and runner correspondences "
    "(timeouts, cancels at scheduler-chosen points), serde. Search: live workflows with timeouts 1..30 and cancels at random "
    "quiet points: terminal event/outcome kinds, active_steps vs the in-progress table, deadline, no step entry and no tick after "
    "the end, state unchanged by cancel; after a cancel the context is serialised (ctx.to_dict -> JSON), resumed with "
    "Context.from_dict and every invocation that was in progress or queued is executed again."
)
ASSUMPTIONS = suite.ENGINE_ASSUMPTIONS + [
    "delivery of CancelledError into running step bodies and executor threads of sync steps is asyncio's; covered only by the monitors (no step entry after the end)",
    "WorkflowTimeoutError / WorkflowCancelledByUser are raised from the halt command by the runner glue (checked on live runs, not modelled)",
]


def _cancel_resume(env: Env, out: Outcome, n: int) -> None:
    rng = random.Random(env.rng.randrange(1 << 30))
    jobs = []
    if env.replay is not None and isinstance(env.replay.get("payload", {}).get("case"), dict) and "cancel_resume" in env.replay["payload"]["case"]:
        c = env.replay["payload"]["case"]["cancel_resume"]
        jobs.append((c["spec"], c["seed"], c.get("actions1"), c.get("actions2")))
    for _ in range(n):
        spec = specgen.gen_spec(rng, allow_timeout=False, family=rng.choice(["general", "fanin", "retry", "wait"]))
        spec["externals"] = [e for e in spec.get("externals", []) if e["op"] == "send"]
        spec["externals"].append({"op": "cancel", "after_quiet": rng.randint(0, 4)})
        spec["snapshot_after_end"] = True
        spec.pop("timeout", None)
        if rng.random() < 0.6:
            spec["resume_timeout"] = rng.choice([1, 2, 4, 10, 30])
        jobs.append((spec, rng.randrange(1 << 30), None, None))
    resumed: list = []
    for spec, seed, a1, a2 in jobs:
        tr1 = live.run_spec(spec, seed=seed, replay_actions=a1)
        out.evaluations += 1
        case = {"cancel_resume": {"spec": spec, "seed": seed, "actions1": tr1.actions, "actions2": None}}
        for v in monitors.mon_c31(tr1):
            out.violations.append(v)
        if tr1.outcome[0] != "cancelled":
            out.count("cancel_resume:not_cancelled:" + tr1.outcome[0])
            continue
        snaps = [s for s in tr1.snapshots if s.get("after_end")]
        if not snaps:
            out.violations.append(Violation("C31/context_not_serialisable_after_cancel", "ctx.to_dict() failed after cancel_run: " + "; ".join(tr1.notes)[:300], case))
            continue
        rc = [c for c in tr1.calls if c.after is not None and c.caller in ("run", "_process_tick")]
        last = rc[-1].after if rc else None
        pending = []
        if last is not None:
            for nm, ws in last.workers.items():
                pending += [(nm, getattr(ip.event, "uid", None)) for ip in ws.in_progress if getattr(ip.event, "uid", None) is not None]
                pending += [(nm, getattr(a.event, "uid", None)) for a in ws.queue if getattr(a.event, "uid", None) is not None]
        spec2 = copy.deepcopy(spec)
        spec2["externals"] = copy.deepcopy([e for e in getattr(tr1, "remaining_externals", []) if e["op"] == "send"])
        spec2.pop("snapshot_after_end", None)
        spec2["_resumed"] = True
        if spec.get("resume_timeout") is not None:
            spec2["timeout"] = spec["resume_timeout"]  # the resumed run is bounded by the workflow's timeout like a fresh one
        tr2 = live.run_spec(spec2, seed=seed + 1, replay_actions=a2, resume_from=snaps[0]["dict"])
        case["cancel_resume"]["actions2"] = tr2.actions
        out.count("cancel_resume:resumed")
        out.count(f"cancel_resume:pending:{min(len(pending), 4)}")
        out.count("cancel_resume:outcome:" + tr2.outcome[0])
        if pending:
            out.nontrivial((repr(spec), tuple(tr1.actions)))
        resumed.append(tr2)
        out.count("cancel_resume:resume_timeout:" + str(spec2.get("timeout")))
        for v in monitors.mon_c31(tr2):
            v.replay = case
            out.violations.append(v)
        if tr2.outcome[0] in ("invalid",):
            out.violations.append(Violation("C31/resume_after_cancel_failed", f"Context.from_dict/run raised: {tr2.outcome[1]!r}", case))
            continue
        entered = {(r[1], r[2]) for r in tr2.steps if r[0] == "enter"}
        ended_early = tr2.outcome[0] in ("result", "error", "timeout")
        for p in pending:
            if p not in entered and not ended_early:
                out.violations.append(Violation("C31/pending_invocation_not_resumed", f"after cancel + resume the invocation {p} (in progress or queued at the cancel) was never executed; resumed run ended as {tr2.outcome[0]}", case))

    # the resumed runs against the runner LTS (rinit without a start event: timer heap, buffer, workers, stream, commands per tick)
    suite.runner_corr(out, resumed, "engine-runner-resumed")


def run(env: Env) -> Outcome:
    out = Outcome()
    out.rule = ("live: general/retry/wait workflows with timeouts and cancels at scheduler-chosen quiet points; cancel_resume: cancel, ctx.to_dict -> JSON, "
                "Context.from_dict, run again; non-trivial = more than 2 ticks / work pending at the cancel; distinct by (spec, schedule)")

    def with_end(spec: dict, rng: random.Random) -> dict:
        r = rng.random()
        if r < 0.45:
            spec["timeout"] = rng.choice([1, 2, 4, 10, 30])
        elif r < 0.85:
            spec.setdefault("externals", []).append({"op": "cancel", "after_quiet": rng.randint(0, 5)})
        return spec

    suite.direct_corr(env, out, env.budget(1500, 30000))
    suite.serde_corr(env, out, env.budget(200, 4000))
    suite.live_runs(env, out, env.budget(20, 400), [monitors.mon_c31], extra_specs=suite.load_corpus("C31"))
    suite.live_runs(env, out, env.budget(300, 6000), [monitors.mon_c31], mutate_spec=with_end)
    _cancel_resume(env, out, env.budget(100, 2000))
    # a finishing step whose sibling needs a while to unwind from its cancellation, with the deadline inside that window
    # (fractional times: outside the integral-time runner correspondence, monitors only)
    rng = random.Random(env.rng.randrange(1 << 30))
    slow = []
    for _ in range(env.budget(40, 800)):
        s_ = rng.choice([1, 2, 3, 5])
        fin_first = rng.random() < 0.8
        slow.append({"spec": {"steps": [
            {"name": "s00", "accepts": [0], "nw": 1, "retry": None, "script": [["send", 5, None, None], ["send", 6, None, None], ["ret", "none"]]},
            {"name": "s02", "accepts": [5], "nw": 1, "retry": None, "script": [["sleep", s_], ["ret", "stop"]]},
            {"name": "s04", "accepts": [6], "nw": rng.randint(1, 2), "retry": None,
             "script": [["on_cancel_sleep", rng.choice([0.125, 0.25, 0.375, 1])], ["sleep", 1000], ["ret", "none"]]}],
            "externals": [], "timeout": (s_ + rng.choice([0.125, 0.25, 0.4375])) if fin_first else max(s_ - rng.choice([0.5, 1]), 0.5)},
            "seed": rng.randrange(1 << 30)})
    suite.live_runs(env, out, 0, [monitors.mon_c31], extra_specs=slow, check_runner=False)
    return out
