import WfProofs.EngineReduce
/-!
Work conservation (C03, first half): a step has queued events only while all of
its worker slots are taken.  `QOk ss nw : ss.queue ≠ [] → nw ≤ ss.inProg.length`.
-/
set_option linter.unusedSimpArgs false
set_option linter.unusedVariables false

namespace Engine

def QOk (ss : StepState) (nw : Nat) : Prop := ss.queue ≠ [] → nw ≤ ss.inProg.length

theorem qOk_empty (nw : Nat) : QOk {} nw := by simp [QOk]

theorem addOrEnqueue_qOk (att : Attempt) (step : Nat) (ss : StepState) (nw : Nat) (now : Int)
    (h : QOk ss nw) : QOk (addOrEnqueue att step ss nw now).1 nw := by
  unfold addOrEnqueue
  split
  · rename_i hlt
    split
    · intro hq
      have := h hq
      simp only [List.length_append, List.length_cons, List.length_nil]
      omega
    · exact h
  · rename_i hge
    intro _
    simp only
    omega

theorem addOrEnqueue_queue_of_space (att : Attempt) (step : Nat) (ss : StepState) (nw : Nat) (now : Int)
    (hlt : ss.inProg.length < nw) : (addOrEnqueue att step ss nw now).1.queue = ss.queue := by
  unfold addOrEnqueue
  simp only [hlt, ↓reduceIte]
  split <;> rfl

/-- with enough fuel the drain loop stops only when the queue is empty or the step is full -/
theorem drain_post (step nw : Nat) (now : Int) :
    ∀ (fuel : Nat) (ss : StepState), ss.queue.length ≤ fuel →
      (drain step nw now fuel ss).1.queue = [] ∨ nw ≤ (drain step nw now fuel ss).1.inProg.length
  | 0, ss, h => by
    left
    simp only [drain]
    exact List.eq_nil_of_length_eq_zero (by omega)
  | fuel + 1, ss, h => by
    unfold drain
    split
    · rename_i hq; left; exact hq
    · rename_i a q hq
      split
      · rename_i hlt
        apply drain_post step nw now fuel
        rw [addOrEnqueue_queue_of_space a step { ss with queue := q } nw now hlt]
        simp only
        rw [hq] at h
        simp only [List.length_cons] at h
        omega
      · rename_i hge
        right
        show nw ≤ ss.inProg.length
        omega

theorem drain_qOk (step nw : Nat) (now : Int) (ss : StepState) :
    QOk (drain step nw now ss.queue.length ss).1 nw := by
  intro hq
  rcases drain_post step nw now ss.queue.length ss (Nat.le_refl _) with h | h
  · exact absurd h hq
  · exact h

theorem resolveLoop_qOk (ev : Ev) (step nw : Nat) (now : Int) :
    ∀ (rest done : List Waiter) (ss : StepState) (cmds : List Cmd) (hd : Bool),
      QOk ss nw → QOk (resolveLoop ev step nw now done rest ss cmds hd).1 nw
  | [], done, ss, cmds, hd, h => by simp only [resolveLoop]; exact h
  | w :: rest, done, ss, cmds, hd, h => by
    unfold resolveLoop
    split
    · apply resolveLoop_qOk
      apply addOrEnqueue_qOk
      exact h
    · exact resolveLoop_qOk ev step nw now rest _ ss cmds hd h

def QInv (cfg : Cfg) (st : State) : Prop := ∀ c ∈ cfg.steps, QOk (st.workers c.name) c.numWorkers

theorem qInv_init (cfg : Cfg) : QInv cfg initState := fun _ _ => qOk_empty _

theorem QInv.set {cfg : Cfg} {st : State} (hwf : cfg.WF) (h : QInv cfg st) {c : StepCfg}
    (hc : c ∈ cfg.steps) {ss : StepState} (hs : QOk ss c.numWorkers) : QInv cfg (st.set c.name ss) := by
  intro d hd
  simp only [State.set]
  split
  · rename_i heq
    have h1 := Cfg.find_of_mem hwf hc
    have h2 := Cfg.find_of_mem hwf hd
    rw [heq] at h2
    rw [h1] at h2
    injection h2 with h2
    subst h2; exact hs
  · exact h d hd

theorem QInv.of_eq {cfg : Cfg} {st st' : State} (h : QInv cfg st)
    (heq : ∀ s, (st'.workers s).inProg = (st.workers s).inProg ∧ (st'.workers s).queue = (st.workers s).queue) :
    QInv cfg st' := by
  intro c hc
  have := h c hc
  simpa [QOk, (heq c.name).1, (heq c.name).2] using this

theorem addEventWaiters_qInv (cfg : Cfg) (hwf : cfg.WF) (ev : Ev) (target : Option Nat) (now : Int) :
    ∀ (cs : List StepCfg) (acc : AddAcc), (∀ c ∈ cs, c ∈ cfg.steps) → QInv cfg acc.st →
      QInv cfg (addEventWaiters cfg ev target now cs acc).st
  | [], acc, _, h => by simp only [addEventWaiters]; exact h
  | c :: cs, acc, hsub, h => by
    have hc : c ∈ cfg.steps := hsub c (by simp)
    have hsub' : ∀ d ∈ cs, d ∈ cfg.steps := fun d hd => hsub d (by simp [hd])
    unfold addEventWaiters
    split
    · exact addEventWaiters_qInv cfg hwf ev target now cs acc hsub' h
    · apply addEventWaiters_qInv cfg hwf ev target now cs _ hsub'
      split
      · exact QInv.set hwf h hc (resolveLoop_qOk _ _ _ _ _ _ _ _ _ (h c hc))
      · exact h

theorem addEventRoute_qInv (cfg : Cfg) (hwf : cfg.WF) (att : Attempt) (target : Option Nat) (now : Int) :
    ∀ (cs : List StepCfg) (acc : AddAcc), (∀ c ∈ cs, c ∈ cfg.steps) → QInv cfg acc.st →
      QInv cfg (addEventRoute att target now cs acc).st
  | [], acc, _, h => by simp only [addEventRoute]; exact h
  | c :: cs, acc, hsub, h => by
    have hc : c ∈ cfg.steps := hsub c (by simp)
    have hsub' : ∀ d ∈ cs, d ∈ cfg.steps := fun d hd => hsub d (by simp [hd])
    unfold addEventRoute
    split
    · exact addEventRoute_qInv cfg hwf att target now cs acc hsub' h
    · split
      · apply addEventRoute_qInv cfg hwf att target now cs _ hsub'
        exact QInv.set hwf h hc (addOrEnqueue_qOk _ _ _ _ _ (h c hc))
      · exact addEventRoute_qInv cfg hwf att target now cs acc hsub' h

theorem processAddEvent_qInv (cfg : Cfg) (hwf : cfg.WF) (att : Attempt) (target : Option Nat)
    (st : State) (now : Int) (h : QInv cfg st) : QInv cfg (processAddEvent cfg att target st now).1 := by
  rw [processAddEvent_fst]
  have h0 : QInv cfg (addEventStart att st) := by unfold addEventStart; split <;> exact h
  exact addEventRoute_qInv cfg hwf att target now cfg.steps _ (fun _ hc => hc)
    (addEventWaiters_qInv cfg hwf att.ev target now cfg.steps _ (fun _ hc => hc) h0)

theorem applyRes_queue (cfg : Cfg) (pol : Policy) (step : Nat) (tickEv : Ev) (dc : Bool)
    (acc : ResAcc) (r : Res) :
    ∀ s, ((applyRes cfg pol step tickEv dc acc r).st.workers s).queue = (acc.st.workers s).queue := by
  intro s
  cases r with
  | result r =>
    cases r with
    | none => simp [applyRes]
    | some ev => simp only [applyRes]; split <;> simp [clearAll]
  | failed exc failedAt =>
    simp only [applyRes]
    split
    · rfl
    split
    · simp
    all_goals
      split
      · split <;> simp
      · simp
  | addCollected buf ev =>
    simp only [applyRes]
    split
    · rfl
    split <;> (simp only [State.set]; split <;> (try rename_i h; subst h) <;> rfl)
  | deleteCollected buf =>
    simp only [applyRes]
    split
    · simp only [State.set]; split <;> (try rename_i h; subst h) <;> rfl
    · rfl
  | addWaiter wid waiterEv req timeout ty =>
    simp only [applyRes]
    split <;> (simp only [State.set]; split <;> (try rename_i h; subst h) <;> rfl)
  | deleteWaiter wid =>
    simp only [applyRes]
    split
    · simp only [State.set]; split <;> (try rename_i h; subst h) <;> rfl
    · rfl

theorem foldl_applyRes_queue (cfg : Cfg) (pol : Policy) (step : Nat) (tickEv : Ev) (dc : Bool) :
    ∀ (res : List Res) (acc : ResAcc) (s : Nat),
      ((res.foldl (applyRes cfg pol step tickEv dc) acc).st.workers s).queue = (acc.st.workers s).queue
  | [], acc, s => rfl
  | r :: rs, acc, s => by
    simp only [List.foldl_cons]
    rw [foldl_applyRes_queue cfg pol step tickEv dc rs _ s, applyRes_queue]

theorem settle_queue (acc : ResAcc) (step worker : Nat) (tickEv : Ev) :
    (settle acc step worker tickEv).1.queue = (acc.st.workers step).queue := by
  unfold settle; simp only; split <;> rfl

/-- **work conservation, one tick**: unless the tick ends the run, every step that still
has queued events afterwards is running at its full worker limit. -/
theorem reduce_qInv (cfg : Cfg) (hwf : cfg.WF) (pol : Policy) (tick : Tick) (st : State) (now : Int)
    (h : QInv cfg st) (hne : (reduce cfg pol tick st now).2.any Cmd.isExit = false) :
    QInv cfg (reduce cfg pol tick st now).1 := by
  unfold reduce at hne ⊢
  cases tick with
  | stepResult step worker ev res =>
    simp only at hne ⊢
    have key : QInv cfg (processStepResult cfg pol step worker ev res st now).1 ∨
        (processStepResult cfg pol step worker ev res st now).2.any Cmd.isExit = true := by
      unfold processStepResult
      split
      · exact Or.inl h
      · rename_i hhas
        split
        · exact Or.inl h
        · rename_i exec hfind
          obtain ⟨c, hc⟩ := hasStep_find hhas
          obtain ⟨hcmem, hcname⟩ := Cfg.mem_of_find hc
          subst hcname
          have hnw : cfg.nw c.name = c.numWorkers := Cfg.nw_of_mem hwf hcmem
          have hq := foldl_applyRes_queue cfg pol c.name ev (res.any isResult) res { st := st, exec := exec }
          have hip := foldl_applyRes_inProg cfg pol c.name ev (res.any isResult) res { st := st, exec := exec }
          have hinv1 : QInv cfg (res.foldl (applyRes cfg pol c.name ev (res.any isResult))
              { st := st, exec := exec }).st := QInv.of_eq h (fun s => ⟨hip.1 s, hq s⟩)
          simp only
          generalize (res.foldl (applyRes cfg pol c.name ev (res.any isResult))
              { st := st, exec := exec }) = acc at hinv1
          split
          · rename_i hex
            right
            unfold settle
            simp only
            split
            · exact hex
            · simp only [List.any_cons, hex, Bool.or_true]
          · left
            apply QInv.set hwf hinv1 hcmem
            rw [hnw]
            exact drain_qOk _ _ _ _
    rcases key with key | key
    · split <;> exact key
    · exfalso
      split at hne
      · simp only [List.any_append, key, Bool.true_or] at hne; cases hne
      · rw [key] at hne; cases hne
  | addEvent att target =>
    simp only
    split <;> exact processAddEvent_qInv cfg hwf att target st now h
  | cancelRun =>
    simp only at hne
    split at hne <;> simp [Cmd.isExit] at hne
  | idleRelease => simp [Cmd.isExit] at hne
  | publish ev => simp only; split <;> exact h
  | timeout t =>
    simp only at hne
    split at hne <;> simp [Cmd.isExit] at hne
  | waiterTimeout step waiter =>
    simp only
    have key : QInv cfg (processWaiterTimeout cfg step waiter st now).1 := by
      unfold processWaiterTimeout
      split
      · exact h
      · rename_i hhas
        dsimp only
        split
        · exact h
        · split
          · exact h
          · obtain ⟨c, hc⟩ := hasStep_find hhas
            obtain ⟨hcmem, hcname⟩ := Cfg.mem_of_find hc
            subst hcname
            rw [Cfg.nw_of_mem hwf hcmem]
            exact QInv.set hwf h hcmem (addOrEnqueue_qOk _ _ _ _ _ (h c hcmem))
    split <;> exact key
  | idleCheck => simp only; split <;> exact h

theorem rewindLoop_qOk (now : Int) :
    ∀ (cs : List StepCfg) (st : State) (cmds : List Cmd), (cs.map (·.name)).Nodup →
      ∀ c ∈ cs, QOk ((rewindLoop now cs st cmds).1.workers c.name) c.numWorkers
  | [], _, _, _, c, hc => by cases hc
  | d :: ds, st, cmds, hnd, c, hc => by
    simp only [List.map_cons, List.nodup_cons] at hnd
    unfold rewindLoop
    rcases List.mem_cons.mp hc with hc | hc
    · subst hc
      have hframe : ∀ (cs : List StepCfg) (st : State) (cmds : List Cmd) (t : Nat), t ∉ cs.map (·.name) →
          (rewindLoop now cs st cmds).1.workers t = st.workers t := by
        intro cs
        induction cs with
        | nil => intro st cmds t _; simp [rewindLoop]
        | cons e es ih =>
          intro st cmds t ht
          simp only [List.map_cons, List.mem_cons, not_or] at ht
          unfold rewindLoop
          rw [ih _ _ t ht.2]
          simp [State.set, ht.1]
      rw [hframe ds _ _ c.name hnd.1]
      simp only [State.set, ↓reduceIte]
      unfold rewindStep
      exact drain_qOk c.name c.numWorkers now
        { st.workers c.name with
          queue := ((st.workers c.name).inProg.map inProgToAttempt).reverse ++ (st.workers c.name).queue,
          inProg := [] }
    · exact rewindLoop_qOk now ds _ _ hnd.2 c hc

end Engine
