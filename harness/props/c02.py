"""C02 — every emitted event reaches each accepting step exactly once."""
from __future__ import annotations

from ..engine import monitors, suite
from ..runner import Env, Outcome

THEOREMS = ["C02_engine_source_shape", "C02_route_count", "C02_never_unaccepted", "C02_target_only", "C02_waiter_gets_result",
            "C02_unhandled_iff", "C02_outputs_requeued", "C02_queue_command_buffers_once",
            # whole runs of the runner LTS: tick conservation (no loss, no duplication up to the reducer)
            "C02_ticks_conserved", "C02_ticks_conserved_from", "C02_event_reduced_at_most_once_per_creation",
            "C02_unreduced_tick_still_pending", "C02_ended_run_is_frozen", "C02_step_output_reaches_reducer",
            "C02_stop_result_ends_run", "C02_buffered_tick_reaches_reducer"]
LEAN_TARGETS = ["WfProps.C02"]
EXPLANATION = (
    "Lean: for every state (with the C01 invariant), every event, target and clock, the add-event tick changes the "
    "number of attempts each step holds by exactly `recipients`: one replay per matching waiter of an addressed step "
    "(which then carry the event as wait result and are not routed to as well), else 1 iff the exact type is accepted "
    "and the step is the target (or no target), else 0; UnhandledEvent is published iff nobody received it and it is "
    "not an InputRequiredEvent, exactly once; step outputs are re-queued exactly once with the lineage's recovery "
    "counts and buffered once by the runner. Tie: reducer/runner correspondence. Search: recipients per add-event "
    "tick recomputed from the static graph on real runs, ctx.send_event -> mailbox 1:1 with target, never-unaccepted."
)
ASSUMPTIONS = suite.ENGINE_ASSUMPTIONS + [
    "'unless the run ends first': ticks still in the buffer/mailbox when an exit command is processed are dropped by design",
    "fixed in this tree (F09/F10): resolved waiters are skipped and the target is honoured when matching waiters",
]


def run(env: Env) -> Outcome:
    out = Outcome()
    out.rule = ("direct (state,tick) pairs + live scripted workflows (fan-out via send_event, targeted sends, external sends, waiters); "
                "non-trivial = more than 2 ticks; distinct by (spec, schedule)")
    suite.direct_corr(env, out, env.budget(3000, 60000))
    suite.live_runs(env, out, env.budget(400, 8000), [monitors.mon_c02], extra_specs=suite.load_corpus("C02"))
    # waits: responses that are duplicates / non-matching / early / late; request-reply waits that differ only in the requirement value
    suite.live_runs(env, out, env.budget(250, 5000), [monitors.mon_c02], gen_kwargs={"family": "wait"})
    return out
