import WfProofs.KeyedLockProgress
/-! Lifting the per-key results of M6 to the whole `KeyedLock` (all keys, main lock)
and to arbitrary action lists / infinite schedules. -/
namespace KeyedLock
open GenKeyedLock

/-- global invariant: the main lock is free at every action boundary and every key's slot is invariant -/
def GInv (s : KL) : Prop := s.main = false ∧ ∀ k, Inv (s.slot k) ∧ (ids (s.slot k)).Nodup

theorem ginv_init : GInv init := ⟨rfl, fun _ => ⟨inv_empty, by simp [ids, init]⟩⟩

theorem stepD_main (s : KL) (x : Act) : (stepD s x).main = s.main := by
  unfold stepD step; split
  · rename_i s' h; split at h
    · cases h; rfl
    · cases h
  · rfl

/-- frame: an action on one key leaves every other key's slot untouched -/
theorem stepD_frame (s : KL) (x : Act) {k : Nat} (h : k ≠ x.key) : (stepD s x).slot k = s.slot k := by
  unfold stepD step; split
  · rename_i s' hs; split at hs
    · cases hs; simp [KL.set, h]
    · cases hs
  · rfl

/-- locality: the acted-on slot evolves by the per-key step, whatever the other slots hold -/
theorem stepD_slot (s : KL) (x : Act) (hm : s.main = false) :
    (stepD s x).slot x.key = kstepD (s.slot x.key) x.act := by
  unfold stepD step kstepD; rw [hm]
  cases kstep false (s.slot x.key) x.act with
  | ok st => simp [KL.set]
  | error e => rfl

theorem stepD_of_error {s : KL} {x : Act} {e : Err} (h : kstep s.main (s.slot x.key) x.act = .error e) :
    stepD s x = s := by
  simp [stepD, step, h]

theorem ginv_stepD {s : KL} (x : Act) (h : GInv s) : GInv (stepD s x) := by
  refine ⟨by rw [stepD_main]; exact h.1, fun k => ?_⟩
  by_cases hk : k = x.key
  · subst hk
    rw [stepD_slot s x h.1]
    refine ⟨kstepD_inv _ (h.2 _).1, ?_⟩
    unfold kstepD; split
    · rename_i hs; exact nodup_kstep (h.2 _).1 (h.2 _).2 hs
    · exact (h.2 _).2
  · rw [stepD_frame s x hk]; exact h.2 k

theorem ginv_run_from {s : KL} (acts : List Act) (h : GInv s) : GInv (run acts s) := by
  induction acts generalizing s with
  | nil => exact h
  | cons x xs ih => exact ih (ginv_stepD x h)

theorem ginv_run (acts : List Act) : GInv (run acts) := ginv_run_from acts ginv_init

theorem run_cons (x : Act) (xs : List Act) (s : KL) : run (x :: xs) s = run xs (stepD s x) := rfl

theorem run_append (xs ys : List Act) (s : KL) : run (xs ++ ys) s = run ys (run xs s) := by
  simp [run, List.foldl_append]

/-! ### progress, globally -/

def isProgressG (s : KL) (k : Nat) (x : Act) : Bool := x.key == k && isProgress (s.slot k) x.act

theorem progress_stepG {s : KL} {x : Act} {k a : Nat} (hg : GInv s) (hl : live (s.slot k) a = true)
    (hx : x ≠ ⟨k, .cancel a⟩) :
    a ∈ ((stepD s x).slot k).inside ∨
      (live ((stepD s x).slot k) a = true ∧ measure ((stepD s x).slot k) a ≤ measure (s.slot k) a ∧
        (isProgressG s k x = true → measure ((stepD s x).slot k) a < measure (s.slot k) a)) := by
  by_cases hk : k = x.key
  · obtain ⟨xk, xa⟩ := x
    simp only at hk; subst hk
    rw [stepD_slot _ _ hg.1]
    simp only [isProgressG, beq_self_eq_true, Bool.true_and]
    have hxa : xa ≠ .cancel a := fun h => hx (by rw [h])
    unfold kstepD
    cases hs : kstep false (s.slot k) xa with
    | ok st' => exact progress_step (hg.2 k).1 hl hs hxa
    | error e =>
      right
      refine ⟨hl, Nat.le_refl _, fun hp => ?_⟩
      obtain ⟨st', hst⟩ := progress_enabled (hg.2 k).1 hp
      rw [hs] at hst; cases hst
  · rw [stepD_frame s x hk]
    right
    refine ⟨hl, Nat.le_refl _, fun hp => ?_⟩
    simp only [isProgressG, Bool.and_eq_true, beq_iff_eq] at hp
    exact absurd hp.1.symm hk

/-- number of fairness steps for key `k` taken along `acts` from `s` -/
def progressCount (k : Nat) : KL → List Act → Nat
  | _, [] => 0
  | s, x :: xs => (if isProgressG s k x then 1 else 0) + progressCount k (stepD s x) xs

theorem bounded_wait {k a : Nat} (acts : List Act) {s : KL} (hg : GInv s) (hl : live (s.slot k) a = true)
    (hnc : (⟨k, .cancel a⟩ : Act) ∉ acts) (hc : measure (s.slot k) a < progressCount k s acts) :
    ∃ n, a ∈ ((run (acts.take n) s).slot k).inside := by
  induction acts generalizing s with
  | nil => simp [progressCount] at hc
  | cons x xs ih =>
    have hx : x ≠ ⟨k, .cancel a⟩ := fun h => hnc (by simp [h])
    rcases progress_stepG hg hl hx with h | ⟨hl', hle, hlt⟩
    · exact ⟨1, by simpa [run] using h⟩
    · have hnc' : (⟨k, .cancel a⟩ : Act) ∉ xs := fun h => hnc (List.mem_cons_of_mem _ h)
      have hc' : measure ((stepD s x).slot k) a < progressCount k (stepD s x) xs := by
        simp only [progressCount] at hc
        split at hc
        · rename_i hp; have := hlt hp; omega
        · omega
      obtain ⟨n, hn⟩ := ih (ginv_stepD x hg) hl' hnc' hc'
      exact ⟨n + 1, by simpa [run] using hn⟩

/-- infinite schedules -/
def trace (sched : Nat → Act) (s : KL) : Nat → KL
  | 0 => s
  | n + 1 => stepD (trace sched s n) (sched n)

theorem ginv_trace {s : KL} (sched : Nat → Act) (hg : GInv s) (n : Nat) : GInv (trace sched s n) := by
  induction n with
  | zero => exact hg
  | succ n ih => exact ginv_stepD _ ih

theorem stretch {k a : Nat} {s : KL} (sched : Nat → Act) (hg : GInv s) (hnc : ∀ n, sched n ≠ ⟨k, .cancel a⟩)
    (n : Nat) (hl : live ((trace sched s n).slot k) a = true) (j : Nat) :
    (∃ i, a ∈ ((trace sched s i).slot k).inside) ∨
      (live ((trace sched s (n + j)).slot k) a = true ∧
        measure ((trace sched s (n + j)).slot k) a ≤ measure ((trace sched s n).slot k) a) := by
  induction j with
  | zero => exact Or.inr ⟨hl, Nat.le_refl _⟩
  | succ j ih =>
    rcases ih with h | ⟨hl', hle⟩
    · exact Or.inl h
    · rcases progress_stepG (ginv_trace sched hg (n + j)) hl' (hnc (n + j)) with h | ⟨h1, h2, _⟩
      · exact Or.inl ⟨n + j + 1, h⟩
      · exact Or.inr ⟨h1, Nat.le_trans h2 hle⟩

theorem eventually_enters {k a : Nat} {s : KL} (sched : Nat → Act) (hg : GInv s)
    (hnc : ∀ n, sched n ≠ ⟨k, .cancel a⟩)
    (hfair : ∀ n, live ((trace sched s n).slot k) a = true →
      ∃ m, n ≤ m ∧ isProgressG (trace sched s m) k (sched m) = true)
    (n : Nat) (hl : live ((trace sched s n).slot k) a = true) :
    ∃ i, a ∈ ((trace sched s i).slot k).inside := by
  have key : ∀ M n, live ((trace sched s n).slot k) a = true → measure ((trace sched s n).slot k) a ≤ M →
      ∃ i, a ∈ ((trace sched s i).slot k).inside := by
    intro M
    induction M with
    | zero =>
      intro n hl hM
      obtain ⟨m, hnm, hp⟩ := hfair n hl
      rcases stretch sched hg hnc n hl (m - n) with h | ⟨hl', hle⟩
      · exact h
      · rw [Nat.add_sub_cancel' hnm] at hl' hle
        rcases progress_stepG (ginv_trace sched hg m) hl' (hnc m) with h | ⟨_, _, hlt⟩
        · exact ⟨m + 1, h⟩
        · have := hlt hp; omega
    | succ M ih =>
      intro n hl hM
      obtain ⟨m, hnm, hp⟩ := hfair n hl
      rcases stretch sched hg hnc n hl (m - n) with h | ⟨hl', hle⟩
      · exact h
      · rw [Nat.add_sub_cancel' hnm] at hl' hle
        rcases progress_stepG (ginv_trace sched hg m) hl' (hnc m) with h | ⟨hl2, _, hlt⟩
        · exact ⟨m + 1, h⟩
        · have := hlt hp
          exact ih (m + 1) hl2 (by show measure ((trace sched s (m + 1)).slot k) a ≤ M; simp only [trace]; omega)
  exact key _ n hl (Nat.le_refl _)

end KeyedLock
