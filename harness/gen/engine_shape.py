"""Dispatch shape of the pure reducer and of the command interpreter -> lean/WfModel/GenEngineShape.lean.

Re-read from /repo's current `control_loop.py`, `types/ticks.py`, `types/commands.py`, `types/results.py` on every run.
The hand-written model (`WfModel/Engine.lean`: `reduce`, `Tick`, `Cmd`, `Res`; `WfModel/Runner.lean`: `execCmd`) has one
constructor / one match arm per tick, command and step-result kind; `C02_engine_source_shape` pins the lists below, so a
tick / command / result kind that is added, removed or dispatched to another function stops the theorem from checking
(the behaviour inside each branch is tied by the correspondence, not by this file).
"""
from __future__ import annotations

import ast

from ..boot import repo_path

LEAN_MODULE = "GenEngineShape"
BASE = "packages/llama-index-workflows/src/workflows/runtime/"


def _lean_str(s: str) -> str:
    return '"' + s.replace("\\", "\\\\").replace('"', '\\"') + '"'


def _classes(rel: str, notes: list[str]) -> list[str]:
    try:
        tree = ast.parse(open(repo_path(BASE + rel)).read())
    except (OSError, SyntaxError) as e:
        notes.append(f"engine_shape: cannot parse {rel}: {e}")
        return ["<unparsed>"]
    return [n.name for n in tree.body if isinstance(n, ast.ClassDef)]


def _isinstance_chain(fn: ast.AST, var: str) -> list[tuple[str, str]]:
    """[(class tested, name of the first function called in that branch or '<inline>')] of the top-level if/elif chain on `var`"""
    out: list[tuple[str, str]] = []
    node = next((s for s in getattr(fn, "body", []) if isinstance(s, ast.If)), None)
    while isinstance(node, ast.If):
        t = node.test
        cls = "<?>"
        if (isinstance(t, ast.Call) and isinstance(t.func, ast.Name) and t.func.id == "isinstance" and len(t.args) == 2
                and isinstance(t.args[0], ast.Name) and t.args[0].id == var and isinstance(t.args[1], ast.Name)):
            cls = t.args[1].id
        callee = "<inline>"
        for st in node.body:
            calls = [c for c in ast.walk(st) if isinstance(c, ast.Call) and isinstance(c.func, ast.Name) and c.func.id.startswith("_process_")]
            if calls:
                callee = calls[0].func.id  # type: ignore[union-attr]
                break
        out.append((cls, callee))
        nxt = node.orelse
        node = nxt[0] if len(nxt) == 1 and isinstance(nxt[0], ast.If) else None
    return out


def _result_branches(tree: ast.AST, notes: list[str]) -> tuple[list[str], list[str]]:
    """(classes tested by the isinstance chain over `result` inside the `for result in tick.result` loop of
    `_process_step_result_tick`, in order; those whose branch puts the RUNNING invocation through admission again or
    takes it out of `in_progress`: a call of `_add_or_enqueue_event`, an `EventAttempt(...)` built there, or
    `in_progress.remove/pop/clear/append/insert`).  In the model no `Res` arm of `applyRes` touches `inProg` or the
    retry record of the executing invocation (`applyRes_inProg`, `applyRes_retryRec`): a re-run stays in its slot."""
    fn = next((n for n in ast.walk(tree) if isinstance(n, ast.FunctionDef) and n.name == "_process_step_result_tick"), None)
    if fn is None:
        notes.append("engine_shape: _process_step_result_tick not found")
        return ["<unparsed>"], ["<unparsed>"]
    loop = next((n for n in ast.walk(fn) if isinstance(n, ast.For) and isinstance(n.target, ast.Name) and n.target.id == "result"), None)
    if loop is None:
        notes.append("engine_shape: result loop of _process_step_result_tick not found")
        return ["<unparsed>"], ["<unparsed>"]
    order: list[str] = []
    readmit: list[str] = []
    node = next((s for s in loop.body if isinstance(s, ast.If)), None)
    while isinstance(node, ast.If):
        t = node.test
        cls = "<?>"
        if (isinstance(t, ast.Call) and isinstance(t.func, ast.Name) and t.func.id == "isinstance" and len(t.args) == 2
                and isinstance(t.args[0], ast.Name) and t.args[0].id == "result" and isinstance(t.args[1], ast.Name)):
            cls = t.args[1].id
        order.append(cls)
        hit = False
        for st in node.body:
            for c in ast.walk(st):
                if not isinstance(c, ast.Call):
                    continue
                f = c.func
                if isinstance(f, ast.Name) and f.id in ("_add_or_enqueue_event", "EventAttempt"):
                    hit = True
                if (isinstance(f, ast.Attribute) and f.attr in ("remove", "pop", "clear", "append", "insert", "extend")
                        and isinstance(f.value, ast.Attribute) and f.value.attr == "in_progress"):
                    hit = True
        if hit:
            readmit.append(cls)
        nxt = node.orelse
        node = nxt[0] if len(nxt) == 1 and isinstance(nxt[0], ast.If) else None
    return order, readmit
_LIST_MUTATORS = ("append", "extend", "insert", "pop", "remove", "clear", "sort", "reverse")


def _is_wakeups(n: ast.AST) -> bool:
    return isinstance(n, ast.Attribute) and n.attr == "scheduled_wakeups"


def _wakeup_heap_shape(tree: ast.AST) -> list[str]:
    """how `scheduled_wakeups` is changed anywhere in control_loop.py (the code reads element 0 as the earliest entry, which
    holds as long as the list is only ever changed through heapq).  Mutators are written `<how>@<function>`: `heapq.<fn>` for a heapq call on the list, `assign` / `augassign` / `del` /
    `setitem` for statements, `.<method>` for a mutating list method.  The initial `= []` in `__init__` is not a mutation."""
    muts: set[str] = set()
    for fn in ast.walk(tree):
        if not isinstance(fn, (ast.FunctionDef, ast.AsyncFunctionDef)):
            continue
        for n in ast.walk(fn):
            if isinstance(n, (ast.Assign, ast.AnnAssign)):
                tgts = n.targets if isinstance(n, ast.Assign) else [n.target]
                for t in tgts:
                    for tt in ([t] if not isinstance(t, (ast.Tuple, ast.List)) else list(t.elts)):
                        if _is_wakeups(tt):
                            empty = isinstance(n.value, ast.List) and not n.value.elts
                            if not (fn.name == "__init__" and empty):
                                muts.add(f"assign@{fn.name}")
                        if isinstance(tt, ast.Subscript) and _is_wakeups(tt.value):
                            muts.add(f"setitem@{fn.name}")
            elif isinstance(n, ast.AugAssign) and (_is_wakeups(n.target) or (isinstance(n.target, ast.Subscript) and _is_wakeups(n.target.value))):
                muts.add(f"augassign@{fn.name}")
            elif isinstance(n, ast.Delete):
                for t in n.targets:
                    if _is_wakeups(t) or (isinstance(t, ast.Subscript) and _is_wakeups(t.value)):
                        muts.add(f"del@{fn.name}")
            elif isinstance(n, ast.Call):
                f = n.func
                if isinstance(f, ast.Attribute) and _is_wakeups(f.value) and f.attr in _LIST_MUTATORS:
                    muts.add(f".{f.attr}@{fn.name}")
                elif (isinstance(f, ast.Attribute) and isinstance(f.value, ast.Name) and f.value.id == "heapq"
                      and n.args and _is_wakeups(n.args[0])):
                    muts.add(f"heapq.{f.attr}@{fn.name}")
                elif isinstance(f, ast.Name) and f.id.startswith("heap") and n.args and _is_wakeups(n.args[0]):
                    muts.add(f"heapq.{f.id}@{fn.name}")  # `from heapq import heappush`
    return sorted(muts)


def generate(notes: list[str]) -> list[str]:
    ticks = _classes("types/ticks.py", notes)
    cmds = _classes("types/commands.py", notes)
    results = [c for c in _classes("types/results.py", notes)
               if c in ("StepWorkerResult", "StepWorkerFailed", "AddCollectedEvent", "DeleteCollectedEvent", "AddWaiter", "DeleteWaiter") or c.startswith(("Add", "Delete", "StepWorker"))]
    results = [c for c in results if c not in ("StepWorkerState", "StepWorkerWaiter", "StepWorkerStateContextVar", "StepWorkerContext")]
    dispatch: list[tuple[str, str]] = [("<unparsed>", "<unparsed>")]
    command_chain: list[tuple[str, str]] = [("<unparsed>", "<unparsed>")]
    idle_after = False
    unknown_tick_raises = False
    result_order: list[str] = ["<unparsed>"]
    result_readmit: list[str] = ["<unparsed>"]
    wake_muts: list[str] = ["<unparsed>"]
    try:
        tree = ast.parse(open(repo_path(BASE + "control_loop.py")).read())
        result_order, result_readmit = _result_branches(tree, notes)
        red = next((n for n in ast.walk(tree) if isinstance(n, ast.FunctionDef) and n.name == "_reduce_tick"), None)
        if red is None:
            notes.append("engine_shape: _reduce_tick not found")
        else:
            dispatch = _isinstance_chain(red, "tick")
            src = ast.unparse(red)
            idle_after = "if _check_idle_state(state):\n        commands.append(CommandScheduleIdleCheck())" in src
            unknown_tick_raises = "Unknown tick type" in src
        wake_muts = _wakeup_heap_shape(tree)
        if not wake_muts:
            notes.append("engine_shape: nothing changes scheduled_wakeups")
        pc = next((n for n in ast.walk(tree) if isinstance(n, ast.AsyncFunctionDef) and n.name == "process_command"), None)
        if pc is None:
            notes.append("engine_shape: process_command not found")
        else:
            command_chain = _isinstance_chain(pc, "command")
    except (OSError, SyntaxError) as e:
        notes.append(f"engine_shape: cannot parse control_loop.py: {e}")

    def lst(xs: list[str]) -> str:
        return "[" + ", ".join(_lean_str(x) for x in xs) + "]"

    return [
        "/-! Generated by harness/gen/engine_shape.py from the current sources of run-llama/workflows-py. Do not edit. -/",
        "namespace GenEngineShape",
        f"def tickClasses : List String := {lst(ticks)}",
        f"def commandClasses : List String := {lst(cmds)}",
        f"def resultClasses : List String := {lst(results)}",
        "/-- the isinstance chain of `_reduce_tick`, in order: (tick class, reducer function or `<inline>`) -/",
        "def tickDispatch : List (String × String) := [" + ", ".join(f"({_lean_str(a)}, {_lean_str(b)})" for a, b in dispatch) + "]",
        "/-- the isinstance chain of `_ControlLoopRunner.process_command`, in order -/",
        f"def commandDispatch : List String := {lst([a for a, _ in command_chain])}",
        f"def idleCheckScheduledAfterDispatch : Bool := {'true' if idle_after else 'false'}",
        f"def unknownTickRaises : Bool := {'true' if unknown_tick_raises else 'false'}",
        "/-- the isinstance chain over `result` in `_process_step_result_tick`, in order -/",
        f"def resultDispatch : List String := {lst(result_order)}",
        "/-- result branches that re-admit the running invocation or take it out of `in_progress` themselves -/",
        f"def resultBranchesReadmitting : List String := {lst(result_readmit)}",
        "/-- every way `scheduled_wakeups` (the runner's timer heap) is changed in control_loop.py, as `<how>@<function>` -/",
        f"def wakeupMutators : List String := {lst(wake_muts)}",
        "end GenEngineShape",
    ]
