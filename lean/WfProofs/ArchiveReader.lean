import WfModel.ArchiveSpec
import WfProofs.ArchiveAny
/-!
Helper lemmas for C33, part 6: the reader on **any** archive (an arbitrary list of members):
an invariant of its left-to-right fold, by induction over the members read so far.
-/
namespace Archive
open GenArchive

variable {Y : Type}

/-! ## insertion-ordered dicts -/

theorem keys_upsert {α : Type} (k : Name) (v : α) :
    ∀ l : List (Name × α), (upsert k v l).map Prod.fst = addKey (l.map Prod.fst) k
  | [] => by simp [upsert, addKey]
  | (k', v') :: rest => by
    by_cases h : k' = k
    · subst h; simp [upsert, addKey]
    · have ih := keys_upsert k v rest
      have hne : ¬ k = k' := fun e => h e.symm
      simp only [upsert, h, if_false, List.map_cons, ih, addKey, List.mem_cons, hne, false_or]
      split <;> simp

theorem alookup_upsert {α : Type} (k dn : Name) (v : α) :
    ∀ l : List (Name × α), alookup dn (upsert k v l) = if k = dn then some v else alookup dn l
  | [] => by simp [upsert, alookup]
  | (k', v') :: rest => by
    by_cases h : k' = k
    · subst h
      by_cases h2 : k' = dn <;> simp [upsert, alookup, h2]
    · simp only [upsert, h, if_false, alookup]
      by_cases h2 : k' = dn
      · subst h2
        have : ¬ k = k' := fun e => h e.symm
        simp [this]
      · simp only [h2, if_false]
        exact alookup_upsert k dn v rest

theorem addKey_nodup {acc : List Name} (h : acc.Nodup) (k : Name) : (addKey acc k).Nodup := by
  unfold addKey
  split
  · exact h
  · rename_i hk
    rw [List.nodup_append]
    refine ⟨h, by simp, ?_⟩
    intro a ha b hb
    simp only [List.mem_singleton] at hb
    subst hb
    intro e; subst e; exact hk ha

theorem alookup_of_mem_nodup {α : Type} :
    ∀ (l : List (Name × α)), (l.map Prod.fst).Nodup → ∀ p ∈ l, alookup p.1 l = some p.2
  | [], _, p, hp => by cases hp
  | (k', v') :: rest, hnd, p, hp => by
    simp only [List.map_cons, List.nodup_cons] at hnd
    rcases List.mem_cons.mp hp with rfl | hin
    · simp [alookup]
    · have hne : ¬ k' = p.1 := by
        intro e; apply hnd.1; rw [e]; exact List.mem_map.mpr ⟨p, hin, rfl⟩
      simp only [alookup, hne, if_false]
      exact alookup_of_mem_nodup rest hnd.2 p hin

/-! ## `lastMatch`, `firstSeen` one member further -/

theorem lastMatch_snoc (p : Member → Bool) (done : List Member) (m : Member) :
    lastMatch p (done ++ [m]) = if p m then some m else lastMatch p done := by
  simp only [lastMatch, List.reverse_append, List.reverse_cons, List.reverse_nil, List.nil_append,
    List.cons_append, List.find?_cons]
  cases p m <;> rfl

theorem crNames_snoc (done : List Member) (m : Member) :
    firstSeen (crNames (done ++ [m])) =
      match crNameOf m with
      | some dn => addKey (firstSeen (crNames done)) dn
      | none => firstSeen (crNames done) := by
  simp only [crNames, List.filterMap_append, firstSeen, List.foldl_append, List.filterMap_cons,
    List.filterMap_nil]
  cases crNameOf m <;> rfl

/-! ## the invariant -/

/-- what the reader's state is after the members `done`, said by the specification -/
structure Inv (A : Aead) (C : Codec Y) (pw : Option Bytes) (st : RState Y) (done : List Member) : Prop where
  keys : st.crs.map Prod.fst = firstSeen (crNames done)
  nodup : (st.crs.map Prod.fst).Nodup
  crs : ∀ dn, alookup dn st.crs = specCr C dn done
  secs : ∀ dn, alookup dn st.secs = specSecret A C pw dn done
  metas : ∀ dn, alookup dn st.metas = specMeta C dn done
  manifest : st.manifest = specManifest C done

theorem inv_init (A : Aead) (C : Codec Y) (pw : Option Bytes) : Inv A C pw ({} : RState Y) [] :=
  ⟨rfl, List.nodup_nil, fun _ => rfl, fun _ => rfl, fun _ => rfl, rfl⟩

theorem isCat_of_classify {m : Member} {c : Cat} {dn0 : Name} (h : classify m.1 = some (c, dn0)) (c' : Cat)
    (dn : Name) : isCat c' dn m = (decide (c = c') && decide (dn0 = dn)) := by
  simp only [isCat, h, Option.some.injEq, Prod.mk.injEq]
  by_cases h1 : c = c' <;> by_cases h2 : dn0 = dn <;> simp [h1, h2]

theorem inv_step {A : Aead} {C : Codec Y} {pw : Option Bytes} {st st' : RState Y} {done : List Member}
    {m : Member} (hI : Inv A C pw st done) (hm : readMember A C pw st m = .ok st') :
    Inv A C pw st' (done ++ [m]) := by
  obtain ⟨hk, hnd, hc, hs, hmt, hmf⟩ := hI
  cases hcl : classify m.1 with
  | none =>
    simp only [readMember, hcl, Except.ok.injEq] at hm
    subst hm
    have hcat : ∀ c dn, isCat c dn m = false := by intro c dn; simp [isCat, hcl]
    refine ⟨?_, hnd, ?_, ?_, ?_, ?_⟩
    · rw [crNames_snoc]; simp [crNameOf, hcl, hk]
    · intro dn; simp [specCr, lastMatch_snoc, hcat, hc dn]
    · intro dn; simp [specSecret, lastMatch_snoc, isSecretOf, hcat, hs dn]
    · intro dn; simp [specMeta, lastMatch_snoc, hcat, hmt dn]
    · simp [specManifest, lastMatch_snoc, isManifest, hcl, hmf]
  | some cd =>
    obtain ⟨c, dn0⟩ := cd
    have hcat := fun c' dn => isCat_of_classify hcl c' dn
    cases c with
    | manifest =>
      simp only [readMember, hcl] at hm
      cases hd : C.decManifest m.2 with
      | none => simp [hd] at hm
      | some r =>
        simp only [hd, Except.ok.injEq] at hm
        subst hm
        refine ⟨?_, hnd, ?_, ?_, ?_, ?_⟩
        · rw [crNames_snoc]; simp [crNameOf, hcl, hk]
        · intro dn; simp [specCr, lastMatch_snoc, hcat, hc dn]
        · intro dn; simp [specSecret, lastMatch_snoc, isSecretOf, hcat, hs dn]
        · intro dn; simp [specMeta, lastMatch_snoc, hcat, hmt dn]
        · simp [specManifest, lastMatch_snoc, isManifest, hcl, hd]
    | cr =>
      simp only [readMember, hcl] at hm
      cases hd : C.decY m.2 with
      | none => simp [hd] at hm
      | some y =>
        simp only [hd, Except.ok.injEq] at hm
        subst hm
        refine ⟨?_, ?_, ?_, ?_, ?_, ?_⟩
        · rw [crNames_snoc]; simp [crNameOf, hcl, keys_upsert, hk]
        · simp only [keys_upsert]; exact addKey_nodup hnd dn0
        · intro dn
          simp only [alookup_upsert, specCr, lastMatch_snoc, hcat, decide_true, Bool.true_and, decide_eq_true_eq]
          by_cases h : dn0 = dn
          · simp [h, hd]
          · simp only [h, if_false]; exact hc dn
        · intro dn; simp [specSecret, lastMatch_snoc, isSecretOf, hcat, hs dn]
        · intro dn; simp [specMeta, lastMatch_snoc, hcat, hmt dn]
        · simp [specManifest, lastMatch_snoc, isManifest, hcl, hmf]
    | gmeta =>
      simp only [readMember, hcl] at hm
      cases hd : C.decMeta m.2 with
      | none => simp [hd] at hm
      | some g =>
        simp only [hd, Except.ok.injEq] at hm
        subst hm
        refine ⟨?_, hnd, ?_, ?_, ?_, ?_⟩
        · rw [crNames_snoc]; simp [crNameOf, hcl, hk]
        · intro dn; simp [specCr, lastMatch_snoc, hcat, hc dn]
        · intro dn; simp [specSecret, lastMatch_snoc, isSecretOf, hcat, hs dn]
        · intro dn
          simp only [alookup_upsert, specMeta, lastMatch_snoc, hcat, decide_true, Bool.true_and, decide_eq_true_eq]
          by_cases h : dn0 = dn
          · simp [h, hd]
          · simp only [h, if_false]; exact hmt dn
        · simp [specManifest, lastMatch_snoc, isManifest, hcl, hmf]
    | secClear =>
      simp only [readMember, hcl] at hm
      cases hd : C.decY m.2 with
      | none => simp [hd] at hm
      | some y =>
        simp only [hd, Except.ok.injEq] at hm
        subst hm
        refine ⟨?_, hnd, ?_, ?_, ?_, ?_⟩
        · rw [crNames_snoc]; simp [crNameOf, hcl, hk]
        · intro dn; simp [specCr, lastMatch_snoc, hcat, hc dn]
        · intro dn
          simp only [alookup_upsert, specSecret, lastMatch_snoc, isSecretOf, hcat, decide_true, Bool.true_and]
          by_cases h : dn0 = dn
          · simp [h, secretVal, hcl, hd]
          · simp [h]; exact hs dn
        · intro dn; simp [specMeta, lastMatch_snoc, hcat, hmt dn]
        · simp [specManifest, lastMatch_snoc, isManifest, hcl, hmf]
    | secEnc =>
      simp only [readMember, hcl] at hm
      cases hp : decPw readNoPwTest pw with
      | none => simp [hp] at hm
      | some p =>
        cases hx : decrypt A p m.2 with
        | error e => simp [hp, hx] at hm
        | ok plain =>
          cases hd : C.decY plain with
          | none => simp [hp, hx, hd] at hm
          | some y =>
            simp only [hp, hx, hd, Except.ok.injEq] at hm
            subst hm
            refine ⟨?_, hnd, ?_, ?_, ?_, ?_⟩
            · rw [crNames_snoc]; simp [crNameOf, hcl, hk]
            · intro dn; simp [specCr, lastMatch_snoc, hcat, hc dn]
            · intro dn
              simp only [alookup_upsert, specSecret, lastMatch_snoc, isSecretOf, hcat, decide_true, Bool.true_and]
              by_cases h : dn0 = dn
              · simp [h, secretVal, hcl, hp, hx, okOf, hd]
              · simp [h]; exact hs dn
            · intro dn; simp [specMeta, lastMatch_snoc, hcat, hmt dn]
            · simp [specManifest, lastMatch_snoc, isManifest, hcl, hmf]

theorem inv_readMembers {A : Aead} {C : Codec Y} {pw : Option Bytes} :
    ∀ (ms done : List Member) (st st' : RState Y), Inv A C pw st done →
      readMembers A C pw st ms = .ok st' → Inv A C pw st' (done ++ ms)
  | [], done, st, st', hI, h => by
    simp only [readMembers, Except.ok.injEq] at h
    subst h; simpa using hI
  | m :: ms, done, st, st', hI, h => by
    simp only [readMembers] at h
    cases hm : readMember A C pw st m with
    | error e => simp [hm] at h
    | ok st1 =>
      simp only [hm] at h
      have := inv_readMembers ms (done ++ [m]) st1 st' (inv_step hI hm) h
      simpa using this

/-- the entries of a state that satisfies the invariant are the specification's entries -/
theorem entriesOf_spec {A : Aead} {C : Codec Y} {pw : Option Bytes} {st : RState Y} {ms : List Member}
    (hI : Inv A C pw st ms) : (entriesOf st).map Entry.view = specEntries A C pw ms := by
  obtain ⟨hk, hnd, hc, hs, hmt, _⟩ := hI
  simp only [specEntries, ← hk, entriesOf, List.map_map]
  apply List.map_congr_left
  intro p hp
  obtain ⟨n, c⟩ := p
  have h1 := alookup_of_mem_nodup st.crs hnd (n, c) hp
  simp only at h1
  simp only [Function.comp, Entry.view, specGen, ← hc, ← hs, ← hmt, h1]

theorem entriesOf_names (st : RState Y) : (entriesOf st).map (·.name) = st.crs.map Prod.fst := by
  simp only [entriesOf, List.map_map]
  apply List.map_congr_left
  intro p _
  rfl

/-- a successful read of any archive returns what the specification says -/
theorem read_spec {A : Aead} {C : Codec Y} {pw : Option Bytes} {ms : List Member} {r : Contents Y}
    (h : read A C pw ms = .ok r) :
    r.entries.map Entry.view = specEntries A C pw ms ∧ (r.entries.map (·.name)).Nodup ∧
      specManifest C ms = some (RawManifest.ofManifest r.manifest) := by
  simp only [read] at h
  cases hm : readMembers A C pw {} ms with
  | error e => simp [hm] at h
  | ok st =>
    have hI := inv_readMembers ms [] {} st (inv_init A C pw) hm
    simp only [List.nil_append] at hI
    simp only [hm, finish] at h
    cases hmf : st.manifest with
    | none => simp [hmf] at h
    | some raw =>
      simp only [hmf] at h
      split at h
      · cases h
      · obtain ⟨v, t, n, c, e⟩ := raw
        cases v <;> cases t <;> cases n <;> cases c <;> cases e <;> simp only [reduceCtorEq] at h
        simp only [Except.ok.injEq] at h
        subst h
        refine ⟨entriesOf_spec hI, ?_, ?_⟩
        · rw [entriesOf_names]; exact hI.nodup
        · rw [← hI.manifest, hmf]; rfl

/-! ## encrypted members and the reader's password -/

theorem readMembers_no_enc_of_ok_none {A : Aead} {C : Codec Y} :
    ∀ (ms : List Member) (st st' : RState Y), readMembers A C none st ms = .ok st' →
      ∀ m ∈ ms, ∀ dn, classify m.1 ≠ some (.secEnc, dn)
  | [], _, _, _, m, hm, _ => by cases hm
  | m0 :: ms, st, st', h, m, hm, dn => by
    simp only [readMembers] at h
    cases h0 : readMember A C none st m0 with
    | error e => simp [h0] at h
    | ok st1 =>
      simp only [h0] at h
      rcases List.mem_cons.mp hm with rfl | hin
      · intro hcl
        have hR : decPw readNoPwTest (none : Option Bytes) = none := rfl
        simp [readMember, hcl, hR] at h0
      · exact readMembers_no_enc_of_ok_none ms st1 st' h m hin dn

theorem noEnc_spec {ms : List Member} (h : noEnc ms = true) :
    ∀ m ∈ ms, ∀ dn, classify m.1 ≠ some (.secEnc, dn) := by
  intro m hm dn hc
  have := List.all_eq_true.mp h m hm
  simp [hc] at this

theorem readMember_pw_irrelevant {A : Aead} {C : Codec Y} (pw pw' : Option Bytes) (st : RState Y) (m : Member)
    (h : ∀ dn, classify m.1 ≠ some (.secEnc, dn)) : readMember A C pw st m = readMember A C pw' st m := by
  cases hcl : classify m.1 with
  | none => simp [readMember, hcl]
  | some cd =>
    obtain ⟨c, dn⟩ := cd
    cases c with
    | secEnc => exact absurd hcl (h dn)
    | manifest => simp [readMember, hcl]
    | gmeta => simp [readMember, hcl]
    | secClear => simp [readMember, hcl]
    | cr => simp [readMember, hcl]

theorem readMembers_pw_irrelevant {A : Aead} {C : Codec Y} (pw pw' : Option Bytes) :
    ∀ (ms : List Member) (st : RState Y), (∀ m ∈ ms, ∀ dn, classify m.1 ≠ some (.secEnc, dn)) →
      readMembers A C pw st ms = readMembers A C pw' st ms
  | [], _, _ => rfl
  | m :: ms, st, h => by
    simp only [readMembers]
    rw [readMember_pw_irrelevant pw pw' st m (h m (List.mem_cons_self ..))]
    cases readMember A C pw' st m with
    | error e => rfl
    | ok st1 => exact readMembers_pw_irrelevant pw pw' ms st1 (fun m' hm' => h m' (List.mem_cons_of_mem _ hm'))

end Archive
