import WfProofs.EventSerialEvent
import WfProofs.EventSerialPaths
import WfProofs.EventSerialTick
/-!
# C18 — events and ticks survive serialization unchanged

Property theorems only (helper lemmas: `WfProofs/EventSerial*.lean`; model:
`WfModel/EventSerial.lean`).  Quantification: **every** JSON payload (`Json`: null, bool,
unbounded int, opaque float token, string, array, object — as dynamic field values, as
`StopEvent` result, as typed-field values of the small type language incl. nested models)
and **every** class shape (`Shape`: any module / name, plain model / `Event` / `StopEvent`
subclass, any list of typed fields with defaults), subject only to what makes an instance
exist at all (`Inst.wf`: pydantic accepts the class, the typed values are validated ones).
Nothing is bounded.
-/
open EventSerial

/-! ## the sources still have the shape the model transcribes -/

/-- Regenerated from `/repo` on every run: private attributes, the two wrap serializers'
rules (`StopEvent.custom_model_dump` *does* write `_data`), `StopEvent.__init__`'s keyword,
the exception envelope (qualified type expression, caught classes, fallback), the wrapper
keys / dump mode / component probe of `JsonSerializer`, the envelope constructors and the
lookup order of `EventEnvelope.parse`, the discriminator. -/
theorem C18_source_shape :
    Gen.EventSerial.dictPrivate = ["_data"] ∧
    Gen.EventSerial.stopPrivate = ["_result"] ∧
    Gen.EventSerial.dictDumpRules = [("self._data", "_data", "self._data")] ∧
    Gen.EventSerial.stopDumpRules =
      [("self._data", "_data", "self._data"), ("self._result is not None", "result", "self._result")] ∧
    Gen.EventSerial.stopInitParam = "result" ∧
    Gen.EventSerial.stopInitForward = "_result" ∧
    Gen.EventSerial.dictInitTests = ["In self.__class__.model_fields", "In self.__private_attributes__"] ∧
    Gen.EventSerial.excTypeKey = "exception_type" ∧
    Gen.EventSerial.excMessageKey = "exception_message" ∧
    Gen.EventSerial.excTypeExpr = "f'{type(E).__module__}.{type(E).__qualname__}'" ∧
    Gen.EventSerial.excCaught = ["Exception"] ∧
    Gen.EventSerial.excFallback = "Exception" ∧
    Gen.EventSerial.excKeysReadInTry = ["exception_type"] ∧
    Gen.EventSerial.pydFlagKey = "__is_pydantic" ∧
    Gen.EventSerial.pydValueKey = "value" ∧
    Gen.EventSerial.pydNameKey = "qualified_name" ∧
    Gen.EventSerial.pydDumpMode = "json" ∧
    Gen.EventSerial.componentProbe = "hasattr(type(V), 'class_name')" ∧
    Gen.EventSerial.serializeBranches =
      ["hasattr(type(V), 'class_name')", "isinstance(V, BaseModel)", "isinstance(V, dict)", "isinstance(V, list)"] ∧
    Gen.EventSerial.deserializeGuards = [
      ("D.get('__is_pydantic') and D.get('qualified_name')",
       "import_module_from_qualified_name(D['qualified_name']).model_validate(D['value'])", ""),
      ("D.get('__is_component') and D.get('qualified_name')",
       "import_module_from_qualified_name(D['qualified_name']).from_dict(D['value'])", "")] ∧
    Gen.EventSerial.qualifiedNameExpr = "V.__module__ + '.' + V.__class__.__name__" ∧
    Gen.EventSerial.tickDiscriminator = "type" ∧
    Gen.EventSerial.metaFromEvent = [
      ("qualified_name", "_get_qualified_name(type(E)) if include_qualified_name else None", ""),
      ("type", "type(E).__name__", ""), ("types", "_get_event_subtypes(type(E))", ""),
      ("value", "E.model_dump(mode='json')", "")] ∧
    Gen.EventSerial.envelopeFromEvent = [("type", "type(E).__name__", ""), ("value", "E.model_dump(mode='json')", "")] ∧
    Gen.EventSerial.loadEventForwards =
      [("qualified_name", "self.qualified_name", ""), ("type", "self.type", ""), ("value", "self.value", "")] ∧
    Gen.EventSerial.metaFields = [("value", "dict[str, Any]", ""), ("qualified_name", "str | None", ""),
      ("type", "str", ""), ("types", "list[str] | None", "")] ∧
    Gen.EventSerial.envelopeFields =
      [("value", "Any | None", ""), ("type", "str | None", "None"), ("qualified_name", "str | None", "None")] ∧
    Gen.EventSerial.parseLookupOrder = ["event.type", "  event.type not in registry", "event.qualified_name",
      "  not issubclass(module_class, Event)"] ∧
    Gen.EventSerial.parseCaught = ["ValidationError"] :=
  ⟨rfl, rfl, rfl, rfl, rfl, rfl, rfl, rfl, rfl, rfl, rfl, rfl, rfl, rfl, rfl, rfl, rfl, rfl, rfl, rfl, rfl, rfl,
   rfl, rfl, rfl, rfl, rfl, rfl, rfl⟩

/-- The two discriminated unions as the current sources declare them: every member class and
every annotation / default is one the model interprets (nothing was skipped), the tags are the
eight tick kinds and the six step-result kinds, pairwise distinct (no discriminator collision),
every table is well formed (distinct field names, none called `type`), and the only class with
an extra serializer / validator is `AddWaiter` with exactly the hooks and the table the model
transcribes. -/
theorem C18_tick_tables :
    tickSpecs.length = Gen.EventSerial.tickClasses.length ∧
    resultSpecs.length = Gen.EventSerial.resultClasses.length ∧
    tickSpecs.map (·.tag) = ["step_result", "add_event", "cancel_run", "publish_event", "timeout",
      "waiter_timeout", "idle_check", "idle_release"] ∧
    resultSpecs.map (·.tag) = ["result", "failed", "add_collected", "delete_collected", "add_waiter",
      "delete_waiter"] ∧
    (tickSpecs.map (·.tag)).Nodup ∧ (resultSpecs.map (·.tag)).Nodup ∧
    tickSpecs.all (fun s => s.wf && !s.waiterHooks) = true ∧
    resultSpecs.all (·.wf) = true ∧
    hooksOnlyWaiter resultSpecs = true ∧
    findSpec resultSpecs "add_waiter" = some addWaiterSpec ∧
    (Gen.EventSerial.resultClasses.map (·.2.2.2)).filter (fun h => !h.isEmpty) =
      [[("serialize", "has_requirements", "bool(self.requirements)"), ("serialize", "requirements", "{}"),
        ("validate", "pop", "has_requirements")]] := by
  decide

/-! ## one instance: `model_validate(model_dump(mode="json"))` -/

/-- Core of all three paths.  For every class shape and every instance of it — any typed
field values, any dynamic fields (any keys, including `_data`, `result`, `_result`, `self`,
names of typed fields), any result — dumping with the wrap serializers and validating the
dump (which runs `__init__(**dump)`) gives back the same class, equal typed fields, equal
dynamic fields and an equal result. -/
theorem C18_dump_validate_roundtrip (xenv : XEnv) (e : Inst) (h : e.wf xenv = true) :
    modelValidate xenv e.cls (.obj (dumpModel e)) = .ok e :=
  modelValidate_dump xenv e h

/-- non-vacuity: a `StopEvent` subclass with a typed field, a nested model, dynamic fields
called `_data`, `result` and `score`, and a structured result -/
def exStopShape : Shape :=
  { module := "app.events", name := "Scored", qualname := "Scored", kind := .stop, ancestors := ["StopEvent"],
    fields := [{ name := "score", ty := .int, dflt := none },
               { name := "inner", ty := .opt (.model [("a", .int), ("b", .list .str)]), dflt := some .null }] }
def exStop : Inst :=
  { cls := exStopShape,
    typed := [("score", .int 3), ("inner", .obj [("a", .int 1), ("b", .arr [.str "x"])])],
    data := [("_data", .int 5), ("result", .str "dyn"), ("score", .null), ("k", .obj [("n", .arr [.flt "1.5"])])],
    result := .obj [("answer", .int 42)] }
example : exStop.wf [] = true := by decide
example : modelValidate [] exStopShape (.obj (dumpModel exStop)) = .ok exStop := by decide

/-! ## path 1: `JsonSerializer` -/

/-- `deserialize_value(serialize_value(event))` is the event, for every importable class. -/
theorem C18_json_roundtrip (cenv : CEnv) (xenv : XEnv) (e : Inst) (hw : e.wf xenv = true)
    (hi : importable cenv e.cls = true) :
    deserializeValue cenv xenv (serializeValue (.model e)) = .ok (.model e) := by
  simp only [serializeValue]
  exact deserialize_wrap cenv xenv e hw hi

example : importable [(exStopShape.qual, exStopShape)] exStopShape = true := by decide

/-- The same through lists and dicts of any depth (what `serialize_value` recurses through),
provided no *plain* dict among them has the wrapper's marker keys with truthy values. -/
theorem C18_json_container_roundtrip (cenv : CEnv) (xenv : XEnv) (v : PyVal) (h : pyOk cenv xenv v = true) :
    deserializeValue cenv xenv (serializeValue v) = .ok v :=
  deserialize_serialize cenv xenv v h

example : pyOk [(exStopShape.qual, exStopShape)] []
    (.dict [("events", .list [.model exStop, .int 1]), ("__is_pydantic", .bool true), ("qualified_name", .str "")]) = true := by
  decide

/-- The side condition is needed for plain dicts (not for events: their payload is never
inspected): a user dict that looks like a wrapper is not returned, the import is attempted. -/
theorem C18_json_container_guard_needed :
    (match deserializeValue [] [] (serializeValue
        (.dict [("__is_pydantic", .bool true), ("qualified_name", .str "a.b"), ("value", .int 1)])) with
     | .error .importError => true
     | _ => false) = true := by decide

/-- … while the very same dict *inside an event* is carried unchanged. -/
example : deserializeValue [("workflows.events.Event", (Shape.top "workflows.events" "Event" .event [] []))] []
    (serializeValue (.model ⟨(Shape.top "workflows.events" "Event" .event [] []), [],
      [("p", .obj [("__is_pydantic", .bool true), ("qualified_name", .str "a.b"), ("value", .int 1)])], .null⟩))
    = .ok (.model ⟨(Shape.top "workflows.events" "Event" .event [] []), [],
      [("p", .obj [("__is_pydantic", .bool true), ("qualified_name", .str "a.b"), ("value", .int 1)])], .null⟩) := by
  apply C18_json_roundtrip <;> decide

/-! ## path 2: the client envelope -/

/-- Server → client: `EventEnvelopeWithMetadata.from_event(e, include_qualified_name)` read
back with `load_event(registry)`, whenever the registry maps the event's type name to its
class, or does not know the name and the qualified name was included and is importable. -/
theorem C18_envelope_roundtrip (cenv : CEnv) (xenv : XEnv) (e : Inst) (includeQn : Bool) (registry : List Shape)
    (hw : e.wf xenv = true) (hev : e.cls.kind ≠ .plain)
    (hreg : resolves cenv (registryLookup registry) e.cls
      (if includeQn then .str e.cls.qual else .null) = true) :
    loadEvent cenv xenv (metaFromEvent e includeQn) registry = .ok e :=
  loadEvent_meta cenv xenv e includeQn registry hw hev hreg

example : loadEvent [] [] (metaFromEvent exStop false) [exStopShape] = .ok exStop := by decide
/-- the fallback branch: empty registry, class re-imported by qualified name -/
example : loadEvent [(exStopShape.qual, exStopShape)] [] (metaFromEvent exStop true) [] = .ok exStop := by
  apply C18_envelope_roundtrip <;> decide

/-- Client → server: `EventEnvelope.from_event(e).model_dump()` parsed with the workflow's
event registry. -/
theorem C18_envelope_send_roundtrip (cenv : CEnv) (xenv : XEnv) (e : Inst) (registry : List (String × Shape))
    (hw : e.wf xenv = true) (hev : e.cls.kind ≠ .plain)
    (hreg : dget registry e.cls.name = some e.cls) :
    parse cenv xenv (envelopeFromEvent e) registry none = .ok e := by
  have := parse_envelope cenv xenv e .null (Or.inl rfl) registry hw hev (by simp [resolves, hreg])
  simpa [envelopeFromEvent] using this

example : parse [] [] (envelopeFromEvent exStop) [("Scored", exStopShape)] none = .ok exStop := by decide

/-- The registry is keyed by the bare class name.  "Every event whose class is in the
registry comes back as itself" is therefore false when two registered classes share a
`__name__` … -/
def C18_envelope_statement : Prop :=
  ∀ (cenv : CEnv) (xenv : XEnv) (e : Inst) (registry : List Shape),
    e.wf xenv = true → e.cls.kind ≠ .plain → e.cls ∈ registry →
    loadEvent cenv xenv (metaFromEvent e true) registry = .ok e

theorem C18_envelope_refuted : ¬ C18_envelope_statement := by
  intro h
  have := h [] [] ⟨(Shape.top "pkg.a" "Ev" .event [] []), [], [("x", .int 1)], .null⟩
    [(Shape.top "pkg.a" "Ev" .event [] []), (Shape.top "pkg.b" "Ev" .event [] [])] (by decide) (by decide) (by decide)
  revert this
  decide

/-- … and holds exactly under the guard of `C18_envelope_roundtrip` (the name resolves to
the class); stated for the registry case. -/
theorem C18_envelope_partial (cenv : CEnv) (xenv : XEnv) (e : Inst) (registry : List Shape)
    (hw : e.wf xenv = true) (hev : e.cls.kind ≠ .plain)
    (hreg : dget (registryLookup registry) e.cls.name = some e.cls) :
    loadEvent cenv xenv (metaFromEvent e true) registry = .ok e :=
  loadEvent_meta cenv xenv e true registry hw hev (by simp [resolves, hreg])

/-- Bare start events (`model_dump()` posted without envelope, parsed with
`explicit_event=cls`): round trip whenever the dump is recognisable as bare. -/
theorem C18_bare_start_roundtrip (cenv : CEnv) (xenv : XEnv) (e : Inst) (registry : List (String × Shape))
    (hw : e.wf xenv = true) (hb : bareOk e.cls = true)
    (hreg : dget registry e.cls.name = none ∨ dget registry e.cls.name = some e.cls) :
    parse cenv xenv (.obj (dumpModel e)) registry (some e.cls) = .ok e :=
  parse_bare cenv xenv e registry hw hb hreg

def exStart : Inst :=
  { cls := { module := "app.events", name := "Go", qualname := "Go", kind := .event, ancestors := ["StartEvent"],
             fields := [{ name := "topic", ty := .str, dflt := none }] },
    typed := [("topic", .str "x")], data := [("value", .int 1)], result := .null }
example : parse [] [] (.obj (dumpModel exStart)) [] (some exStart.cls) = .ok exStart := by
  apply C18_bare_start_roundtrip <;> decide

/-- the guard is needed: a start event class with a typed field called `value` is taken
for an envelope and rejected -/
theorem C18_bare_guard_needed :
    parse [] [] (.obj (dumpModel ⟨(Shape.top "app.events" "Go" .event [⟨"value", .int, none⟩] ["StartEvent"]),
        [("value", .int 3)], [], .null⟩)) []
      (some (Shape.top "app.events" "Go" .event [⟨"value", .int, none⟩] ["StartEvent"])) = .error .validation := by
  decide

/-! ## exceptions -/

/-- What any serialised exception comes back as — both branches: found under its qualified
name and constructible from one message → that class, with `str()` = what the class makes
of the message; otherwise → `builtins.Exception` with the message unchanged. -/
theorem C18_exception_roundtrip_any (xenv : XEnv) (e : ExcVal) :
    decodeExc xenv (encodeExc e) = .ok (normExc xenv e) :=
  decodeExc_encodeExc xenv e

/-- the fallback branch, spelled out -/
theorem C18_exception_fallback (xenv : XEnv) (e : ExcVal)
    (h : dget xenv e.cls.qual = none ∨ ∃ c, dget xenv e.cls.qual = some c ∧ c.ctorOk = false) :
    decodeExc xenv (encodeExc e) = .ok { cls := builtinException, msg := e.msg } := by
  rw [decodeExc_encodeExc]
  rcases h with h | ⟨c, h1, h2⟩
  · simp [normExc, h]
  · simp [normExc, h1, h2]

example : decodeExc [] (encodeExc ⟨⟨"app.steps.run.<locals>.Boom", true, "", ""⟩, "bad"⟩)
    = .ok ⟨builtinException, "bad"⟩ := by decide
example : decodeExc [("json.decoder.JSONDecodeError", ⟨"json.decoder.JSONDecodeError", false, "", ""⟩)]
    (encodeExc ⟨⟨"json.decoder.JSONDecodeError", false, "", ""⟩, "Expecting value: line 1"⟩)
    = .ok ⟨builtinException, "Expecting value: line 1"⟩ := by decide

/-- The property's clause with the reading of DESIGN §6 (importable, constructible from one
message) as its only guard … -/
def C18_exception_statement : Prop :=
  ∀ (xenv : XEnv) (e : ExcVal), dget xenv e.cls.qual = some e.cls → e.cls.ctorOk = true →
    decodeExc xenv (encodeExc e) = .ok e

/-- … is false: a class whose `str()` is not its argument (`KeyError` quotes it) keeps its
type but not its message. -/
theorem C18_exception_refuted : ¬ C18_exception_statement := by
  intro h
  have := h [("builtins.KeyError", ⟨"builtins.KeyError", true, "'", "'"⟩)]
    ⟨⟨"builtins.KeyError", true, "'", "'"⟩, "'k'"⟩ (by decide) (by decide)
  revert this
  decide

/-- Type and message are kept when, in addition, `str(cls(message)) = message`. -/
theorem C18_exception_partial (xenv : XEnv) (e : ExcVal) (h : excStable xenv e = true) :
    decodeExc xenv (encodeExc e) = .ok e := by
  rw [decodeExc_encodeExc, normExc_stable xenv e h]

example : excStable [("builtins.ValueError", ⟨"builtins.ValueError", true, "", ""⟩)]
    ⟨⟨"builtins.ValueError", true, "", ""⟩, "bad value"⟩ = true := by decide

/-- The type is kept whenever the class is importable and constructible (message or not). -/
theorem C18_exception_type_kept (xenv : XEnv) (e : ExcVal) (h1 : dget xenv e.cls.qual = some e.cls)
    (h2 : e.cls.ctorOk = true) :
    ∃ m, decodeExc xenv (encodeExc e) = .ok { cls := e.cls, msg := m } := by
  rw [decodeExc_encodeExc]
  exact ⟨e.cls.pre ++ e.msg ++ e.cls.post, by simp [normExc, h1, h2]⟩

/-- An exception held in a typed field (`WorkflowFailedEvent.exception`) is a typed value like
any other: a stable exception's envelope is a fixpoint of the field's validation, so
`C18_dump_validate_roundtrip` covers it. -/
theorem C18_exception_field_conforms (xenv : XEnv) (x : ExcVal) (h : excStable xenv x = true) :
    conforms xenv .exc (encodeExc x) = true := by
  have := C18_exception_partial xenv x h
  simp [conforms, validate, validateExc, this]

def exFailed : Inst :=
  { cls := { module := "workflows.events", name := "WorkflowFailedEvent", qualname := "WorkflowFailedEvent", kind := .stop, ancestors := ["StopEvent"],
             fields := [⟨"step_name", .str, none⟩, ⟨"exception", .exc, none⟩, ⟨"attempts", .int, none⟩,
                        ⟨"elapsed_seconds", .flt, none⟩] },
    typed := [("step_name", .str "s"), ("exception", encodeExc ⟨⟨"builtins.ValueError", true, "", ""⟩, "bad"⟩),
              ("attempts", .int 2), ("elapsed_seconds", .flt "0.5")],
    data := [], result := .null }
example : exFailed.wf [("builtins.ValueError", ⟨"builtins.ValueError", true, "", ""⟩)] = true := by decide

/-! ## path 3: persisted ticks -/

/-- Every tick of every kind of the current `WorkflowTick` union (tables regenerated from the
sources), with any embedded events (well formed, importable), any exceptions, any step
results: `validate_python(dump_python(tick, mode="json"))` is the tick with its exceptions
as `C18_exception_roundtrip_any` describes them and, for `AddWaiter` results, the
requirements blanked (`normTick`; see `C18_tick_norm_spec`). -/
theorem C18_tick_roundtrip (cenv : CEnv) (xenv : XEnv) (t : Tick)
    (hf : fitsTick cenv xenv tickSpecs resultSpecs t = true) :
    ∃ spec j, findSpec tickSpecs t.tag = some spec ∧ encodeTick resultSpecs spec t = .ok j ∧
      decodeTick cenv xenv tickSpecs resultSpecs j = .ok (normTick xenv resultSpecs t) :=
  tick_roundtrip cenv xenv tickSpecs resultSpecs C18_tick_tables.2.2.2.2.2.2.2.2.1 t hf

/-- What `normTick` changes: nothing but exceptions (→ `normExc`) and, in an `AddWaiter`, the
`requirements` / `has_requirements` slots.  Events, optional events, event types and scalars
are returned as they were. -/
theorem C18_tick_norm_spec (xenv : XEnv) (rspecs : List RecSpec) :
    (∀ e, normS xenv (.event e) = .event e) ∧ (∀ j, normS xenv (.json j) = .json j) ∧
    (∀ c, normS xenv (.evType c) = .evType c) ∧ normS xenv .none = .none ∧
    (∀ x, normS xenv (.exc x) = .exc (normExc xenv x)) ∧
    (∀ v, normT xenv rspecs (.s v) = .s (normS xenv v)) ∧
    (∀ rs, normT xenv rspecs (.results rs) = .results (rs.map (normRec xenv rspecs))) ∧
    (∀ r spec, findSpec rspecs r.tag = some spec → spec.waiterHooks = false →
      normRec xenv rspecs r = { r with vals := r.vals.map (normS xenv) }) :=
  ⟨fun _ => rfl, fun _ => rfl, fun _ => rfl, rfl, fun _ => rfl, fun _ => rfl, fun _ => rfl,
   fun r spec h1 h2 => by simp [normRec, h1, h2]⟩

/-- Exact round trip: when every exception in the tick is stable and no `AddWaiter` carries
requirements, nothing changes at all. -/
theorem C18_tick_roundtrip_exact (cenv : CEnv) (xenv : XEnv) (t : Tick)
    (hf : fitsTick cenv xenv tickSpecs resultSpecs t = true) (hn : normTick xenv resultSpecs t = t) :
    ∃ spec j, findSpec tickSpecs t.tag = some spec ∧ encodeTick resultSpecs spec t = .ok j ∧
      decodeTick cenv xenv tickSpecs resultSpecs j = .ok t := by
  have := C18_tick_roundtrip cenv xenv t hf
  rwa [hn] at this

/-! non-vacuity: one concrete tick of each of the eight kinds fits (and the big one is exact) -/
def exEnvC : CEnv := [(exStopShape.qual, exStopShape), ("workflows.events.Event", (Shape.top "workflows.events" "Event" .event [] []))]
def exEnvX : XEnv := [("builtins.ValueError", ⟨"builtins.ValueError", true, "", ""⟩),
  ("builtins.KeyError", ⟨"builtins.KeyError", true, "'", "'"⟩)]
def exEv : Inst := ⟨(Shape.top "workflows.events" "Event" .event [] []), [], [("q", .arr [.int 1, .null])], .null⟩
def exStepResult : Tick :=
  { tag := "step_result",
    vals := [.s (.json (.str "step")), .s (.json (.int 0)), .s (.event exEv),
      .results [
        { tag := "result", vals := [.event exStop] },
        { tag := "result", vals := [.none] },
        { tag := "failed", vals := [.exc ⟨⟨"builtins.ValueError", true, "", ""⟩, "bad"⟩, .json (.flt "3.0")] },
        { tag := "add_collected", vals := [.json (.str "id"), .event exEv] },
        { tag := "delete_collected", vals := [.json (.str "id")] },
        { tag := "add_waiter", vals := [.json (.str "w"), .event exEv, .json (.obj []), .json (.flt "2.0"),
            .evType exStopShape, .json (.bool false)] },
        { tag := "delete_waiter", vals := [.json (.str "w")] }]] }
example : fitsTick exEnvC exEnvX tickSpecs resultSpecs exStepResult = true := by decide
example : normTick exEnvX resultSpecs exStepResult = exStepResult := by decide
example : fitsTick exEnvC exEnvX tickSpecs resultSpecs
    { tag := "add_event", vals := [.s (.event exStop), .s (.json (.str "s")), .s (.json (.int 2)), .s (.json (.flt "1.5")),
      .s (.exc ⟨⟨"builtins.KeyError", true, "'", "'"⟩, "'k'"⟩), .s (.json .null), .s (.json (.obj [("h", .int 1)]))] } = true := by
  decide
example : fitsTick exEnvC exEnvX tickSpecs resultSpecs { tag := "cancel_run", vals := [] } = true := by decide
example : fitsTick exEnvC exEnvX tickSpecs resultSpecs { tag := "publish_event", vals := [.s (.event exStop)] } = true := by decide
example : fitsTick exEnvC exEnvX tickSpecs resultSpecs { tag := "timeout", vals := [.s (.json (.flt "10.0"))] } = true := by decide
example : fitsTick exEnvC exEnvX tickSpecs resultSpecs
    { tag := "waiter_timeout", vals := [.s (.json (.str "s")), .s (.json (.str "w"))] } = true := by decide
example : fitsTick exEnvC exEnvX tickSpecs resultSpecs { tag := "idle_check", vals := [] } = true := by decide
example : fitsTick exEnvC exEnvX tickSpecs resultSpecs { tag := "idle_release", vals := [] } = true := by decide
/-- an `AddWaiter` with requirements comes back without them and with the flag cleared -/
example : normRec exEnvX resultSpecs
    { tag := "add_waiter", vals := [.json (.str "w"), .none, .json (.obj [("k", .int 1)]), .json .null,
        .evType exStopShape, .json (.bool false)] }
    = { tag := "add_waiter", vals := [.json (.str "w"), .none, .json (.obj []), .json .null,
        .evType exStopShape, .json (.bool false)] } := by decide

/-! ## the result as callers see it: subclasses that override `_get_result` -/

/-- `event.result` is `self._get_result()`, which a `StopEvent` subclass may override (wrap the raw
payload, aggregate it, combine it with typed or dynamic fields: `Accessor`, any composition).
For **every** accessor, every class shape and every instance: what callers read from `.result`
after a round trip is what they read before — through `model_validate(model_dump())`, through
the JSON serializer, and through the client envelope (under the guards of the path theorems). -/
theorem C18_public_result_roundtrip (cenv : CEnv) (xenv : XEnv) (a : Accessor) (e : Inst)
    (hw : e.wf xenv = true) :
    (modelValidate xenv e.cls (.obj (dumpModel e))).map (publicResult a) = .ok (publicResult a e) ∧
    (importable cenv e.cls = true →
      (deserializeValue cenv xenv (serializeValue (.model e))).map (pyPublic a) = .ok (some (publicResult a e))) ∧
    (∀ (includeQn : Bool) (registry : List Shape), e.cls.kind ≠ .plain →
      resolves cenv (registryLookup registry) e.cls (if includeQn then .str e.cls.qual else .null) = true →
      (loadEvent cenv xenv (metaFromEvent e includeQn) registry).map (publicResult a) = .ok (publicResult a e)) := by
  refine ⟨?_, ?_, ?_⟩
  · rw [C18_dump_validate_roundtrip xenv e hw]; rfl
  · intro hi
    rw [C18_json_roundtrip cenv xenv e hw hi]; rfl
  · intro includeQn registry hev hreg
    rw [C18_envelope_roundtrip cenv xenv e includeQn registry hw hev hreg]; rfl

/-- a wrapping accessor combined with a typed field, on the example instance -/
example : publicResult (.comp .wrapList (.withField "payload" "score")) exStop
    = .arr [.obj [("payload", .obj [("answer", .int 42)]), ("score", .int 3)]] := by decide
example : (modelValidate [] exStopShape (.obj (dumpModel exStop))).map (publicResult (.comp .wrapList (.withField "payload" "score")))
    = .ok (.arr [.obj [("payload", .obj [("answer", .int 42)]), ("score", .int 3)]]) := by decide

/-- The same in the persisted tick format: the `.result` of the event in every top-level slot of
every tick kind (`publish_event`, `add_event`, `step_result`) is unchanged. -/
theorem C18_public_result_tick (cenv : CEnv) (xenv : XEnv) (a : Accessor) (t : Tick)
    (hf : fitsTick cenv xenv tickSpecs resultSpecs t = true) :
    ∃ spec j, findSpec tickSpecs t.tag = some spec ∧ encodeTick resultSpecs spec t = .ok j ∧
      (decodeTick cenv xenv tickSpecs resultSpecs j).map (fun t' => t'.vals.map (slotPublic a))
        = .ok (t.vals.map (slotPublic a)) := by
  obtain ⟨spec, j, h1, h2, h3⟩ := C18_tick_roundtrip cenv xenv t hf
  refine ⟨spec, j, h1, h2, ?_⟩
  rw [h3]
  have hs : ∀ v, slotPublic a (normT xenv resultSpecs v) = slotPublic a v := by
    intro v
    cases v with
    | s sv => cases sv <;> rfl
    | results rs => rfl
  simp [Except.map, normTick, List.map_map, Function.comp_def, hs]

example : fitsTick exEnvC exEnvX tickSpecs resultSpecs { tag := "publish_event", vals := [.s (.event exStop)] } = true := by decide
example : ({ tag := "publish_event", vals := [.s (.event exStop)] } : Tick).vals.map (slotPublic (.comp .total .wrapList))
    = [some (.int 0)] := by decide

/-- The wire carries the **raw** payload, not what `.result` reports.  For the base accessor the two
serializers coincide … -/
theorem C18_dump_accessor_raw (e : Inst) : dumpModelVia .raw e = dumpModel e := by
  unfold dumpModelVia dumpModel publicResult
  cases e.cls.kind <;> rfl

/-- … and "a serializer that writes what `event.result` reports round-trips the result" … -/
def C18_dump_accessor_value_statement : Prop :=
  ∀ (xenv : XEnv) (a : Accessor) (e : Inst), e.wf xenv = true →
    (modelValidate xenv e.cls (.obj (dumpModelVia a e))).map (publicResult a) = .ok (publicResult a e)

/-- … is false as soon as the accessor is not idempotent: the override is applied to its own
output after reading back (`[[5]]` for a wrapping accessor constructed with `5`). -/
theorem C18_dump_accessor_value_refuted : ¬ C18_dump_accessor_value_statement := by
  intro h
  have := h [] .wrapList ⟨(Shape.top "app.events" "Done" .stop [] ["StopEvent"]), [], [], .int 5⟩ (by decide)
  revert this
  decide

example : (modelValidate [] (Shape.top "app.events" "Done" .stop [] ["StopEvent"])
    (.obj (dumpModelVia .wrapList ⟨(Shape.top "app.events" "Done" .stop [] ["StopEvent"]), [], [], .int 5⟩))).map
      (publicResult .wrapList) = .ok (.arr [.arr [.int 5]]) := by decide
