#!/bin/bash
# usage: tools/run_seeded.sh <seeded-id> [check ids...]   — applies seeded/<id>/patch.diff in a scratch worktree and runs the checks
ROOT=${VERIF_ROOT:-$(cd "$(dirname "$0")/.." && pwd)}   # the checkout this script lives in (a worktree of /verif works too)
id=$1; shift
prop=$(python3 -c "import json;print(json.load(open('$ROOT/seeded/$id/meta.json'))['property'])")
checks=${@:-$prop}
wt=/tmp/sw_$$
git -C /repo worktree add -q --detach $wt HEAD || exit 9
if ! git -C $wt apply $ROOT/seeded/$id/patch.diff 2>/tmp/apply_err_$$; then echo "$id: PATCH-DOES-NOT-APPLY $(head -1 /tmp/apply_err_$$)"; rm -f /tmp/apply_err_$$; git -C /repo worktree remove --force $wt; exit 3; fi
rm -f /tmp/apply_err_$$
for c in $checks; do
  out=$(cd $ROOT && VERIF_REPO=$wt ./check $c --tier quick 2>&1 | grep -v "^KNOWN" | tail -2 | tr '\n' ' ' | cut -c1-260)
  echo "$id vs $c: $out"
done
git -C /repo worktree remove --force $wt
# the run above regenerated lean/WfModel/Gen*.lean from the patched tree: regenerate from /repo again
(cd $ROOT && /venv/bin/python -m harness.translate >/dev/null 2>&1)
