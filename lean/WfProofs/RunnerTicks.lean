import WfModel.Runner
/-!
C02 on the runner LTS: tick conservation.

Every tick the runner holds is either *reduced* (in `log`) or *pending* (in `buf`, on the
timer heap, in the mailbox).  `createdBy` says — independently of how the runner shuffles
ticks between its containers — which ticks an action creates; `lostBy` is the single tick
that is consumed without being logged, namely the one whose reduction raised (`crash`).
`step_cnt`/`run_cnt` show, by counting every tick, that an action neither loses nor
duplicates a tick on its way to the reducer.
-/
set_option linter.unusedVariables false
set_option linter.unusedSimpArgs false

namespace Engine

/-- the ticks handed to the reducer so far (`on_tick` log, in order) -/
def Runner.reduced (r : Runner) : List Tick := r.log.map (·.1)

/-- the ticks on their way to the reducer: buffer, timer heap, mailbox -/
def Runner.pending (r : Runner) : List Tick := r.buf ++ r.heap.map (·.tick) ++ r.mailbox

/-- copies of `t` the runner holds (reduced + pending) -/
def Runner.cnt (r : Runner) (t : Tick) : Nat :=
  r.reduced.count t + r.buf.count t + (r.heap.map (·.tick)).count t + r.mailbox.count t

theorem Runner.cnt_eq (r : Runner) (t : Tick) : r.cnt t = (r.reduced ++ r.pending).count t := by
  simp only [Runner.cnt, Runner.pending, List.count_append]; omega

/-- commands that end the run (`process_command` raising / returning an exit) -/
def cmdEnds : Cmd → Bool
  | .halt _ => true
  | .completeRun _ => true
  | .failWorkflow _ _ => true
  | .crash => true
  | _ => false

/-- the tick a command creates; `idle` is the runner's `_idle_check_pending` flag: an idle
check is only scheduled when none is pending -/
def cmdTick (idle : Bool) : Cmd → List Tick
  | .queueEvent att step _ => [.addEvent att step]
  | .scheduleWaiterTimeout s w _ => [.waiterTimeout s w]
  | .scheduleIdleCheck => if idle then [] else [.idleCheck]
  | _ => []

def idleAfter (idle : Bool) : Cmd → Bool
  | .scheduleIdleCheck => true
  | _ => idle

/-- ticks created by a command list: commands are executed in order up to and including the
first one that ends the run; later commands are never executed ("unless the run ends first") -/
def cmdsTicks : Bool → List Cmd → List Tick
  | _, [] => []
  | idle, c :: cs => cmdTick idle c ++ (if cmdEnds c then [] else cmdsTicks (idleAfter idle c) cs)

theorem execCmd_cnt (r : Runner) (c : Cmd) (t : Tick) :
    (execCmd r c).cnt t = r.cnt t + (cmdTick r.idlePending c).count t := by
  cases c with
  | queueEvent att step delay =>
    cases delay with
    | none => simp only [execCmd, Runner.cnt, Runner.reduced, cmdTick, List.count_append]; omega
    | some d =>
      simp only [execCmd]
      split
      · simp only [Runner.push, Runner.cnt, Runner.reduced, cmdTick, List.map_append, List.map_cons,
          List.map_nil, List.count_append]; omega
      · simp only [Runner.cnt, Runner.reduced, cmdTick, List.count_append]; omega
  | scheduleIdleCheck =>
    simp only [execCmd, cmdTick]
    split
    · simp
    · simp only [Runner.cnt, Runner.reduced, List.count_append]; omega
  | scheduleWaiterTimeout s w tm =>
    simp only [execCmd, Runner.push, Runner.cnt, Runner.reduced, cmdTick, List.map_append, List.map_cons,
      List.map_nil, List.count_append]; omega
  | _ => simp [execCmd, Runner.finish, Runner.cnt, Runner.reduced, cmdTick]

theorem execCmd_idle (r : Runner) (c : Cmd) : (execCmd r c).idlePending = idleAfter r.idlePending c := by
  cases c with
  | queueEvent att step delay =>
    cases delay with
    | none => rfl
    | some d => simp only [execCmd, idleAfter]; split <;> rfl
  | scheduleIdleCheck =>
    simp only [execCmd, idleAfter]
    split
    · assumption
    · rfl
  | _ => rfl

theorem execCmd_outcome (r : Runner) (c : Cmd) (h : r.outcome = none) :
    (execCmd r c).outcome.isSome = cmdEnds c := by
  cases c with
  | queueEvent att step delay =>
    cases delay with
    | none => simp [execCmd, cmdEnds, h]
    | some d => simp only [execCmd, cmdEnds]; split <;> simp [Runner.push, h]
  | scheduleIdleCheck => simp only [execCmd, cmdEnds]; split <;> simp [h]
  | _ => simp [execCmd, Runner.finish, Runner.push, cmdEnds, h]

theorem execCmds_cnt : ∀ (cmds : List Cmd) (r : Runner) (t : Tick), r.outcome = none →
    (execCmds r cmds).cnt t = r.cnt t + (cmdsTicks r.idlePending cmds).count t
  | [], r, t, _ => by simp [execCmds, cmdsTicks]
  | c :: cs, r, t, h => by
    have ho := execCmd_outcome r c h
    simp only [execCmds, cmdsTicks, List.count_append]
    cases he : cmdEnds c with
    | true =>
      rw [he] at ho
      simp only [ho, ↓reduceIte, List.count_nil, Nat.add_zero]
      exact execCmd_cnt r c t
    | false =>
      rw [he] at ho
      simp only [ho, Bool.false_eq_true, ↓reduceIte]
      have hn : (execCmd r c).outcome = none := by
        cases hx : (execCmd r c).outcome with
        | none => rfl
        | some o => rw [hx] at ho; simp at ho
      rw [execCmds_cnt cs (execCmd r c) t hn, execCmd_cnt, execCmd_idle]
      omega

/-- a command list that leaves the run open contains no ending command: all of it was executed -/
theorem execCmds_open : ∀ (cmds : List Cmd) (r : Runner), r.outcome = none →
    (execCmds r cmds).outcome = none → ∀ c ∈ cmds, cmdEnds c = false
  | [], _, _, _ => by simp
  | c :: cs, r, h, hn => by
    have ho := execCmd_outcome r c h
    simp only [execCmds] at hn
    cases he : cmdEnds c with
    | true =>
      rw [he] at ho
      simp only [ho, ↓reduceIte] at hn
      rw [hn] at ho; simp at ho
    | false =>
      rw [he] at ho
      simp only [ho, Bool.false_eq_true, ↓reduceIte] at hn
      have hn1 : (execCmd r c).outcome = none := by
        cases hx : (execCmd r c).outcome with
        | none => rfl
        | some o => rw [hx] at ho; simp at ho
      intro d hd
      rcases List.mem_cons.mp hd with hd | hd
      · subst hd; exact he
      · exact execCmds_open cs _ hn1 hn d hd

/-- … and conversely an ending command in the list ends the run -/
theorem execCmds_ends : ∀ (cmds : List Cmd) (r : Runner), r.outcome = none →
    (∃ c ∈ cmds, cmdEnds c = true) → (execCmds r cmds).outcome.isSome = true := by
  intro cmds r h hex
  cases hx : (execCmds r cmds).outcome with
  | some o => rfl
  | none =>
    obtain ⟨c, hc, he⟩ := hex
    have := execCmds_open cmds r h hx c hc
    rw [this] at he; cases he

theorem execCmd_buf_mono (r : Runner) (c : Cmd) : ∀ t ∈ r.buf, t ∈ (execCmd r c).buf := by
  intro t ht
  cases c with
  | queueEvent att step delay =>
    cases delay with
    | none => simp [execCmd, ht]
    | some d => simp only [execCmd]; split <;> simp [Runner.push, ht]
  | scheduleIdleCheck => simp only [execCmd]; split <;> simp [ht]
  | _ => simpa [execCmd, Runner.finish, Runner.push] using ht

theorem execCmds_buf_mono : ∀ (cmds : List Cmd) (r : Runner), ∀ t ∈ r.buf, t ∈ (execCmds r cmds).buf
  | [], _, t, ht => by simpa [execCmds] using ht
  | c :: cs, r, t, ht => by
    simp only [execCmds]
    split
    · exact execCmd_buf_mono r c t ht
    · exact execCmds_buf_mono cs _ t (execCmd_buf_mono r c t ht)

/-- an executed, undelayed `queueEvent` puts its `TickAddEvent` into the buffer, where it stays
for the rest of the command list -/
theorem execCmds_queue_buffered : ∀ (cmds : List Cmd) (r : Runner), r.outcome = none →
    (execCmds r cmds).outcome = none → ∀ att step, Cmd.queueEvent att step none ∈ cmds →
    Tick.addEvent att step ∈ (execCmds r cmds).buf
  | [], _, _, _, _, _, hm => by simp at hm
  | c :: cs, r, h, hn, att, step, hm => by
    have hopen := execCmds_open (c :: cs) r h hn
    have ho := execCmd_outcome r c h
    rw [hopen c (by simp)] at ho
    have hn1 : (execCmd r c).outcome = none := by
      cases hx : (execCmd r c).outcome with
      | none => rfl
      | some o => rw [hx] at ho; simp at ho
    simp only [execCmds, ho, Bool.false_eq_true, ↓reduceIte] at hn ⊢
    rcases List.mem_cons.mp hm with hm | hm
    · subst hm
      exact execCmds_buf_mono cs _ _ (by simp [execCmd])
    · exact execCmds_queue_buffered cs _ hn1 hn att step hm

theorem execCmd_log (r : Runner) (c : Cmd) : (execCmd r c).log = r.log := by
  cases c with
  | queueEvent att step delay =>
    cases delay with
    | none => rfl
    | some d => simp only [execCmd]; split <;> rfl
  | scheduleIdleCheck => simp only [execCmd]; split <;> rfl
  | _ => rfl

theorem execCmds_log : ∀ (cmds : List Cmd) (r : Runner), (execCmds r cmds).log = r.log
  | [], _ => rfl
  | c :: cs, r => by
    simp only [execCmds]
    split
    · exact execCmd_log r c
    · rw [execCmds_log cs, execCmd_log]

theorem execCmd_buf_prefix (r : Runner) (c : Cmd) : ∃ extra, (execCmd r c).buf = r.buf ++ extra := by
  cases c with
  | queueEvent att step delay =>
    cases delay with
    | none => exact ⟨_, rfl⟩
    | some d =>
      simp only [execCmd]
      split
      · exact ⟨[], by simp [Runner.push]⟩
      · exact ⟨_, rfl⟩
  | scheduleIdleCheck =>
    simp only [execCmd]
    split
    · exact ⟨[], by simp⟩
    · exact ⟨_, rfl⟩
  | _ => exact ⟨[], by simp [execCmd, Runner.finish, Runner.push]⟩

/-- the buffer is a FIFO: processing commands only appends to it -/
theorem execCmds_buf_prefix : ∀ (cmds : List Cmd) (r : Runner), ∃ extra, (execCmds r cmds).buf = r.buf ++ extra
  | [], r => ⟨[], by simp [execCmds]⟩
  | c :: cs, r => by
    simp only [execCmds]
    split
    · exact execCmd_buf_prefix r c
    · obtain ⟨e1, h1⟩ := execCmd_buf_prefix r c
      obtain ⟨e2, h2⟩ := execCmds_buf_prefix cs (execCmd r c)
      exact ⟨e1 ++ e2, by rw [h2, h1, List.append_assoc]⟩

/-! ### the timer action only permutes -/

theorem insertTimer_perm (t : Timer) : ∀ l : List Timer, (insertTimer t l).Perm (t :: l)
  | [] => by simp [insertTimer]
  | u :: us => by
    unfold insertTimer
    split
    · exact List.Perm.refl _
    · exact ((insertTimer_perm t us).cons u).trans (List.Perm.swap t u us)

theorem sortTimers_perm : ∀ l : List Timer, (sortTimers l).Perm l
  | [] => by simp [sortTimers]
  | a :: as => by
    simp only [sortTimers, List.foldr_cons]
    exact (insertTimer_perm a _).trans ((sortTimers_perm as).cons a)

theorem timer_split (heap : List Timer) (p : Timer → Bool) (t : Tick) :
    ((sortTimers (heap.filter p)).map (·.tick)).count t +
      ((heap.filter (fun x => !p x)).map (·.tick)).count t = (heap.map (·.tick)).count t := by
  rw [((sortTimers_perm (heap.filter p)).map (·.tick)).count_eq t, ← List.count_append, ← List.map_append]
  exact ((List.filter_append_perm p heap).map (·.tick)).count_eq t

/-- the runner after taking `t` off the head of the buffer -/
def Runner.popped (r : Runner) (t : Tick) (rest : List Tick) : Runner :=
  { r with buf := rest, idlePending := if t = Tick.idleCheck then false else r.idlePending }

/-- … and after the reducer's new state is stored and the tick is logged (`on_tick`) -/
def Runner.logged (r : Runner) (t : Tick) (rest : List Tick) (st' : State) : Runner :=
  { r with buf := rest, idlePending := if t = Tick.idleCheck then false else r.idlePending,
           st := st', log := r.log ++ [(t, r.now)] }

/-- one `drain` of a running runner with a non-empty buffer, spelled out -/
theorem step_drain (cfg : Cfg) (pol : Policy) (r : Runner) (t : Tick) (rest : List Tick)
    (ho : r.outcome = none) (hb : r.buf = t :: rest) :
    r.step cfg pol .drain =
      if (reduce cfg pol t r.st r.now).2.contains .crash then (r.popped t rest).finish .crashed
      else execCmds (r.logged t rest (reduce cfg pol t r.st r.now).1) (reduce cfg pol t r.st r.now).2 := by
  unfold Runner.step
  rw [if_neg (by simp [ho])]
  simp only [hb]
  rfl

/-! ### what an action creates -/

/-- the ticks an action creates in state `r`: a drained tick's executed commands, a finished
worker's result tick, an accepted external tick.  Nothing else creates a tick. -/
def createdBy (cfg : Cfg) (pol : Policy) (r : Runner) (a : Act) : List Tick :=
  if r.outcome.isSome then [] else
  match a with
  | .drain =>
    match r.buf with
    | [] => []
    | t :: _ =>
      if (reduce cfg pol t r.st r.now).2.contains .crash then []
      else cmdsTicks (if t = Tick.idleCheck then false else r.idlePending) (reduce cfg pol t r.st r.now).2
  | .workerDone s w res =>
    if !r.buf.isEmpty then [] else
    match r.running.find? (fun x => x.step == s && x.wid == w) with
    | none => []
    | some x => [.stepResult s w x.ev res]
  | .external t => if t.isExternal then [t] else []
  | _ => []

/-- the tick an action consumes without logging it: the one whose reduction raised -/
def lostBy (cfg : Cfg) (pol : Policy) (r : Runner) (a : Act) : List Tick :=
  if r.outcome.isSome then [] else
  match a with
  | .drain =>
    match r.buf with
    | [] => []
    | t :: _ => if (reduce cfg pol t r.st r.now).2.contains .crash then [t] else []
  | _ => []

theorem step_cnt (cfg : Cfg) (pol : Policy) (r : Runner) (a : Act) (t : Tick) :
    (r.step cfg pol a).cnt t + (lostBy cfg pol r a).count t =
      r.cnt t + (createdBy cfg pol r a).count t := by
  unfold Runner.step createdBy lostBy
  cases ho : r.outcome with
  | some o => simp
  | none =>
    simp only [Option.isSome_none, Bool.false_eq_true, ↓reduceIte]
    cases a with
    | drain =>
      simp only
      cases hb : r.buf with
      | nil => simp
      | cons x rest =>
        simp only
        split
        · simp only [Runner.finish, Runner.cnt, Runner.reduced, hb, List.count_cons, List.count_nil]
          omega
        · rw [execCmds_cnt]
          · simp only [Runner.cnt, Runner.reduced, hb, List.map_append, List.map_cons, List.map_nil,
              List.count_append, List.count_cons, List.count_nil]
            omega
          · rfl
    | workerDone s w res =>
      simp only
      cases hb : r.buf with
      | cons x rest => simp
      | nil =>
        simp only [List.isEmpty_nil, Bool.not_true, Bool.false_eq_true, ↓reduceIte]
        cases hf : r.running.find? (fun x => x.step == s && x.wid == w) with
        | none => simp
        | some y => simp only [Runner.cnt, Runner.reduced, hb, List.count_nil]; omega
    | pull =>
      simp only
      cases hb : r.buf with
      | cons x rest => simp
      | nil =>
        simp only [List.isEmpty_nil, Bool.not_true, Bool.false_eq_true, ↓reduceIte]
        cases hm : r.mailbox with
        | nil => simp
        | cons x m =>
          simp only [Runner.cnt, Runner.reduced, hb, hm, List.count_cons, List.count_nil]; omega
    | timer =>
      simp only
      cases hb : r.buf with
      | cons x rest => simp
      | nil =>
        simp only [List.isEmpty_nil, Bool.not_true, Bool.false_eq_true, ↓reduceIte]
        have := timer_split r.heap (fun x => decide (x.at_ ≤ r.now)) t
        simp only [Runner.cnt, Runner.reduced, hb, List.count_nil]
        omega
    | advance dt => simp [Runner.cnt, Runner.reduced]
    | external x =>
      simp only
      split
      · simp only [Runner.cnt, Runner.reduced, List.count_append, List.count_nil]; omega
      · simp
    | stepWrite p => simp [Runner.cnt, Runner.reduced]

theorem step_ended' (cfg : Cfg) (pol : Policy) (r : Runner) (a : Act) (h : r.outcome.isSome = true) :
    r.step cfg pol a = r := by
  unfold Runner.step; simp [h]

theorem run_ended' (cfg : Cfg) (pol : Policy) : ∀ (acts : List Act) (r : Runner), r.outcome.isSome = true →
    Runner.run cfg pol r acts = r
  | [], r, _ => rfl
  | a :: as, r, h => by
    simp only [Runner.run, List.foldl_cons]
    rw [step_ended' cfg pol r a h]
    exact run_ended' cfg pol as r h

/-- ticks created along a schedule, action by action -/
def createdAlong (cfg : Cfg) (pol : Policy) : Runner → List Act → List Tick
  | _, [] => []
  | r, a :: as => createdBy cfg pol r a ++ createdAlong cfg pol (r.step cfg pol a) as

def lostAlong (cfg : Cfg) (pol : Policy) : Runner → List Act → List Tick
  | _, [] => []
  | r, a :: as => lostBy cfg pol r a ++ lostAlong cfg pol (r.step cfg pol a) as

theorem run_cnt (cfg : Cfg) (pol : Policy) (t : Tick) : ∀ (acts : List Act) (r : Runner),
    (Runner.run cfg pol r acts).cnt t + (lostAlong cfg pol r acts).count t =
      r.cnt t + (createdAlong cfg pol r acts).count t
  | [], r => by simp [Runner.run, lostAlong, createdAlong]
  | a :: as, r => by
    have h1 := step_cnt cfg pol r a t
    have h2 := run_cnt cfg pol t as (r.step cfg pol a)
    simp only [Runner.run, List.foldl_cons, lostAlong, createdAlong, List.count_append] at h2 ⊢
    omega

theorem lostBy_crashed (cfg : Cfg) (pol : Policy) (r : Runner) (a : Act) (h : lostBy cfg pol r a ≠ []) :
    (r.step cfg pol a).outcome = some .crashed ∧ r.outcome = none ∧
      ∃ t rest, r.buf = t :: rest ∧ a = .drain ∧ lostBy cfg pol r a = [t] := by
  unfold lostBy at h
  unfold Runner.step lostBy
  cases ho : r.outcome with
  | some o => simp [ho] at h
  | none =>
    simp only [ho, Option.isSome_none, Bool.false_eq_true, ↓reduceIte] at h ⊢
    cases a with
    | drain =>
      simp only at h ⊢
      cases hb : r.buf with
      | nil => simp [hb] at h
      | cons x rest =>
        simp only [hb] at h ⊢
        by_cases hc : (reduce cfg pol x r.st r.now).2.contains .crash = true
        · rw [if_pos hc, if_pos hc]
          exact ⟨by simp [Runner.finish], trivial, x, rest, rfl, trivial, rfl⟩
        · rw [if_neg hc] at h; exact absurd rfl h
    | _ => simp at h

theorem lostAlong_ended (cfg : Cfg) (pol : Policy) : ∀ (acts : List Act) (r : Runner),
    r.outcome.isSome = true → lostAlong cfg pol r acts = []
  | [], _, _ => rfl
  | a :: as, r, h => by
    simp only [lostAlong]
    rw [step_ended' cfg pol r a h, lostAlong_ended cfg pol as r h]
    simp [lostBy, h]

theorem createdAlong_ended (cfg : Cfg) (pol : Policy) : ∀ (acts : List Act) (r : Runner),
    r.outcome.isSome = true → createdAlong cfg pol r acts = []
  | [], _, _ => rfl
  | a :: as, r, h => by
    simp only [createdAlong]
    rw [step_ended' cfg pol r a h, createdAlong_ended cfg pol as r h]
    simp [createdBy, h]

/-- at most one tick is ever lost, and only by a run that crashed -/
theorem lostAlong_spec (cfg : Cfg) (pol : Policy) : ∀ (acts : List Act) (r : Runner),
    (lostAlong cfg pol r acts).length ≤ 1 ∧
      (lostAlong cfg pol r acts ≠ [] → (Runner.run cfg pol r acts).outcome = some .crashed)
  | [], r => by simp [lostAlong]
  | a :: as, r => by
    simp only [lostAlong, Runner.run, List.foldl_cons]
    by_cases hl : lostBy cfg pol r a = []
    · rw [hl]
      simpa [Runner.run] using lostAlong_spec cfg pol as (r.step cfg pol a)
    · obtain ⟨hc, _, t, rest, _, _, ht⟩ := lostBy_crashed cfg pol r a hl
      have hs : (r.step cfg pol a).outcome.isSome = true := by simp [hc]
      rw [lostAlong_ended cfg pol as _ hs, ht]
      have := run_ended' cfg pol as _ hs
      simp only [Runner.run] at this
      rw [this]
      exact ⟨by simp, fun _ => hc⟩

/-! ### start of a run -/

/-- ticks created by `Runner.init`: rehydration pings, the start event, the run timeout, and
whatever the rewind's commands create -/
def createdAtInit (cfg : Cfg) (st0 : State) (now : Int) (start : Option Ev) (timeout : Option Nat) : List Tick :=
  rehydrateTicks cfg st0 ++ (match start with | some e => [Tick.addEvent { ev := e } none] | none => []) ++
    (match timeout with | some t => [Tick.timeout t] | none => []) ++
    cmdsTicks false (rewind cfg st0 now).2

theorem init_cnt (cfg : Cfg) (st0 : State) (now : Int) (start : Option Ev) (timeout : Option Nat) (t : Tick) :
    (Runner.init cfg st0 now start timeout).cnt t = (createdAtInit cfg st0 now start timeout).count t := by
  unfold Runner.init createdAtInit
  cases start <;> simp only <;>
  cases timeout with
  | none =>
    rw [execCmds_cnt _ _ _ rfl]
    simp only [Runner.cnt, Runner.reduced, List.map_nil, List.count_nil, List.count_append]
    omega
  | some tm =>
    rw [execCmds_cnt _ _ _ rfl]
    simp only [Runner.push, Runner.cnt, Runner.reduced, List.map_nil, List.map_cons, List.nil_append,
      List.count_nil, List.count_append]
    omega

end Engine
