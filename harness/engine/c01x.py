"""C01 between two commands, from any start (extension of the C01 check).

* observers on the real `_ControlLoopRunner._process_tick` / `process_command`: the table of worker coroutines and tasks
  the runner holds (`_pending_workers` + `worker_tasks` through `_task_keys`) is recorded before the first and after every
  single command of every tick (and of the start-up rewind), together with whether every entry is backed by an
  `in_progress` row of the runner's current state;
* (K) `micro_corr`: the whole run as runner-LTS actions (the lines of `corr.runner_lines`, unchanged) with, before every
  `rstep`, an `rmicro` line whose expected output is the recorded tables of that tick, and after `rinit` an `rinitmicro`
  line for the start-up — against `wfdriver slots` (`Runner.microStates` / `Runner.initStates`);
* (S) `mon_micro`: every recorded table is a safe slot table (≤ num_workers per step, ids distinct and in range, every
  entry backed by a row) and every two consecutive tables of a run are one move of the slot-table specification
  (nothing, one start on a free slot, one task gone, all gone) — the implementation side of
  `C01_bounded_between_commands` / `C01_slot_table_refinement`;
* `corrupt_rewind`: `rewind_in_progress` on states no run leaves behind (duplicated / out-of-range worker ids, more rows
  than workers), model vs code and, on the code alone, the slot table and the commands it answers with
  (`C01_*_any_start`, `C01_rewind_never_raises`);
* `admit_corr`: `_add_or_enqueue_event` on arbitrary id tables, model vs code (`C01_allocator_total_any_table`,
  `C01_slot_choice_is_source`).
"""
from __future__ import annotations

import random
from typing import Any

from workflows.runtime import control_loop as CL
from workflows.runtime.types import commands as C
from workflows.runtime.types.internal_state import EventAttempt, InProgressState, InternalStepWorkerState
from workflows.runtime.types import results as R

from ..runner import Divergence, Driver, Env, Outcome, Violation, diff_streams
from . import corr, direct, enc, live
from . import evtypes as ET
from .live import Trace

# ------------------------------------------------------------------ observers


def _table(runner: Any) -> list[tuple[str, int]]:
    t = [(p.step_name, p.worker_id) for p in runner._pending_workers]
    for task in runner.worker_tasks:
        k = runner._task_keys.get(task)
        t.append(k if k is not None else ("<unkeyed>", -1))
    return sorted(t)


def _backed(runner: Any, table: list[tuple[str, int]]) -> list[tuple[str, int]]:
    """entries of the table without an in_progress row of the runner's current state"""
    bad = []
    for (s, w) in table:
        ws = runner.state.workers.get(s)
        if ws is None or not any(ip.worker_id == w for ip in ws.in_progress):
            bad.append((s, w))
    return bad


def _snap(runner: Any) -> dict:
    t = _table(runner)
    return {"table": t, "unbacked": _backed(runner, t)}


def install_micro_observers() -> None:
    live.install_observers()
    if getattr(CL._ControlLoopRunner.process_command, "_verif_micro", False):
        return
    orig_pt = CL._ControlLoopRunner._process_tick
    orig_pc = CL._ControlLoopRunner.process_command

    def _groups() -> list | None:
        if not live._ACTIVE:
            return None
        tr = live._ACTIVE[-1].trace
        if not hasattr(tr, "micro"):
            tr.micro = []  # type: ignore[attr-defined]
        return tr.micro  # type: ignore[attr-defined]

    async def process_tick(self: Any, tick: Any) -> Any:
        gs = _groups()
        g = None
        if gs is not None:
            g = {"kind": "tick", "call": len(live._ACTIVE[-1].trace.calls), "entry": _snap(self), "first": None, "after": []}
            gs.append(g)
        prev = getattr(self, "_verif_group", None)
        self._verif_group = g
        try:
            return await orig_pt(self, tick)
        finally:
            self._verif_group = prev

    async def process_command(self: Any, command: Any) -> Any:
        gs = _groups()
        g = getattr(self, "_verif_group", None)
        if g is None and gs is not None:
            # commands of the start-up rewind (processed by run() itself)
            if not gs or gs[-1]["kind"] != "init" or gs[-1].get("runner") is not self:
                gs.append({"kind": "init", "call": len(live._ACTIVE[-1].trace.calls), "entry": None, "first": None, "after": [], "runner": self})
            g = gs[-1]
        if g is not None and g["first"] is None:
            g["first"] = _snap(self)
        try:
            return await orig_pc(self, command)
        finally:
            if g is not None:
                g["after"].append(_snap(self))

    process_command._verif_micro = True  # type: ignore[attr-defined]
    CL._ControlLoopRunner._process_tick = process_tick  # type: ignore[method-assign]
    CL._ControlLoopRunner.process_command = process_command  # type: ignore[method-assign]


def _states(g: dict) -> list[dict]:
    """the micro-states of one group: before its first command, then after every command"""
    if g["first"] is None:
        return [g["entry"]] if g["entry"] is not None else [{"table": [], "unbacked": []}]
    return [g["first"]] + list(g["after"])


def _enc_tables(states: list[dict]) -> str:
    def tbl(t: list[tuple[str, int]]) -> str:
        rows = sorted((int(enc.step_id(s)), w) for (s, w) in t)
        return enc.lst([f"{a} {b}" for a, b in rows])
    return "M " + enc.lst([tbl(s["table"]) for s in states])


# ------------------------------------------------------------------ (S)


def mon_micro(tr: Trace) -> list[Violation]:
    out: list[Violation] = []
    groups = getattr(tr, "micro", [])
    nw = {s["name"]: (1 if s.get("role") == "handler" else s.get("nw", 4)) for s in tr.spec["steps"]}
    rep = {"spec": tr.spec, "actions": tr.actions}
    prev: list[tuple[str, int]] | None = None
    for gi, g in enumerate(groups):
        seq = ([g["entry"]] if g["entry"] is not None else []) + ([g["first"]] if g["first"] is not None else []) + list(g["after"])
        for si, s in enumerate(seq):
            t = s["table"]
            where = f"{g['kind']} group {gi} (reducer call {g['call']}), state {si}"
            per: dict[str, list[int]] = {}
            for (st, w) in t:
                per.setdefault(st, []).append(w)
            for st, ws in per.items():
                lim = nw.get(st, 4)
                if len(ws) > lim:
                    out.append(Violation("C01/over_limit_between_commands", f"{len(ws)} worker coroutines/tasks of {st} with num_workers={lim} at {where}: {t}", rep))
                    return out
                if len(set(ws)) != len(ws):
                    out.append(Violation("C01/slot_shared_between_commands", f"two worker coroutines/tasks of {st} on one slot at {where}: {t}", rep))
                    return out
                if any(w < 0 or w >= lim for w in ws):
                    out.append(Violation("C01/slot_range_between_commands", f"{st} has a worker on a slot outside [0,{lim}) at {where}: {t}", rep))
                    return out
            if s["unbacked"]:
                out.append(Violation("C01/live_task_without_row", f"worker coroutine/task {s['unbacked']} has no in_progress row at {where}", rep))
                return out
            if prev is not None and not _is_move(prev, t):
                out.append(Violation("C01/not_a_slot_table_move", f"the table of live workers went from {prev} to {t} in one step at {where}", rep))
                return out
            prev = t
    return out


def _is_move(a: list, b: list) -> bool:
    if a == b or not b:
        return True
    sa, sb = list(a), list(b)
    if len(sb) == len(sa) + 1:
        rest = list(sb)
        for x in sa:
            if x in rest:
                rest.remove(x)
            else:
                return False
        return len(rest) == 1 and rest[0] not in sa
    if len(sb) == len(sa) - 1:
        rest = list(sa)
        for x in sb:
            if x in rest:
                rest.remove(x)
            else:
                return False
        return len(rest) == 1
    return False


# ------------------------------------------------------------------ (K) micro-states of live runs


def micro_lines(tr: Trace) -> tuple[list[str], list[str], dict]:
    ops, outs = corr.runner_lines(tr)
    groups = getattr(tr, "micro", [])
    by_call = {g["call"]: g for g in groups if g["kind"] == "tick"}
    init = next((g for g in groups if g["kind"] == "init"), None)
    calls = [c for c in tr.calls if c.caller in ("run", "_process_tick")]
    index = {id(c): i for i, c in enumerate(tr.calls)}
    stats = {"ticks": 0, "states": 0, "max_live": 0, "multi_start_ticks": 0, "early_cleanup_ticks": 0}
    o2: list[str] = []
    e2: list[str] = []
    k = 1  # calls[k] is the reducer call of the next rstep
    for op, ex in zip(ops, outs):
        if op.startswith("rstep "):
            c = calls[k] if k < len(calls) else None
            k += 1
            g = by_call.get(index[id(c)]) if c is not None else None
            if c is not None and c.error is None and g is not None:
                sts = _states(g)
                o2.append("rmicro " + op[len("rstep "):])
                e2.append(_enc_tables(sts))
                stats["ticks"] += 1
                stats["states"] += len(sts)
                stats["max_live"] = max(stats["max_live"], max(len(s["table"]) for s in sts))
                if sum(1 for x in c.cmds if isinstance(x, C.CommandRunWorker)) >= 2:
                    stats["multi_start_ticks"] += 1
                if any(isinstance(x, (C.CommandHalt, C.CommandFailWorkflow)) for x in c.cmds) and g["entry"]["table"]:
                    stats["early_cleanup_ticks"] += 1
        o2.append(op)
        e2.append(ex)
        if op.startswith("rinit "):
            sts = _states(init) if init is not None else [{"table": [], "unbacked": []}]
            o2.append("rinitmicro " + op[len("rinit "):])
            e2.append(_enc_tables(sts))
            stats["states"] += len(sts)
    return o2, e2, stats


def micro_corr(out: Outcome, traces: list[Trace], label: str = "engine-runner-micro") -> None:
    ops: list[str] = []
    exp: list[str] = []
    owner: list[int] = []
    n = 0
    for i, tr in enumerate(traces):
        if tr.outcome[0] in ("invalid",):
            continue
        try:
            o, e, stats = micro_lines(tr)
        except Exception as ex:
            out.divergences.append(Divergence(label, 0, "<encode>", "", f"{type(ex).__name__}: {ex}", {"spec": tr.spec}))
            continue
        n += 1
        ops += o
        exp += e
        owner += [i] * len(o)
        out.count("micro:ticks", stats["ticks"])
        out.count("micro:states", stats["states"])
        out.count("micro:ticks_starting_2+_workers", stats["multi_start_ticks"])
        out.count("micro:halting_ticks_with_live_workers", stats["early_cleanup_ticks"])
        out.count("micro:max_live_tasks:%d" % min(stats["max_live"], 6))
    if not ops:
        return
    try:
        mo = Driver("slots").run(ops)
    except Exception as ex:
        out.divergences.append(Divergence(label, 0, "<driver>", repr(ex), ""))
        return
    out.traces_validated += n
    out.disagreements_checked += len(ops)
    d = diff_streams(label, ops, mo, exp)
    if d is not None:
        t = traces[owner[d.index]] if d.index < len(owner) else None
        a, b = d.model_out, d.impl_out
        i = 0
        while i < min(len(a), len(b)) and a[i] == b[i]:
            i += 1
        d.model_out = a[max(0, i - 300): i + 400]
        d.impl_out = b[max(0, i - 300): i + 400]
        d.op = d.op[:1500]
        d.context = {"spec": t.spec, "actions": t.actions} if t is not None else None
        out.divergences.append(d)


# ------------------------------------------------------------------ corrupt starts


def _corrupt(g: direct.Gen, st: Any) -> list[str]:
    """damage the in_progress tables of a generated state in place; returns the kinds of damage done"""
    rng = g.rng
    kinds: list[str] = []
    names = list(st.workers)
    rng.shuffle(names)
    for nm in names[: rng.randint(1, len(names))]:
        ws = st.workers[nm]
        nw = ws.config.num_workers
        rows = list(ws.in_progress)
        kind = rng.choice(["dup", "range", "overfull", "overfull_dup", "all"])

        def row(wid: int) -> InProgressState:
            return InProgressState(event=g.event(5), worker_id=wid,
                                   shared_state=R.StepWorkerState(step_name=nm, collected_events={}, collected_waiters=[]),
                                   attempts=rng.choice([0, 1]), first_attempt_at=float(rng.choice([990, 1000])))
        if kind in ("dup", "all"):
            base = rows[0].worker_id if rows else 0
            rows += [row(base) for _ in range(rng.randint(1, 2))]
        if kind in ("range", "all"):
            rows += [row(nw + rng.randint(0, 3)) for _ in range(rng.randint(1, 2))]
        if kind in ("overfull", "all"):
            rows += [row(i % max(nw, 1) if rng.random() < 0.5 else i) for i in range(nw + rng.randint(1, 3) - len(rows))]
        if kind == "overfull_dup":
            rows += [row(0) for _ in range(nw + rng.randint(1, 2))]
        rng.shuffle(rows)
        ws.in_progress = rows
        ids = [r.worker_id for r in rows]
        if len(ids) != len(set(ids)):
            kinds.append("duplicate_ids")
        if any(i >= nw for i in ids):
            kinds.append("out_of_range_ids")
        if len(ids) > nw:
            kinds.append("more_rows_than_workers")
    return sorted(set(kinds))


def corrupt_rewind(env: Env, out: Outcome, n: int, gen_seed: int | None = None, only_index: int | None = None) -> None:
    if gen_seed is None:
        gen_seed = env.rng.randrange(1 << 30)
    g = direct.Gen(random.Random(gen_seed))
    ops: list[str] = []
    exp: list[str] = []
    for idx in range(n):
        st = g.state(False)
        kinds = _corrupt(g, st)
        now = float(g.rng.choice([1000, 1005]))
        pending = {nm: len(ws.in_progress) + len(ws.queue) for nm, ws in st.workers.items()}
        o = ["cfg " + enc.cfg(st), "state " + enc.state(st), f"rewind {enc.num(now)}"]
        try:
            st2, cmds = CL.rewind_in_progress(st, now)
            e = ["ok", enc.state(st), enc.result_line(st2, cmds)]
            err = None
        except (ValueError, KeyError, IndexError) as ex:
            e = ["ok", enc.state(st), "crash"]
            st2, cmds, err = None, [], f"{type(ex).__name__}: {ex}"
        if only_index is not None and idx != only_index:
            continue
        rep = {"corrupt_rewind": {"gen_seed": gen_seed, "index": idx, "cfg": o[0][:2000], "state": o[1][:6000]}}
        # (S) on the code alone
        if err is not None:
            out.violations.append(Violation("C01/rewind_raises", f"rewind_in_progress raised {err} on a state with damaged in_progress tables ({kinds})", rep))
        else:
            for nm, ws in st2.workers.items():
                ids = [ip.worker_id for ip in ws.in_progress]
                lim = ws.config.num_workers
                started = [c.id for c in cmds if isinstance(c, C.CommandRunWorker) and c.step_name == nm]
                if len(ids) > lim or len(set(ids)) != len(ids) or any(i < 0 or i >= lim for i in ids):
                    out.violations.append(Violation("C01/rewind_slot_table", f"after rewind_in_progress in_progress of {nm} holds worker ids {ids} with num_workers={lim} ({kinds})", rep))
                    break
                if sorted(started) != sorted(ids):
                    out.violations.append(Violation("C01/rewind_starts_differ_from_rows", f"rewind_in_progress starts workers {started} of {nm} but its rows are {ids} ({kinds})", rep))
                    break
                if len(ids) != min(lim, pending[nm]):
                    out.violations.append(Violation("C01/rewind_slot_table", f"rewind_in_progress of {nm}: {len(ids)} rows for {pending[nm]} pending invocations and num_workers={lim} ({kinds})", rep))
                    break
        if only_index is not None:
            continue
        ops += o
        exp += e
        out.evaluations += 1
        out.nontrivial(o[1])
        for kd in kinds or ["undamaged"]:
            out.count("corrupt_rewind:" + kd)
    if only_index is not None or not ops:
        return
    try:
        mo = Driver("slots").run(ops)
    except Exception as ex:
        out.divergences.append(Divergence("engine-corrupt-rewind", 0, "<driver>", repr(ex), ""))
        return
    out.traces_validated += n
    out.disagreements_checked += len(ops)
    d = diff_streams("engine-corrupt-rewind", ops, mo, exp)
    if d is not None:
        d.context = {"state_op": ops[d.index - 1][:4000] if d.index > 0 else None, "gen_seed": gen_seed}
        d.op, d.model_out, d.impl_out = d.op[:4000], d.model_out[:4000], d.impl_out[:4000]
        out.divergences.append(d)


# ------------------------------------------------------------------ the admission on arbitrary tables


def _admit_real(nw: int, used: list[int]) -> str:
    from workflows.decorators import StepConfig

    sc = StepConfig(accepted_events=[ET.TYPES[5]], event_name="ev", return_types=[], context_parameter=None,
                    num_workers=nw, retry_policy=None, resources=[])
    rows = [InProgressState(event=ET.mk(5, 100 + i, None), worker_id=w,
                            shared_state=R.StepWorkerState(step_name="s01", collected_events={}, collected_waiters=[]),
                            attempts=0, first_attempt_at=0.0) for i, w in enumerate(used)]
    ws = InternalStepWorkerState(queue=[], config=sc, in_progress=rows, collected_events={}, collected_waiters=[])
    try:
        cmds = CL._add_or_enqueue_event(EventAttempt(event=ET.mk(5, 1, None)), "s01", ws, 0.0)
    except IndexError:
        return "crash ;; " + enc.lst([str(w) for w in used]) + " ;; 0"
    started = [c.id for c in cmds if isinstance(c, C.CommandRunWorker)]
    head = f"run {started[0]}" if started else "queue"
    return head + " ;; " + enc.lst([str(ip.worker_id) for ip in ws.in_progress]) + f" ;; {len(ws.queue)}"


def admit_corr(env: Env, out: Outcome, n: int) -> None:
    rng = random.Random(env.rng.randrange(1 << 30))
    ops: list[str] = []
    exp: list[str] = []
    cases = [(2, [0, 1]), (2, []), (3, [1, 1]), (2, [0, 0, 0]), (3, [5, 9]), (4, [0, 2]), (1, [0]), (1, [3]), (4, [3, 2, 1])]
    for _ in range(n):
        nw = rng.randint(1, 5)
        k = rng.choice([0, 1, nw - 1, nw - 1, nw, nw, nw + 1, rng.randint(0, nw + 2)])
        shape = rng.random()
        if shape < 0.45:
            used = rng.sample(range(nw), min(max(k, 0), nw))  # a table a run can reach
        elif shape < 0.75:
            used = [rng.randint(0, nw + 1) for _ in range(max(k, 0))]  # duplicates and out-of-range ids
        else:
            used = [rng.randint(0, max(nw - 1, 0)) for _ in range(max(k, 0))]  # duplicates in range
        cases.append((nw, used))
    for nw, used in cases:
        ops.append("addenq %d %s" % (nw, enc.lst([str(w) for w in used])))
        e = _admit_real(nw, used)
        exp.append(e)
        out.evaluations += 1
        out.nontrivial((nw, tuple(used)))
        wellformed = len(set(used)) == len(used) and all(w < nw for w in used)
        out.count("admit:" + e.split(" ")[0] + (":reachable_table" if wellformed else ":damaged_table"))
        if e.startswith("crash"):
            out.violations.append(Violation("C01/allocator_raises", f"_add_or_enqueue_event raised IndexError with num_workers={nw} and in-progress worker ids {used}",
                                            {"admit": {"nw": nw, "used": used}}))
        elif e.startswith("run"):
            w = int(e.split(" ")[1])
            if w in used or w < 0 or w >= nw:
                out.violations.append(Violation("C01/allocator_picks_taken_slot", f"_add_or_enqueue_event started worker id {w} with num_workers={nw} and in-progress worker ids {used}",
                                                {"admit": {"nw": nw, "used": used}}))
    # malformed lines of the new ops answer `bad-op` (and leave the driver state alone)
    for bad in ("addenq", "addenq 2 3 0 1", "addenq 2 1 0 7", "addenq x 0", "rmicro 5", "rmicro 5 P 0 HQ", "rinitmicro x _ _", "rinitmicro 0 _"):
        ops.append(bad)
        exp.append("bad-op")
        out.count("admit:malformed_line")
    try:
        mo = Driver("slots").run(ops)
    except Exception as ex:
        out.divergences.append(Divergence("engine-admit", 0, "<driver>", repr(ex), ""))
        return
    out.disagreements_checked += len(ops)
    d = diff_streams("engine-admit", ops, mo, exp)
    if d is not None:
        out.divergences.append(d)
