import WfModel.Serial
/-!
M1 (serialisation, payload side) — what `Context.from_dict(workflow, data)` makes of an arbitrary payload
(`context/context_types.py`, `context/pre_context.py`), not only of one `to_serialized` wrote:

* `SerializedContext.from_dict_auto`: a dict whose `version` is 1 is validated as the current format, every
  other dict as the legacy format `SerializedContextV0` and converted by `from_v0` (pydantic ignores the keys a
  format does not know, so a current-format dict read as V0 keeps only `state` and `is_running`, and a V0 dict
  read as current has no `workers`);
* current format: missing fields take their defaults (`attempts = 0`, no times, no exception, empty recovery
  counts, empty lists); a waiter record with a non-empty legacy `requirements` object gets
  `has_requirements = True` (`SerializedWaiter.deserialize_requirements`);
* `from_v0`: every name that occurs as a key of `queues`, `in_progress` or `event_buffers`, except the names in
  `waiting_ids`, becomes a step record whose queue is the in-progress events followed by the queued events (all
  with `attempts = 0`), whose single buffer `"default"` (id 0) is the concatenation of the per-type buffers when
  that is non-empty, without waiters and with nothing in progress;
* `BrokerState.from_serialized` (`Serial.deser`) then restores the steps the workflow knows.
Payload validation failures (`ContextSerdeError`) are outside the model: the driver answers `bad-op`.
-/
namespace Engine

/-- `SerializedEventAttempt` as validated: `attempts` is a number -/
structure PAttempt where
  ev : Ev
  attempts : Nat := 0
  firstAt : Option Int := none
  lastExc : Option Nat := none
  lastFailedAt : Option Int := none
  rc : RC := []
deriving DecidableEq, Repr

def PAttempt.validate (a : PAttempt) : Attempt :=
  { ev := a.ev, attempts := some a.attempts, firstAt := a.firstAt, lastExc := a.lastExc,
    lastFailedAt := a.lastFailedAt, rc := a.rc }

/-- a waiter record of a payload: the current fields and whether the dict carries a non-empty legacy
`requirements` object -/
structure PWaiter where
  w : SerWaiter
  legacyReq : Bool := false
deriving DecidableEq, Repr

def PWaiter.validate (p : PWaiter) : SerWaiter := if p.legacyReq then { p.w with hasReq := true } else p.w

/-- `SerializedStepWorkerState` of a payload -/
structure PStep where
  queue : List PAttempt := []
  inProg : List Ev := []
  collected : Collected := []
  waiters : List PWaiter := []
deriving DecidableEq, Repr

def PStep.validate (p : PStep) : SerStep :=
  { queue := p.queue.map PAttempt.validate, inProg := p.inProg, collected := p.collected,
    waiters := p.waiters.map PWaiter.validate }

/-- `SerializedContextV0` (broker part): queue name ↦ events, step ↦ in-flight events, step ↦ (event type ↦
buffered events) in dict order, the waiter ids that also name queues -/
structure SerV0 where
  isRunning : Bool := false
  queues : List (Nat × List Ev) := []
  inProgress : List (Nat × List Ev) := []
  eventBuffers : List (Nat × List (Nat × List Ev)) := []
  waitingIds : List Nat := []
deriving DecidableEq, Repr

def assocGet {β : Type} (l : List (Nat × β)) (k : Nat) : Option β :=
  match l.find? (fun p => p.1 == k) with
  | some p => some p.2
  | none => none

/-- the queue entry `from_v0` makes of an event -/
def v0Attempt (e : Ev) : Attempt := { ev := e, attempts := some 0, firstAt := none }

/-- the events `from_v0` puts into the queue of `n`: in-flight ones first, then the queued ones -/
def v0Pending (v : SerV0) (n : Nat) : List Ev :=
  (assocGet v.inProgress n).getD [] ++ (assocGet v.queues n).getD []

/-- the events of the single buffer `from_v0` makes for `n` -/
def v0Buffered (v : SerV0) (n : Nat) : List Ev :=
  ((assocGet v.eventBuffers n).getD []).flatMap (·.2)

def v0Step (v : SerV0) (n : Nat) : SerStep :=
  { queue := (v0Pending v n).map v0Attempt, inProg := [],
    collected := if (v0Buffered v n).isEmpty then [] else [(0, v0Buffered v n)], waiters := [] }

def v0Names (v : SerV0) : List Nat :=
  v.queues.map (·.1) ++ v.inProgress.map (·.1) ++ v.eventBuffers.map (·.1)

/-- `SerializedContext.from_v0` (a name that occurs twice gets the same record twice; `deser` reads the first) -/
def fromV0 (v : SerV0) : SerState :=
  { isRunning := v.isRunning,
    workers := ((v0Names v).filter (fun n => !v.waitingIds.contains n)).map (fun n => (n, v0Step v n)) }

/-- a payload by the shape of its keys, with the value of its `version` key (if any) -/
inductive Payload
  | current (version : Option Int) (isRunning : Bool) (workers : List (Nat × PStep))
  | legacy (version : Option Int) (body : SerV0)
deriving Repr

/-- `'version' in data and data['version'] == 1` -/
def isCurrentVersion (v : Option Int) : Bool := v == some 1

/-- `SerializedContext.from_dict_auto` -/
def fromDictAuto : Payload → SerState
  | .current ver run ws =>
    if isCurrentVersion ver then { isRunning := run, workers := ws.map (fun p => (p.1, p.2.validate)) }
    else fromV0 { isRunning := run }
  | .legacy ver body =>
    if isCurrentVersion ver then { isRunning := body.isRunning, workers := [] } else fromV0 body

/-- `Context.from_dict(workflow, data)` followed by the `from_serialized` of `_workflow_run` -/
def resumeState (cfg : Cfg) (p : Payload) : State := deser cfg (fromDictAuto p)

def PAttempt.ofAttempt (a : Attempt) : PAttempt :=
  { ev := a.ev, attempts := orNat a.attempts 0, firstAt := a.firstAt, lastExc := a.lastExc,
    lastFailedAt := a.lastFailedAt, rc := a.rc }

def PStep.ofSer (s : SerStep) : PStep :=
  { queue := s.queue.map PAttempt.ofAttempt, inProg := s.inProg, collected := s.collected,
    waiters := s.waiters.map (fun w => { w := w }) }

/-- `ctx.to_dict()` (broker part) as a payload: `to_serialized` with its version marker -/
def toDict (cfg : Cfg) (st : State) : Payload :=
  .current (some 1) st.isRunning ((ser cfg st).workers.map (fun p => (p.1, PStep.ofSer p.2)))

/-! ### the resumed runner in closed form (`C12_resumed_run_restarts_pending`, `C12_resumed_run_retry_records`) -/

/-- what a step invocation is started with: the `InProgressState` row minus its worker slot and snapshots
(= the `RetryAttempt` handed to `run_worker`: `ctx.retry_info()` and the recovery budget of the lineage) -/
structure Started where
  ev : Ev
  attempts : Nat
  firstAt : Int
  lastExc : Option Nat
  lastFailedAt : Option Int
  rc : RC
deriving DecidableEq, Repr

def InProg.started (ip : InProg) : Started :=
  { ev := ip.ev, attempts := ip.attempts, firstAt := ip.firstAt, lastExc := ip.lastExc,
    lastFailedAt := ip.lastFailedAt, rc := ip.rc }

/-- what `_add_or_enqueue_event` starts a queue entry with at clock `now` -/
def Attempt.startedAt (now : Int) (a : Attempt) : Started :=
  { ev := a.ev, attempts := orNat a.attempts 0, firstAt := orInt a.firstAt now, lastExc := a.lastExc,
    lastFailedAt := a.lastFailedAt, rc := a.rc }

/-- the entry `from_serialized` makes of an in-progress event -/
def freshAttempt (e : Ev) : Attempt := { ev := e, attempts := some 0, firstAt := none }

/-- the not-yet-completed invocations of a step as the resumed run meets them: queued ones (with their
records) first, then the ones that were in progress (as fresh entries) -/
def resumedPending (ss : StepState) : List Attempt :=
  ss.queue.map serAttempt ++ ss.inProg.map (fun ip => freshAttempt ip.ev)

end Engine
