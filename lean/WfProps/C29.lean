import WfProofs.IterUtilsDspThm
import WfProofs.IterUtilsProgress
/-!
# C29 — stream merge and sorted-prefix utilities preserve items and order

Model: `WfModel/IterUtils.lean` (transition systems of `merge_generators` and
`debounced_sorted_prefix`; one action per await-free section, so the theorems below, which
quantify over arbitrary action lists, cover every interleaving of the sources and every
timing of the items relative to the debounce window).  `Gen.*` are facts re-extracted from
`/repo`'s current `iter_utils.py` on every run.
-/
open IterUtils

/-- the sequence of source `i`: the values of its (accepted) `prod` actions, in order -/
def C29_sourceSeq (i : Nat) (acts : List (Act α)) : List α := proj i (acts.filterMap Act.prodOf)

/-- what the current source says (re-extracted on every run): pass-through starts when the
    marker is consumed; the marker compared is the marker yielded and it is a private object
    recognised by identity (no item of `inner` can be taken for it: the model's `Tok.val` /
    `Tok.marker` split); `merge_generators` defaults to
    running until all inputs are exhausted and that is how `debounced_sorted_prefix` calls it, with
    two sources; `asyncio.wait(FIRST_COMPLETED)`; the flush is a stable `sort(key=key)`. -/
theorem C29_source_shape :
    Gen.passMode = .onMarkerConsumed ∧ Gen.markerCmp = Gen.markerYield ∧ Gen.markerInBand = false
    ∧ Gen.mergeDefaultStop = false ∧ Gen.mergeDefaultStopKnown = true
    ∧ Gen.dspMergeStop = false ∧ Gen.dspMergeStopKnown = true ∧ Gen.dspSources = 2
    ∧ Gen.waitFirstCompleted = true ∧ Gen.sortStableByKey = true := by decide

/-- The model's `Dsp.consume` hands items to the caller in two places only (flush of the marker
    branch, pass-through) and its buffering branch yields nothing, whatever the size of the buffer.
    The current source has that shape: exactly two `yield` sites in `debounced_sorted_prefix`, and the
    buffering branch is nothing but `extend_window()` and `buffer.append(item)` (no yield, no await,
    no size- or time-dependent hand-over). -/
theorem C29_source_buffering_holds_back :
    Gen.dspYieldSites = 2 ∧ Gen.bufferBranchHoldsBack = true := by decide

/-- While pass-through has not started, consuming an item yields nothing and only grows the buffer,
    for a buffer of ANY length (there is no cap in the model: the burst is sorted as one piece). -/
theorem C29_dsp_buffering_yields_nothing (key : β → Nat) (s : Dsp β) (x : β) (h : s.passes = false) :
    (Dsp.consume key s (.val x)).2 = [] ∧ (Dsp.consume key s (.val x)).1.buffer = s.buffer ++ [x]
    ∧ (Dsp.consume key s (.val x)).1.dout = s.dout := by
  simp [Dsp.consume, h]

example : (Dsp.init (β := Nat) Gen.passMode).passes = false
    ∧ (Dsp.consume id { (Dsp.init (β := Nat) Gen.passMode) with buffer := List.range 2000 } (.val 1)).2 = [] := by
  constructor
  · rfl
  · simp [Dsp.consume, Dsp.passes, Dsp.init, Gen.passMode]

/-! ## merge_generators -/

/-- At every point of every execution (either `stop_on_first_completion` setting, any number of
    sources, errors or not), what has been yielded from source `i` is a prefix of source `i`'s
    sequence: nothing invented, nothing duplicated, nothing reordered within a source. -/
theorem C29_merge_source_prefix (sf : Bool) (n : Nat) (acts : List (Act α)) (m : Merge α)
    (h : (Merge.init sf n).exec acts = some m) (i : Nat) :
    proj i m.out <+: C29_sourceSeq i acts := by
  have hi := exec_inv (init_inv sf n) acts h
  have hf := (exec_fields acts h).1
  have := prefix_of_inv hi i
  rw [hf] at this
  simpa [C29_sourceSeq, Merge.init] using this

example : ∃ m : Merge Nat,
    (Merge.init false 2).exec [.prod 0 7, .prod 1 8, .batch [1, 0], .resume, .prod 1 9] = some m
    ∧ m.out = [(1, 8), (0, 7)] ∧ C29_sourceSeq 1 [.prod 0 7, .prod 1 8, .batch [1, 0], .resume, .prod 1 9] = [8, 9] :=
  ⟨_, rfl, rfl, rfl⟩

/-- With the default flag, when the merge returns normally its output is a shuffle of the
    sources: restricted to each source it is exactly that source's sequence, and as a multiset it
    is exactly the multiset of produced items (every item exactly once). -/
theorem C29_merge_is_shuffle [DecidableEq α] (n : Nat) (acts : List (Act α)) (m : Merge α)
    (h : (Merge.init Gen.mergeDefaultStop n).exec acts = some m) (hp : m.phase = .finished none) :
    (∀ i, proj i m.out = C29_sourceSeq i acts) ∧ m.out.Perm (acts.filterMap Act.prodOf) := by
  have hi := exec_inv (init_inv _ n) acts h
  obtain ⟨hf, _, _, hsf, _⟩ := exec_fields acts h
  have hsf' : m.stopFirst = false := by rw [hsf]; rfl
  have hproj := complete_of_inv hi hp hsf'
  have hh : m.hist = acts.filterMap Act.prodOf := by simpa [Merge.init] using hf
  refine ⟨fun i => by rw [hproj i, hh]; rfl, ?_⟩
  rw [← hh]
  exact perm_of_proj hproj

example : ∃ m : Merge Nat,
    (Merge.init Gen.mergeDefaultStop 2).exec
      [.prod 0 7, .prod 1 8, .batch [1, 0], .resume, .fin 1, .resume, .fin 0, .batch [0, 1]] = some m
    ∧ m.phase = .finished none ∧ m.out = [(1, 8), (0, 7)] :=
  ⟨_, rfl, rfl, rfl⟩

/-- An input's error is re-raised: (1) if the merge raises `e`, some source raised `e`;
    (2) with the default flag the merge cannot return normally once any source has raised;
    (3) once a failed task has been seen the merge never waits for the sources again (it hands
    out the results already collected in that batch and raises). -/
theorem C29_error_reraised (sf : Bool) (n : Nat) (acts : List (Act α)) (m : Merge α)
    (h : (Merge.init sf n).exec acts = some m) :
    (∀ e, m.phase = .finished (some e) → ∃ i, (i, e) ∈ acts.filterMap Act.errOf)
    ∧ (sf = false → m.phase = .finished none → acts.filterMap Act.errOf = [])
    ∧ (∀ e, m.exc = some e → m.phase ≠ .waiting ∧ ∃ i, (i, e) ∈ acts.filterMap Act.errOf) := by
  have hi := exec_inv (init_inv sf n) acts h
  obtain ⟨_, he, _, hsf, _⟩ := exec_fields acts h
  have he' : m.errs = acts.filterMap Act.errOf := by simpa [Merge.init] using he
  refine ⟨?_, ?_, ?_⟩
  · intro e hp
    have := hi.finExc _ hp
    rw [← he']; exact hi.core.excIn e this.symm
  · intro hsf0 hp
    rw [← he']
    exact no_errs_of_complete hi hp (by rw [hsf]; simpa [Merge.init] using hsf0)
  · intro e hx
    refine ⟨fun hw => ?_, by rw [← he']; exact hi.core.excIn e hx⟩
    have := (hi.waitOk hw).1
    rw [hx] at this; simp at this

example : ∃ m : Merge Nat,
    (Merge.init false 2).exec [.prod 0 7, .err 1 99, .batch [0, 1], .resume] = some m
    ∧ m.phase = .finished (some 99) ∧ m.out = [(0, 7)] :=
  ⟨_, rfl, rfl, rfl⟩

/-- Nothing is lost before an error surfaces except values of finished tasks that were not yet
    looked at: with the default flag, whenever the merge has finished (normally or by raising),
    each source's sequence is what was yielded from it plus at most one trailing item. -/
theorem C29_merge_error_loses_only_unprocessed (n : Nat) (acts : List (Act α)) (m : Merge α)
    (h : (Merge.init Gen.mergeDefaultStop n).exec acts = some m) (r : Option Nat)
    (hp : m.phase = .finished r) (i : Nat) :
    ∃ tail, tail.length ≤ 1 ∧ proj i m.out ++ tail = C29_sourceSeq i acts := by
  have hi := exec_inv (init_inv _ n) acts h
  obtain ⟨hf, _, _, hsf, _⟩ := exec_fields acts h
  have hsf' : m.stopFirst = false := by rw [hsf]; rfl
  have hst := stopped_false_of_flag hi hsf'
  have hc := hi.conserve i
  rw [hp, hi.dropNil hst] at hc
  have hh : m.hist = acts.filterMap Act.prodOf := by simpa [Merge.init] using hf
  refine ⟨slotItem m.slots[i]?, ?_, ?_⟩
  · unfold slotItem; split <;> simp
  · rw [C29_sourceSeq, ← hh, ← hc]; simp [Phase.rest]

example : ∃ m : Merge Nat,
    (Merge.init Gen.mergeDefaultStop 2).exec [.prod 0 7, .err 1 99, .batch [1, 0]] = some m
    ∧ m.phase = .finished (some 99) ∧ m.out = [] ∧ C29_sourceSeq 0 [.prod 0 7, .err 1 99, .batch [1, 0]] = [7] :=
  ⟨_, rfl, rfl, rfl, rfl⟩


/-- The merge never blocks by itself: in every reachable state it has finished, or its next own
    action is enabled (`resume` when suspended at a `yield`; a `batch` over the finished tasks when
    waiting), or it waits and *every* remaining task is still pending (only a source can move). In
    particular a finished (failed) task is always picked up. -/
theorem C29_merge_never_stuck (sf : Bool) (n : Nat) (acts : List (Act α)) (m : Merge α)
    (h : (Merge.init sf n).exec acts = some m) :
    match m.phase with
    | .finished _ => True
    | .suspended _ _ => (m.step .resume).isSome = true
    | .waiting => ((∃ i : Nat, m.slots[i]? = some Slot.pending) ∧
          ∀ (i : Nat) (s : Slot α), m.slots[i]? = some s → s.hasTask = true → s = Slot.pending)
        ∨ (m.step (.batch (doneIdx m))).isSome = true :=
  never_stuck (exec_inv (init_inv sf n) acts h)

example : ∃ m : Merge Nat, (Merge.init false 3).exec [.prod 0 7, .err 2 5] = some m
    ∧ doneIdx m = [0, 2] ∧ (m.step (.batch (doneIdx m))).isSome = true :=
  ⟨_, rfl, rfl, rfl⟩

/-- ... and once a failed task has been seen, every `resume` either hands out one more result
    collected in that same wake-up or raises that error: the error surfaces after at most
    `rest.length + 1` resumptions, with no further waiting (`C29_error_reraised`, part 3). -/
theorem C29_error_countdown (m : Merge α) (e : Nat) (i : Nat) (rest : List (Nat × α))
    (hx : m.exc = some e) (hp : m.phase = .suspended i rest) :
    ∃ m' em, m.step .resume = some (m', em) ∧ m'.exc = some e ∧
      ((rest = [] ∧ em = none ∧ m'.phase = .finished (some e)) ∨
       (∃ j v rest', rest = (j, v) :: rest' ∧ em = some (j, v) ∧ m'.phase = .suspended j rest')) :=
  error_countdown m e i rest hx hp

example : ∃ m : Merge Nat, (Merge.init false 3).exec [.prod 0 7, .prod 1 8, .err 2 5, .batch [0, 1, 2]] = some m
    ∧ m.exc = some 5 ∧ m.phase = .suspended 0 [(1, 8)] :=
  ⟨_, rfl, rfl, rfl⟩

/-! ## list.sort(key=key) -/

/-- `sortByKey` is a stable sort: a permutation, non-decreasing in the key, equal keys in
    their original order. -/
theorem C29_sort_is_stable_sort (key : β → Nat) (l : List β) :
    (sortByKey key l).Perm l ∧ (sortByKey key l).Pairwise (fun a b => key a ≤ key b)
    ∧ ∀ k, (sortByKey key l).filter (fun a => key a == k) = l.filter (fun a => key a == k) :=
  ⟨sortByKey_perm key l, sortByKey_sorted key l, sortByKey_stable key l⟩

example : sortByKey (fun p : Nat × Nat => p.1) [(5, 0), (3, 1), (5, 2), (3, 3)] = [(3, 1), (3, 3), (5, 0), (5, 2)] := rfl

/-! ## debounced_sorted_prefix -/

/-- items `inner` produced, in order (its accepted `prod` actions) -/
def C29_innerSeq (acts : List (DAct β)) : List β := acts.filterMap DAct.itemOf

/-- The order clause at full strength, as a predicate on a reachable state: before the marker
    is consumed nothing at all has been yielded; afterwards the yielded sequence is the first
    `burst` arrived items sorted by key followed by the remaining arrived items in arrival
    order — so no later item is ever yielded before the sorted burst. -/
def C29_OrderOK (key : β → Nat) (s : Dsp β) : Prop :=
  (s.flushed = false → s.dout = []) ∧
  (s.flushed = true → s.burst ≤ s.arrived.length ∧
    s.dout = sortByKey key (s.arrived.take s.burst) ++ s.arrived.drop s.burst)

def C29_dsp_order_statement (mode : PassMode) : Prop :=
  ∀ (β : Type) (key : β → Nat) (acts : List (DAct β)) (s : Dsp β),
    (Dsp.init mode).exec key acts = some s →
      C29_OrderOK key s ∧ s.arrived <+: C29_innerSeq acts

theorem C29_dsp_inv (mode : PassMode) (key : β → Nat) (acts : List (DAct β)) (s : Dsp β)
    (h : (Dsp.init mode).exec key acts = some s) :
    DInv key s ∧ s.mode = mode ∧ s.produced = C29_innerSeq acts := by
  refine ⟨dexec_inv key (init_dinv key mode) acts h, dexec_mode key acts h, ?_⟩
  have := (dexec_fields key acts h).1
  simpa [Dsp.produced, Dsp.init, Merge.init, C29_innerSeq] using this

/-- Order, for every partially executed schedule, when pass-through is not decided by an
    unrecognised condition and no item has been passed through before the flush. -/
theorem C29_dsp_order_partial (mode : PassMode) (hmode : mode ≠ .unknown) (key : β → Nat)
    (acts : List (DAct β)) (s : Dsp β) (h : (Dsp.init mode).exec key acts = some s)
    (hearly : s.early = false) :
    C29_OrderOK key s ∧ s.arrived <+: C29_innerSeq acts := by
  obtain ⟨hd, hm, hpr⟩ := C29_dsp_inv mode key acts s h
  have ho := hd.cons.order (by rw [hm]; exact hmode) hearly
  refine ⟨⟨fun hf => (ho.1 hf).1, fun hf => ho.2 hf⟩, ?_⟩
  rw [← hpr]; exact arrived_prefix hd

example : ∃ s : Dsp Nat, (Dsp.init .onIsComplete).exec id
      [.prod 5, .batch [0], .resume, .prod 3, .batch [0], .resume, .fire, .mark, .batch [1], .resume, .prod 4, .batch [0]] = some s
    ∧ s.early = false ∧ s.dout = [3, 5, 4] :=
  ⟨_, rfl, rfl, rfl⟩

/-- **Full order clause on the current source** (`Gen.passMode`): for every schedule prefix,
    nothing is yielded before the marker is consumed and afterwards the output is the sorted
    burst followed by the later items in arrival order. -/
theorem C29_dsp_order : C29_dsp_order_statement Gen.passMode := by
  intro β key acts s h
  obtain ⟨hd, hm, _⟩ := C29_dsp_inv Gen.passMode key acts s h
  have hmc : s.mode = .onMarkerConsumed := by rw [hm]; rfl
  exact C29_dsp_order_partial Gen.passMode (by decide) key acts s h (hd.cons.earlyMode hmc)

example : ∃ s : Dsp Nat, (Dsp.init Gen.passMode).exec id
      [.prod 5, .batch [0], .resume, .prod 3, .batch [0], .resume, .fire, .prod 4, .batch [0], .resume,
       .mark, .batch [1], .resume, .dfin, .prod 9, .batch [0, 1]] = some s
    ∧ s.flushed = true ∧ s.burst = 3 ∧ s.dout = [3, 4, 5, 9] :=
  ⟨_, rfl, rfl, rfl, rfl⟩

/-- The code before the repair (pass-through decided by `debouncer.is_complete`) violates the
    order clause (finding F27): the timer fires, and an item processed before the marker is
    consumed is yielded although the buffered burst `[5]` has not been flushed. -/
theorem C29_dsp_order_refuted_onIsComplete : ¬ C29_dsp_order_statement .onIsComplete := by
  intro hst
  have h := hst Nat id [.prod 5, .batch [0], .resume, .fire, .prod 4, .batch [0]] _ rfl
  have := h.1.1 rfl
  revert this
  decide

/-- Every item exactly once (both recognised pass-through conditions): at any time the yielded
    and buffered items together are a permutation of the arrived items, which are a prefix of
    what `inner` produced; on normal completion the output is a permutation of `inner`'s whole
    sequence. -/
theorem C29_dsp_exactly_once (mode : PassMode) (hmode : mode ≠ .unknown) (key : β → Nat)
    (acts : List (DAct β)) (s : Dsp β) (h : (Dsp.init mode).exec key acts = some s) :
    (s.dout ++ s.buffer).Perm s.arrived ∧ s.arrived <+: C29_innerSeq acts
    ∧ (s.m.phase = .finished none → s.buffer = [] ∧ s.dout.Perm (C29_innerSeq acts)) := by
  obtain ⟨hd, hm, hpr⟩ := C29_dsp_inv mode key acts s h
  refine ⟨hd.cons.perm, by rw [← hpr]; exact arrived_prefix hd, ?_⟩
  intro hp
  obtain ⟨hfl, harr⟩ := dsp_complete hd hp rfl (by decide)
  have hb := hd.cons.flushBuf (by rw [hm]; exact hmode) hfl
  refine ⟨hb, ?_⟩
  have := hd.cons.perm
  rw [hb, List.append_nil] at this
  rw [← hpr, ← harr]
  exact this

/-- On normal completion with the current source: the output is `inner`'s first `k` items
    sorted by key (stably) followed by the rest in arrival order, for some `k`. -/
theorem C29_dsp_final (key : β → Nat) (acts : List (DAct β)) (s : Dsp β)
    (h : (Dsp.init Gen.passMode).exec key acts = some s) (hp : s.m.phase = .finished none) :
    ∃ k, k ≤ (C29_innerSeq acts).length ∧
      s.dout = sortByKey key ((C29_innerSeq acts).take k) ++ (C29_innerSeq acts).drop k := by
  obtain ⟨hd, _, hpr⟩ := C29_dsp_inv Gen.passMode key acts s h
  obtain ⟨hfl, harr⟩ := dsp_complete hd hp rfl (by decide)
  have ho := (C29_dsp_order β key acts s h).1.2 hfl
  rw [harr, hpr] at ho
  exact ⟨s.burst, ho.1, ho.2⟩

example : ∃ s : Dsp Nat, (Dsp.init Gen.passMode).exec id
      [.prod 5, .batch [0], .resume, .prod 3, .batch [0], .resume, .fire, .prod 4, .batch [0], .resume,
       .mark, .batch [1], .resume, .dfin, .prod 9, .batch [0, 1], .resume, .fin, .batch [0]] = some s
    ∧ s.m.phase = .finished none ∧ s.dout = [3, 4, 5, 9] ∧ C29_innerSeq
      ([.prod 5, .batch [0], .resume, .prod 3, .batch [0], .resume, .fire, .prod 4, .batch [0], .resume,
       .mark, .batch [1], .resume, .dfin, .prod 9, .batch [0, 1], .resume, .fin, .batch [0]] : List (DAct Nat)) = [5, 3, 4, 9] :=
  ⟨_, rfl, rfl, rfl, rfl⟩

/-- An error of `inner` is what `debounced_sorted_prefix` raises. -/
theorem C29_dsp_error (mode : PassMode) (key : β → Nat) (acts : List (DAct β)) (s : Dsp β)
    (h : (Dsp.init mode).exec key acts = some s) (e : Nat) (hp : s.m.phase = .finished (some e)) :
    e ∈ acts.filterMap DAct.errOf := by
  obtain ⟨hd, _, _⟩ := C29_dsp_inv mode key acts s h
  have he := (dexec_fields key acts h).2
  have hx := hd.env.minv.finExc _ hp
  obtain ⟨i, hi⟩ := hd.env.minv.core.excIn e hx.symm
  have : e ∈ s.m.errs.map Prod.snd := List.mem_map.mpr ⟨(i, e), hi, rfl⟩
  rw [he] at this
  simpa [Dsp.init, Merge.init] using this

example : ∃ s : Dsp Nat, (Dsp.init Gen.passMode).exec id [.prod 5, .batch [0], .resume, .err 42, .batch [0]] = some s
    ∧ s.m.phase = .finished (some 42) ∧ s.dout = [] :=
  ⟨_, rfl, rfl, rfl⟩
