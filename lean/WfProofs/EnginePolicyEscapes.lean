import WfProofs.EngineUnrepaired
/-!
The reducer **before** the repair "a retry policy whose next() raises is treated as granting no
retry" (`_process_step_result_tick`: the `try … except Exception: delay = None` around
`retries.next(...)`), kept as a variant so that `WfProps/C04.lean` and `WfProps/C15.lean` can state
what the repair prevents.

Only `applyRes` differs, and only on a `failed` result whose retry decision raises: there the old
code let the exception escape `_reduce_tick` (`Cmd.crash`).  Everything above it is the
parameterised copy of `WfProofs/EngineUnrepaired.lean`, which gives back the model definitionally
when instantiated with the model's own `applyRes` (`Runner.runWith_model`).
-/
namespace Engine

/-- `applyRes` as it was: an exception raised by the user's `retry_policy.next(...)` escapes the reducer -/
def applyResPolicyEscapes (cfg : Cfg) (pol : Policy) (step : Nat) (tickEv : Ev) (didComplete : Bool)
    (acc : ResAcc) : Res → ResAcc
  | .failed exc failedAt =>
    match retryDecision cfg pol step (failedAt - acc.exec.firstAt) (acc.exec.attempts + 1) exc with
    | .raise => { acc with cmds := acc.cmds ++ [.crash] }
    | _ => applyRes cfg pol step tickEv didComplete acc (.failed exc failedAt)
  | r => applyRes cfg pol step tickEv didComplete acc r

/-- the two agree on every result unless the retry decision for it raises -/
theorem applyResPolicyEscapes_eq (cfg : Cfg) (pol : Policy) (step : Nat) (tickEv : Ev) (dc : Bool)
    (acc : ResAcc) (r : Res)
    (h : ∀ exc failedAt, r = .failed exc failedAt →
      retryDecision cfg pol step (failedAt - acc.exec.firstAt) (acc.exec.attempts + 1) exc ≠ .raise) :
    applyResPolicyEscapes cfg pol step tickEv dc acc r = applyRes cfg pol step tickEv dc acc r := by
  cases r with
  | failed exc failedAt =>
    have := h exc failedAt rfl
    -- the equation for the non-raising arm is conditional on exactly `this`
    simp only [applyResPolicyEscapes]
  | _ => rfl

/-- the reducer before the repair -/
def reducePolicyEscapes (cfg : Cfg) (pol : Policy) : Tick → State → Int → State × List Cmd :=
  reduceWith cfg pol (processStepResultWith cfg (applyResPolicyEscapes cfg pol))

/-- runs of the runner over the reducer before the repair -/
def Runner.runPolicyEscapes (cfg : Cfg) (pol : Policy) (r : Runner) (acts : List Act) : Runner :=
  acts.foldl (Runner.stepWith (reducePolicyEscapes cfg pol)) r

end Engine
