import WfModel.Runner
/-!
M1 (continued) — the runner between two commands.

`_process_tick` (and the start of `run()`) hands the commands of one reduction to
`process_command` one by one, and `process_command` *awaits* between them
(`adapter.write_to_event_stream`, `adapter.get_now`): other tasks observe the runner
after every single command, not only after the tick.  `Runner.step` is the tick-level
LTS; this file lists every state it passes through on the way — the micro-states —
so that invariants can be stated of all of them (C01: the worker limit holds between
any two commands, and every single move of the set of live tasks is a move of a slot
table).  `WfProofs/RunnerSlots.lean` proves that the last micro-state of an action is
`Runner.step`'s result: the fine-grained semantics is the same LTS.
Import-free (core only) so that `wfdriver` links.
-/
namespace Engine

/-- every state `execCmds` passes through, the first included -/
def execCmdsStates : Runner → List Cmd → List Runner
  | r, [] => [r]
  | r, c :: cs =>
    let r' := execCmd r c
    if r'.outcome.isSome then [r, r'] else r :: execCmdsStates r' cs

/-- `_process_tick`: `if any(isinstance(c, (CommandHalt, CommandFailWorkflow)) for c in commands): await
self.cleanup_tasks()` — a halting or failing tick stops the workers *before* its commands are processed -/
def Cmd.stopsWorkersFirst : Cmd → Bool
  | .halt _ => true
  | .failWorkflow _ _ => true
  | _ => false

/-- every state one action passes through (its result last) -/
def Runner.microStates (cfg : Cfg) (pol : Policy) (r : Runner) (a : Act) : List Runner :=
  if r.outcome.isSome then [r] else
  match a with
  | .drain =>
    match r.buf with
    | [] => [r]
    | t :: rest =>
      let r1 := { r with buf := rest, idlePending := if t = Tick.idleCheck then false else r.idlePending }
      let res := reduce cfg pol t r1.st r1.now
      if res.2.contains .crash then [r1.finish .crashed]
      else
        let r2 := { r1 with st := res.1, log := r1.log ++ [(t, r1.now)] }
        if res.2.any Cmd.stopsWorkersFirst then execCmdsStates { r2 with running := [] } res.2
        else execCmdsStates r2 res.2
  | a => [r.step cfg pol a]

/-- every state the start of a run passes through: `__init__`, the timeout timer, then the
commands of `rewind_in_progress` one by one (`run()` awaits `process_command` for each) -/
def Runner.initStates (cfg : Cfg) (st0 : State) (now : Int) (start : Option Ev) (timeout : Option Nat) :
    List Runner :=
  let startTicks := match start with | some e => [Tick.addEvent { ev := e } none] | none => []
  let r0 : Runner := { st := st0, buf := rehydrateTicks cfg st0 ++ startTicks, now := now }
  let r1 := match timeout with | some t => r0.push (.timeout t) (now + t) | none => r0
  let rw := rewind cfg st0 now
  execCmdsStates { r1 with st := rw.1 } rw.2

/-- every state a schedule passes through after its first state -/
def Runner.allStates (cfg : Cfg) (pol : Policy) : Runner → List Act → List Runner
  | _, [] => []
  | r, a :: as => r.microStates cfg pol a ++ Runner.allStates cfg pol (r.step cfg pol a) as

/-- the `(step, worker id)` table of the live tasks, in start order -/
def Runner.slots (r : Runner) : List (Nat × Nat) := r.running.map (fun w => (w.step, w.wid))

/-! ### the slot choice of `_add_or_enqueue_event`, as a function of the used ids -/

/-- `[i for i in range(num_workers) if i not in used][0]` (`none`: `IndexError`) -/
def pickSlot (used : List Nat) (nw : Nat) : Option Nat :=
  ((List.range nw).filter (fun i => !used.contains i)).head?

end Engine
