import WfProofs.RunLimitProgress
/-!
Runtime-level lemmas of the run-limit model: how one action changes the view of
every instance (independence), progress along action lists, the scheduler layer.
-/
namespace RunLimit

/-- the view of every instance after one (possibly disabled) action on instance `i` -/
theorem World.get_stepD_on (w : World) (i : Nat) (a : IAct) (k : Nat) :
    (w.stepD (.on i a)).get k = if k = i then (w.get i).map (·.stepD a) else w.get k := by
  unfold World.stepD
  cases h : w.step (.on i a) with
  | some p =>
    obtain ⟨w', wk⟩ := p
    obtain ⟨x, x', wk', hx, hstep, _, hget⟩ := World.get_step_on w w' i a wk h
    simp only [hget k]
    by_cases hk : k = i
    · simp [hk, hx, Inst.stepD, hstep]
    · simp [hk]
  | none =>
    simp only
    by_cases hk : k = i
    · subst hk
      simp only [if_true]
      simp only [World.step] at h
      cases hg : w.get k with
      | none => simp
      | some x =>
        rw [hg] at h
        simp only at h
        cases hs : x.step a with
        | none => simp [Inst.stepD, hs]
        | some p => rw [hs] at h; cases h
    · simp [hk]

theorem World.get_stepD_mk (w : World) (i : Nat) (lim : Option Nat) (k : Nat) (hk : k ≠ i) :
    (w.stepD (.mk i lim)).get k = w.get k := by
  unfold World.stepD
  cases h : w.step (.mk i lim) with
  | some p =>
    obtain ⟨w', wk⟩ := p
    simp only [World.get_step_mk w w' i lim wk h k, hk, if_false]
  | none => rfl

theorem Inst.helpful_enabled (x : Inst) (a : IAct) (s : Sem) (hs : x.sem = some s)
    (hh : a.helpful x = true) : ∃ p, x.step a = some p := by
  cases a with
  | start r => simp [IAct.helpful] at hh
  | «begin» r => simp [IAct.helpful] at hh
  | cancel r => simp [IAct.helpful] at hh
  | gc => simp [IAct.helpful] at hh
  | finish r o =>
    simp only [IAct.helpful, decide_eq_true_eq] at hh
    simp only [Inst.step, Inst.finish, hh, if_true, hs]
    cases x.limit <;> simp
  | deliver r =>
    simp only [IAct.helpful, Inst.waiters, hs] at hh
    simp only [Inst.step, Inst.deliver, hs]
    cases hf : aget r s.waiters with
    | none => rw [hf] at hh; cases hh
    | some f =>
      rw [hf] at hh
      cases f <;> simp at hh ⊢

/-- one step of an arbitrary schedule: the measure of a waiter that stays pending does not
grow, and drops when the step is a helpful action of its instance -/
theorem World.stepD_mu (w : World) (a : Act) (i r : Nat) (hw : w.Inv)
    (hp : w.pendingAt i r) (hp' : (w.stepD a).pendingAt i r) :
    (w.stepD a).muAt i r + (if w.isHelpful i a then 1 else 0) ≤ w.muAt i r := by
  obtain ⟨x, hx, hr⟩ := hp
  obtain ⟨x1, hx1, hr1⟩ := hp'
  cases a with
  | mk j lim =>
    by_cases hj : i = j
    · subst hj
      -- instance `i` exists, so `mk i` is disabled
      have : w.step (.mk i lim) = none := by simp [World.step, hx]
      simp [World.stepD, this, World.isHelpful]
    · simp [World.muAt, World.get_stepD_mk w j lim i hj, World.isHelpful]
  | on j b =>
    rw [World.get_stepD_on] at hx1
    by_cases hj : i = j
    · subst hj
      simp only [if_true, hx, Option.map_some, Option.some.injEq] at hx1
      simp only [World.muAt, World.get_stepD_on, if_true, hx, Option.map_some, World.isHelpful,
        decide_true, Bool.true_and]
      rw [hx1]
      obtain ⟨s, hs, _⟩ := waiters_some x r _ hr
      cases hstep : x.step b with
      | none =>
        have hnh : b.helpful x = false := by
          cases hb : b.helpful x with
          | false => rfl
          | true =>
            obtain ⟨p, hp⟩ := Inst.helpful_enabled x b s hs hb
            rw [hp] at hstep; cases hstep
        simp only [Inst.stepD, hstep] at hx1
        subst hx1
        simp [hnh]
      | some p =>
        obtain ⟨x', wk⟩ := p
        simp only [Inst.stepD, hstep] at hx1
        subst hx1
        exact Inst.step_mu x x' b wk r (hw i x hx) hstep hr hr1
    · have hd : ¬ decide (j = i) = true := by simp; exact fun e => hj e.symm
      simp only [hj, if_false] at hx1
      simp [World.muAt, World.get_stepD_on, hj, World.isHelpful, hd]

theorem fifo_progress_from (acts : List Act) (w : World) (i r : Nat) (hw : w.Inv)
    (h : staysPending i r w acts) :
    helpfulCount i w acts + (acts.foldl World.stepD w).muAt i r ≤ w.muAt i r := by
  induction acts generalizing w with
  | nil => simp [helpfulCount]
  | cons a acts ih =>
    simp only [staysPending] at h
    have hp' : (w.stepD a).pendingAt i r := by
      cases acts with
      | nil => exact h.2
      | cons b bs => exact h.2.1
    have h1 := World.stepD_mu w a i r hw h.1 hp'
    have h2 := ih (w.stepD a) (World.stepD_inv w a hw) h.2
    simp only [helpfulCount, List.foldl_cons]
    omega

theorem exec_append (acts : List Act) (a : Act) : exec (acts ++ [a]) = (exec acts).stepD a := by
  simp [exec, List.foldl_append]

theorem exec_foldl (acts bs : List Act) : bs.foldl World.stepD (exec acts) = exec (acts ++ bs) := by
  simp [exec, List.foldl_append]

theorem Sched.ext_refines (s s' : Sched) (a : Act) (h : s.ext a = some s') : s'.w = s.w.stepD a := by
  simp only [Sched.ext] at h
  cases hs : s.w.step a with
  | none => rw [hs] at h; cases h
  | some p =>
    rw [hs] at h
    simp only [Option.some.injEq] at h
    rw [← h]
    simp [World.stepD, hs]

theorem Sched.tick_refines (s s' : Sched) (ir : Nat × Nat) (a : Act) (h : s.tick = some (s', ir, a)) :
    s'.w = s.w.stepD a := by
  simp only [Sched.tick] at h
  split at h
  · cases h
  · split at h
    · cases h
    · rename_i a' _
      cases hs : s.w.step a' with
      | none => rw [hs] at h; cases h
      | some p =>
        rw [hs] at h
        simp only [Option.some.injEq, Prod.mk.injEq] at h
        obtain ⟨h1, _, h3⟩ := h
        subst h3
        rw [← h1]
        simp [World.stepD, hs]

theorem Sched.settle_refines (fuel : Nat) (s : Sched) : ∃ bs : List Act, (s.settle fuel).w = bs.foldl World.stepD s.w := by
  induction fuel generalizing s with
  | zero => exact ⟨[], rfl⟩
  | succ n ih =>
    simp only [Sched.settle]
    cases ht : s.tick with
    | none => exact ⟨[], rfl⟩
    | some p =>
      obtain ⟨s', ir, a⟩ := p
      obtain ⟨bs, hbs⟩ := ih s'
      refine ⟨a :: bs, ?_⟩
      simp only [List.foldl_cons, ← Sched.tick_refines s s' ir a ht, hbs]

/-- an enabled nested start *is* the plain `start` of the same run -/
theorem World.nstart_is_start (w : World) (pi pr i r : Nat) (p : World × List (Nat × Nat))
    (h : w.nstart pi pr i r = some p) : w.step (.on i (.start r)) = some p := by
  simp only [World.nstart] at h
  cases hg : w.get pi with
  | none => simp [hg] at h
  | some q =>
    simp only [hg] at h
    by_cases hm : pr ∈ q.holding
    · simpa [hm] using h
    · simp [hm] at h

/-- a nested start needs a caller: the starting run is inside its limit -/
theorem World.nstart_caller (w : World) (pi pr i r : Nat) (p : World × List (Nat × Nat))
    (h : w.nstart pi pr i r = some p) : ∃ q, w.get pi = some q ∧ pr ∈ q.holding := by
  simp only [World.nstart] at h
  cases hg : w.get pi with
  | none => simp [hg] at h
  | some q =>
    simp only [hg] at h
    by_cases hm : pr ∈ q.holding
    · exact ⟨q, rfl, hm⟩
    · simp [hm] at h

theorem World.nstepD_refines (w : World) (a : NAct) : ∃ bs : List Act, w.nstepD a = bs.foldl World.stepD w := by
  cases a with
  | act a => exact ⟨[a], rfl⟩
  | nstart pi pr i r =>
    simp only [World.nstepD]
    cases hn : w.nstart pi pr i r with
    | none => exact ⟨[], rfl⟩
    | some p =>
      obtain ⟨w', woke⟩ := p
      exact ⟨[.on i (.start r)], by simp [World.stepD, World.nstart_is_start w pi pr i r _ hn]⟩

theorem Sched.op_refines (s : Sched) (o : SOp) : ∃ bs : List Act, (s.op o).w = bs.foldl World.stepD s.w := by
  cases o with
  | ext a =>
    simp only [Sched.op]
    cases h : s.ext a with
    | none => exact ⟨[], rfl⟩
    | some s' => exact ⟨[a], by simp [Sched.ext_refines s s' a h]⟩
  | tick =>
    simp only [Sched.op]
    cases h : s.tick with
    | none => exact ⟨[], rfl⟩
    | some p =>
      obtain ⟨s', ir, a⟩ := p
      exact ⟨[a], by simp [Sched.tick_refines s s' ir a h]⟩
  | settle fuel => exact Sched.settle_refines fuel s
  | nstart pi pr i r =>
    simp only [Sched.op]
    cases h : s.nstart pi pr i r with
    | none => exact ⟨[], rfl⟩
    | some s' =>
      refine ⟨[.on i (.start r)], ?_⟩
      simp only [Sched.nstart] at h
      cases hn : s.w.nstart pi pr i r with
      | none => simp [hn] at h
      | some p =>
        obtain ⟨w', woke⟩ := p
        simp only [hn, Option.some.injEq] at h
        subst h
        simp [World.stepD, World.nstart_is_start s.w pi pr i r _ hn]

end RunLimit
