"""C29 helper: the timer arithmetic of `Debouncer` — trace for the timed model (`wfdriver iterutils`,
ops `c29deb_*`), an oracle that is independent of the model, and a generator of stand-alone cases.

Events read from the probe log of a real run (written by `harness/props/c29.py::_Probe`):
  ("DEB", start, debounce, max_window)   Debouncer.__init__ returned (clock values / durations in seconds)
  ("EXT", t, complete_time)              extend_window() returned at clock value t
  ("SL", t, remaining)                   `_loop` called asyncio.sleep(remaining) at clock value t
  ("FIRE", t)                            complete_signal.set() at clock value t
Clock values are virtual-loop times: START + k/64, all dyadic, so the conversion to integers is exact.
"""
from __future__ import annotations

from typing import Any

TSCALE = 65536  # integer clock of the model = (seconds - origin) * TSCALE; one harness tick (1/64 s) = 1024


def tk(x: float, origin: float = 0.0) -> int:
    v = (x - origin) * TSCALE
    r = round(v)
    return int(r)


def integral(x: float, origin: float = 0.0) -> bool:
    v = (x - origin) * TSCALE
    return v == round(v)


def deb_events(log: list) -> list:
    return [ev for ev in log if ev[0] in ("DEB", "EXT", "SL", "FIRE")]


def deb_trace(log: list, origin: float) -> tuple[list[str], list[str]]:
    """ops for the model and the answers the real run implies"""
    evs = deb_events(log)
    if not evs or evs[0][0] != "DEB" or sum(1 for e in evs if e[0] == "DEB") != 1:
        return [], []
    _, start, d, w = evs[0]
    if None in (start, d, w):
        return [], []
    ops = [f"c29deb_init {tk(d)} {tk(w)} {tk(start, origin)}"]
    exp = [f"ok wake={tk(start, origin)}"]
    wakes = 0
    exts = 0
    fired = None
    for ev in evs[1:]:
        if ev[0] == "EXT":
            ops.append(f"c29deb_extend {tk(ev[1], origin)}")
            exp.append(f"ok complete={tk(ev[2], origin)}" if ev[2] is not None else "ok complete=?")
            if fired is None:
                exts += 1
        elif ev[0] == "SL":
            wakes += 1
            ops.append(f"c29deb_loop {tk(ev[1], origin)}")
            exp.append(f"ok sleep={tk(ev[1] + ev[2], origin)}")
        elif ev[0] == "FIRE":
            wakes += 1
            fired = tk(ev[1], origin)
            ops.append(f"c29deb_loop {fired}")
            exp.append(f"ok fired={fired}")
    ops.append("c29deb_state")
    # the virtual-time loop resumes the `_loop` task exactly when its sleep is over: lateness 0
    exp.append(f"state fired={fired if fired is not None else '-'} wakes={wakes} exts={exts} late=0")
    return ops, exp


def oracle(log: list) -> dict | None:
    """What the docstrings of Debouncer promise, computed from the calls alone (no model): the signal is set at
    max(start, min(L + debounce, start + max_window)) where L is the latest extend_window() before the signal
    (the start when there is none) - under a loop that resumes sleepers punctually."""
    evs = deb_events(log)
    if not evs or evs[0][0] != "DEB" or None in evs[0][1:]:
        return None
    _, start, d, w = evs[0]
    last = start
    n_ext = 0
    fire = None
    loops = 0
    for ev in evs[1:]:
        if ev[0] == "EXT" and fire is None:
            last = ev[1]
            n_ext += 1
        elif ev[0] == "SL":
            loops += 1
        elif ev[0] == "FIRE":
            loops += 1
            if fire is None:
                fire = ev[1]
    want = max(start, min(last + d, start + w))
    return {"start": start, "d": d, "w": w, "last": last, "n_ext": n_ext, "fire": fire, "want": want, "loops": loops,
            "why": "start" if want == start else ("max" if start + w <= last + d else "quiet")}


def monitor_timer(case: dict, log: list, Violation: Any, ended: bool) -> list:
    """timer clauses checked on the real run's own events"""
    o = oracle(log)
    if o is None:
        return []
    vs = []
    if o["fire"] is None:
        if ended:
            return []  # the consumer finished / failed before the window closed: nothing to check
        return vs
    f = o["fire"]
    ticks = lambda x: (x - o["start"]) * 64  # noqa: E731
    facts = (f"debounce {o['d'] * 64:g} ticks, max window {o['w'] * 64:g} ticks, {o['n_ext']} extend_window() calls before the signal, "
             f"the last at tick {ticks(o['last']):g} after the start")
    if f < min(o["last"] + o["d"], o["start"] + o["w"]):
        vs.append(Violation("C29/deb_window_closed_early",
                            f"complete_signal was set at tick {ticks(f):g}, before both the end of the quiet period "
                            f"(tick {ticks(o['last'] + o['d']):g}) and the max window ({facts})", case))
    elif f > o["want"]:
        vs.append(Violation("C29/deb_window_closed_late",
                            f"complete_signal was set at tick {ticks(f):g}; under the punctual virtual loop it is due at tick "
                            f"{ticks(o['want']):g} ({facts})", case))
    if o["loops"] > o["n_ext"] + 2:
        vs.append(Violation("C29/deb_loop_spins",
                            f"Debouncer._loop ran {o['loops']} iterations for {o['n_ext']} extend_window() calls ({facts})", case))
    return vs


def gen_deb_case(rng: Any) -> dict:
    d = rng.choice([0, 1, 2, 4, 4, 4, 8])
    w = rng.choice([0, 1, 4, 8, 8, 12, 100])
    script: list = []
    if rng.random() < 0.25:
        # a chain of extensions, each inside the quiet period of the previous one: one loop iteration per extension
        d = rng.choice([2, 4, 8])
        w = rng.choice([8, 12, 100])
        for _ in range(rng.randint(2, 6)):
            script.append(["sleep", rng.randint(1, d)])
            if rng.random() < 0.3:
                script.append(["hop", rng.randint(1, 2)])
            script.append(["ext"])
        return {"kind": "deb", "d": d, "w": w, "script": script, "salt": rng.randrange(32)}
    for _ in range(rng.randint(0, 8)):
        r = rng.random()
        if r < 0.45:
            script.append(["sleep", rng.choice([1, 1, 2, 3, d, max(d - 1, 1), d + 1, w])])
        elif r < 0.6:
            script.append(["hop", rng.randint(1, 3)])
        else:
            script.append(["ext"])
    return {"kind": "deb", "d": d, "w": w, "script": script, "salt": rng.randrange(32)}
