import WfProofs.KeyedLock
/-! The per-key invariant of M6 and its preservation by every action. -/
namespace KeyedLock
open GenKeyedLock

/-- head of the queue: a woken head means the lock is free (nobody can barge);
a free lock never has a pending head (no lost wake-up). -/
def HeadOk (locked : Bool) (ws : List (Nat × Fut)) : Prop :=
  ∀ w, ws.head? = some w → (w.2.isWoken = true → locked = false) ∧ (locked = false → w.2 ≠ .pending)

/-- only the head can have been woken -/
def TailOk (ws : List (Nat × Fut)) : Prop := ∀ w ∈ ws.tail, w.2.isWoken = false

structure LInv (st : KeySt) (l : Lock) : Prop where
  refs : st.refs = some ((st.inside.length + l.waiters.length : Nat) : Int)
  pos : 0 < st.inside.length + l.waiters.length
  mutex : st.inside.length = (if l.locked then 1 else 0)
  head : HeadOk l.locked l.waiters
  tail : TailOk l.waiters

def Inv (st : KeySt) : Prop :=
  match st.lock with
  | none => st.refs = none ∧ st.inside = []
  | some l => LInv st l

theorem woken_is_head {a : Nat} {f : Fut} {ws : List (Nat × Fut)} (ht : TailOk ws)
    (h : findW a ws = some f) (hw : f.isWoken = true) : ∃ r, ws = (a, f) :: r := by
  cases ws with
  | nil => simp [findW] at h
  | cons w r =>
    simp only [findW] at h
    split at h
    · rename_i he; cases w; simp at he h; subst he; subst h; exact ⟨r, rfl⟩
    · have := ht _ (by simpa using findW_mem h); simp [hw] at this

theorem removeW_head (a : Nat) (f : Fut) (r : List (Nat × Fut)) : removeW a ((a, f) :: r) = r := by
  simp [removeW]

theorem tailOk_of_sublist_tail {ws ws' : List (Nat × Fut)} (h : ∀ w ∈ ws'.tail, w ∈ ws.tail) (ht : TailOk ws) :
    TailOk ws' := fun w hw => ht w (h w hw)

/-! ### what each enabled action does to an invariant-shaped state -/

theorem deregister_some (l : Lock) (n : Int) (ins : List Nat) :
    deregister ⟨some l, some n, ins⟩ =
      .ok (if n - 1 = 0 then ⟨none, none, ins⟩ else ⟨some l, some (n - 1), ins⟩) := by
  simp only [deregister, refDec, delAt]; split <;> simp_all

theorem enter_none {a : Nat} {st' : KeySt} (h : kstep false ⟨none, none, []⟩ (.enter a) = .ok st') :
    st' = ⟨some ⟨true, []⟩, some 1, [a]⟩ := by
  simp [kstep, present, mainSection, register, acquire, Lock.fastPath, refInit, refInc] at h
  exact h.symm

theorem enter_some {l : Lock} {n : Int} {inside : List Nat} {a : Nat} {st' : KeySt}
    (h : kstep false ⟨some l, some n, inside⟩ (.enter a) = .ok st') :
    present a ⟨some l, some n, inside⟩ = false ∧
    st' = if l.fastPath then ⟨some { l with locked := true }, some (n + 1), inside ++ [a]⟩
          else ⟨some { l with waiters := l.waiters ++ [(a, .pending)] }, some (n + 1), inside⟩ := by
  simp only [kstep, mainSection, register, acquire, refInc] at h
  split at h
  · cases h
  · rename_i hp
    simp at h
    split at h <;> simp_all

theorem cancel_some {l : Lock} {r : Option Int} {inside : List Nat} {a : Nat} {st' : KeySt}
    (h : kstep false ⟨some l, r, inside⟩ (.cancel a) = .ok st') :
    st' = ⟨some l, r, inside⟩ ∨
    (findW a l.waiters = some .pending ∧ st' = ⟨some { l with waiters := setW a .cancelled l.waiters }, r, inside⟩) ∨
    (findW a l.waiters = some .woken ∧ st' = ⟨some { l with waiters := setW a .wokenCancelled l.waiters }, r, inside⟩) := by
  simp only [kstep] at h
  split at h <;> simp_all

theorem cancel_none {r : Option Int} {inside : List Nat} {a : Nat} {st' : KeySt}
    (h : kstep false ⟨none, r, inside⟩ (.cancel a) = .ok st') : st' = ⟨none, r, inside⟩ := by
  simp [kstep] at h; exact h.symm

theorem resume_some {l : Lock} {n : Int} {inside : List Nat} {a : Nat} {st' : KeySt}
    (h : kstep false ⟨some l, some n, inside⟩ (.resume a) = .ok st') :
    (findW a l.waiters = some .woken ∧ st' = ⟨some ⟨true, removeW a l.waiters⟩, some n, inside ++ [a]⟩) ∨
    ((findW a l.waiters = some .cancelled ∨ findW a l.waiters = some .wokenCancelled) ∧
      st' = (let ws' := if l.locked then removeW a l.waiters else wakeFirst (removeW a l.waiters)
             if n - 1 = 0 then ⟨none, none, inside⟩ else ⟨some ⟨l.locked, ws'⟩, some (n - 1), inside⟩)) := by
  simp only [kstep, mainSection] at h
  split at h
  · cases h
  · cases h
  · simp at h; left; simp_all
  · rename_i f hf hne1 hne2
    right
    simp only [Bool.false_eq_true, if_false, deregister_some] at h
    constructor
    · cases f <;> simp_all
    · simp at h; rw [← h]

theorem exit_some {l : Lock} {n : Int} {inside : List Nat} {a : Nat} {st' : KeySt}
    (h : kstep false ⟨some l, some n, inside⟩ (.exit a) = .ok st') :
    a ∈ inside ∧ l.locked = true ∧
    st' = if n - 1 = 0 then ⟨none, none, inside.erase a⟩
          else ⟨some ⟨false, wakeFirst l.waiters⟩, some (n - 1), inside.erase a⟩ := by
  simp only [kstep, mainSection] at h
  split at h
  · cases h
  · split at h
    · cases h
    · simp only [Bool.false_eq_true, if_false, deregister_some] at h
      simp at h
      simp_all
/-! ### queue discipline under the queue operations -/

theorem Inv.shape {st : KeySt} (hi : Inv st) :
    st = ⟨none, none, []⟩ ∨ ∃ l ins, st = ⟨some l, some ((ins.length + l.waiters.length : Nat) : Int), ins⟩ ∧
      LInv ⟨some l, some ((ins.length + l.waiters.length : Nat) : Int), ins⟩ l := by
  obtain ⟨lock, refs, inside⟩ := st
  cases lock with
  | none => left; obtain ⟨h1, h2⟩ := hi; simp at h1 h2; simp [h1, h2]
  | some l =>
    right; have hl : LInv _ l := hi
    have hr := hl.refs; simp only at hr; subst hr
    exact ⟨l, inside, rfl, hl⟩

theorem headOk_wakeFirst_unlocked {ws : List (Nat × Fut)} (hh : ∀ w, ws.head? = some w → w.2.isWoken = false) :
    HeadOk false (wakeFirst ws) := by
  intro w hw
  unfold wakeFirst at hw
  split at hw
  · simp at hw; subst hw; simp
  · rename_i hne
    refine ⟨fun _ => rfl, fun _ hp => ?_⟩
    cases ws with
    | nil => simp at hw
    | cons x r =>
      simp at hw; subst hw
      obtain ⟨a, f⟩ := x
      simp at hp; subst hp
      exact hne a r rfl

theorem tailOk_wakeFirst {ws : List (Nat × Fut)} (ht : TailOk ws) : TailOk (wakeFirst ws) := by
  unfold wakeFirst; split
  · intro w hw; exact ht w (by simpa using hw)
  · exact ht

theorem tailOk_removeW {a : Nat} {ws : List (Nat × Fut)} (ht : TailOk ws) : TailOk (removeW a ws) := by
  intro w hw
  cases ws with
  | nil => simp [removeW] at hw
  | cons x r =>
    simp only [removeW] at hw
    split at hw
    · exact ht w (by simpa using List.mem_of_mem_tail hw)
    · simp at hw; exact ht w (by simpa using (removeW_sublist a r).subset hw)

/-- after removing an entry, no head is woken, provided the removed one was the only candidate -/
theorem head_removeW_not_woken {a : Nat} {f : Fut} {ws : List (Nat × Fut)} (ht : TailOk ws)
    (hf : findW a ws = some f) (hlk : ∀ w, ws.head? = some w → w.1 ≠ a → w.2.isWoken = false) :
    ∀ w, (removeW a ws).head? = some w → w.2.isWoken = false := by
  intro w hw
  cases ws with
  | nil => simp [findW] at hf
  | cons x r =>
    simp only [removeW] at hw
    split at hw
    · exact ht w (by simpa using List.mem_of_mem_head? hw)
    · rename_i hne; simp at hw; subst hw; exact hlk _ (by simp) hne

/-! ### preservation: enter, cancel -/

theorem inv_enter {st st' : KeySt} {a : Nat} (hi : Inv st) (h : kstep false st (.enter a) = .ok st') : Inv st' := by
  rcases Inv.shape hi with hs | ⟨l, ins, hs, hl⟩
  · rw [hs] at h; rw [enter_none h]
    exact ⟨by simp, by simp, by simp, by intro w hw; simp at hw, by intro w hw; simp at hw⟩
  · subst hs
    obtain ⟨_, h⟩ := enter_some h
    obtain ⟨hr, hp, hm, hh, ht⟩ := hl
    split at h
    · rename_i hf
      subst h
      simp only [Lock.fastPath, Bool.and_eq_true, Bool.not_eq_true', List.all_eq_true] at hf
      obtain ⟨hlk, hall⟩ := hf
      simp only [hlk] at hm hh
      refine ⟨by simp; omega, by simp; omega, by simp [hm], ?_, ht⟩
      intro w hw
      have := hall w (List.mem_of_mem_head? hw)
      constructor
      · intro hx; cases hq : w.2 <;> simp_all [Fut.isWoken, Fut.futCancelled]
      · intro hx; simp at hx
    · rename_i hf
      subst h
      refine ⟨by simp; omega, by simp; omega, by simpa using hm, ?_, ?_⟩
      · intro w hw
        cases hws : l.waiters with
        | nil =>
          simp [hws] at hw; subst hw
          simp [Lock.fastPath, hws] at hf
          simp [hf, Fut.isWoken]
        | cons x r =>
          simp [hws] at hw; subst hw
          exact hh x (by simp [hws])
      · intro w hw
        cases hws : l.waiters with
        | nil => simp [hws] at hw
        | cons x r =>
          simp [hws] at hw
          rcases hw with hw | hw
          · exact ht w (by simp [hws, hw])
          · subst hw; rfl

theorem headOk_setW {lk : Bool} {a : Nat} {f g : Fut} {ws : List (Nat × Fut)} (hh : HeadOk lk ws)
    (hf : findW a ws = some f) (hw : g.isWoken = f.isWoken) (hg : g ≠ .pending) : HeadOk lk (setW a g ws) := by
  intro w hw'
  cases ws with
  | nil => simp [setW] at hw'
  | cons x r =>
    simp only [setW] at hw'; simp only [findW] at hf
    split at hw'
    · rename_i he; simp only [he, if_true] at hf; simp at hw' hf; subst hw'
      have := hh x (by simp)
      simp only [hw]; rw [← hf]; exact ⟨this.1, fun _ => hg⟩
    · simp at hw'; subst hw'; exact hh _ (by simp)

theorem mem_setW_not_woken {a : Nat} {g : Fut} {r : List (Nat × Fut)} (hr : ∀ w ∈ r, w.2.isWoken = false)
    (hg : g.isWoken = false) : ∀ w ∈ setW a g r, w.2.isWoken = false := by
  induction r with
  | nil => intro w hw; simp [setW] at hw
  | cons y r ih =>
    intro w hw
    simp only [setW] at hw
    split at hw
    · simp at hw; rcases hw with hw | hw
      · subst hw; exact hg
      · exact hr w (by simp [hw])
    · simp at hw; rcases hw with hw | hw
      · subst hw; exact hr _ (by simp)
      · exact ih (fun w hw => hr w (by simp [hw])) w hw

theorem tailOk_setW {a : Nat} {f g : Fut} {ws : List (Nat × Fut)} (ht : TailOk ws)
    (hf : findW a ws = some f) (hw : g.isWoken = f.isWoken) : TailOk (setW a g ws) := by
  intro w hw'
  cases ws with
  | nil => simp [setW] at hw'
  | cons x r =>
    simp only [setW] at hw'; simp only [findW] at hf
    split at hw'
    · exact ht w (by simpa using hw')
    · rename_i hne; simp only [hne, if_false] at hf
      simp at hw'
      have hr : ∀ w ∈ r, w.2.isWoken = false := fun w hw => ht w (by simpa using hw)
      exact mem_setW_not_woken hr (by rw [hw]; exact hr _ (findW_mem hf)) w hw'

theorem inv_cancel {st st' : KeySt} {a : Nat} (hi : Inv st) (h : kstep false st (.cancel a) = .ok st') : Inv st' := by
  rcases Inv.shape hi with hs | ⟨l, ins, hs, hl⟩
  · rw [hs] at h; rw [cancel_none h, ← hs]; exact hi
  · subst hs
    obtain ⟨hr, hp, hm, hh, ht⟩ := hl
    rcases cancel_some h with h | ⟨hf, h⟩ | ⟨hf, h⟩
    · rw [h]; exact hi
    · subst h
      exact ⟨by simp [length_setW], by simpa [length_setW] using hp, hm,
        headOk_setW hh hf rfl (by simp), tailOk_setW ht hf rfl⟩
    · subst h
      exact ⟨by simp [length_setW], by simpa [length_setW] using hp, hm,
        headOk_setW hh hf rfl (by simp), tailOk_setW ht hf rfl⟩
/-! ### preservation: resume, exit -/

theorem headOk_wakeFirst (ws : List (Nat × Fut)) : HeadOk false (wakeFirst ws) := by
  intro w hw
  unfold wakeFirst at hw
  split at hw
  · simp at hw; subst hw; simp
  · rename_i hne
    refine ⟨fun _ => rfl, fun _ hp => ?_⟩
    cases ws with
    | nil => simp at hw
    | cons x r =>
      simp at hw; subst hw
      obtain ⟨a, f⟩ := x
      simp at hp; subst hp
      exact hne a r rfl

theorem inv_resume {st st' : KeySt} {a : Nat} (hi : Inv st) (h : kstep false st (.resume a) = .ok st') : Inv st' := by
  rcases Inv.shape hi with hs | ⟨l, ins, hs, hl⟩
  · rw [hs] at h; simp [kstep] at h
  · subst hs
    obtain ⟨hr, hp, hm, hh, ht⟩ := hl
    simp only at hp hm
    rcases resume_some h with ⟨hf, h⟩ | ⟨hf, h⟩
    · subst h
      obtain ⟨r, hws⟩ := woken_is_head ht hf rfl
      have hlk : l.locked = false := (hh (a, .woken) (by simp [hws])).1 rfl
      simp only [hlk] at hm
      rw [hws, removeW_head]
      rw [hws] at ht
      refine ⟨by simp; omega, by simp; omega, by simp [hm], ?_, ?_⟩
      · intro w hw
        exact ⟨fun hx => by have := ht w (by simpa using List.mem_of_mem_head? hw); simp [hx] at this,
               fun hx => by simp at hx⟩
      · intro w hw; exact ht w (by simpa using List.mem_of_mem_tail hw)
    · have hlen : (removeW a l.waiters).length + 1 = l.waiters.length := by
        rcases hf with hf | hf <;> exact length_removeW hf
      simp only at h
      split at h
      · subst h
        have : ins.length = 0 := by omega
        exact ⟨rfl, List.eq_nil_of_length_eq_zero this⟩
      · subst h
        have hf' : ∃ f, findW a l.waiters = some f := by rcases hf with hf | hf <;> exact ⟨_, hf⟩
        obtain ⟨f, hf'⟩ := hf'
        cases hlk : l.locked with
        | true =>
          simp only [hlk] at hm hh ⊢
          refine ⟨by simp; omega, by simp; omega, by simp [hm], ?_, tailOk_removeW ht⟩
          intro w hw
          have := head_removeW_not_woken ht hf' (fun w hw _ => by
            cases hq : w.2.isWoken with
            | false => rfl
            | true => have := (hh w hw).1 hq; simp at this) w hw
          exact ⟨fun hx => by simp [hx] at this, fun hx => by simp at hx⟩
        | false =>
          simp only [hlk] at hm ⊢
          refine ⟨by simp [length_wakeFirst]; omega, by simp [length_wakeFirst]; omega, by simp [hm],
            headOk_wakeFirst _, tailOk_wakeFirst (tailOk_removeW ht)⟩

theorem inv_exit {st st' : KeySt} {a : Nat} (hi : Inv st) (h : kstep false st (.exit a) = .ok st') : Inv st' := by
  rcases Inv.shape hi with hs | ⟨l, ins, hs, hl⟩
  · rw [hs] at h; simp [kstep] at h
  · subst hs
    obtain ⟨hr, hp, hm, hh, ht⟩ := hl
    simp only at hp hm
    obtain ⟨ha, hlk, h⟩ := exit_some h
    simp only [hlk, if_true] at hm
    have hlen : (ins.erase a).length = 0 := by rw [List.length_erase_of_mem ha]; omega
    split at h
    · subst h; exact ⟨rfl, List.eq_nil_of_length_eq_zero hlen⟩
    · subst h
      exact ⟨by simp [length_wakeFirst, hlen]; omega, by simp [length_wakeFirst]; omega, by simp [hlen],
        headOk_wakeFirst _, tailOk_wakeFirst ht⟩

theorem kstep_inv {st st' : KeySt} {x : KAct} (hi : Inv st) (h : kstep false st x = .ok st') : Inv st' := by
  cases x with
  | enter a => exact inv_enter hi h
  | resume a => exact inv_resume hi h
  | cancel a => exact inv_cancel hi h
  | exit a => exact inv_exit hi h

theorem kstepD_inv {st : KeySt} (x : KAct) (hi : Inv st) : Inv (kstepD st x) := by
  unfold kstepD; split
  · rename_i h; exact kstep_inv hi h
  · exact hi

theorem inv_empty : Inv {} := ⟨rfl, rfl⟩

/-! ### code errors are unreachable -/

/-- In an invariant state the only way an action fails is by not being enabled:
no KeyError, no `release()` of an unlocked lock, no contended main lock. -/
theorem kstep_error_disabled {st : KeySt} {x : KAct} {e : Err} (hi : Inv st)
    (h : kstep false st x = .error e) : e = .disabled := by
  rcases Inv.shape hi with hs | ⟨l, ins, hs, hl⟩
  · subst hs
    cases x with
    | enter a => simp [kstep, present, mainSection, register, acquire, Lock.fastPath] at h
    | cancel a => simp [kstep] at h
    | resume a => simp [kstep] at h; exact h.symm
    | exit a => simp [kstep] at h; exact h.symm
  · subst hs
    obtain ⟨hr, hp, hm, hh, ht⟩ := hl
    simp only at hm
    cases x with
    | enter a =>
      simp only [kstep, mainSection, register, acquire] at h
      split at h
      · cases h; rfl
      · simp at h; split at h <;> cases h
    | cancel a =>
      simp only [kstep] at h
      split at h <;> cases h
    | resume a =>
      simp only [kstep, mainSection, Bool.false_eq_true, if_false, deregister_some] at h
      split at h <;> first | (cases h; rfl) | cases h
    | exit a =>
      simp only [kstep, mainSection, Bool.false_eq_true, if_false, deregister_some] at h
      split at h
      · cases h; rfl
      · rename_i hc
        split at h
        · rename_i hl
          simp at hl hc
          simp [hl] at hm
          simp [hm] at hc
        · cases h
/-! ### agent ids stay distinct -/

/-- all agents present at a key: inside the critical section, then the queue -/
def ids (st : KeySt) : List Nat :=
  st.inside ++ (match st.lock with | none => [] | some l => l.waiters.map (·.1))

theorem present_false {a : Nat} {st : KeySt} (h : present a st = false) : a ∉ ids st := by
  obtain ⟨lock, refs, inside⟩ := st
  cases lock with
  | none => simpa [present, ids] using h
  | some l =>
    simp only [present, Bool.or_eq_false_iff] at h
    have h2 : findW a l.waiters = none := by simpa using h.2
    have := findW_none_iff.mp h2
    simp only [ids, List.mem_append, not_or]
    exact ⟨by simpa using h.1, this⟩

theorem nodup_kstep {st st' : KeySt} {x : KAct} (hi : Inv st) (hn : (ids st).Nodup)
    (h : kstep false st x = .ok st') : (ids st').Nodup := by
  rcases Inv.shape hi with hs | ⟨l, ins, hs, hl⟩
  · subst hs
    cases x with
    | enter a => rw [enter_none h]; simp [ids]
    | cancel a => rw [cancel_none h]; exact hn
    | resume a => simp [kstep] at h
    | exit a => simp [kstep] at h
  · subst hs
    obtain ⟨hr, hp, hm, hh, ht⟩ := hl
    cases x with
    | enter a =>
      obtain ⟨hp', h⟩ := enter_some h
      have hna := present_false hp'
      simp only [ids] at hna hn
      split at h
      · subst h; simp only [ids]
        rw [List.append_assoc]
        have : (ins ++ ([a] ++ List.map (·.1) l.waiters)).Perm (a :: (ins ++ List.map (·.1) l.waiters)) := by
          simp
        exact this.nodup_iff.mpr (List.nodup_cons.mpr ⟨hna, hn⟩)
      · subst h; simp only [ids, List.map_append, List.map_cons, List.map_nil, ← List.append_assoc]
        have : (ins ++ List.map (·.1) l.waiters ++ [a]).Perm (a :: (ins ++ List.map (·.1) l.waiters)) := by
          exact List.perm_append_singleton a _
        exact this.nodup_iff.mpr (List.nodup_cons.mpr ⟨hna, hn⟩)
    | cancel a =>
      rcases cancel_some h with h | ⟨_, h⟩ | ⟨_, h⟩
      · rw [h]; exact hn
      · subst h; simpa [ids, map_fst_setW] using hn
      · subst h; simpa [ids, map_fst_setW] using hn
    | resume a =>
      rcases resume_some h with ⟨hf, h⟩ | ⟨hf, h⟩
      · subst h
        obtain ⟨r, hws⟩ := woken_is_head ht hf rfl
        simp only [ids, hws, removeW_head] at hn ⊢
        simpa using hn
      · simp only at h
        simp only [ids] at hn
        split at h
        · subst h; simp only [ids, List.append_nil]; exact (List.nodup_append.mp hn).1
        · subst h; simp only [ids]
          refine List.Nodup.sublist (List.Sublist.append (List.Sublist.refl _) ?_) hn
          split
          · exact (removeW_sublist a _).map _
          · rw [map_fst_wakeFirst]; exact (removeW_sublist a _).map _
    | exit a =>
      obtain ⟨ha, hlk, h⟩ := exit_some h
      simp only [ids] at hn
      split at h
      · subst h; simp only [ids, List.append_nil]
        exact List.Nodup.sublist List.erase_sublist (List.nodup_append.mp hn).1
      · subst h; simp only [ids, map_fst_wakeFirst]
        exact List.Nodup.sublist (List.Sublist.append List.erase_sublist (List.Sublist.refl _)) hn
end KeyedLock
