import WfProofs.RunnerTerminal
import WfProofs.EngineTelemetry
/-!
# C04 — every run ends once, and its stream ends with the matching terminal event

On the runner LTS (`WfModel/Runner.lean`), for **every** configuration, policy, initial
state and action list (schedules, worker results, external ticks, step-side stream
writes) whose user-supplied content does not itself publish a `StopEvent`:

* the run either is still live with no terminal event published, or has ended with a
  stream whose **last** element is the **only** terminal event and is of the kind of
  the outcome (`EndedWell`), or has `crashed`;
* once ended, nothing changes any more (one outcome, nothing published after it).

`crashed` is the model's name for an exception escaping `_reduce_tick`.  It cannot come
from the engine's own bookkeeping (C01: the slot allocator is total) but it *can* come
from user code run inside the reducer — a retry policy whose `next()` raises — and then
the property is false of the real engine: no terminal event is published and
`stream_events()` never returns (known finding C04/engine_side_failure_no_terminal_event,
witness `C04_refuted`).
-/
set_option linter.unusedVariables false
open Engine

theorem C04.execCmds_plain_live : ∀ (cmds : List Cmd) (r : Runner),
    (∀ c ∈ cmds, plainCmd c = true ∧ c ≠ .crash) → Live r → Live (execCmds r cmds)
  | [], r, _, h => by simpa [execCmds] using h
  | c :: cs, r, hplain, h => by
    have hl := execCmd_plain r c (hplain c (by simp)).1 (hplain c (by simp)).2 h
    simp only [execCmds, hl.1, Option.isSome_none, Bool.false_eq_true, ↓reduceIte]
    exact C04.execCmds_plain_live cs _ (fun x hx => hplain x (by simp [hx])) hl

theorem C04.rewind_plain (cfg : Cfg) (st0 : State) (now : Int) :
    ∀ c ∈ (rewind cfg st0 now).2, plainCmd c = true ∧ c ≠ .crash := by
  have hloop : ∀ (cs : List StepCfg) (st : State) (cmds : List Cmd),
      (∀ c ∈ cmds, plainCmd c = true ∧ c ≠ .crash) →
      ∀ c ∈ (rewindLoop now cs st cmds).2, plainCmd c = true ∧ c ≠ .crash := by
    intro cs
    induction cs with
    | nil => intro st cmds h; simpa [rewindLoop] using h
    | cons d ds ih =>
      intro st cmds h
      unfold rewindLoop
      apply ih
      intro c hc
      rcases List.mem_append.mp hc with hc | hc
      · exact h c hc
      · unfold rewindStep at hc
        refine ⟨drain_plain _ _ _ _ _ c hc, ?_⟩
        intro hcr; subst hcr
        exact drain_no_crash d.name d.numWorkers now _ _ (by simp [IdsOk, usedIds]) hc
  unfold rewind
  exact hloop _ _ _ (by simp)

theorem C04_init_live (cfg : Cfg) (hwf : cfg.WF) (st0 : State) (now : Int) (start : Option Ev)
    (timeout : Option Nat) : Live (Runner.init cfg st0 now start timeout) := by
  unfold Runner.init
  dsimp only
  apply C04.execCmds_plain_live _ _ (C04.rewind_plain cfg st0 now)
  have hbuf : ∀ t ∈ rehydrateTicks cfg st0 ++
      (match start with | some e => [Tick.addEvent { ev := e } none] | none => []), t.ok = true := by
    intro t ht
    rcases List.mem_append.mp ht with ht | ht
    · simp only [rehydrateTicks, List.mem_flatMap, List.mem_map] at ht
      obtain ⟨_, _, _, _, rfl⟩ := ht
      rfl
    · cases start with
      | none => simp at ht
      | some e => simp only [List.mem_singleton] at ht; subst ht; rfl
  cases timeout with
  | none => exact ⟨rfl, by intro p hp; simp at hp, hbuf, by intro t ht; simp at ht, by intro t ht; simp at ht⟩
  | some tmo =>
    refine ⟨rfl, by intro p hp; simp [Runner.push] at hp, hbuf, by intro t ht; simp [Runner.push] at ht, ?_⟩
    intro t ht
    simp only [Runner.push, List.nil_append, List.mem_singleton] at ht
    subst ht; rfl

/-- **C04**: at every point of every run, exactly one of three things holds. -/
theorem C04_terminal_last (cfg : Cfg) (hwf : cfg.WF) (pol : Policy) (st0 : State) (now : Int)
    (start : Option Ev) (timeout : Option Nat) (acts : List Act) (hok : ∀ a ∈ acts, a.ok = true) :
    let r := Runner.run cfg pol (Runner.init cfg st0 now start timeout) acts
    Live r ∨ EndedWell r ∨ r.outcome = some .crashed :=
  run_spec cfg pol acts _ hok (C04_init_live cfg hwf st0 now start timeout)

/-- A run ends at most once: after the outcome is set no action changes the outcome or the
stream (nothing is published after the terminal event). -/
theorem C04_outcome_once (cfg : Cfg) (pol : Policy) (r : Runner) (acts : List Act)
    (h : r.outcome.isSome = true) : Runner.run cfg pol r acts = r :=
  run_ended cfg pol acts r h

/-- A consumer that stops at the first terminal element of the stream terminates exactly
when the run has ended well: the terminal element exists, is unique and is last. -/
theorem C04_consumer_terminates (r : Runner) (h : EndedWell r) :
    ∃ pre p, r.stream = pre ++ [p] ∧ isTerminalPub p = true ∧ ∀ q ∈ pre, isTerminalPub q = false := by
  obtain ⟨_, p, pre, _, hs, hn, hp, _⟩ := h
  exact ⟨pre, p, hs, hp, hn⟩

/-! ## The unconditional statement and its refutation -/

def C04_statement : Prop :=
  ∀ (cfg : Cfg) (pol : Policy) (start : Ev) (acts : List Act), (∀ a ∈ acts, a.ok = true) →
    let r := Runner.run cfg pol (Runner.init cfg initState 0 (some start) none) acts
    r.outcome.isSome = true → EndedWell r

def C04.wCfg : Cfg := { steps := [{ name := 0, accepted := [0], numWorkers := 1, hasRetry := true }] }
def C04.startEv : Ev := { ty := 0, kind := .start, uid := 1 }
def C04.wActs : List Act := [.drain, .workerDone 0 0 [.failed 7 0], .drain]

/-- F07: the step fails, the user's retry policy raises inside the reducer: the run ends
(`crashed`) and the stream holds no terminal event at all. -/
theorem C04_refuted_witness :
    let r := Runner.run C04.wCfg (fun _ _ _ _ => .raise)
      (Runner.init C04.wCfg initState 0 (some C04.startEv) none) C04.wActs
    r.outcome = some .crashed ∧ r.stream.all (fun p => !isTerminalPub p) = true := by decide

theorem C04_refuted : ¬ C04_statement := by
  intro h
  have hw := C04_refuted_witness
  have h1 := h C04.wCfg (fun _ _ _ _ => .raise) C04.startEv C04.wActs (by decide)
  simp only at hw h1
  obtain ⟨o, p, pre, ho, _, _, _, hm⟩ := h1 (by rw [hw.1]; rfl)
  rw [hw.1] at ho
  injection ho with ho
  subst ho
  simp [outcomeMatches] at hm

/-! Non-vacuity: a run that completes, one that fails, one that is cancelled. -/
def C04.okCfg : Cfg := { steps := [{ name := 0, accepted := [0], numWorkers := 1, hasRetry := false }] }
def C04.stopEv : Ev := { ty := 1, kind := .stop, uid := 9 }
example :
    let r := Runner.run C04.okCfg (fun _ _ _ _ => .stop) (Runner.init C04.okCfg initState 0 (some C04.startEv) none)
      [.drain, .workerDone 0 0 [.result (some C04.stopEv)], .drain, .drain]
    (r.outcome, r.stream.getLast?) = (some (.completed (.event C04.stopEv)), some (.event C04.stopEv)) := by decide
example :
    let r := Runner.run C04.okCfg (fun _ _ _ _ => .stop) (Runner.init C04.okCfg initState 0 (some C04.startEv) none)
      [.drain, .workerDone 0 0 [.failed 3 5], .drain]
    (r.outcome, r.stream.getLast?) = (some (.failed 0 3), some (.failed 0 3 1 5)) := by decide
example :
    let r := Runner.run C04.okCfg (fun _ _ _ _ => .stop) (Runner.init C04.okCfg initState 0 (some C04.startEv) none)
      [.drain, .external .cancelRun, .pull, .drain]
    (r.outcome, r.stream.getLast?) = (some (.halted .cancelledByUser), some .cancelled) := by decide
