"""C06 — retry delays follow the wait strategy in documented order."""
from __future__ import annotations

import random

from .. import policy
from ..engine import monitors, suite
from ..runner import Divergence, Driver, Env, Outcome, Violation, diff_streams

THEOREMS = ["C06_delayed_retry_parked", "C06_not_before_delay", "C06_only_timer_releases", "C06_refuted_witness",
            "C06_refuted", "C06_delay_index_actual", "C06_source_shape", "C06_results_keep_retry_record", "C06_collect_rerun_keeps_retry_number",
            "C06_stale_collect_reruns_in_place", "C06_failure_after_rerun_counts_on",
            # every history (runner invariant, WfProofs/RunnerRetryDelay.lean) and every chain / parameter / retry number
            "C06_retry_never_before_its_delay", "C06_pending_retries_wait_out_their_delay",
            "C06_fresh_run_retry_never_before_its_delay", "C06_every_action_keeps_delays",
            "C06_chain_link_of_retry", "C06_chain_head_never_used", "C06_refuted_for_every_such_chain",
            "C06_exponential_delay_of_retry", "C06_first_retry_delays", "C06_delay_source_shape",
            "C06_failure_of_rescheduled_execution_skipped"]
LEAN_TARGETS = ["WfProps.C06"]
EXPLANATION = (
    "Proved on the runner LTS: a retry granted with delay d>0 at time t is parked in the timer heap for t+d and only the "
    "timer action releases it, and only when the clock has reached t+d. The documented-order clause (tenacity indexing: "
    "k-th retry uses index k-1) is REFUTED on the model regenerated from the source (C06_refuted: wait_chain(3,1,2) "
    "first waits 1) and replayed on the real engine: known finding C06/retry_delay_index_off_by_one; what the code does "
    "is proved as C06_delay_index_actual. Any retry starting earlier than the value the code's own index gives is a "
    "VIOLATION (C06/retry_too_early). Retries are numbered by the FAILURES of an invocation: a collect re-run (stale "
    "collect_events snapshot; nothing failed) is not a retry and does not restart the numbering - proved on the reducer "
    "model (no step result touches the retry record, the re-run keeps it in its slot, the next failure is attempts+1; "
    "C06_source_shape pins that no result branch of the source re-admits the running invocation) and searched on "
    "collecting steps with 2-3 workers and incrementing / exponential / chained waits whose retried invocation is re-run "
    "between two failures: delay after failure k recomputed from the spec's numbers against the virtual-clock "
    "timestamps (C06/retry_too_early:after_collect_rerun...), and the number handed to next() at the k-th failure is k "
    "(C06/failure_number_handed_to_policy...). "
    "Whole-run form (C06_retry_never_before_its_delay, runner invariant C06Inv preserved by every action, from a fresh or "
    "resumed start, every action list): every re-admitted retry in the tick log was reduced no earlier than the failure time "
    "its record carries plus the delay the policy grants for exactly that failure; parked / buffered retries likewise. "
    "Policy side for all chains, parameters and retry numbers: which chain link answers retry k, the chain head is never "
    "consulted for k>=1 by any composed policy, the documented-order clause fails for every chain of fixed waits whose first "
    "two links differ, exact k-th delay of the exponential / incrementing strategies against the regenerated bodies. "
    "C06_delay_source_shape pins the delay path of the source (retry command record, delay>0 parking test, get_now()+delay, "
    "pop_due_ticks <= now, failed_at sources). New K stream: one policy object answers a whole failure history as the loop asks."
)
ASSUMPTIONS = suite.ENGINE_ASSUMPTIONS + [
    "C06_retry_never_before_its_delay assumes (explicit hypotheses c06ActsOk / c06InitOk, counter-example beside the theorem): a "
    "worker's failed_at is not later than the clock at which its result is queued (failed_at = time.time() / adapter.get_now() "
    "read when the step raises; adapter contract: get_now() is the epoch clock, monotone), ticks sent from outside carry no "
    "failure record (ctx.send_event builds a bare TickAddEvent), and a resumed state's waiters hold only records already served.",
]


def history_stream(env: Env, out: Outcome, n: int) -> None:
    """(K) one policy OBJECT answering the whole failure history of one invocation the way the control loop asks it
    (`_process_step_result_tick`): failure k = 1, 2, ... with `elapsed = failed_at - first_attempt_at`, where the clock
    advanced by the run time of each attempt plus every delay the policy granted itself before; the same questions go to
    the model (`next` lines of `wfdriver policy`).  The independent stream of `policy.correspondence` draws attempt numbers
    and elapsed times at random and never asks one object twice in sequence.  (S) on the same histories, independent of
    the model: a granted delay is never negative (a negative delay would be buffered at once, `delay > 0` is the parking
    test) and the same object asked the same question again answers the same."""
    RP = policy.RP
    rng = random.Random(env.rng.randrange(1 << 30))
    real_random = RP.random
    RP.random = policy._StubRandomModule  # type: ignore[assignment]
    ops: list[str] = []
    exp: list[str] = []
    try:
        for _ in range(n):
            (c, cs), (w, ws), (s, ss) = policy.gen_cond(rng), policy.gen_wait(rng), policy.gen_stop(rng)
            pol = RP.retry_policy(retry=c, wait=w, stop=s)
            seed = rng.randrange(257)
            u = policy.q(seed / 256.0)
            e = rng.randrange(10)
            t = 0.0
            granted = 0
            limit = rng.choice([2, 3, 5, 8])
            for k in range(1, limit + 1):
                t += rng.choice([0, 0.5, 1, 3])  # run time of the attempt that fails now
                d = pol.next(t, k, policy.mk_exc(e), seed=seed)
                ops.append(f"next {cs} {ws} {ss} {policy.q(t)} {k} {e} {u}")
                exp.append(policy.fmt(d))
                out.evaluations += 1
                again = pol.next(t, k, policy.mk_exc(e), seed=seed)
                if policy.fmt(again) != exp[-1]:
                    out.violations.append(Violation(f"{env.prop}/policy_object_not_reusable:in_history", f"failure {k} of a history: next({t}, {k}) of one policy object ({cs} | {ws} | {ss}) answered {exp[-1]} and then {policy.fmt(again)}", {"op": ops[-1]}))
                if d is None:
                    break
                if d < 0:
                    out.violations.append(Violation(f"{env.prop}/negative_delay_granted", f"failure {k}: next({t}, {k}) of ({cs} | {ws} | {ss}) granted the negative delay {d}", {"op": ops[-1]}))
                granted += 1
                t += d
            out.count(f"hist:retries_granted={min(granted, 5)}{'+' if granted >= 5 else ''}")
            out.count("hist:wait=" + ws.split()[0])
            out.count("hist:ended_by=" + ("policy" if granted < limit else "history_length"))
            out.nontrivial(("hist", cs, ws, ss, seed, e, granted))
    finally:
        RP.random = real_random  # type: ignore[assignment]
    for o in ops[:3]:
        out.sample({"history_op": o})
    try:
        mo = Driver("policy").run(ops)
    except Exception as ex:
        out.divergences.append(Divergence("policy-history", 0, "<driver>", repr(ex), ""))
        return
    out.traces_validated += len(ops)
    out.disagreements_checked += len(ops)
    d = diff_streams("policy-history", ops, mo, exp)
    if d is not None:
        out.divergences.append(d)


def run(env: Env) -> Outcome:
    out = Outcome()
    out.rule = ("policy specs (exact) + live retry-heavy scripted workflows with delays under virtual time, incl. collecting multi-worker steps "
                "re-run between failures; non-trivial = more than 2 ticks; "
                "distinct by (spec, schedule)")
    policy.correspondence(env, out, env.budget(3000, 60000))
    policy.units_stream(env, out, env.budget(150, 3000))
    history_stream(env, out, env.budget(400, 8000))
    suite.direct_corr(env, out, env.budget(1500, 30000))
    suite.live_runs(env, out, env.budget(150, 3000), [monitors.mon_c06], extra_specs=suite.load_corpus("C06"))
    suite.live_runs(env, out, env.budget(300, 6000), [monitors.mon_c06], gen_kwargs={"family": "retry"})
    # collecting steps (2..3 workers) with non-constant wait strategies whose retried invocation is re-run on a stale
    # snapshot between two of its failures: retries are numbered by failures, a collect re-run is not one
    trs = suite.live_runs(env, out, env.budget(120, 2000), [monitors.mon_c06], gen_kwargs={"family": "collect_retry"})
    for tr in trs:
        for shape in monitors.c06_rerun_shapes(tr):
            out.count("live:c06:" + shape)
    return out
