import WfProofs.EngineReduce
/-!
The reducer raises nothing — every source of `Cmd.crash` in `reduce`, and why it is dead.

`Cmd.crash` is the model's name for a Python exception escaping `_reduce_tick`.  After the repair
"a retry policy whose next() raises is treated as granting no retry" the reducer has exactly three
sources left:

1. `addOrEnqueue`: `id_candidates[0]` on an empty list (`IndexError`) — dead under the worker-slot
   invariant `IdsInv` (C01: distinct ids below `num_workers` ⇒ a free id exists whenever there is
   capacity);
2. `processStepResult`: the tick names a step that is not configured (`KeyError`);
3. `processStepResult`: the tick's worker id is not in `in_progress`
   (`ValueError: Worker N not found in in_progress`).

2 and 3 are about the tick, not the state: `SlotOk cfg st tick` says that a `stepResult` tick
reports on a configured step's slot that is in progress.  The runner only builds such ticks from its
table of started workers (`RunInv`, `WfProofs/RunnerWorkers.lean`), so from `Runner.init` all three
are unreachable (`WfProofs/RunnerNoCrash.lean`).  The retry policy is an arbitrary oracle here,
including one that raises.
-/
set_option linter.unusedSimpArgs false
set_option linter.unusedVariables false

namespace Engine

/-- a `stepResult` tick reports on a slot of a configured step that is in progress -/
def SlotOk (cfg : Cfg) (st : State) : Tick → Prop
  | .stepResult s w _ _ => s ∈ cfg.names ∧ ∃ ip ∈ (st.workers s).inProg, ip.wid = w
  | _ => True

/-! ### step results -/

/-- no result kind raises: in particular a failed step whose retry policy raises does not -/
theorem applyRes_no_crash (cfg : Cfg) (pol : Policy) (step : Nat) (tickEv : Ev) (dc : Bool)
    (acc : ResAcc) (r : Res) (h : Cmd.crash ∉ acc.cmds) :
    Cmd.crash ∉ (applyRes cfg pol step tickEv dc acc r).cmds := by
  cases r with
  | result r =>
    cases r with
    | none => simpa [applyRes] using h
    | some ev =>
      simp only [applyRes]
      split
      · simp [h]
      · split <;> simp [h]
  | failed exc failedAt =>
    simp only [applyRes]
    split
    · exact h
    split
    · simp [h]
    all_goals
      split
      · split <;> simp [h]
      · simp [h]
  | addCollected buf ev =>
    simp only [applyRes]
    split
    · exact h
    split
    · simp [h]
    · exact h
  | deleteCollected buf => simp only [applyRes]; split <;> exact h
  | addWaiter wid waiterEv req timeout ty =>
    simp only [applyRes]
    split
    · exact h
    · cases waiterEv <;> cases timeout <;> simp [h]
  | deleteWaiter wid => simp only [applyRes]; split <;> exact h

theorem foldl_applyRes_no_crash (cfg : Cfg) (pol : Policy) (step : Nat) (tickEv : Ev) (dc : Bool) :
    ∀ (res : List Res) (acc : ResAcc), Cmd.crash ∉ acc.cmds →
      Cmd.crash ∉ (res.foldl (applyRes cfg pol step tickEv dc) acc).cmds
  | [], _, h => h
  | r :: rs, acc, h => by
    simp only [List.foldl_cons]
    exact foldl_applyRes_no_crash cfg pol step tickEv dc rs _
      (applyRes_no_crash cfg pol step tickEv dc acc r h)

theorem settle_no_crash (acc : ResAcc) (step worker : Nat) (tickEv : Ev) (h : Cmd.crash ∉ acc.cmds) :
    Cmd.crash ∉ (settle acc step worker tickEv).2 := by
  unfold settle
  simp only
  split
  · exact h
  · simp [h]

theorem hasStep_of_mem {cfg : Cfg} (hwf : cfg.WF) {s : Nat} (h : s ∈ cfg.names) : cfg.hasStep s = true := by
  obtain ⟨c, hc, rfl⟩ := List.mem_map.mp h
  simp [Cfg.hasStep, Cfg.find_of_mem hwf hc]

theorem find?_wid_isSome {l : List InProg} {w : Nat} (h : ∃ ip ∈ l, ip.wid = w) :
    (l.find? (fun x => x.wid == w)).isSome = true := by
  obtain ⟨ip, hip, hw⟩ := h
  rw [List.find?_isSome]
  exact ⟨ip, hip, by simp [hw]⟩

/-- a result for a slot that is in progress is reduced without an exception, whatever the results
and whatever the retry policy does -/
theorem processStepResult_no_crash (cfg : Cfg) (hwf : cfg.WF) (pol : Policy) (step worker : Nat)
    (tickEv : Ev) (res : List Res) (st : State) (now : Int) (h : IdsInv cfg st)
    (hslot : SlotOk cfg st (.stepResult step worker tickEv res)) :
    Cmd.crash ∉ (processStepResult cfg pol step worker tickEv res st now).2 := by
  obtain ⟨hname, hip⟩ := hslot
  unfold processStepResult
  split
  · rename_i hno
    simp [hasStep_of_mem hwf hname] at hno
  · rename_i hhas
    split
    · rename_i hnone
      have := find?_wid_isSome hip
      rw [hnone] at this
      cases this
    · rename_i exec hfind
      obtain ⟨c, hc⟩ := hasStep_find hhas
      obtain ⟨hcmem, hcname⟩ := Cfg.mem_of_find hc
      subst hcname
      have hnw : cfg.nw c.name = c.numWorkers := Cfg.nw_of_mem hwf hcmem
      have hfold := foldl_applyRes_inProg cfg pol c.name tickEv (res.any isResult) res
        { st := st, exec := exec }
      have hinv : IdsInv cfg (res.foldl (applyRes cfg pol c.name tickEv (res.any isResult))
          { st := st, exec := exec }).st := IdsInv.of_inProg_eq h hfold.1
      have hwid : (res.foldl (applyRes cfg pol c.name tickEv (res.any isResult))
          { st := st, exec := exec }).exec.wid = worker := by
        rw [hfold.2]; exact find?_wid hfind
      have hnc := foldl_applyRes_no_crash cfg pol c.name tickEv (res.any isResult) res
        { st := st, exec := exec } (by simp)
      simp only
      generalize (res.foldl (applyRes cfg pol c.name tickEv (res.any isResult))
          { st := st, exec := exec }) = acc at hinv hwid hnc
      have hss1 := settle_idsOk acc c.name worker tickEv c.numWorkers hwid (hinv c hcmem)
      have hs := settle_no_crash acc c.name worker tickEv hnc
      split
      · exact hs
      · simp only [List.mem_append, not_or]
        refine ⟨hs, ?_⟩
        rw [hnw]
        exact drain_no_crash _ _ _ _ _ hss1

/-! ### add-event -/

theorem addEventWaiters_no_crash (cfg : Cfg) (hwf : cfg.WF) (ev : Ev) (target : Option Nat) (now : Int) :
    ∀ (cs : List StepCfg) (acc : AddAcc), (∀ c ∈ cs, c ∈ cfg.steps) → IdsInv cfg acc.st →
      Cmd.crash ∉ acc.cmds → Cmd.crash ∉ (addEventWaiters cfg ev target now cs acc).cmds
  | [], acc, _, _, hc => by simp only [addEventWaiters]; exact hc
  | c :: cs, acc, hsub, h, hcr => by
    have hc : c ∈ cfg.steps := hsub c (by simp)
    have hsub' : ∀ d ∈ cs, d ∈ cfg.steps := fun d hd => hsub d (by simp [hd])
    unfold addEventWaiters
    split
    · exact addEventWaiters_no_crash cfg hwf ev target now cs acc hsub' h hcr
    · simp only
      split
      · apply addEventWaiters_no_crash cfg hwf ev target now cs _ hsub'
        · apply IdsInv.set hwf h hc
          apply resolveLoop_idsOk
          exact h c hc
        · simp only [List.mem_append, not_or]
          exact ⟨hcr, resolveLoop_no_crash ev c.name c.numWorkers now _ _ _ _ _ (h c hc) (by simp)⟩
      · exact addEventWaiters_no_crash cfg hwf ev target now cs acc hsub' h hcr

theorem addEventRoute_no_crash (cfg : Cfg) (hwf : cfg.WF) (att : Attempt) (target : Option Nat) (now : Int) :
    ∀ (cs : List StepCfg) (acc : AddAcc), (∀ c ∈ cs, c ∈ cfg.steps) → IdsInv cfg acc.st →
      Cmd.crash ∉ acc.cmds → Cmd.crash ∉ (addEventRoute att target now cs acc).cmds
  | [], acc, _, _, hc => by simp only [addEventRoute]; exact hc
  | c :: cs, acc, hsub, h, hcr => by
    have hc : c ∈ cfg.steps := hsub c (by simp)
    have hsub' : ∀ d ∈ cs, d ∈ cfg.steps := fun d hd => hsub d (by simp [hd])
    unfold addEventRoute
    split
    · exact addEventRoute_no_crash cfg hwf att target now cs acc hsub' h hcr
    · split
      · apply addEventRoute_no_crash cfg hwf att target now cs _ hsub'
        · apply IdsInv.set hwf h hc
          apply addOrEnqueue_idsOk
          exact h c hc
        · simp only [List.mem_append, not_or]
          exact ⟨hcr, addOrEnqueue_no_crash _ _ _ _ _ (h c hc)⟩
      · exact addEventRoute_no_crash cfg hwf att target now cs acc hsub' h hcr

theorem processAddEvent_no_crash (cfg : Cfg) (hwf : cfg.WF) (att : Attempt) (target : Option Nat)
    (st : State) (now : Int) (h : IdsInv cfg st) :
    Cmd.crash ∉ (processAddEvent cfg att target st now).2 := by
  have h0 : IdsInv cfg (addEventStart att st) := by
    unfold addEventStart
    split <;> exact h
  have i1 := addEventWaiters_idsInv cfg hwf att.ev target now cfg.steps
    { st := addEventStart att st } (fun _ hc => hc) h0
  have c1 := addEventWaiters_no_crash cfg hwf att.ev target now cfg.steps
    { st := addEventStart att st } (fun _ hc => hc) h0 (by simp)
  have c2 := addEventRoute_no_crash cfg hwf att target now cfg.steps _ (fun _ hc => hc) i1 c1
  unfold processAddEvent
  simp only [List.mem_append, not_or]
  refine ⟨c2, ?_⟩
  unfold unhandledCmds
  split
  · simp
  · split <;> simp

/-! ### waiter timeout -/

theorem processWaiterTimeout_no_crash (cfg : Cfg) (hwf : cfg.WF) (step waiter : Nat) (st : State)
    (now : Int) (h : IdsInv cfg st) : Cmd.crash ∉ (processWaiterTimeout cfg step waiter st now).2 := by
  unfold processWaiterTimeout
  split
  · simp
  · rename_i hhas
    simp only
    split
    · simp
    · split
      · simp
      · obtain ⟨c, hc⟩ := hasStep_find hhas
        obtain ⟨hcmem, hcname⟩ := Cfg.mem_of_find hc
        subst hcname
        rw [Cfg.nw_of_mem hwf hcmem]
        exact addOrEnqueue_no_crash _ _ _ _ _ (h c hcmem)

/-! ### the whole reducer -/

/-- **no tick makes the reducer raise**: under the worker-slot invariant, for every policy oracle
(also one that raises), every clock value and every tick that — if it is a step result — reports
on a slot in progress -/
theorem reduce_no_crash (cfg : Cfg) (hwf : cfg.WF) (pol : Policy) (tick : Tick) (st : State) (now : Int)
    (h : IdsInv cfg st) (hslot : SlotOk cfg st tick) : Cmd.crash ∉ (reduce cfg pol tick st now).2 := by
  unfold reduce
  cases tick with
  | stepResult step worker ev res =>
    have := processStepResult_no_crash cfg hwf pol step worker ev res st now h hslot
    simp only
    split
    · simp [this]
    · exact this
  | addEvent att target =>
    have := processAddEvent_no_crash cfg hwf att target st now h
    simp only
    split
    · simp [this]
    · exact this
  | cancelRun => simp only; split <;> simp
  | idleRelease => simp
  | publish ev => simp only; split <;> simp
  | timeout t => simp only; split <;> simp
  | waiterTimeout step waiter =>
    have := processWaiterTimeout_no_crash cfg hwf step waiter st now h
    simp only
    split
    · simp [this]
    · exact this
  | idleCheck => simp only; split <;> simp

end Engine
