import WfProofs.EventLog
/-!
The subscriber invariant of the event-log machine and its preservation by every
action (all schedules): position of the cursor, snapshot batches, "no terminal
strictly inside", and — for the memory store — "an unnotified waiter has nothing
unread" (no missed wake-up).
-/
namespace EventLog

/-- index of the first event a subscription after `after` delivers (consecutive log) -/
def startIdx (after : Int) : Nat := (after + 1).toNat

/-- the list index the cursor stands for -/
def epos : Backend → Int → Int → Nat
  | .mem, after, cur => max cur.toNat (startIdx after)
  | .sql, _, cur => (cur + 1).toNat

structure SubInv (b : Backend) (log : List Ev) (s : Sub) : Prop where
  pre : s.out <+: log.drop (startIdx s.after)
  pos : epos b s.after s.cur = startIdx s.after + s.out.length
  freshOut : s.phase = .fresh → s.out = []
  noTerm : s.phase ≠ .done → s.phase ≠ .closed → ∀ e ∈ s.out, e.terminal = false
  noTermInit : ∀ e ∈ s.out.dropLast, e.terminal = false
  doneLast : s.phase = .done → ∃ e, s.out.getLast? = some e ∧ e.terminal = true
  batch : ∀ bt, s.phase = .yielding bt →
    bt ≠ [] ∧ bt <+: log.drop (startIdx s.after + s.out.length) ∧
      (b = .mem → 0 ≤ s.cur ∧ startIdx s.after ≤ s.cur.toNat)
  noMiss : b = .mem → s.phase = .waiting false → log.length ≤ startIdx s.after + s.out.length

theorem filter_gt_start {log : List Ev} (h : Consec 0 log) (after : Int) :
    log.filter (fun e => decide (e.seq > after)) = log.drop (startIdx after) := by
  rw [filter_gt_consec h]; simp [startIdx]

theorem stream_eq {log : List Ev} (h : Consec 0 log) (after : Int) :
    stream after log = cutAfterTerminal (log.drop (startIdx after)) := by
  simp [stream, filter_gt_start h]

/-! ## what `read` sees -/

theorem memSkip_consec {log : List Ev} (h : Consec 0 log) (after : Int) (c : Nat) :
    memSkip log after c = c + min (log.length - c) (startIdx after - c) := by
  unfold memSkip
  have hd := consec_drop c h
  rw [takeWhile_le_consec hd]
  simp [startIdx]

theorem readBatch_eq {b : Backend} {log : List Ev} (h : Consec 0 log) (after cur : Int) :
    readBatch b log (readCursor b log after cur) = log.drop (epos b after cur) := by
  cases b with
  | mem =>
    simp only [readBatch, readCursor, epos, Int.toNat_natCast]
    rw [memSkip_consec h]
    by_cases h1 : startIdx after ≤ cur.toNat
    · have : cur.toNat + min (log.length - cur.toNat) (startIdx after - cur.toNat) = max cur.toNat (startIdx after) := by omega
      rw [this]
    · by_cases h2 : startIdx after ≤ log.length
      · have : cur.toNat + min (log.length - cur.toNat) (startIdx after - cur.toNat) = max cur.toNat (startIdx after) := by omega
        rw [this]
      · rw [List.drop_eq_nil_of_le (by omega), List.drop_eq_nil_of_le (by omega)]
  | sql =>
    show orderBySeq (log.filter fun e => decide (e.seq > cur)) = log.drop (cur + 1).toNat
    rw [filter_gt_consec h]
    rw [orderBySeq_consec (consec_drop _ h)]
    simp

theorem epos_readCursor {b : Backend} {log : List Ev} (h : Consec 0 log) (after cur : Int) :
    epos b after (readCursor b log after cur) = epos b after cur := by
  cases b with
  | mem =>
    simp only [readCursor, epos, Int.toNat_natCast]
    rw [memSkip_consec h]
    omega
  | sql => rfl

theorem memScan_le {after : Int} {es : List Ev} {i : Nat} (h : Consec i es) {c : Nat}
    (hc : c ≤ startIdx after) : memScan after es i c ≤ startIdx after := by
  induction es generalizing i c with
  | nil => simpa [memScan] using hc
  | cons x xs ih =>
    obtain ⟨h1, h2⟩ := h
    simp only [memScan]
    have h2' : Consec ((i + 1 : Nat) : Int) xs := by
      have : ((i + 1 : Nat) : Int) = (i : Int) + 1 := by omega
      rw [this]; exact h2
    apply ih h2'
    split
    · simp [startIdx]; omega
    · exact hc

theorem epos_init {b : Backend} {log : List Ev} (h : Consec 0 log) (after : Int) :
    epos b after (initCursor b log after) = startIdx after := by
  cases b with
  | mem =>
    simp only [initCursor, epos]
    split
    · have := memScan_le (after := after) (i := 0) (by simpa using h) (c := 0) (Nat.zero_le _)
      simp; omega
    · simp
  | sql => simp [initCursor, epos, startIdx]

/-! ## preservation, subscriber by subscriber -/

theorem inv_new (b : Backend) (log : List Ev) (after : Int) : SubInv b log (Sub.new after) := by
  refine ⟨?_, ?_, ?_, ?_, ?_, ?_, ?_, ?_⟩ <;> simp [Sub.new]
  cases b <;> simp [epos, startIdx]
  omega

theorem inv_mono {b : Backend} {log : List Ev} {s : Sub} (e : Ev) (h : SubInv b log s)
    (hw : b = .mem → ∀ n, s.phase ≠ .waiting n) : SubInv b (log ++ [e]) s := by
  refine ⟨?_, h.pos, h.freshOut, h.noTerm, h.noTermInit, h.doneLast, ?_, ?_⟩
  · exact h.pre.trans (drop_prefix_append _ _ _)
  · intro bt hbt
    obtain ⟨h1, h2, h3⟩ := h.batch bt hbt
    exact ⟨h1, h2.trans (drop_prefix_append _ _ _), h3⟩
  · intro hb hp
    exact absurd hp (hw hb false)

theorem inv_notify {b : Backend} {log : List Ev} {s : Sub} (e : Ev) (h : SubInv b log s) :
    SubInv b (log ++ [e]) s.notify := by
  unfold Sub.notify
  split
  · rename_i n hp
    refine ⟨?_, h.pos, ?_, ?_, h.noTermInit, ?_, ?_, ?_⟩
    · exact h.pre.trans (drop_prefix_append _ _ _)
    · simp
    · intro _ _; apply h.noTerm <;> simp [hp]
    · simp
    · simp
    · simp
  · rename_i hp
    apply inv_mono e h
    intro _ n hn
    exact hp n hn

/-- the external writer of the SQLite file: the row appears, nobody is notified -/
theorem inv_xappend {log : List Ev} {s : Sub} (e : Ev) (h : SubInv .sql log s) :
    SubInv .sql (log ++ [e]) s :=
  inv_mono e h (by intro hb; cases hb)

theorem inv_init {b : Backend} {log : List Ev} {s : Sub} (hc : Consec 0 log) (h : SubInv b log s) :
    SubInv b log (s.init b log) := by
  unfold Sub.init
  split
  · rename_i hp
    have hout : s.out = [] := h.freshOut hp
    refine ⟨h.pre, ?_, ?_, ?_, h.noTermInit, ?_, ?_, ?_⟩
    · simp [epos_init hc, hout]
    · simp
    · intro _ _; simp [hout]
    · simp
    · simp
    · simp
  · exact h

theorem inv_read {b : Backend} {log : List Ev} {s : Sub} (hc : Consec 0 log) (h : SubInv b log s) :
    SubInv b log (s.read b log) := by
  unfold Sub.read
  split
  · rename_i hp
    have hb := readBatch_eq (b := b) hc s.after s.cur
    have hpos := epos_readCursor (b := b) hc s.after s.cur
    rw [h.pos] at hb
    simp only
    split
    · rename_i hnil
      rw [hnil] at hb
      refine ⟨h.pre, ?_, ?_, ?_, h.noTermInit, ?_, ?_, ?_⟩
      · simp [hpos, h.pos]
      · simp
      · intro _ _; apply h.noTerm <;> simp [hp]
      · simp
      · simp
      · intro _ _
        have := congrArg List.length hb
        simp at this
        show log.length ≤ startIdx s.after + s.out.length
        omega
    · rename_i e rest hcons
      rw [hcons] at hb
      refine ⟨h.pre, ?_, ?_, ?_, h.noTermInit, ?_, ?_, ?_⟩
      · simp [hpos, h.pos]
      · simp
      · intro _ _; apply h.noTerm <;> simp [hp]
      · simp
      · intro bt hbt
        simp at hbt
        subst hbt
        refine ⟨by simp, ?_, ?_⟩
        · rw [← hb]; exact List.prefix_refl _
        · intro hmem
          subst hmem
          have hne : log.drop (startIdx s.after + s.out.length) ≠ [] := by rw [← hb]; simp
          have hlt : startIdx s.after + s.out.length < log.length := by
            apply Decidable.byContradiction
            intro hge
            exact hne (List.drop_eq_nil_of_le (by omega))
          have hp' := h.pos
          simp only [epos] at hp'
          simp only [readCursor, Int.toNat_natCast]
          rw [memSkip_consec hc]
          constructor
          · omega
          · omega
      · simp
  · exact h

theorem consec_head_drop {log : List Ev} (hc : Consec 0 log) {n : Nat} {e : Ev} {rest more : List Ev}
    (h : log.drop n = e :: rest ++ more) : e.seq = n := by
  have hd := consec_drop n hc
  rw [h] at hd
  simpa using hd.1

theorem inv_emit {b : Backend} {log : List Ev} {s : Sub} (hc : Consec 0 log) (h : SubInv b log s) :
    SubInv b log (s.emit b) := by
  unfold Sub.emit
  split
  · rename_i e rest hp
    obtain ⟨_, ⟨more, hmore⟩, hmem⟩ := h.batch _ hp
    have hsplit := prefix_drop_split h.pre
    rw [List.drop_drop] at hsplit
    -- log.drop A = out ++ e :: rest ++ more
    have hpre' : s.out ++ [e] <+: log.drop (startIdx s.after) := by
      rw [hsplit, ← hmore]
      refine ⟨rest ++ more, ?_⟩
      simp
    have hseq : e.seq = (startIdx s.after + s.out.length : Nat) := consec_head_drop hc hmore.symm
    have hpos' : epos b s.after (advance b s.cur e) = startIdx s.after + (s.out ++ [e]).length := by
      cases b with
      | mem =>
        obtain ⟨h0, h1⟩ := hmem rfl
        have hp' := h.pos
        simp only [epos] at hp' ⊢
        simp only [advance, List.length_append, List.length_singleton]
        omega
      | sql =>
        simp only [epos, advance, List.length_append, List.length_singleton]
        omega
    have hrest : rest <+: log.drop (startIdx s.after + (s.out ++ [e]).length) := by
      refine ⟨more, ?_⟩
      have : log.drop (startIdx s.after + (s.out ++ [e]).length)
          = (log.drop (startIdx s.after + s.out.length)).drop 1 := by
        rw [List.drop_drop]; simp; rfl
      rw [this, ← hmore]; simp
    have hlive : ∀ x ∈ s.out, x.terminal = false := by
      apply h.noTerm <;> simp [hp]
    simp only
    split
    · rename_i ht
      refine ⟨hpre', hpos', ?_, ?_, ?_, ?_, ?_, ?_⟩
      · simp
      · simp
      · simpa using hlive
      · intro _; exact ⟨e, by simp, ht⟩
      · simp
      · simp
    · rename_i ht
      have hlive' : ∀ x ∈ s.out ++ [e], x.terminal = false := by
        intro x hx
        simp at hx
        rcases hx with hx | hx
        · exact hlive x hx
        · subst hx; simpa using ht
      split
      · refine ⟨hpre', hpos', ?_, ?_, ?_, ?_, ?_, ?_⟩
        · simp
        · intro _ _; exact hlive'
        · simpa using hlive
        · simp
        · simp
        · simp
      · rename_i r rs
        refine ⟨hpre', hpos', ?_, ?_, ?_, ?_, ?_, ?_⟩
        · simp
        · intro _ _; exact hlive'
        · simpa using hlive
        · simp
        · intro bt hbt
          simp at hbt
          subst hbt
          refine ⟨by simp, hrest, ?_⟩
          intro hb
          subst hb
          obtain ⟨h0, h1⟩ := hmem rfl
          simp only [advance]
          constructor <;> omega
        · simp
  · rename_i hp
    obtain ⟨hne, _, _⟩ := h.batch _ hp
    exact absurd rfl hne
  · exact h

theorem inv_wake {b : Backend} {log : List Ev} {s : Sub} (h : SubInv b log s) : SubInv b log s.wake := by
  unfold Sub.wake
  split
  · rename_i hp
    refine ⟨h.pre, h.pos, ?_, ?_, h.noTermInit, ?_, ?_, ?_⟩
    · simp
    · intro _ _; apply h.noTerm <;> simp [hp]
    · simp
    · simp
    · simp
  · exact h

theorem inv_timeout {b : Backend} {log : List Ev} {s : Sub} (h : SubInv b log s) :
    SubInv b log (s.timeout b) := by
  unfold Sub.timeout
  split
  · rename_i n hp
    refine ⟨h.pre, h.pos, ?_, ?_, h.noTermInit, ?_, ?_, ?_⟩
    · simp
    · intro _ _; apply h.noTerm <;> simp [hp]
    · simp
    · simp
    · simp
  · exact h

theorem inv_cancel {b : Backend} {log : List Ev} {s : Sub} (h : SubInv b log s) : SubInv b log s.cancel := by
  unfold Sub.cancel
  refine ⟨h.pre, h.pos, ?_, ?_, h.noTermInit, ?_, ?_, ?_⟩ <;> simp

end EventLog
