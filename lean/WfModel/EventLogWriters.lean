import WfModel.EventLog
/-!
M3, statement granularity — several writers on ONE SQLite file.

`SqliteWorkflowStore` opens a connection per call and is used by several processes /
store objects on one `db_path` (`subscribe_events` polls for rows written by somebody
else).  Inside one event loop nothing runs between two SQL statements of
`append_event`; between processes anything may.  Here a model step is ONE statement
sent to a connection, and schedules are arbitrary `List WAct`.

* `rows`    the committed rows of one run's `events`, in rowid (= commit) order;
* `lock`    the writer whose open transaction holds SQLite's write lock (taken by its
            first INSERT/UPDATE/DELETE, released by COMMIT or by closing the connection);
* `dirty`   the rows that writer has inserted and not yet committed (visible to it only);
* a writer  a connection running a *program* (list of statements) for one event.

A write statement of another writer while the lock is held is `SQLITE_BUSY`: the
statement is not executed (the busy handler retries it; `abort` is giving up and
closing the connection).  Reads are never blocked (rollback-journal RESERVED lock) and
see the committed rows plus the reader's own uncommitted ones.  Python's `sqlite3`
opens no transaction for a SELECT, so a value read by `selectMax` is just a Python
local afterwards.

The program `append_event` runs is read off the sources on every run
(`Gen.EventLog.sqlAppendStatements`); `insertMax` is the single-statement form (the
database computes `COALESCE(MAX(sequence), -1) + 1` inside the INSERT), `selectMax` /
`insertRead` the read-then-insert form (`SELECT MAX(sequence)`, `+ 1` in Python, INSERT
of that value).
-/
namespace EventLog

inductive Stmt
  /-- `INSERT INTO events … VALUES (?, COALESCE((SELECT MAX(sequence) …), -1) + 1, …)` -/
  | insertMax
  /-- `SELECT MAX(sequence) FROM events WHERE run_id = ?`, kept (`+ 1`) in a local -/
  | selectMax
  /-- `INSERT INTO events … VALUES (?, ?, …)` with that local -/
  | insertRead
  /-- a write to another table (handler row, tick): takes the write lock, no event row -/
  | write
  | commit
  /-- anything the model does not know: no effect on the run's rows -/
  | other
deriving DecidableEq, Repr

def sqlInsertMax : String :=
  "INSERT INTO events (run_id, sequence, timestamp, event_json) VALUES (?, COALESCE((SELECT MAX(sequence) FROM events WHERE run_id = ?), -1) + 1, CURRENT_TIMESTAMP, ?)"
def sqlSelectMax : String := "SELECT MAX(sequence) FROM events WHERE run_id = ?"
def sqlInsertRead : String :=
  "INSERT INTO events (run_id, sequence, timestamp, event_json) VALUES (?, ?, CURRENT_TIMESTAMP, ?)"

def stmtOfSql (s : String) : Stmt :=
  if s = sqlInsertMax then .insertMax
  else if s = sqlSelectMax then .selectMax
  else if s = sqlInsertRead then .insertRead
  else if s = "COMMIT" then .commit
  else .other

/-- the statements `SqliteWorkflowStore.append_event` sends to its connection, in source order -/
def appendProgram : List Stmt := Gen.EventLog.sqlAppendStatements.map stmtOfSql

/-- the read-then-insert form of the same operation -/
def readThenInsert : List Stmt := [.selectMax, .insertRead, .commit]

structure Writer where
  todo : List Stmt
  tag : Nat
  type : String
  types : List String
  /-- the Python local holding the sequence number to insert -/
  next : Option Int
deriving Repr

def Writer.idle : Writer := { todo := [], tag := 0, type := "", types := [], next := none }

structure WSt where
  rows : List Ev
  lock : Option Nat
  dirty : List Ev
  writers : Nat → Writer

def WSt.init : WSt := { rows := [], lock := none, dirty := [], writers := fun _ => Writer.idle }

def upd (f : Nat → Writer) (w : Nat) (x : Writer) : Nat → Writer := fun v => if v = w then x else f v

/-- may writer `w` execute a write statement now? -/
def canWrite (s : WSt) (w : Nat) : Bool :=
  match s.lock with
  | none => true
  | some h => h == w

/-- the rows of the run a statement of writer `w` sees -/
def visible (s : WSt) (w : Nat) : List Ev :=
  if s.lock = some w then s.rows ++ s.dirty else s.rows

inductive WAct
  /-- writer `w` (idle) starts `prog` for the event `(tag, type, types)` -/
  | start (w : Nat) (prog : List Stmt) (tag : Nat) (type : String) (types : List String)
  /-- writer `w` executes its next statement (no effect when it has to wait for the lock) -/
  | exec (w : Nat)
  /-- writer `w` gives up: its connection is closed, an open transaction is rolled back -/
  | abort (w : Nat)
deriving Repr

/-- writer `w` (its record is `x`) executes the statement `st`; `rest` is what remains of its program -/
def wexecStmt (s : WSt) (w : Nat) (st : Stmt) (rest : List Stmt) : WSt :=
  let x := s.writers w
  let adv : Nat → Writer := upd s.writers w { x with todo := rest }
  match st with
  | .insertMax =>
    if canWrite s w then
      { s with lock := some w, dirty := s.dirty ++ [mkEv .sql (visible s w) x.tag x.type x.types], writers := adv }
    else s
  | .selectMax =>
    { s with writers := upd s.writers w { x with todo := rest, next := some (nextSeq .sql (visible s w)) } }
  | .insertRead =>
    match x.next with
    | none => { s with writers := adv }
    | some n =>
      if canWrite s w then
        { s with lock := some w, dirty := s.dirty ++ [{ seq := n, tag := x.tag, type := x.type, types := x.types }], writers := adv }
      else s
  | .write => if canWrite s w then { s with lock := some w, writers := adv } else s
  | .commit =>
    if s.lock = some w then { rows := s.rows ++ s.dirty, lock := none, dirty := [], writers := adv }
    else { s with writers := adv }
  | .other => { s with writers := adv }

def wexec (s : WSt) (w : Nat) : WSt :=
  match (s.writers w).todo with
  | [] => s
  | st :: rest => wexecStmt s w st rest

def wstep (s : WSt) : WAct → WSt
  | .start w prog tag ty tys =>
    if (s.writers w).todo.isEmpty then
      { s with writers := upd s.writers w { todo := prog, tag := tag, type := ty, types := tys, next := none } }
    else s
  | .exec w => wexec s w
  | .abort w =>
    let ws := upd s.writers w Writer.idle
    if s.lock = some w then { s with lock := none, dirty := [], writers := ws } else { s with writers := ws }

def wrunFrom (s : WSt) (acts : List WAct) : WSt := acts.foldl wstep s

def wrun (acts : List WAct) : WSt := wrunFrom WSt.init acts

/-- every INSERT of an event row computes the sequence number itself (no statement inserts a
number that was read earlier) -/
def Stmt.atomicSeq : Stmt → Bool
  | .insertRead => false
  | _ => true

/-- the action starts only programs in which the database assigns the sequence -/
def WAct.atomicSeq : WAct → Bool
  | .start _ prog _ _ _ => prog.all Stmt.atomicSeq
  | _ => true

/-- the action starts only the program `prog` -/
def WAct.runs (prog : List Stmt) : WAct → Bool
  | .start _ p _ _ _ => decide (p = prog)
  | _ => true

end EventLog
