import WfProofs.ArchiveWrite
import WfProofs.ArchiveInstances
import WfProofs.ArchiveAny
import WfProofs.ArchiveReader
import WfProofs.ArchiveCount
import WfProofs.ArchiveClean
import WfProofs.ArchiveService
/-!
# C33 — backup archives restore exactly what was backed up

Model: `WfModel/Archive.lean` (M14).  Every theorem is for **all** deployment lists with
distinct valid (DNS-1035) names, all secret maps, generation maps, passwords, all YAML/JSON
codecs satisfying the round-trip laws and all AEADs satisfying the two AEAD laws; the member
suffixes, the reader's classification chain, the password tests and the framing constants are
the ones regenerated from the source on every run (`WfModel/GenArchive.lean`).
-/
open Archive GenArchive

/-- What the hand-written parts of the model rely on, re-read from `archive.py`,
`encryption.py` and `schema/deployments.py` on every run: the manifest is written first, then per
deployment CR / secret / generation; the writer decides "encrypt" and `manifest.encrypted` with
the *same* `is not None` test and the reader refuses with `is None`; every `removesuffix` literal
is its `endswith` literal; `encrypt` draws `SALT_LENGTH` / `NONCE_LENGTH` random bytes and returns
salt‖nonce‖ciphertext; `decrypt` refuses fewer than salt+nonce+16 bytes and slices at exactly
those lengths; the key comes from PBKDF2-SHA256(password as UTF-8, salt) with the module's
iteration count and key length; nonce and no AAD go to the AEAD; deployment names are DNS-1035. -/
theorem C33_source_shape :
    manifestFirst = true ∧ writeOrder = [4, 1, 2] ∧ writeVersion = supportedVersion ∧
    manifestKeys = ["version", "timestamp", "namespace", "deployment_count", "encrypted"] ∧
    manifestKeysRead = manifestKeys ∧ countIsLenDeployments = true ∧ secretGuardIsNotNone = true ∧
    genGuard = "generations and name in generations" ∧ genKeyWrite = genKeyRead ∧ nameFromMetadata = true ∧
    manifestEncTest = 0 ∧ writeEncTest = 0 ∧ readNoPwTest = 0 ∧
    readerChain.all (fun e => e.2.1 == e.2.2.1) = true ∧ entriesFromCrFiles = true ∧ skipsNonFiles = true ∧
    encSaltLen = saltLength ∧ encNonceLen = nonceLength ∧ blobOrder = ["salt", "nonce", "ciphertext"] ∧
    minLength = saltLength + nonceLength + tagLength ∧ minLengthCmp = "Lt min_length" ∧
    (decSaltLo, decSaltHi) = (0, saltLength) ∧ (decNonceLo, decNonceHi) = (saltLength, saltLength + nonceLength) ∧
    decCtLo = saltLength + nonceLength ∧ decCtOpen = true ∧
    kdfLength = keyLength ∧ kdfIterations = pbkdf2Iterations ∧ kdfAlgorithm = "hashes.SHA256()" ∧
    kdfSaltIsSalt = true ∧ kdfPasswordEncoding = "password.encode('utf-8')" ∧ keyFromPasswordAndSalt = true ∧
    sealArgs = ["nonce", "plaintext", "None"] ∧ openArgs = ["nonce", "ciphertext", "None"] ∧
    saltLength = 16 ∧ nonceLength = 12 ∧ keyLength = 32 ∧ pbkdf2Iterations = 600000 ∧ tagLength = 16 ∧
    dns1035Regex = "^[a-z]([a-z0-9-]{0,61}[a-z0-9])?$" := by decide

/-- The archive layer has no size-dependent behaviour (re-read from `archive.py` on every run): neither the writer,
the reader nor `_add_bytes_to_tar` tests a length or a tar member's size or reads a bounded number of bytes, and the
module defines / mentions no integer that could be a size bound.  This is what entitles the model to treat member
contents as opaque values of *any* length: `C33_roundtrip` quantifies over all codecs' outputs, so with this fact it
speaks about secrets and resources of every size (a reader that skipped or cut "too large" members would make the
round trip fail exactly for those, which the model cannot see from the inside). -/
theorem C33_size_agnostic : sizeTests = [] ∧ sizeConstants = [] := by decide

/-! ## classification -/

/-- For every valid deployment name, each of the four member names the writer can build from it
is classified by the reader's chain into exactly its own category, with exactly that deployment
name; the manifest name is classified as the manifest.  (Needs: valid names have no dot; the
order of the suffix tests.) -/
theorem C33_classification_names (n : Name) (h : validName n = true) :
    classify (n ++ crSuffix) = some (.cr, n) ∧
    classify (n ++ secEncSuffix) = some (.secEnc, n) ∧
    classify (n ++ secClearSuffix) = some (.secClear, n) ∧
    classify (n ++ metaSuffix) = some (.gmeta, n) ∧
    classify manifestName = some (.manifest, manifestName) :=
  have hd := validName_dotfree h
  ⟨classify_cr hd, classify_secEnc hd, classify_secClear hd, classify_meta hd, classify_manifest⟩

/-- Every member of every written archive is classified back into the category and the
deployment it came from — none is ignored, none is taken for something else. -/
theorem C33_classification_total {Y : Type} (A : Aead) (C : Codec Y) (pw : Option Bytes)
    (rnd : Nat → Bytes × Bytes) (b : Backup Y) (hb : b.wf) :
    ∀ t ∈ writeTagged A C pw rnd b, classify t.member.1 = some (t.cat, t.dep) := by
  intro t ht
  simp only [writeTagged, List.mem_cons] at ht
  rcases ht with rfl | ht
  · exact classify_manifest
  · obtain ⟨d, hd, k', hk'⟩ := mem_writeDeps _ _ ht
    have hdot := validName_dotfree (hb.1 d hd)
    rcases mem_writeDep hk' with rfl | ⟨g, _, rfl⟩ | ⟨s, p, _, _, rfl⟩ | ⟨s, _, _, rfl⟩
    · exact classify_cr hdot
    · exact classify_meta hdot
    · exact classify_secEnc hdot
    · exact classify_secClear hdot

/-- non-vacuity: a 63-character name, a name ending in `secret`, one ending in `-yaml`; and the
dot matters — `x.secret` is not a valid name, and its CR member would be taken for a secret. -/
example :
    validName ("a23456789012345678901234567890123456789012345678901234567890-b3".toList) = true ∧
    validName "my-secret".toList = true ∧ validName "meta-json-yaml".toList = true ∧
    validName "x.secret".toList = false ∧ validName "Ab".toList = false ∧ validName "a-".toList = false ∧
    classify ("x.secret".toList ++ crSuffix) = some (.secClear, "x".toList) ∧
    classify "README.md".toList = none := by decide

/-! ## manifest -/

/-- `manifest.encrypted` ⇔ a password was given ⇔ secrets are stored encrypted: with a password
no member is a clear-text secret and every secret member is `encrypt password salt nonce (yaml secret)`
of that deployment's secret; without one no member is an encrypted secret.  The manifest is the
first member. -/
theorem C33_manifest_consistent {Y : Type} (A : Aead) (C : Codec Y) (pw : Option Bytes)
    (rnd : Nat → Bytes × Bytes) (b : Backup Y) :
    (write A C pw rnd b).head? = some (manifestName, C.encManifest (manifestOf pw b)) ∧
    (manifestOf pw b).encrypted = pw.isSome ∧ (manifestOf pw b).count = b.deps.length ∧
    ∀ t ∈ writeTagged A C pw rnd b,
      (t.cat = .secClear → pw = none ∧ ∃ s, alookup t.dep b.secrets = some s ∧ t.member.2 = C.encY s) ∧
      (t.cat = .secEnc → ∃ p k s, pw = some p ∧ alookup t.dep b.secrets = some s ∧
        t.member.2 = encrypt A p (rnd k).1 (rnd k).2 (C.encY s)) := by
  have hpw : ∀ q : Option Bytes, encPw 0 q = q := by intro q; cases q <;> rfl
  refine ⟨rfl, ?_, rfl, ?_⟩
  · show (encPw manifestEncTest pw).isSome = pw.isSome
    have : manifestEncTest = 0 := rfl
    rw [this, hpw]
  · intro t ht
    simp only [writeTagged, List.mem_cons] at ht
    rcases ht with rfl | ht
    · exact ⟨fun h => (by cases h), fun h => (by cases h)⟩
    · obtain ⟨d, hd, k', hk'⟩ := mem_writeDeps _ _ ht
      have hw : writeEncTest = 0 := rfl
      rcases mem_writeDep hk' with rfl | ⟨g, _, rfl⟩ | ⟨s, p, hs, hp, rfl⟩ | ⟨s, hs, hp, rfl⟩
      · exact ⟨fun h => (by cases h), fun h => (by cases h)⟩
      · exact ⟨fun h => (by cases h), fun h => (by cases h)⟩
      · rw [hw, hpw] at hp
        exact ⟨fun h => (by cases h), fun _ => ⟨p, k', s, hp, hs, rfl⟩⟩
      · rw [hw, hpw] at hp
        exact ⟨fun _ => ⟨hp, s, hs, rfl⟩, fun h => (by cases h)⟩

/-! ## round trip -/

/-- `read (write x) = x`, with or without encryption (`pw = none` / `some p`, the empty password
included): the manifest that was written, and one entry per deployment, in order, carrying its
name, its resource, exactly its secret (or none) and exactly its generation (or none). -/
theorem C33_roundtrip {Y : Type} (A : Aead) (hA : A.Lawful) (C : Codec Y) (hC : C.Lawful)
    (pw : Option Bytes) (rnd : Nat → Bytes × Bytes) (hr : rndWf rnd) (b : Backup Y) (hb : b.wf) :
    read A C pw (write A C pw rnd b) = .ok ⟨manifestOf pw b, expectedEntries b⟩ :=
  read_write hA hC pw pw hr b hb.wfDot (fun _ _ => Or.inr (Or.inr rfl))

/-- An archive written without a password restores under any reader password. -/
theorem C33_roundtrip_clear_any_reader {Y : Type} (A : Aead) (hA : A.Lawful) (C : Codec Y) (hC : C.Lawful)
    (rpw : Option Bytes) (rnd : Nat → Bytes × Bytes) (hr : rndWf rnd) (b : Backup Y) (hb : b.wf) :
    read A C rpw (write A C none rnd b) = .ok ⟨manifestOf none b, expectedEntries b⟩ :=
  read_write hA hC none rpw hr b hb.wfDot (fun _ _ => Or.inr (Or.inl rfl))

/-- non-vacuity: the hypotheses are satisfiable (a lawful AEAD, a lawful codec, well-formed
randomness) and the statement is about non-trivial data: three deployments (one without a
`metadata.name`), two secrets, one stray secret, generations for two; encrypted with the empty
password; four entries come back and the second carries its secret and generation. -/
example :
    prefixAead.Lawful ∧ tokenCodec.Lawful ∧ rndWf (fun k => (List.replicate 16 k, List.replicate 12 (k + 1))) ∧
    let b : Backup Nat :=
      { deps := [(some "web".toList, 10), (some "web-secret".toList, 11), (none, 12), (some "z9".toList, 13)],
        secrets := [("web-secret".toList, 21), ("ghost".toList, 22), ("unknown".toList, 23)],
        gens := some [("web-secret".toList, 7), ("z9".toList, 0)], «namespace» := [110, 115], timestamp := [116] }
    b.wf ∧
    (okOf (read prefixAead tokenCodec (some [])
        (write prefixAead tokenCodec (some []) (fun k => (List.replicate 16 k, List.replicate 12 (k + 1))) b))).map
      (fun r => (r.manifest.encrypted, r.entries.map (fun e => (e.cr, e.secret, e.generation)))) =
        some (true, [(10, none, none), (11, some 21, some 7), (12, some 23, none), (13, none, some 0)]) := by
  refine ⟨prefixAead_lawful, tokenCodec_lawful, fun k => ⟨by simp; rfl, by simp; rfl⟩, ?_, by decide⟩
  constructor
  · decide
  · decide

/-! ## wrong password -/

/-- Reading an encrypted archive with a *different* password never yields a secret: if any
deployment has a secret the read fails with `InvalidTag`; it succeeds only when there is no
secret in the backup at all (and then every entry's secret is none). -/
theorem C33_wrong_password {Y : Type} (A : Aead) (hA : A.Lawful) (C : Codec Y) (hC : C.Lawful)
    (pw pw' : Bytes) (hne : pw' ≠ pw) (rnd : Nat → Bytes × Bytes) (hr : rndWf rnd) (b : Backup Y) (hb : b.wf) :
    ((∃ d ∈ b.deps, secretOf b d ≠ none) →
      read A C (some pw') (write A C (some pw) rnd b) = .error .invalidTag) ∧
    (∀ r, read A C (some pw') (write A C (some pw) rnd b) = .ok r →
      (∀ d ∈ b.deps, secretOf b d = none) ∧ ∀ e ∈ r.entries, e.secret = none) := by
  have hfail : (∃ d ∈ b.deps, secretOf b d ≠ none) →
      read A C (some pw') (write A C (some pw) rnd b) = .error .invalidTag := fun hex =>
    read_write_fail hA hC pw (some pw') hr b hb.wfDot .invalidTag rfl
      (fun st n k x hdot => readMember_wrong_pw hA pw pw' hne hr rfl st n k x hdot) hex
  refine ⟨hfail, ?_⟩
  intro r hrd
  have hnone : ∀ d ∈ b.deps, secretOf b d = none := by
    intro d hd
    cases hs : secretOf b d with
    | none => rfl
    | some s =>
      have := hfail ⟨d, hd, by rw [hs]; exact fun h => by cases h⟩
      rw [this] at hrd; cases hrd
  refine ⟨hnone, ?_⟩
  have hok := read_write hA hC (some pw) (some pw') hr b hb.wfDot (fun d hd => Or.inl (hnone d hd))
  rw [hok] at hrd
  cases hrd
  intro e he
  simp only [expectedEntries, List.mem_map] at he
  obtain ⟨d, hd, rfl⟩ := he
  exact hnone d hd

/-- Reading an encrypted archive with no password fails ("no password provided") as soon as a
secret is in it. -/
theorem C33_no_password {Y : Type} (A : Aead) (hA : A.Lawful) (C : Codec Y) (hC : C.Lawful)
    (pw : Bytes) (rnd : Nat → Bytes × Bytes) (hr : rndWf rnd) (b : Backup Y) (hb : b.wf)
    (hex : ∃ d ∈ b.deps, secretOf b d ≠ none) :
    read A C none (write A C (some pw) rnd b) = .error .noPassword :=
  read_write_fail hA hC pw none hr b hb.wfDot .noPassword rfl
    (fun st n k x hdot => readMember_no_pw pw rfl st n k x hdot) hex

/-- non-vacuity: encrypted with the empty password, read with `"x"` and with none. -/
example :
    let b : Backup Nat :=
      { deps := [(some "web".toList, 10), (some "db".toList, 11)], secrets := [("db".toList, 21)],
        gens := none, «namespace» := [], timestamp := [] }
    let rnd : Nat → Bytes × Bytes := fun k => (List.replicate 16 k, List.replicate 12 (k + 1))
    b.wf ∧ (∃ d ∈ b.deps, secretOf b d ≠ none) ∧
    errOf (read prefixAead tokenCodec (some [120]) (write prefixAead tokenCodec (some []) rnd b)) = some .invalidTag ∧
    errOf (read prefixAead tokenCodec none (write prefixAead tokenCodec (some []) rnd b)) = some .noPassword := by
  refine ⟨⟨by decide, by decide⟩, ⟨(some "db".toList, 11), by decide, by decide⟩, by decide, by decide⟩

/-! ## framing of encryption.py -/

/-- `decrypt pw (encrypt pw salt nonce m) = m` for `os.urandom` results of the requested sizes,
and `InvalidTag` under any other password; anything shorter than salt+nonce+tag is refused
before the AEAD is consulted. -/
theorem C33_framing (A : Aead) (hA : A.Lawful) (pw salt nonce m : Bytes)
    (hs : salt.length = saltLength) (hn : nonce.length = nonceLength) :
    decrypt A pw (encrypt A pw salt nonce m) = .ok m ∧
    (∀ pw', pw' ≠ pw → decrypt A pw' (encrypt A pw salt nonce m) = .error .invalidTag) ∧
    (encrypt A pw salt nonce m).length = saltLength + nonceLength + (A.lock pw salt nonce m).length ∧
    (∀ data : Bytes, data.length < saltLength + nonceLength + tagLength → decrypt A pw data = .error .tooShort) := by
  refine ⟨decrypt_encrypt hA pw salt nonce m hs hn,
    fun pw' hne => decrypt_encrypt_wrong hA pw pw' salt nonce m hne hs hn, ?_, ?_⟩
  · simp [encrypt, hs, hn]; omega
  · intro data hlt
    have : minLength = saltLength + nonceLength + tagLength := by decide
    simp [decrypt, this, hlt]

example : prefixAead.Lawful ∧
    okOf (decrypt prefixAead [112, 119]
      (encrypt prefixAead [112, 119] (List.replicate 16 7) (List.replicate 12 9) [1, 2, 3])) = some [1, 2, 3] ∧
    errOf (decrypt prefixAead []
      (encrypt prefixAead [112, 119] (List.replicate 16 7) (List.replicate 12 9) [1, 2, 3])) = some .invalidTag ∧
    errOf (decrypt prefixAead [112, 119] (List.replicate 43 0)) = some .tooShort :=
  ⟨prefixAead_lawful, by decide, by decide, by decide⟩

/-! # Extension: beyond valid names, beyond written archives, before the writer

Everything above is about backups with distinct *valid* names read back from the archive the writer
produced.  Below: (1) how much of that hypothesis is needed and what holds with none of it, (2) the reader
on **any** archive, (3) what the writer emits, counted, (4) the cleaning step of `archive.py` and the backup
service's path through it. -/

/-! ## names: what is needed, what holds regardless -/

/-- The round trip needs of the names only that they are distinct and contain no dot — upper case, Unicode, the
empty name, names of any length restore exactly (valid DNS-1035 labels are such names: `C33_roundtrip` is the
special case). -/
theorem C33_roundtrip_dotfree {Y : Type} (A : Aead) (hA : A.Lawful) (C : Codec Y) (hC : C.Lawful)
    (pw : Option Bytes) (rnd : Nat → Bytes × Bytes) (hr : rndWf rnd) (b : Backup Y)
    (hdot : ∀ d ∈ b.deps, '.' ∉ depName d) (hnd : (b.deps.map depName).Nodup) :
    read A C pw (write A C pw rnd b) = .ok ⟨manifestOf pw b, expectedEntries b⟩ :=
  read_write hA hC pw pw hr b ⟨hdot, hnd⟩ (fun _ _ => Or.inr (Or.inr rfl))

/-- non-vacuity: `"Web App"`, the empty name, a 70-character name, `"日本"` — none valid, all dot-free -/
example :
    let b : Backup Nat :=
      { deps := [(some "Web App".toList, 10), (some [], 11), (some (List.replicate 70 'x'), 12), (some "日本".toList, 13)],
        secrets := [([], 21), ("日本".toList, 22)], gens := some [("Web App".toList, 7)], «namespace» := [], timestamp := [] }
    (∀ d ∈ b.deps, validName (depName d) = false) ∧ (∀ d ∈ b.deps, '.' ∉ depName d) ∧ (b.deps.map depName).Nodup ∧
    (okOf (read prefixAead tokenCodec (some [1])
        (write prefixAead tokenCodec (some [1]) (fun k => (List.replicate 16 k, List.replicate 12 k)) b))).map
      (fun r => r.entries.map (fun e => (e.cr, e.secret, e.generation))) =
        some [(10, none, some 7), (11, some 21, none), (12, none, none), (13, some 22, none)] := by
  refine ⟨by decide, by decide, by decide, by decide⟩

/-- Both remaining hypotheses are needed (so "valid names" in the property is not decoration): with a dot in
one name, or with one name used twice, there are backups — all other names valid, lawful codec and cipher — that
do **not** restore to what was backed up.  `x` next to `x.secret`: the resource of `x.secret` is stored as
`x.secret.yaml` and comes back as the *secret* of `x`; `app` twice: one entry instead of two. -/
theorem C33_domain_tight :
    (∃ b : Backup Nat, (b.deps.map depName).Nodup ∧ (b.deps.map depName).all (fun n => n.count '.' ≤ 1) = true ∧
      read prefixAead tokenCodec none (write prefixAead tokenCodec none (fun _ => ([], [])) b) ≠
        .ok ⟨manifestOf none b, expectedEntries b⟩) ∧
    (∃ b : Backup Nat, (∀ d ∈ b.deps, validName (depName d) = true) ∧
      read prefixAead tokenCodec none (write prefixAead tokenCodec none (fun _ => ([], [])) b) ≠
        .ok ⟨manifestOf none b, expectedEntries b⟩) := by
  let b1 : Backup Nat :=
    { deps := [(some "x".toList, 1), (some "x.secret".toList, 2)], secrets := [], gens := none,
      «namespace» := [], timestamp := [] }
  let b2 : Backup Nat :=
    { deps := [(some "app".toList, 1), (some "app".toList, 2)], secrets := [], gens := none,
      «namespace» := [], timestamp := [] }
  refine ⟨⟨b1, by decide, by decide, ?_⟩, ⟨b2, by decide, ?_⟩⟩
  · intro h
    have := congrArg (fun x => (okOf x).map fun r => r.entries.map fun e => (e.name, e.cr, e.secret)) h
    revert this; decide
  · intro h
    have := congrArg (fun x => (okOf x).map fun r => r.entries.length) h
    revert this; decide

/-- what the two witnesses restore to instead -/
example :
    let b1 : Backup Nat :=
      { deps := [(some "x".toList, 1), (some "x.secret".toList, 2)], secrets := [], gens := none,
        «namespace» := [], timestamp := [] }
    let b2 : Backup Nat :=
      { deps := [(some "app".toList, 1), (some "app".toList, 2)], secrets := [], gens := none,
        «namespace» := [], timestamp := [] }
    (okOf (read prefixAead tokenCodec none (write prefixAead tokenCodec none (fun _ => ([], [])) b1))).map
        (fun r => r.entries.map fun e => (e.name, e.cr, e.secret)) = some [("x".toList, 1, some 2)] ∧
    (okOf (read prefixAead tokenCodec none (write prefixAead tokenCodec none (fun _ => ([], [])) b2))).map
        (fun r => r.entries.map fun e => (e.name, e.cr, e.secret)) = some [("app".toList, 2, none)] := by
  constructor <;> decide

/-- For **every** name whatsoever (dots, slashes, empty, any length): the secret and generation members built from it
are always taken for exactly that — an encrypted secret is never mistaken for anything the reader would hand out
without the password — and the resource member is taken for a resource or (name ending in `.secret`) a clear
secret, never ignored. -/
theorem C33_classification_any_name (n : Name) :
    classify (n ++ secEncSuffix) = some (.secEnc, n) ∧ classify (n ++ secClearSuffix) = some (.secClear, n) ∧
    classify (n ++ metaSuffix) = some (.gmeta, n) ∧
    (classify (n ++ crSuffix) = some (.cr, n) ∨ ∃ n', classify (n ++ crSuffix) = some (.secClear, n')) :=
  ⟨classify_secEnc_any n, classify_secClear_any n, classify_meta_any n, classify_cr_any n⟩

example : classify ("a.b/c.meta.json".toList ++ secEncSuffix) = some (.secEnc, "a.b/c.meta.json".toList) ∧
    classify ("x.secret".toList ++ crSuffix) = some (.secClear, "x".toList) ∧
    classify ([] ++ crSuffix) = some (.cr, []) := by decide

/-- "Encrypted secrets cannot be read with a different password", with **no** hypothesis on the names: whatever the
deployments are called (invalid, dotted, duplicated, nameless), an archive written with a password and holding at
least one secret is refused with `InvalidTag` by every reader holding another password; it is read only when no
deployment has a secret. -/
theorem C33_wrong_password_any_backup {Y : Type} (A : Aead) (hA : A.Lawful) (C : Codec Y) (hC : C.Lawful)
    (pw pw' : Bytes) (hne : pw' ≠ pw) (rnd : Nat → Bytes × Bytes) (hr : rndWf rnd) (b : Backup Y) :
    ((∃ d ∈ b.deps, secretOf b d ≠ none) →
      read A C (some pw') (write A C (some pw) rnd b) = .error .invalidTag) ∧
    (∀ r, read A C (some pw') (write A C (some pw) rnd b) = .ok r → ∀ d ∈ b.deps, secretOf b d = none) := by
  have hfail : (∃ d ∈ b.deps, secretOf b d ≠ none) →
      read A C (some pw') (write A C (some pw) rnd b) = .error .invalidTag := fun hex =>
    read_write_fail_any hC pw (some pw') b .invalidTag
      (fun n k x => alwaysErr_wrong_pw hA pw pw' hne _ _ x (hr k).1 (hr k).2 n) hex
  refine ⟨hfail, fun r hrd d hd => ?_⟩
  cases hs : secretOf b d with
  | none => rfl
  | some s =>
    have := hfail ⟨d, hd, by rw [hs]; exact fun h => by cases h⟩
    rw [this] at hrd; cases hrd

/-- … and by a reader holding no password with "no password provided". -/
theorem C33_no_password_any_backup {Y : Type} (A : Aead) (C : Codec Y) (hC : C.Lawful)
    (pw : Bytes) (rnd : Nat → Bytes × Bytes) (b : Backup Y) (hex : ∃ d ∈ b.deps, secretOf b d ≠ none) :
    read A C none (write A C (some pw) rnd b) = .error .noPassword :=
  read_write_fail_any hC pw none b .noPassword (fun n _ _ => alwaysErr_no_pw n _) hex

/-- non-vacuity: dotted, duplicated and nameless deployments, one secret among them -/
example :
    let b : Backup Nat :=
      { deps := [(some "x.secret".toList, 10), (some "App".toList, 11), (some "App".toList, 12), (none, 13)],
        secrets := [("App".toList, 21)], gens := none, «namespace» := [], timestamp := [] }
    let rnd : Nat → Bytes × Bytes := fun k => (List.replicate 16 k, List.replicate 12 (k + 1))
    ¬ b.wf ∧ (∃ d ∈ b.deps, secretOf b d ≠ none) ∧
    errOf (read prefixAead tokenCodec (some [120]) (write prefixAead tokenCodec (some [121]) rnd b)) = some .invalidTag ∧
    errOf (read prefixAead tokenCodec none (write prefixAead tokenCodec (some [121]) rnd b)) = some .noPassword := by
  refine ⟨fun h => absurd (h.1 _ (List.mem_cons_self ..)) (by decide), ⟨(some "App".toList, 11), by decide, by decide⟩,
    by decide, by decide⟩

/-! ## the reader on any archive -/

/-- **Any** archive — any list of members in any order, written by anyone: if one member carries an encrypted-secret
name and holds `encrypt pw salt nonce x`, every read with a different password, or with none, fails (with that
member's `InvalidTag` / "no password", or an earlier member's error).  The writer's archive is the special case. -/
theorem C33_any_archive_wrong_password_fails {Y : Type} (A : Aead) (hA : A.Lawful) (C : Codec Y)
    (pw salt nonce x : Bytes) (hs : salt.length = saltLength) (hn : nonce.length = nonceLength)
    (n : Name) (ms : List Member) (hm : (n ++ secEncSuffix, encrypt A pw salt nonce x) ∈ ms)
    (rpw : Option Bytes) (hne : rpw ≠ some pw) : ∃ e, read A C rpw ms = .error e := by
  have hbad : ∀ st : RState Y, ∃ e, readMember A C rpw st (n ++ secEncSuffix, encrypt A pw salt nonce x) = .error e := by
    intro st
    cases rpw with
    | none => exact ⟨_, alwaysErr_no_pw n _ st⟩
    | some p' =>
      have : p' ≠ pw := fun e => hne (by rw [e])
      exact ⟨_, alwaysErr_wrong_pw hA pw p' this salt nonce x hs hn n st⟩
  obtain ⟨e, he⟩ := readMembers_some_error ms ⟨_, hm, hbad⟩ ({} : RState Y)
  exact ⟨e, by simp only [Archive.read, he]⟩

example :
    let blob := encrypt prefixAead [112] (List.replicate 16 1) (List.replicate 12 2) [1, 5]
    let ms : List Member := [("web.yaml".toList, [1, 4]), ("web.secret.enc".toList, blob),
      ("manifest.json".toList, tokenCodec.encManifest ⟨1, [], [], 1, true⟩), ("web.secret.enc".toList, blob)]
    (okOf (read prefixAead tokenCodec (some [112]) ms)).map (fun r => r.entries.map fun e => (e.cr, e.secret)) =
      some [(4, some 5)] ∧
    errOf (read prefixAead tokenCodec (some [113]) ms) = some .invalidTag ∧
    errOf (read prefixAead tokenCodec none ms) = some .noPassword := by decide

/-- `read_backup_archive` refines a specification that never runs it (`WfModel/ArchiveSpec.lean`), on **every**
archive it accepts — duplicates, look-alike names, members in any order, members it ignores: the entries are the
distinct deployment names of the resource members in order of first appearance; each entry carries the *last*
resource member of its name, the *last* secret member of its name (clear or encrypted, whichever is last; an
encrypted one opened with the reader's password), the `generation` of the *last* meta member of its name; the
manifest is the last manifest member; no two entries share a name. -/
theorem C33_reader_refines_spec {Y : Type} (A : Aead) (C : Codec Y) (pw : Option Bytes) (ms : List Member)
    (r : Contents Y) (h : read A C pw ms = .ok r) :
    r.entries.map Entry.view = specEntries A C pw ms ∧ (r.entries.map (·.name)).Nodup ∧
      specManifest C ms = some (RawManifest.ofManifest r.manifest) :=
  read_spec h

/-- non-vacuity: a hand-made archive with two resources for `web` (the second wins, `web` stays first), a clear
secret overridden by an encrypted one, two meta members, an ignored member, the manifest last -/
example :
    let blob := encrypt prefixAead [112] (List.replicate 16 1) (List.replicate 12 2) [1, 6]
    let ms : List Member := [("web.yaml".toList, [1, 4]), ("db.yaml".toList, [1, 9]), ("web.secret.yaml".toList, [1, 5]),
      ("web.meta.json".toList, tokenCodec.encMeta 3), ("README.md".toList, [7, 7]), ("web.yaml".toList, [1, 8]),
      ("web.secret.enc".toList, blob), ("web.meta.json".toList, tokenCodec.encMeta 4),
      ("manifest.json".toList, tokenCodec.encManifest ⟨1, [], [], 2, true⟩)]
    specEntries prefixAead tokenCodec (some [112]) ms =
      [("web".toList, some 8, some 6, some 4), ("db".toList, some 9, none, none)] ∧
    (okOf (read prefixAead tokenCodec (some [112]) ms)).map (fun r => r.entries.map Entry.view) =
      some [("web".toList, some 8, some 6, some 4), ("db".toList, some 9, none, none)] := by decide

/-- The reader's password matters for encrypted members only, on any archive: a read without password that
succeeds met no encrypted-secret member at all, and an archive without such members reads the same — result or
error — under every password and under none. -/
theorem C33_reader_password_use {Y : Type} (A : Aead) (C : Codec Y) (ms : List Member) :
    (∀ r, read A C none ms = .ok r → ∀ m ∈ ms, ∀ dn, classify m.1 ≠ some (.secEnc, dn)) ∧
    ((∀ m ∈ ms, ∀ dn, classify m.1 ≠ some (.secEnc, dn)) → ∀ pw pw', read A C pw ms = read A C pw' ms) := by
  constructor
  · intro r h
    simp only [Archive.read] at h
    cases hm : readMembers A C none {} ms with
    | error e => simp [hm] at h
    | ok st => exact readMembers_no_enc_of_ok_none ms {} st hm
  · intro h pw pw'
    simp only [Archive.read, readMembers_pw_irrelevant pw pw' ms {} h]

example :
    let ms : List Member := [("web.yaml".toList, [1, 4]), ("web.secret.yaml".toList, [1, 5]),
      ("manifest.json".toList, tokenCodec.encManifest ⟨1, [], [], 1, false⟩)]
    noEnc ms = true ∧
    (okOf (read prefixAead tokenCodec none ms)).map (fun r => r.entries.map Entry.view) =
      some [("web".toList, some 4, some 5, none)] ∧
    read prefixAead tokenCodec (some [9]) ms = read prefixAead tokenCodec none ms := by
  refine ⟨by decide, by decide, ?_⟩
  exact (C33_reader_password_use prefixAead tokenCodec _).2 (noEnc_spec (by decide)) _ _

/-! ## the writer, counted -/

/-- Every backup whatsoever, with or without password: the archive has one manifest, one resource member per
deployment, one secret member per deployment that has a secret, one generation member per deployment that has a
generation — nothing else, nothing twice. -/
theorem C33_member_count {Y : Type} (A : Aead) (C : Codec Y) (pw : Option Bytes) (rnd : Nat → Bytes × Bytes)
    (b : Backup Y) :
    (write A C pw rnd b).length =
      1 + b.deps.length + (secPairs b.secrets b.deps).length + (metaPairs b.gens b.deps).length := by
  simp only [write, writeTagged, List.length_map, List.length_cons, length_writeDeps]
  omega

/-- Every backup whatsoever: the encrypted members are, in archive order, the deployments that have a secret, and
the `i`-th of them is sealed with the `i`-th pair of `os.urandom` draws — each draw seals exactly one member (so
salts / nonces are never shared between members as long as `os.urandom` does not repeat itself); without a
password no member is encrypted. -/
theorem C33_fresh_draws {Y : Type} (A : Aead) (C : Codec Y) (rnd : Nat → Bytes × Bytes) (b : Backup Y) :
    (∀ p, ((writeTagged A C (some p) rnd b).filter isEnc).map (·.member) =
      (secPairs b.secrets b.deps).zipIdx.map (sealAt A C p rnd)) ∧
    (writeTagged A C none rnd b).filter isEnc = [] := by
  constructor
  · intro p
    simp only [writeTagged, List.filter_cons]
    have : isEnc ⟨.manifest, manifestName, (manifestName, C.encManifest (manifestOf (some p) b))⟩ = false := rfl
    simp only [this, Bool.false_eq_true, if_false]
    exact enc_writeDeps p b.deps 0
  · simp only [writeTagged, List.filter_cons]
    have : isEnc ⟨.manifest, manifestName, (manifestName, C.encManifest (manifestOf none b))⟩ = false := rfl
    simp only [this, Bool.false_eq_true, if_false]
    exact clear_writeDeps b.deps 0

/-- non-vacuity: three deployments, two with a secret: 1 + 3 + 2 + 1 members; draws 0 and 1, in that order -/
example :
    let b : Backup Nat :=
      { deps := [(some "a".toList, 10), (some "b".toList, 11), (some "c".toList, 12)],
        secrets := [("c".toList, 23), ("a".toList, 21)], gens := some [("b".toList, 5)], «namespace» := [], timestamp := [] }
    let rnd : Nat → Bytes × Bytes := fun k => (List.replicate 16 k, List.replicate 12 (k + 100))
    (write prefixAead tokenCodec (some [1]) rnd b).length = 7 ∧
    (secPairs b.secrets b.deps).zipIdx = [(("a".toList, 21), 0), (("c".toList, 23), 1)] ∧
    (((writeTagged prefixAead tokenCodec (some [1]) rnd b).filter isEnc).map fun t => t.member.2.take 17) =
      [List.replicate 16 0 ++ [100], List.replicate 16 1 ++ [101]] := by decide

/-! ## cleaning (`clean_crd_metadata`, `clean_secret_metadata`, `_clean_metadata`) and the service's path -/

open ArchiveClean GenArchiveClean ArchiveService in
/-- What the cleaning model and the service-path model rely on, re-read from `archive.py` and
`manage_api/backup_service.py` on every run: `_clean_metadata` is pop-status / fetch metadata / allow-list loop /
fetch annotations / prefix loop / pop-if-empty / return, on the keys named here; the two public functions pass the
two allow-lists; the writer names members after `metadata.name`, which both allow-lists keep; `generation` is *not*
kept (so the service has to read it first, and does: name and generation are read before the resource is cleaned,
secrets and generations are keyed by that name, the cleaned resources are what is archived). -/
theorem C33_clean_source_shape :
    cleanStatements = 7 ∧ keepLoop = true ∧ prefixLoop = true ∧ returnsDoc = true ∧
    statusKey = "status".toList ∧ metadataKey = "metadata".toList ∧ annotationsKey = "annotations".toList ∧
    emptyPopKey = annotationsKey ∧ statusKey ≠ metadataKey ∧
    crdKeepName = "_CRD_METADATA_KEEP" ∧ secretKeepName = "_SECRET_METADATA_KEEP" ∧
    crdKeep = ["annotations".toList, "labels".toList, "name".toList, "namespace".toList] ∧
    secretKeep = ["annotations".toList, "finalizers".toList, "labels".toList, "name".toList, "namespace".toList] ∧
    sysPrefixes = ["kubectl.kubernetes.io/".toList, "deploy.llamaindex.ai/".toList] ∧
    writerMetaKey = metadataKey ∧ crdKeep.contains writerNameKey = true ∧ secretKeep.contains writerNameKey = true ∧
    writerNameKey ≠ annotationsKey ∧
    svcMetaKey = metadataKey ∧ svcNameKey = writerNameKey ∧ svcGenKey = "generation".toList ∧
    crdKeep.contains svcGenKey = false ∧ svcGenKey ≠ annotationsKey ∧
    svcReadsBeforeClean = true ∧ svcPassesCleaned = true ∧ svcGensKeyedByName = true ∧ svcSecretsKeyedByName = true := by
  decide

open ArchiveClean GenArchiveClean ArchiveService in
/-- Cleaning never changes the name a resource is archived under: for every document,
`metadata.name` after `clean_crd_metadata` / `clean_secret_metadata` is `metadata.name` before (absent stays
absent) — the writer, which reads the name from the *cleaned* resource, and the service, which keyed secrets and
generations by the name of the *raw* one, agree. -/
theorem C33_clean_keeps_name {V : Type} (d : Doc V) :
    nameOf (cleanCrd d) = nameOf d ∧ nameOf (cleanSecret d) = nameOf d :=
  ⟨nameOf_cleanCrd d, nameOf_cleanSecret d⟩

open ArchiveClean GenArchiveClean in
/-- Cleaning is idempotent, for every allow-list: a restored (already cleaned) resource that is backed up again is
archived unchanged. -/
theorem C33_clean_idempotent {V : Type} (keep : List Key) (d : Doc V) : clean keep (clean keep d) = clean keep d :=
  clean_idem keep d

open ArchiveClean GenArchiveClean in
/-- Exactly what cleaning removes and keeps, for every document and allow-list: the top level loses `status` and
nothing else; the metadata keeps exactly its allow-listed keys, values untouched; the annotations that come out are
exactly the non-system annotations that went in, in order — and the key is gone altogether when none is left (or
when annotations are not allow-listed). -/
theorem C33_clean_exact {V : Type} (keep : List Key) (d : Doc V) :
    (clean keep d).top = d.top.filter (fun kv => kv.1 != statusKey) ∧
    ((clean keep d).meta.isSome = d.meta.isSome) ∧
    (∀ m, d.meta = some m → ∃ m', (clean keep d).meta = some m' ∧
      m'.fields = m.fields.filter (fun kv => keep.contains kv.1) ∧
      (∀ key, metaField key (clean keep d) = if keep.contains key then metaField key d else none) ∧
      ∀ a, m'.anns = some a ↔
        a ≠ [] ∧ keep.contains annotationsKey = true ∧ ∃ a0, m.anns = some a0 ∧ a = a0.filter fun kv => !isSystem kv.1) := by
  refine ⟨rfl, by simp [clean], ?_⟩
  intro m hm
  refine ⟨cleanMeta keep m, by simp [clean, hm], rfl, fun key => metaField_clean keep key d, fun a => cleanMeta_anns keep m a⟩

open ArchiveClean GenArchiveClean in
/-- non-vacuity: a resource as the API returns it -/
example :
    let d : Doc Nat :=
      { top := [("apiVersion".toList, 1), ("status".toList, 2), ("spec".toList, 3)],
        «meta» := some {
          fields := [("name".toList, 4), ("uid".toList, 5), ("generation".toList, 6), ("labels".toList, 7),
                     ("managedFields".toList, 8), ("finalizers".toList, 9)],
          anns := some [("kubectl.kubernetes.io/last-applied-configuration".toList, 10), ("team".toList, 11),
                        ("deploy.llamaindex.ai/display-name".toList, 12)] } }
    (cleanCrd d).top = [("apiVersion".toList, 1), ("spec".toList, 3)] ∧
    (cleanCrd d).meta.map (fun m => (m.fields, m.anns)) =
      some ([("name".toList, 4), ("labels".toList, 7)], some [("team".toList, 11)]) ∧
    (cleanSecret d).meta.map (fun m => m.fields.map Prod.snd) = some [4, 7, 9] ∧
    nameOf (cleanCrd d) = some 4 ∧ metaField "generation".toList (cleanCrd d) = none ∧
    (cleanCrd { d with «meta» := some { fields := [], anns := some [("kubectl.kubernetes.io/x".toList, 1)] } }).meta.map
      (fun m => m.anns) = some none := by decide

open ArchiveClean GenArchiveClean ArchiveService in
/-- The backup service's path, end to end, for every cluster state: resources that each have a name, names distinct
and dot-free (valid names are), any paired secrets, any generations, any other metadata — cleaned, keyed, archived
(with or without password) and read back: one entry per deployment, in order, under its cluster name, carrying the
*cleaned* resource, exactly its paired secret (or none) and the generation it had in the cluster (which cleaning
removed from the resource itself). -/
theorem C33_service_roundtrip {V Y : Type} (A : Aead) (hA : A.Lawful) (C : Codec Y) (hC : C.Lawful)
    (pw : Option Bytes) (rnd : Nat → Bytes × Bytes) (hr : rndWf rnd) (str : V → Name) (int : V → Int)
    (inj : Doc V → Y) (raws : List (Doc V)) (sec : Name → Option Y) (ns ts : Str)
    (hname : ∀ r ∈ raws, (metaField svcNameKey r).isSome)
    (hdot : ∀ r ∈ raws, '.' ∉ svcName str r) (hnd : (raws.map (svcName str)).Nodup) :
    read A C pw (write A C pw rnd (svcBackup str int inj raws sec ns ts)) =
      .ok ⟨manifestOf pw (svcBackup str int inj raws sec ns ts), svcExpected str int inj raws sec⟩ :=
  svc_read_write hA hC pw hr str int inj raws sec ns ts hname hdot hnd

open ArchiveClean GenArchiveClean ArchiveService in
/-- non-vacuity: two resources as the API returns them (uid, generation, status), one paired secret; the entries
come back under `web` / `db` with the cleaned resources (one top-level key, one metadata key left), the secret of
`db`, generations 17 and 3 -/
example :
    let str : Nat → Name := fun v => if v = 4 then "web".toList else "db".toList
    let int : Nat → Int := fun v => Int.ofNat v
    let inj : Doc Nat → Nat := fun d => d.top.length * 10 + (d.meta.map fun m => m.fields.length).getD 0
    let mk (nm gen : Nat) : Doc Nat :=
      { top := [("spec".toList, 1), ("status".toList, 2)],
        «meta» := some { fields := [("name".toList, nm), ("generation".toList, gen), ("uid".toList, 9)], anns := none } }
    let raws := [mk 4 17, mk 5 3]
    let sec : Name → Option Nat := fun n => if n = "db".toList then some 77 else none
    let rnd : Nat → Bytes × Bytes := fun k => (List.replicate 16 k, List.replicate 12 k)
    (∀ r ∈ raws, (metaField svcNameKey r).isSome) ∧ (∀ r ∈ raws, '.' ∉ svcName str r) ∧
    (raws.map (svcName str)).Nodup ∧
    (okOf (read prefixAead tokenCodec (some [1])
        (write prefixAead tokenCodec (some [1]) rnd (svcBackup str int inj raws sec [] [])))).map
      (fun r => r.entries.map Entry.view) =
        some [("web".toList, some 11, none, some 17), ("db".toList, some 11, some 77, some 3)] := by
  refine ⟨by decide, by decide, by decide, by decide⟩
