from __future__ import annotations

from ..base import BaseEvent


class SpanDropEvent(BaseEvent):
    span_id: str = ""
    err_str: str = ""

    @classmethod
    def class_name(cls) -> str:
        return "SpanDropEvent"
